import CpProofs.C03Malformed
/-!
  C03 around the parsers (`CpModel.UrlEncReq`): which requests have their body read at all and by which
  processor, that `handleX` restricted to the plain case is `handle` (so every theorem of `C03.lean` is a
  theorem about `handleX`), the status codes that can arise, and the multipart counterpart of the merge
  law: fields of a `multipart/form-data` body (text fields decoded per part, file uploads as Part
  objects) reach `request.params` by the same promotion rule and are merged behind the query-string
  values by the same flat-list law.
-/
namespace CpProofs.C03
open CpModel.UrlEnc

/-! ## processor selection -/

theorem selectProc_exact (table : List (Text × Proc)) (ct : Text) (p : Proc) (h : tableGet table ct = some p) :
    selectProc table ct = p := by
  simp [selectProc, h]

/-- The shipped table: the exact lower-case media type selects the form parser; any other spelling, any
    other type, and no Content-Type at all (`''`) leave the body unread; `multipart/form-data` has its
    own processor, every other `multipart/*` the 3.2-compatible one. -/
theorem selectProc_default :
    selectProc defaultProcessors "application/x-www-form-urlencoded".toList = .urlencoded ∧
    selectProc defaultProcessors "multipart/form-data".toList = .formData ∧
    selectProc defaultProcessors "multipart/mixed".toList = .oldMultipart ∧
    selectProc defaultProcessors "multipart".toList = .oldMultipart ∧
    selectProc defaultProcessors [] = .unread ∧
    selectProc defaultProcessors "text/plain".toList = .unread ∧
    selectProc defaultProcessors "application/json".toList = .unread ∧
    selectProc defaultProcessors "application".toList = .unread ∧
    -- media types are compared as strings (RFC 7231 says case-insensitively): not parsed
    selectProc defaultProcessors "Application/X-WWW-Form-Urlencoded".toList = .unread ∧
    selectProc defaultProcessors "Multipart/form-data".toList = .unread := by decide

theorem tableGet_cons (k : Text) (p : Proc) (rest : List (Text × Proc)) (ct : Text) :
    tableGet ((k, p) :: rest) ct = if k = ct then some p else tableGet rest ct := rfl

theorem tableGet_default_urlencoded (x : Text) (h : tableGet defaultProcessors x = some .urlencoded) :
    x = "application/x-www-form-urlencoded".toList := by
  rw [defaultProcessors, tableGet_cons] at h
  split at h
  · rename_i e; exact e.symm
  · rw [tableGet_cons] at h
    split at h
    · cases h
    · rw [tableGet_cons] at h
      split at h
      · cases h
      · cases h

theorem not_mem_partition1_fst {α : Type} [DecidableEq α] (sep : α) (s : List α) : sep ∉ (partition1 sep s).1 := by
  induction s with
  | nil => simp [partition1]
  | cons c s ih =>
    simp only [partition1]
    by_cases h : c = sep
    · simp [h]
    · simp only [h, if_false, List.mem_cons, not_or]
      exact ⟨fun e => h e.symm, ih⟩

/-- With the default table a body is parsed as a form iff the media type is exactly that string. -/
theorem selectProc_default_urlencoded_iff (ct : Text) :
    selectProc defaultProcessors ct = .urlencoded ↔ ct = "application/x-www-form-urlencoded".toList := by
  constructor
  · intro h
    unfold selectProc at h
    split at h
    · rename_i p hp
      subst h
      exact tableGet_default_urlencoded ct hp
    · split at h
      · rename_i p hp
        subst h
        have e := tableGet_default_urlencoded _ hp
        have hm := not_mem_partition1_fst '/' ct
        rw [e] at hm
        exact absurd (by decide) hm
      · cases h
  · rintro rfl
    exact selectProc_default.1

/-! ## `handleX` extends `handle` -/

/-- The plain case — default `uri_encoding`, a body-carrying method, `process_request_body` on, a length,
    the form media type — is `handle` with a body. -/
theorem handleX_eq_handle_body (r : ReqX) (hu : r.uriEnc = .utf8) (hp : (utf8Dec r.path).isSome)
    (hb : r.processBody = true) (hl : r.hasLength = true)
    (hs : selectProc r.processors r.ctype = .urlencoded) :
    handleX r = handle { qs := r.qs, qsEnc := r.qsEnc, body := some (r.attempts, r.body) } := by
  unfold handleX handle processBody
  rw [hu, recodePathQs_utf8 _ _ hp]
  simp only [hb, hl, hs, Bool.not_true, Bool.false_eq_true, if_false]
  cases parseQueryString (decode r.qsEnc) (recodeQS r.qs) with
  | none => rfl
  | some p => cases processUrlencoded (r.attempts.map decode) r.body <;> rfl

theorem mergeBody_nil (p : Params) : mergeBody p [] = p := rfl

/-- **A body that is not read.**  GET/HEAD/DELETE… with a body, `process_request_body = False`, no
    Content-Type, another media type (or another spelling of it), a processor table without an entry: the
    handler is called with exactly the query-string parameters — `handle` without a body. -/
theorem handleX_eq_handle_nobody (r : ReqX) (hu : r.uriEnc = .utf8) (hp : (utf8Dec r.path).isSome)
    (h : r.processBody = false ∨
         (r.hasLength = true ∧ (selectProc r.processors r.ctype = .unread ∨
                               selectProc r.processors r.ctype = .partsOnly))) :
    handleX r = handle { qs := r.qs, qsEnc := r.qsEnc, body := none } := by
  unfold handleX handle processBody
  rw [hu, recodePathQs_utf8 _ _ hp]
  cases parseQueryString (decode r.qsEnc) (recodeQS r.qs) with
  | none => rfl
  | some p =>
    rcases h with h | ⟨hl, h | h⟩
    · simp [h]
    · by_cases hb : r.processBody = true
      · simp [hb, hl, h, mergeBody_nil]
      · simp [hb]
    · by_cases hb : r.processBody = true
      · simp [hb, hl, h, mergeBody_nil]
      · simp [hb]

/-- 411 exactly when the query string decodes and a body is to be processed but neither Content-Length
    nor Transfer-Encoding announces one. -/
theorem handleX_411_iff (r : ReqX) :
    handleX r = .status 411 ↔
      (parseQueryString (decode r.qsEnc) (recodePathQs r.uriEnc r.path r.qs)).isSome ∧
      r.processBody = true ∧ r.hasLength = false := by
  unfold handleX processBody
  cases parseQueryString (decode r.qsEnc) (recodePathQs r.uriEnc r.path r.qs) with
  | none => simp
  | some p =>
    by_cases hb : r.processBody = true
    · by_cases hl : r.hasLength = true
      · simp only [hb, hl, Bool.not_true, Bool.false_eq_true, if_false, Option.isSome_some, true_and]
        cases selectProc r.processors r.ctype <;> simp only []
        · cases processUrlencoded (r.attempts.map decode) r.body <;> simp
        · cases partsParams false 0 r.fields [] <;> simp
        · cases partsParams true 0 r.fields [] <;> simp
        · simp
        · simp
      · simp [hb, hl]
    · simp [hb]

/-- Every refusal that parameter handling can produce: 404 (query string), 411 (no length), 400 (body). -/
theorem handleX_status (r : ReqX) (c : Nat) (h : handleX r = .status c) : c = 404 ∨ c = 411 ∨ c = 400 := by
  unfold handleX processBody at h
  cases hq : parseQueryString (decode r.qsEnc) (recodePathQs r.uriEnc r.path r.qs) with
  | none => rw [hq] at h; simp at h; exact Or.inl h.symm
  | some p =>
    rw [hq] at h
    by_cases hb : r.processBody = true
    · by_cases hl : r.hasLength = true
      · simp only [hb, hl, Bool.not_true, Bool.false_eq_true, if_false] at h
        cases hs : selectProc r.processors r.ctype <;> rw [hs] at h <;> simp only [] at h
        · cases hu : processUrlencoded (r.attempts.map decode) r.body <;> rw [hu] at h <;> simp at h
          exact Or.inr (Or.inr h.symm)
        · cases hu : partsParams false 0 r.fields [] <;> rw [hu] at h <;> simp at h
          exact Or.inr (Or.inr h.symm)
        · cases hu : partsParams true 0 r.fields [] <;> rw [hu] at h <;> simp at h
          exact Or.inr (Or.inr h.symm)
        · simp at h
        · simp at h
      · simp [hb, hl] at h
        exact Or.inr (Or.inl h.symm)
    · simp [hb] at h

/-! ## parameter dictionaries over arbitrary atoms (text, image-map ints, uploaded parts) -/

def addAllA (d : Params) (pairs : List (Text × Atom)) : Params :=
  pairs.foldl (fun d kv => addParam d kv.1 kv.2) d

def valuesOfA (key : Text) (pairs : List (Text × Atom)) : List Atom :=
  (pairs.filter (fun kv => kv.1 = key)).map (·.2)

def strPairs (pairs : List (Text × Text)) : List (Text × Atom) := pairs.map fun kv => (kv.1, Atom.str kv.2)

theorem addAll_eq_addAllA (d : Params) (pairs : List (Text × Text)) : addAll d pairs = addAllA d (strPairs pairs) := by
  simp [addAll, addAllA, strPairs, List.foldl_map]

theorem valuesOf_eq_valuesOfA (key : Text) (pairs : List (Text × Text)) :
    valuesOf key pairs = valuesOfA key (strPairs pairs) := by
  simp only [valuesOf, valuesOfA, strPairs, List.filter_map, List.map_map]
  rfl

theorem WS_addAllA (d : Params) (hd : WS d) (pairs : List (Text × Atom)) : WS (addAllA d pairs) := by
  induction pairs generalizing d with
  | nil => exact hd
  | cons p ps ih => exact ih _ (WS_addParam d hd _ _)

theorem nodup_keys_addAllA (d : Params) (h : (keys d).Nodup) (pairs : List (Text × Atom)) :
    (keys (addAllA d pairs)).Nodup := by
  induction pairs generalizing d with
  | nil => exact h
  | cons p ps ih => exact ih _ (nodup_keys_addParam d _ _ h)

/-- The promotion loop over arbitrary values (same proof as `lookup_addAll`). -/
theorem lookup_addAllA (d : Params) (hd : WS d) (pairs : List (Text × Atom)) (key : Text) :
    lookup (addAllA d pairs) key = shape (atomsOpt (lookup d key) ++ valuesOfA key pairs) := by
  induction pairs generalizing d with
  | nil =>
    simp only [addAllA, List.foldl_nil, valuesOfA, List.filter_nil, List.map_nil, List.append_nil]
    cases h : lookup d key with
    | none => rfl
    | some v => exact (hd key v h).symm
  | cons p ps ih =>
    obtain ⟨k, v⟩ := p
    have := ih (addParam d k v) (WS_addParam d hd _ _)
    simp only [addAllA, List.foldl_cons] at this ⊢
    rw [this, lookup_addParam d hd]
    by_cases h : k = key
    · subst h
      simp [valuesOfA, atomsOpt_shape]
    · simp [valuesOfA, h]

/-! ## multipart fields -/

/-- The named parts with what the handler gets for each (decoded text, or the Part of a file upload), in
    wire order; `none` when some text field decodes under none of its part's charsets. -/
def fieldAtoms (old : Bool) : Nat → List Field → Option (List (Text × Atom))
  | _, [] => some []
  | idx, f :: rest =>
    match (if old then some (f.name.getD "parts".toList) else f.name) with
    | none => fieldAtoms old (idx + 1) rest
    | some key =>
      if f.file then (fieldAtoms old (idx + 1) rest).map ((key, Atom.part idx) :: ·)
      else
        match decodeEntity f.attempts f.value with
        | some t => (fieldAtoms old (idx + 1) rest).map ((key, Atom.str t) :: ·)
        | none => none

/-- `partsParams` is the promotion loop over `fieldAtoms`. -/
theorem partsParams_eq (old : Bool) (idx : Nat) (fields : List Field) (d : Params) :
    partsParams old idx fields d = (fieldAtoms old idx fields).map (addAllA d) := by
  induction fields generalizing idx d with
  | nil => simp [partsParams, fieldAtoms, addAllA]
  | cons f rest ih =>
    simp only [partsParams, fieldAtoms]
    cases hk : (if old then some (f.name.getD "parts".toList) else f.name) with
    | none => exact ih _ _
    | some key =>
      simp only []
      by_cases hf : f.file = true
      · simp only [hf, if_true, ih]
        cases fieldAtoms old (idx + 1) rest <;> simp [addAllA]
      · simp only [hf, Bool.false_eq_true, if_false]
        cases decodeEntity f.attempts f.value with
        | none => rfl
        | some t =>
          simp only [ih]
          cases fieldAtoms old (idx + 1) rest <;> simp [addAllA]

/-- `decode_entity`: the value is read by the first of the part's charsets that can read it. -/
theorem decodeEntity_eq (attempts : List Charset) (v : Bytes) :
    decodeEntity attempts v = attempts.findSome? (fun cs => decode cs v) := by
  induction attempts with
  | nil => rfl
  | cons cs more ih =>
    simp only [decodeEntity, List.findSome?_cons]
    cases decode cs v <;> simp [ih]

/-- A multipart form is refused (400) exactly when some named text field decodes under none of its own
    part's charsets.  (Per FIELD, unlike a urlencoded body: two fields may be read by different charsets.) -/
theorem fieldAtoms_eq_none (idx : Nat) (fields : List Field) :
    fieldAtoms false idx fields = none ↔
      ∃ f ∈ fields, f.name.isSome ∧ f.file = false ∧ decodeEntity f.attempts f.value = none := by
  induction fields generalizing idx with
  | nil => simp [fieldAtoms]
  | cons f rest ih =>
    simp only [fieldAtoms, Bool.false_eq_true, if_false, List.mem_cons, exists_eq_or_imp]
    cases hn : f.name with
    | none => simp [ih]
    | some key =>
      simp only [Option.isSome_some, true_and]
      by_cases hf : f.file = true
      · simp [hf, ih]
      · simp only [hf, Bool.false_eq_true, if_false]
        cases hd : decodeEntity f.attempts f.value with
        | none => simp
        | some t => simp [ih]

/-- **Multipart fields merge like form fields.**  Query pairs `qp` (as `_parse_qs` builds them) and the
    named parts `fp` of a multipart body (text fields decoded, file uploads as Part objects) are merged
    flat: per key the query-string values first, then the parts' values in wire order; a key with one
    value overall stays a scalar. -/
theorem C03_multipart_merge (qp : List (Text × Text)) (fp : List (Text × Atom)) (key : Text) :
    lookup (mergeBody (addAll [] qp) (addAllA [] fp)) key = shape (valuesOf key qp ++ valuesOfA key fp) := by
  rw [lookup_mergeBody _ _ (WS_addAll [] WS_nil qp) (WS_addAllA [] WS_nil fp)
    (nodup_keys_addAllA [] (by simp [keys]) fp),
    lookup_addAll [] WS_nil, lookup_addAllA [] WS_nil]
  simp only [lookup, atomsOpt_none, List.nil_append, atomsOpt_shape]

example : mergeBody (addAll [] [("a".toList, "1".toList)])
      (addAllA [] [("a".toList, .str "2".toList), ("f".toList, .part 1), ("a".toList, .part 2)])
    = [("a".toList, .many [.str "1".toList, .str "2".toList, .part 2]), ("f".toList, .one (.part 1))] := by decide

/-- **A multipart/form-data request whose handler is called**: the kwargs carry, per key, exactly the
    completely decoded query values followed by the values of the parts of that name, in wire order. -/
theorem C03_multipart_handler_sees (r : ReqX) (kw : Params) (h : handleX r = .handler kw)
    (hb : r.processBody = true) (hl : r.hasLength = true)
    (hs : selectProc r.processors r.ctype = .formData)
    (hnot : imageMap? (recodePathQs r.uriEnc r.path r.qs) = none) :
    ∃ qp fp,
      decodeQ (decode r.qsEnc) (pairStrings (recodePathQs r.uriEnc r.path r.qs)) = some qp ∧
      fieldAtoms false 0 r.fields = some fp ∧
      (keys kw).Nodup ∧
      ∀ key, lookup kw key = shape (valuesOf key qp ++ valuesOfA key fp) := by
  unfold handleX processBody at h
  simp only [hb, hl, hs, Bool.not_true, Bool.false_eq_true, if_false] at h
  have hq0 : parseQueryString (decode r.qsEnc) (recodePathQs r.uriEnc r.path r.qs)
      = (decodeQ (decode r.qsEnc) (pairStrings (recodePathQs r.uriEnc r.path r.qs))).map (addAll []) := by
    unfold parseQueryString
    rw [hnot]
    exact parseQsPairs_eq _ _ _
  rw [hq0, partsParams_eq] at h
  cases hd : decodeQ (decode r.qsEnc) (pairStrings (recodePathQs r.uriEnc r.path r.qs)) with
  | none => simp [hd] at h
  | some qp =>
    cases hf : fieldAtoms false 0 r.fields with
    | none => simp [hd, hf] at h
    | some fp =>
      simp only [hd, hf, Option.map_some, Outcome.handler.injEq] at h
      subst h
      refine ⟨qp, fp, rfl, rfl, nodup_keys_mergeBody _ _ (nodup_keys_addAll [] (by simp [keys]) qp), ?_⟩
      intro key
      exact C03_multipart_merge qp fp key

/-- Two fields read by two different charsets (first ASCII, second only UTF-8), plus an upload. -/
example : partsParams false 0
    [{ name := some ['a'], file := false, value := [0x78], attempts := partAttempts none },
     { name := some ['a'], file := false, value := [0xC3, 0xA9], attempts := partAttempts none },
     { name := none, file := false, value := [0xFF], attempts := partAttempts none },
     { name := some ['f'], file := true, value := [0xFF], attempts := partAttempts none }] []
    = some [(['a'], .many [.str ['x'], .str [Char.ofNat 0xE9]]), (['f'], .one (.part 3))] := by decide +kernel

example : partsParams false 0
    [{ name := some ['a'], file := false, value := [0xE9], attempts := partAttempts none }] [] = none ∧
  partsParams false 0
    [{ name := some ['a'], file := false, value := [0xE9], attempts := partAttempts (some .latin1) }] []
    = some [(['a'], .one (.str [Char.ofNat 0xE9]))] := by decide +kernel

end CpProofs.C03
