import CpModel.SessionStore
import CpProofs.C14Lemmas
import CpProofs.C14
import CpProofs.C14History
/-!
  C14 — (1) two overlapping requests that present the same unknown id get two different fresh ids;
  (2) the self-expiring store behind `MemcachedSession` is the RAM store swept before every
  operation, so every history-level theorem of the RAM backend holds for it.
-/
namespace CpProofs.C14
open CpModel.SessionStore

/-! ### overlapping requests -/

/-- the session id is a draw whose index satisfies the static predicate `Q` or lies in `[mid, ctr)` -/
def IdxInv (cfg : Cfg) (Q : Nat → Prop) (mid : Nat) (st : St) (s : Sess) : Prop :=
  mid ≤ st.ctr ∧ ∃ n, s.id = cfg.gen n ∧ (Q n ∨ (mid ≤ n ∧ n < st.ctr))

theorem hop_idx (cfg : Cfg) (Q : Nat → Prop) (mid : Nat) (st : St) (s : Sess) (h : HOp)
    (hp : IdxInv cfg Q mid st s) : IdxInv cfg Q mid (hop cfg st s h).st (hop cfg st s h).sess := by
  obtain ⟨hm, n, hn, hq⟩ := hp
  by_cases hr : h = .regenerate
  · subst hr
    simp only [hop]
    split
    · exact ⟨hm, n, hn, hq⟩
    · rename_i j st2 hnew
      obtain ⟨_, _, _, k, k1, k2, k3⟩ := newId_spec hnew
      simp only [HRes.st, HRes.sess]
      simp only at k1
      exact ⟨by omega, k, k3, Or.inr ⟨by omega, by omega⟩⟩
  · have hc := hop_ctr cfg st s h
    refine ⟨by omega, n, ?_, ?_⟩
    · rw [hop_id cfg st s h hr]; exact hn
    · rcases hq with hq | ⟨a, b⟩
      · exact Or.inl hq
      · exact Or.inr ⟨a, by omega⟩

/-- **Two overlapping requests presenting the same unknown id** (request B runs from start to end
    while request A is inside its handler): both are answered with ids that differ from the presented
    one and from each other, whatever the two handlers do (regenerate included).  Injective id source;
    the client cannot name a value the source yields. -/
theorem C14_overlap_distinct (cfg : Cfg) (hinj : ∀ a b, cfg.gen a = cfg.gen b → a = b)
    (st : St) (c : Id) (preA postA hopsB : List HOp)
    (hunk : has st.store c = false) (hguess : ∀ n, cfg.gen n ≠ c) (a b : Id)
    (ha : (overlap cfg st (.id c) preA postA (.id c) hopsB).2.1.cookie = some a)
    (hb : (overlap cfg st (.id c) preA postA (.id c) hopsB).2.2.cookie = some b) :
    a ≠ b ∧ a ≠ c ∧ b ≠ c := by
  -- what request B gets, from any state whose store is part of the initial one
  have hB : ∀ st1 : St, (∀ p, p ∈ st1.store → p ∈ st.store) →
      (request cfg st1 (.id c) hopsB).2.cookie = some b →
      ∃ m, st1.ctr ≤ m ∧ m < (request cfg st1 (.id c) hopsB).1.ctr ∧ b = cfg.gen m := by
    intro st1 hsub hbb
    rcases C14_no_fixation cfg st1 (.id c) hopsB b hbb with ⟨h1, h2⟩ | h3
    · simp only [Cookie.presented, Option.some.injEq] at h1
      subst h1
      have := has_sub hsub h2
      rw [hunk] at this; cases this
    · exact h3
  unfold overlap at ha hb
  cases hi : initSess cfg st (.id c) with
  | error e => rw [hi] at ha; simp at ha
  | ok p =>
    obtain ⟨s0, st0⟩ := p
    rw [hi] at ha hb
    simp only at ha hb
    obtain ⟨e1, _, _, _, _, _, e7, ho⟩ := initSess_spec hi
    have h0 : IdxInv cfg (fun _ => False) st.ctr st0 s0 := by
      refine ⟨e7, ?_⟩
      rcases ho with ⟨x, y, _⟩ | ⟨_, n, x, y, z⟩
      · simp only [Cookie.presented, Option.some.injEq] at x
        rw [← x, hunk] at y; cases y
      · exact ⟨n, z, Or.inr ⟨x, y⟩⟩
    have hpre := runHops_induct (cfg := cfg)
      (fun st1 s => (∀ p, p ∈ st1.store → p ∈ st.store) ∧ IdxInv cfg (fun _ => False) st.ctr st1 s) preA
      (fun st1 s h _ hp => ⟨fun p hm => hp.1 p (hop_store_sub cfg st1 s h p hm), hop_idx cfg _ _ st1 s h hp.2⟩)
      st0 s0 ⟨fun p hm => e1 ▸ hm, h0⟩
    cases hr : runHops cfg st0 s0 preA with
    | fail e st1 s1 =>
      rw [hr] at ha hb hpre
      simp only [HRes.st, HRes.sess] at hpre
      simp only at ha hb
      cases ha
      obtain ⟨hsub, _, n, hn, hq⟩ := hpre
      obtain ⟨m, m1, _, m3⟩ := hB st1 hsub hb
      rcases hq with hq | ⟨_, q2⟩
      · cases hq
      · refine ⟨?_, by rw [hn]; exact hguess n, by rw [m3]; exact hguess m⟩
        rw [hn, m3]
        intro heq
        have := hinj _ _ heq
        omega
    | ok st1 s1 =>
      rw [hr] at ha hb hpre
      simp only [HRes.st, HRes.sess] at hpre
      simp only at ha hb
      obtain ⟨hsub, _, n, hn, hq⟩ := hpre
      have hn1 : n < st1.ctr := by
        rcases hq with hq | ⟨_, q2⟩
        · cases hq
        · exact q2
      -- B's cookie does not depend on how A ends
      have hb' : (request cfg st1 (.id c) hopsB).2.cookie = some b := by
        split at hb <;> exact hb
      obtain ⟨m, m1, m2, m3⟩ := hB st1 hsub hb'
      have hpost := runHops_induct (cfg := cfg)
        (IdxInv cfg (fun k => k < st1.ctr) (request cfg st1 (.id c) hopsB).1.ctr) postA
        (fun st2 s h _ hp => hop_idx cfg _ _ st2 s h hp)
        (request cfg st1 (.id c) hopsB).1 s1 ⟨Nat.le_refl _, n, hn, Or.inl hn1⟩
      have fin : ∀ s2 : Sess, (∃ st2, IdxInv cfg (fun k => k < st1.ctr)
          (request cfg st1 (.id c) hopsB).1.ctr st2 s2) → some s2.id = some a → a ≠ b ∧ a ≠ c ∧ b ≠ c := by
        intro s2 ⟨st2, _, k, hk, hkq⟩ hsa
        cases hsa
        refine ⟨?_, by rw [hk]; exact hguess k, by rw [m3]; exact hguess m⟩
        rw [hk, m3]
        intro heq
        have := hinj _ _ heq
        rcases hkq with hkq | ⟨hkq, _⟩ <;> omega
      cases hr2 : runHops cfg (request cfg st1 (.id c) hopsB).1 s1 postA with
      | ok st2 s2 =>
        rw [hr2] at ha hpost
        simp only [HRes.st, HRes.sess] at hpost
        exact fin s2 ⟨st2, hpost⟩ ha
      | fail e st2 s2 =>
        rw [hr2] at ha hpost
        simp only [HRes.st, HRes.sess] at hpost
        exact fin s2 ⟨st2, hpost⟩ ha

example : (overlap exCfg exSt (.id 99) [.read] [.write 1 1, .regenerate] (.id 99) [.read, .write 2 2]).2 =
    (⟨.ok, some 4, false, [[]]⟩, ⟨.ok, some 3, false, [[]]⟩) := by decide

/-- an overlap in which A does nothing around B is B's request followed by nothing of A's: sanity of
    the definition (A without statements is not saved) -/
example : (overlap exCfg exSt .none [] [] (.id 1) [.read]).1.store =
    (request exCfg exSt (.id 1) [.read]).1.store := by decide

/-! ### the self-expiring store is the RAM store swept before every operation -/

theorem runSt_append (cfg : Cfg) (a b : List Op) (st : St) :
    runSt cfg st (a ++ b) = runSt cfg (runSt cfg st a) b := by
  induction a generalizing st with
  | nil => rfl
  | cons o os ih => simp only [List.cons_append, runSt_cons, ih]

theorem memView_eq_sweep (cfg : Cfg) (hf : cfg.file = false) (st : St) :
    memView st = (step cfg st .sweep).1 := by
  simp [memView, step, hf]

/-- **Refinement**: a history on the self-expiring store ends in the same state as the same history on
    the RAM store with a sweep made explicit before every operation. -/
theorem memRun_eq_run (cfg : Cfg) (hf : cfg.file = false) (ops : List Op) (st : St) :
    memRunSt cfg st ops = runSt cfg st (withSweeps ops) := by
  induction ops generalizing st with
  | nil => rfl
  | cons o os ih =>
    simp only [withSweeps, runSt_cons]
    rw [← memView_eq_sweep cfg hf, ← ih]
    rfl

/-- ... and every operation answers what it answers there -/
theorem memRun_outs (cfg : Cfg) (hf : cfg.file = false) (ops : List Op) (st : St) :
    (run cfg st (withSweeps ops)).2 = (memRun cfg st ops).2.flatMap (fun o => [.done, o]) := by
  induction ops generalizing st with
  | nil => rfl
  | cons o os ih =>
    simp only [withSweeps, run, memRun, List.flatMap_cons, List.cons_append, List.nil_append]
    have h1 : (step cfg st .sweep).2 = .done := by simp [step, hf]
    rw [h1, ← memView_eq_sweep cfg hf]
    congr 2
    exact ih _

theorem quiet_withSweeps (i : Id) (ops : List Op) (hq : ∀ op ∈ ops, Quiet i op) :
    ∀ op ∈ withSweeps ops ++ [.sweep], Quiet i op := by
  induction ops with
  | nil => intro op hm; simp only [withSweeps, List.nil_append, List.mem_singleton] at hm; subst hm; trivial
  | cons o os ih =>
    intro op hm
    simp only [withSweeps, List.cons_append, List.mem_cons] at hm
    rcases hm with rfl | rfl | hm
    · trivial
    · exact hq _ List.mem_cons_self
    · exact ih (fun op hm => hq op (List.mem_cons_of_mem _ hm)) op hm

/-- what a request sees after a history on the self-expiring store -/
theorem memView_memRun (cfg : Cfg) (hf : cfg.file = false) (ops : List Op) (st : St) :
    memView (memRunSt cfg st ops) = runSt cfg st (withSweeps ops ++ [.sweep]) := by
  rw [runSt_append, ← memRun_eq_run cfg hf, memView_eq_sweep cfg hf]
  rfl

/-- **No fixation on the self-expiring store, for every history** (instance of
    `C14_no_fixation_history` through the refinement). -/
theorem C14_mem_no_fixation_history (cfg : Cfg) (hf : cfg.file = false)
    (hinj : ∀ a b, cfg.gen a = cfg.gen b → a = b)
    (ops : List Op) (ck : Cookie) (hops : List HOp) (i : Id)
    (h : (request cfg (memView (memRunSt cfg {} ops)) ck hops).2.cookie = some i) :
    (Cookie.presented ck = some i ∧ has (memView (memRunSt cfg {} ops)).store i = true) ∨
    ((∀ j, has (memView (memRunSt cfg {} ops)).store j = true → j ≠ i) ∧
     (∀ k, k < (memView (memRunSt cfg {} ops)).ctr → cfg.gen k ≠ i)) := by
  rw [memView_memRun cfg hf] at h ⊢
  exact C14_no_fixation_history cfg hinj _ ck hops i h

/-- **Persistence on the self-expiring store**: saved data is what the next request presenting the id
    reads first, after every history of other operations that ends strictly before the expiry. -/
theorem C14_mem_persist (cfg : Cfg) (hf : cfg.file = false) (ops : List Op) (st : St) (i : Id)
    (d : Data) (e : Nat) (hs : List HOp)
    (hq : ∀ op ∈ ops, Quiet i op) (hl : lookup st.store i = some (.good d e))
    (hend : (memRunSt cfg st ops).now + 1 ≤ e) :
    (request cfg (memView (memRunSt cfg st ops)) (.id i) (.read :: hs)).2.reads.head? = some d := by
  have hnow : (runSt cfg st (withSweeps ops ++ [.sweep])).now = (memRunSt cfg st ops).now := by
    rw [← memView_memRun cfg hf]; rfl
  rw [memView_memRun cfg hf]
  apply C14_persist_any_handler cfg _ st i d e hs (quiet_withSweeps i ops hq) hl
  rw [hnow]
  simp only [margin, hf]
  exact hend

/-- **An expired id is never adopted from the self-expiring store** (contrast `C14_expired_unswept`). -/
theorem C14_mem_expired_not_adopted (cfg : Cfg) (st : St) (i : Id) (d : Data) (e : Nat) (hops : List HOp)
    (honly : ∀ r, (i, r) ∈ st.store → r = .good d e) (hexp : e ≤ st.now) (hguess : ∀ n, cfg.gen n ≠ i) :
    (request cfg (memView st) (.id i) hops).2.cookie ≠ some i := by
  apply C14_unknown_id_replaced cfg (memView st) i hops _ hguess
  rw [has_false_iff]
  cases hl : lookup (memView st).store i with
  | none => rfl
  | some r =>
    have hm := lookup_mem hl
    simp only [memView] at hm
    obtain ⟨h1, h2⟩ := mem_sweepRam.mp hm
    exact absurd hexp (h2 d e (honly r h1))

example : (memRun { file := false, timeout := 2, gen := fun n => n + 1 } {}
    [.req .none [.write 1 1], .advance 2, .req (.id 1) [.read]]).2 =
    [.resp ⟨.ok, some 1, false, []⟩, .done, .resp ⟨.ok, some 2, false, [[]]⟩] := by decide

-- the RAM store at the same tick (`now = expiry`): the record is still there and `load` returns it
example : (run { file := false, timeout := 2, gen := fun n => n + 1 } {}
    [.req .none [.write 1 1], .advance 2, .req (.id 1) [.read]]).2 =
    [.resp ⟨.ok, some 1, false, []⟩, .done, .resp ⟨.ok, some 1, false, [[(1, 1)]]⟩] := by decide

end CpProofs.C14
