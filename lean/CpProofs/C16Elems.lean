import CpModel.Validators
import CpProofs.C16Lemmas
/-!
  C16 — list-valued validators: the split of an `If-Match` / `If-None-Match` value into entity tags
  (`header_elements`: `RE_HEADER_SPLIT` = commas followed by an even number of double quotes, then
  `strip()`), transcribed as `CpModel.Validators.elementsSimple`.

  `elements_tag_list`: for every list of entity tags whose commas are all inside their quotes (RFC 7232
  `entity-tag`; etagc may contain commas), joined by commas with arbitrary Python whitespace around
  each, the split returns exactly the tags.
-/
namespace CpProofs.C16
open CpModel.Ranges CpModel.Validators CpModel.Gen.C16

theorem space_codes_not_quote : ∀ n ∈ pySpace, n ≠ 34 ∧ n ≠ 44 := by decide

theorem space_not_quote_comma {c : Char} (hs : isSpace c = true) : c ≠ '"' ∧ c ≠ ',' := by
  simp only [isSpace] at hs
  have hm := List.contains_iff_mem.mp hs
  have h := space_codes_not_quote _ hm
  constructor
  · intro e; subst e; exact h.1 (by decide)
  · intro e; subst e; exact h.2 (by decide)

/-- every comma of `e` is followed, inside `e`, by an odd number of quotes (= it is inside quotes) -/
def commasQuoted : Text → Bool
  | [] => true
  | c :: cs => (c != ',' || countQuotes cs % 2 == 1) && commasQuoted cs

theorem countQuotes_append (a b : Text) : countQuotes (a ++ b) = countQuotes a + countQuotes b := by
  simp [countQuotes, List.filter_append]

theorem countQuotes_cons (c : Char) (cs : Text) :
    countQuotes (c :: cs) = (if c = '"' then 1 else 0) + countQuotes cs := by
  by_cases h : c = '"'
  · simp [countQuotes, h]; omega
  · simp [countQuotes, h]

theorem countQuotes_space (w : Text) (hw : AllSpace w) : countQuotes w = 0 := by
  induction w with
  | nil => rfl
  | cons x xs ih =>
    have hx := (space_not_quote_comma (hw x (by simp))).1
    rw [countQuotes_cons, ih (fun c m => hw c (List.mem_cons_of_mem _ m))]
    simp [hx]

/-- the element in front of an even-quoted remainder is not split -/
theorem split_prefix (a t : Text) (ht : countQuotes t % 2 = 0) (ha : commasQuoted a = true) :
    splitOutsideQuotes (a ++ t) = (a ++ (splitOutsideQuotes t).1, (splitOutsideQuotes t).2) := by
  induction a with
  | nil => simp
  | cons c cs ih =>
    simp only [commasQuoted, Bool.and_eq_true, Bool.or_eq_true, bne_iff_ne, ne_eq, beq_iff_eq] at ha
    obtain ⟨hc, hcs⟩ := ha
    simp only [List.cons_append, splitOutsideQuotes]
    have hcond : ¬ (c = ',' ∧ countQuotes (cs ++ t) % 2 = 0) := by
      rintro ⟨e, hp⟩
      rw [countQuotes_append] at hp
      rcases hc with h | h
      · exact h e
      · omega
    simp only [hcond, if_false, ih hcs]

theorem split_comma (rest : Text) (h : countQuotes rest % 2 = 0) :
    splitOutsideQuotes (',' :: rest) =
      ([], (splitOutsideQuotes rest).1 :: (splitOutsideQuotes rest).2) := by
  simp [splitOutsideQuotes, h]

/-- a padded entity tag -/
structure PTag where
  w1 : Text
  tag : Text
  w2 : Text

def PTag.render (p : PTag) : Text := p.w1 ++ p.tag ++ p.w2

def PTag.WF (p : PTag) : Prop :=
  AllSpace p.w1 ∧ AllSpace p.w2 ∧ p.tag ≠ [] ∧ NoSpace p.tag ∧
    countQuotes p.tag % 2 = 0 ∧ commasQuoted p.tag = true

theorem commasQuoted_space_prefix (w z : Text) (hw : AllSpace w) :
    commasQuoted (w ++ z) = commasQuoted z := by
  induction w with
  | nil => rfl
  | cons x xs ih =>
    have hx := (space_not_quote_comma (hw x (by simp))).2
    simp [commasQuoted, hx, ih (fun c m => hw c (List.mem_cons_of_mem _ m))]

theorem commasQuoted_append_even (x y : Text) (hy : countQuotes y % 2 = 0)
    (hx : commasQuoted x = true) (hyq : commasQuoted y = true) : commasQuoted (x ++ y) = true := by
  induction x with
  | nil => exact hyq
  | cons c cs ih =>
    simp only [commasQuoted, Bool.and_eq_true, Bool.or_eq_true, bne_iff_ne, ne_eq, beq_iff_eq] at hx
    obtain ⟨hc, hcs⟩ := hx
    simp only [List.cons_append, commasQuoted, Bool.and_eq_true, Bool.or_eq_true, bne_iff_ne, ne_eq,
      beq_iff_eq]
    refine ⟨?_, ih hcs⟩
    rcases hc with h | h
    · exact Or.inl h
    · right; rw [countQuotes_append]; omega

theorem commasQuoted_space (w : Text) (hw : AllSpace w) : commasQuoted w = true := by
  have := commasQuoted_space_prefix w [] hw
  simpa [commasQuoted] using this

theorem PTag.render_props (p : PTag) (wf : p.WF) :
    countQuotes p.render % 2 = 0 ∧ commasQuoted p.render = true ∧ strip p.render = p.tag := by
  obtain ⟨h1, h2, _, hns, hq, hc⟩ := wf
  refine ⟨?_, ?_, ?_⟩
  · simp only [PTag.render, countQuotes_append, countQuotes_space _ h1, countQuotes_space _ h2]; omega
  · simp only [PTag.render, List.append_assoc]
    rw [commasQuoted_space_prefix _ _ h1]
    exact commasQuoted_append_even _ _ (by rw [countQuotes_space _ h2]) hc (commasQuoted_space _ h2)
  · exact strip_padded p.w1 p.tag p.w2 h1 hns h2

theorem joinSep_quotes_even (ts : List PTag) (wf : ∀ t ∈ ts, t.WF) :
    countQuotes (joinSep ',' (ts.map PTag.render)) % 2 = 0 := by
  induction ts with
  | nil => rfl
  | cons a r ih =>
    have ha := (PTag.render_props a (wf a (by simp))).1
    have hr := ih (fun t m => wf t (List.mem_cons_of_mem _ m))
    cases r with
    | nil => simpa [joinSep] using ha
    | cons b r' =>
      simp only [List.map_cons, joinSep] at hr ⊢
      rw [countQuotes_append, countQuotes_cons]
      simp only [show (',' : Char) ≠ '"' by decide, if_false]
      omega

theorem split_join (ts : List PTag) (hne : ts ≠ []) (wf : ∀ t ∈ ts, t.WF) :
    (splitOutsideQuotes (joinSep ',' (ts.map PTag.render))).1 ::
      (splitOutsideQuotes (joinSep ',' (ts.map PTag.render))).2 = ts.map PTag.render := by
  induction ts with
  | nil => exact absurd rfl hne
  | cons a r ih =>
    have hp := PTag.render_props a (wf a (by simp))
    cases r with
    | nil =>
      have := split_prefix a.render [] (by rfl) hp.2.1
      simp only [List.append_nil] at this
      simp [joinSep, this, splitOutsideQuotes]
    | cons b r' =>
      have hwf' : ∀ t ∈ b :: r', t.WF := fun t m => wf t (List.mem_cons_of_mem _ m)
      have hr := ih (by simp) hwf'
      have he := joinSep_quotes_even (b :: r') hwf'
      simp only [List.map_cons, joinSep] at hr he ⊢
      rw [split_prefix a.render _ (by rw [countQuotes_cons]; simpa using he) hp.2.1]
      rw [split_comma _ he]
      simp only [List.append_nil]
      rw [hr]

/-- **List-valued validators.**  `header_elements` (split outside quotes + strip) returns exactly the
    entity tags of a comma-separated list, whatever whitespace surrounds them and even when a tag
    contains commas inside its quotes. -/
theorem elements_tag_list (ts : List PTag) (hne : ts ≠ []) (wf : ∀ t ∈ ts, t.WF) :
    elementsSimple (some (joinSep ',' (ts.map PTag.render))) = ts.map PTag.tag := by
  have hsplit := split_join ts hne wf
  have hnonempty : joinSep ',' (ts.map PTag.render) ≠ [] := by
    cases ts with
    | nil => exact absurd rfl hne
    | cons a r =>
      obtain ⟨_, _, htag, _⟩ := wf a (by simp)
      have ha : a.render ≠ [] := by
        intro e
        simp only [PTag.render, List.append_eq_nil_iff] at e
        exact htag e.1.2
      cases r with
      | nil => simpa [joinSep] using ha
      | cons b r' =>
        simp only [List.map_cons, joinSep]
        intro e
        simp only [List.append_eq_nil_iff] at e
        exact ha e.1
  unfold elementsSimple
  split
  · rename_i heq; cases heq
  · rename_i heq
    simp only [Option.some.injEq] at heq
    exact absurd heq hnonempty
  · rename_i s hn1 hn2 heq
    simp only [Option.some.injEq] at heq
    subst heq
    rw [hsplit, List.map_map]
    apply List.map_congr_left
    intro t ht
    exact (PTag.render_props t (wf t ht)).2.2

/-- so a current ETag listed anywhere in If-None-Match matches, and one listed in If-Match passes -/
theorem listed_etag_matches (ts : List PTag) (hne : ts ≠ []) (wf : ∀ t ∈ ts, t.WF) (e : Text)
    (he : e ∈ ts.map PTag.tag) :
    etagIn (some e) (elementsSimple (some (joinSep ',' (ts.map PTag.render)))) = true := by
  rw [elements_tag_list ts hne wf]
  simp only [etagIn]
  exact List.contains_iff_mem.mpr he

def tagsExample : List PTag :=
  [⟨[], "\"a,b\"".toList, [' ']⟩, ⟨[' '], "W/\"c\"".toList, ['\t']⟩, ⟨[], "*".toList, []⟩]

example : ∀ t ∈ tagsExample, t.WF := by
  intro t ht
  simp only [tagsExample, List.mem_cons, List.not_mem_nil, or_false] at ht
  rcases ht with rfl | rfl | rfl <;>
    exact ⟨by decide, by decide, by decide, by decide, by decide, by decide⟩

example : joinSep ',' (tagsExample.map PTag.render) = "\"a,b\" , W/\"c\"\t,*".toList := by decide
example : ∀ t ∈ tagsExample, commasQuoted t.tag = true ∧ countQuotes t.tag % 2 = 0 := by decide
example : elementsSimple (some "\"a,b\" , W/\"c\"\t,*".toList) =
    ["\"a,b\"".toList, "W/\"c\"".toList, "*".toList] := by decide

end CpProofs.C16
