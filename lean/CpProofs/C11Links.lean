import CpModel.PathLinks
import CpProofs.C11
/-!
  C11 — trees with symbolic links (`CpModel.PathLinks`).

  The statement says "opens or stats only files located inside its configured directory".  Two
  readings when the tree has symbolic links:

  * strong: the object the kernel finally reaches lies inside the directory, whatever links the
    operator put there.  `C11_links_strong_false`: false for trivial reasons (a link inside the
    directory that points outside is served - like Apache's FollowSymLinks; the operator's content).
  * weak (the one that demands less): links located inside the directory (and links on the way to
    it) are the operator's business, but a request must not be able to reach an outside object in a
    tree whose directory holds no link.  **`C11_links_weak`, `C11_links_weak_session`: proved at
    full strength for the code as repaired for F32 / F32b** (the normalised name that was tested is
    the name the OS gets).  `C11_links_weak_false` / `C11_links_weak_session_false` keep the
    refutation for the pre-repair definitions (`staticdirPreF32`, `sessOpPreF32`): the test was
    lexical, the un-normalised string went to the kernel, and "a/lnk/.." is not "a" when `lnk` is a
    link: `/static/../other/lnk/../../root/f` passed as `/t/root/f` and the kernel opened `/x/root/f`.
  * path level (`C11_links_prefix_free`, `C11_links_weak_partial`, `C11_links_weak_normalised`):
    when the walk meets no link, or when the string handed to the kernel has no ".." component,
    the object reached is at or below the directory; in general the FIRST link the kernel follows
    sits at the lexical normal form of a prefix of that string (`walkSeg_link_location`).
-/
namespace CpProofs.C11
open CpModel.PathContain

/-! ### the link-free stretch of a walk is lexical -/

theorem walkSeg_done_lexical (t : LTree) (fl : Bool) (comps : List Str) :
    ∀ (cur q : List Str), (∀ c ∈ cur, c ≠ dotdot) →
      (walkSeg t fl cur comps = .done (.dir q) ∨ walkSeg t fl cur comps = .done (.file q) ∨
        walkSeg t fl cur comps = .done (.lnk q)) →
      q = (comps.foldl (normStep true) cur).reverse := by
  induction comps with
  | nil =>
    intro cur q _ h
    simp only [walkSeg] at h
    rcases h with h | h | h
    · cases h; rfl
    · cases h
    · cases h
  | cons c rest ih =>
    intro cur q hcur h
    simp only [List.foldl_cons]
    unfold walkSeg at h
    by_cases h1 : c = [] ∨ c = dot
    · simp only [h1, if_true] at h
      have : normStep true cur c = cur := by simp [normStep, h1]
      rw [this]; exact ih cur q hcur h
    · simp only [h1, if_false] at h
      by_cases h2 : c = dotdot
      · simp only [h2, if_true] at h
        rw [h2, normStep_dotdot cur hcur]
        exact ih cur.tail q (fun x hx => hcur x (List.mem_of_mem_tail hx)) h
      · simp only [h2, if_false] at h
        rw [normStep_regular cur c h1 h2]
        have hn : ∀ x ∈ c :: cur, x ≠ dotdot := by
          intro x hx
          rcases List.mem_cons.1 hx with rfl | hx
          · exact h2
          · exact hcur x hx
        cases hl : t.lookup (c :: cur).reverse with
        | none =>
          simp only [hl] at h
          rcases h with h | h | h <;> cases h
        | some n =>
          cases n with
          | dir =>
            simp only [hl] at h
            exact ih (c :: cur) q hn h
          | file =>
            simp only [hl] at h
            by_cases hr : rest = []
            · subst hr
              simp only [if_true] at h
              rcases h with h | h | h
              · cases h
              · cases h; rfl
              · cases h
            · simp only [hr, if_false] at h
              rcases h with h | h | h <;> cases h
          | link tgt =>
            simp only [hl] at h
            by_cases hr : rest = [] ∧ fl = false
            · simp only [hr, and_self, if_true] at h
              obtain ⟨hr1, _⟩ := hr
              subst hr1
              rcases h with h | h | h
              · cases h
              · cases h
              · cases h; rfl
            · simp only [hr, if_false] at h
              rcases h with h | h | h <;> cases h

/-- Where the first link that has to be followed sits: at the lexical normal form of the prefix of
    the path that ends with the link's name; what precedes it was walked lexically. -/
theorem walkSeg_link_location (t : LTree) (fl : Bool) (comps : List Str) :
    ∀ (cur L cur' : List Str) (tgt : Str) (rest : List Str), (∀ c ∈ cur, c ≠ dotdot) →
      walkSeg t fl cur comps = .link L cur' tgt rest →
      ∃ pre c, comps = pre ++ c :: rest ∧
        L = ((pre ++ [c]).foldl (normStep true) cur).reverse ∧
        t.lookup L = some (.link tgt) := by
  induction comps with
  | nil => intro cur L cur' tgt rest _ h; simp [walkSeg] at h
  | cons c rest0 ih =>
    intro cur L cur' tgt rest hcur h
    unfold walkSeg at h
    by_cases h1 : c = [] ∨ c = dot
    · simp only [h1, if_true] at h
      obtain ⟨pre, c', e, hL, hk⟩ := ih cur L cur' tgt rest hcur h
      refine ⟨c :: pre, c', by simp [e], ?_, hk⟩
      have : normStep true cur c = cur := by simp [normStep, h1]
      simp only [List.cons_append, List.foldl_cons, this]
      exact hL
    · simp only [h1, if_false] at h
      by_cases h2 : c = dotdot
      · simp only [h2, if_true] at h
        obtain ⟨pre, c', e, hL, hk⟩ :=
          ih cur.tail L cur' tgt rest (fun x hx => hcur x (List.mem_of_mem_tail hx)) h
        refine ⟨c :: pre, c', by simp [e], ?_, hk⟩
        simp only [List.cons_append, List.foldl_cons, h2, normStep_dotdot cur hcur]
        exact hL
      · simp only [h2, if_false] at h
        have hn : ∀ x ∈ c :: cur, x ≠ dotdot := by
          intro x hx
          rcases List.mem_cons.1 hx with rfl | hx
          · exact h2
          · exact hcur x hx
        cases hl : t.lookup (c :: cur).reverse with
        | none => simp only [hl, reduceCtorEq] at h
        | some n =>
          cases n with
          | dir =>
            simp only [hl] at h
            obtain ⟨pre, c', e, hL, hk⟩ := ih (c :: cur) L cur' tgt rest hn h
            refine ⟨c :: pre, c', by simp [e], ?_, hk⟩
            simp only [List.cons_append, List.foldl_cons, normStep_regular cur c h1 h2]
            exact hL
          | file =>
            simp only [hl] at h
            by_cases hr : rest0 = []
            · simp [hr] at h
            · simp [hr] at h
          | link tg =>
            simp only [hl] at h
            by_cases hr : rest0 = [] ∧ fl = false
            · simp [hr] at h
            · simp only [hr, if_false] at h
              cases h
              refine ⟨[], c, rfl, ?_, hl⟩
              simp only [List.nil_append, List.foldl_cons, List.foldl_nil,
                normStep_regular cur c h1 h2]

theorem walk_of_done (t : LTree) (fl : Bool) (fuel : Nat) (cur comps : List Str) (r : LRes)
    (h : walkSeg t fl cur comps = .done r) : walk t fl fuel cur comps = r := by
  cases fuel <;> simp [walk, h]

theorem lookup_link_mem (t : LTree) (loc : List Str) (tgt : Str)
    (h : t.lookup loc = some (.link tgt)) : ∃ e ∈ t.nodes, e.1 = loc ∧ e.2 = .link tgt := by
  unfold LTree.lookup at h
  by_cases hl : loc = []
  · simp [hl] at h
  · simp only [hl, if_false, Option.map_eq_some_iff] at h
    obtain ⟨e, he, h2⟩ := h
    have hm := List.mem_of_find?_eq_some he
    have hp := List.find?_some he
    exact ⟨e, hm, by simpa using hp, h2⟩

/-- In a tree without links every walk is one link-free stretch. -/
theorem walkSeg_linkFree (t : LTree) (hf : t.linkFree) (fl : Bool) (comps : List Str) :
    ∀ cur, ∃ r, walkSeg t fl cur comps = .done r := by
  induction comps with
  | nil => intro cur; exact ⟨_, rfl⟩
  | cons c rest ih =>
    intro cur
    unfold walkSeg
    by_cases h1 : c = [] ∨ c = dot
    · simp only [h1, if_true]; exact ih cur
    · simp only [h1, if_false]
      by_cases h2 : c = dotdot
      · simp only [h2, if_true]; exact ih cur.tail
      · simp only [h2, if_false]
        cases hl : t.lookup (c :: cur).reverse with
        | none => exact ⟨_, rfl⟩
        | some n =>
          cases n with
          | dir => exact ih (c :: cur)
          | file => by_cases hr : rest = [] <;> simp [hr]
          | link tgt =>
            exfalso
            obtain ⟨e, he, _, h2'⟩ := lookup_link_mem t _ tgt hl
            exact hf e he tgt h2'

/-- **C11 with links, symlink-free prefixes.**  If the kernel's walk of a path the code hands over
    meets no symbolic link, the object it reaches (followed or not) is the lexical one: at or below
    the root for every path that is lexically `Under` it.  Any fuel. -/
theorem C11_links_prefix_free (t : LTree) (fl : Bool) (root p : Str) (q : List Str)
    (hp : isAbs p = true) (hu : Under root p)
    (hseg : ∃ r, walkSeg t fl [] (splitSlash p) = .done r)
    (h : lresolve t fl p = .dir q ∨ lresolve t fl p = .file q ∨ lresolve t fl p = .lnk q) :
    components (normpath root) <+: q := by
  obtain ⟨r, hr⟩ := hseg
  have hw : lresolve t fl p = r := walk_of_done t fl _ [] _ r hr
  have h' : walkSeg t fl [] (splitSlash p) = .done (.dir q) ∨
      walkSeg t fl [] (splitSlash p) = .done (.file q) ∨
      walkSeg t fl [] (splitSlash p) = .done (.lnk q) := by
    rw [hw] at h
    rcases h with h | h | h <;> subst h <;> simp [hr]
  have := walkSeg_done_lexical t fl (splitSlash p) [] q (by simp) h'
  rw [this, ← normStack, ← normpath_abs_components p hp]
  exact hu.2.1

/-- Corollary: a tree without links (what `resolve` of Part 5 models). -/
theorem C11_links_linkFree (t : LTree) (hf : t.linkFree) (fl : Bool) (root p : Str) (q : List Str)
    (hp : isAbs p = true) (hu : Under root p)
    (h : lresolve t fl p = .dir q ∨ lresolve t fl p = .file q ∨ lresolve t fl p = .lnk q) :
    components (normpath root) <+: q :=
  C11_links_prefix_free t fl root p q hp hu (walkSeg_linkFree t hf fl _ []) h

/-! ### paths without ".." -/

/-- Without ".." pieces the first link followed sits ON the lexical normal form of the path. -/
theorem walkSeg_nodotdot_link_prefix (t : LTree) (fl : Bool) (comps : List Str)
    (hnd : ∀ c ∈ comps, c ≠ dotdot) (cur L cur' : List Str) (tgt : Str) (rest : List Str)
    (hcur : ∀ c ∈ cur, c ≠ dotdot) (h : walkSeg t fl cur comps = .link L cur' tgt rest) :
    L <+: (comps.foldl (normStep true) cur).reverse ∧ t.lookup L = some (.link tgt) := by
  obtain ⟨pre, c, e, hL, hk⟩ := walkSeg_link_location t fl comps cur L cur' tgt rest hcur h
  refine ⟨?_, hk⟩
  have hrest : ∀ x ∈ rest, x ≠ dotdot := fun x hx => hnd x (by rw [e]; simp [hx])
  have e' : comps = (pre ++ [c]) ++ rest := by rw [e]; simp
  obtain ⟨P, hP⟩ := foldl_push_only true rest hrest ((pre ++ [c]).foldl (normStep true) cur)
  rw [e', List.foldl_append, hP, List.reverse_append, ← hL]
  exact List.prefix_append _ _

/-- No link sits at the root, at one of its ancestors, or below it (decidable form). -/
def noLinkAround (t : LTree) (R : List Str) : Bool :=
  t.nodes.all fun e =>
    match e.2 with
    | .link _ => !(e.1.isPrefixOf R) && !(R.isPrefixOf e.1)
    | _ => true

theorem noLinkAround_spec (t : LTree) (R L : List Str) (tgt : Str) (h : noLinkAround t R = true)
    (hl : t.lookup L = some (.link tgt)) : ¬ (L <+: R) ∧ ¬ (R <+: L) := by
  obtain ⟨e, he, h1, h2⟩ := lookup_link_mem t L tgt hl
  have := List.all_eq_true.1 h e he
  simp only [h2, h1, Bool.and_eq_true, Bool.not_eq_true', ← Bool.not_eq_true,
    List.isPrefixOf_iff_prefix] at this
  exact this

/-- **C11 with links, weak reading, what holds.**  If the string handed to the kernel has no ".."
    component and no link sits at / above / below the root, the object reached is at or below the
    root - in EVERY tree, whatever links exist elsewhere. -/
theorem C11_links_weak_partial (t : LTree) (fl : Bool) (root p : Str) (q : List Str)
    (hp : isAbs p = true) (hu : Under root p) (hnd : ∀ c ∈ splitSlash p, c ≠ dotdot)
    (hno : noLinkAround t (components (normpath root)) = true)
    (h : lresolve t fl p = .dir q ∨ lresolve t fl p = .file q ∨ lresolve t fl p = .lnk q) :
    components (normpath root) <+: q := by
  cases hs : walkSeg t fl [] (splitSlash p) with
  | done r => exact C11_links_prefix_free t fl root p q hp hu ⟨r, hs⟩ h
  | link L cur' tgt rest =>
    exfalso
    obtain ⟨hpre, hk⟩ := walkSeg_nodotdot_link_prefix t fl _ hnd [] L cur' tgt rest (by simp) hs
    rw [← normStack, ← normpath_abs_components p hp] at hpre
    obtain ⟨n1, n2⟩ := noLinkAround_spec t _ L tgt hno hk
    rcases List.prefix_or_prefix_of_prefix hpre hu.2.1 with h' | h'
    · exact n1 h'
    · exact n2 h'

/-! ### `splitSlash` of joined / normalised paths has no ".." -/

theorem splitSlash_snoc_slash (a : Str) : splitSlash (a ++ ['/']) = splitSlash a ++ [[]] := by
  have := splitSlash_append_sep a []
  simpa [splitSlash] using this

theorem splitSlash_join_nodotdot (a b : Str) (ha : ∀ c ∈ splitSlash a, c ≠ dotdot)
    (hb : ∀ c ∈ splitSlash b, c ≠ dotdot) : ∀ c ∈ splitSlash (join a b), c ≠ dotdot := by
  unfold join
  by_cases h1 : isAbs b = true
  · simpa [h1] using hb
  · have hb' : isAbs b = false := by simpa using h1
    simp only [hb', Bool.false_eq_true, if_false]
    by_cases h2 : a = [] ∨ endsSlash a = true
    · simp only [h2, if_true]
      rcases h2 with h2 | h2
      · subst h2; simpa using hb
      · obtain ⟨a', rfl⟩ := (endsSlash_iff a).1 h2
        rw [List.append_assoc, List.singleton_append, splitSlash_append_sep]
        rw [splitSlash_snoc_slash] at ha
        intro c hc
        rcases List.mem_append.1 hc with hc | hc
        · exact ha c (by simp [hc])
        · exact hb c hc
    · simp only [h2, if_false]
      rw [splitSlash_append_sep]
      intro c hc
      rcases List.mem_append.1 hc with hc | hc
      · exact ha c hc
      · exact hb c hc

theorem splitSlash_normpath_nodotdot (p : Str) (hp : isAbs p = true) :
    ∀ c ∈ splitSlash (normpath p), c ≠ dotdot := by
  obtain ⟨R, hR, hn⟩ := normpath_abs p hp
  have hplain : ∀ c ∈ (normStack true (splitSlash p)).reverse, c ≠ [] ∧ '/' ∉ c ∧ c ≠ dotdot := by
    intro c hc
    have := normStack_ok true p c (List.mem_reverse.1 hc)
    exact ⟨this.1, this.2.1, this.2.2.2 rfl⟩
  rw [hn]
  generalize (normStack true (splitSlash p)).reverse = cs at hplain
  have hjs : ∀ c ∈ splitSlash (joinSlash cs), c ≠ dotdot := by
    by_cases hcs : cs = []
    · subst hcs; simp [joinSlash, splitSlash, dotdot]
    · rw [nrm_split_join cs hcs (fun c hc => (hplain c hc).2.1)]
      exact fun c hc => (hplain c hc).2.2
  rcases hR with rfl | rfl
  · simp only [List.singleton_append, splitSlash_cons_slash]
    intro c hc
    rcases List.mem_cons.1 hc with rfl | hc
    · simp [dotdot]
    · exact hjs c hc
  · simp only [List.cons_append, List.nil_append, splitSlash_cons_slash]
    intro c hc
    rcases List.mem_cons.1 hc with rfl | hc
    · simp [dotdot]
    · rcases List.mem_cons.1 hc with rfl | hc
      · simp [dotdot]
      · exact hjs c hc

/-- **What handing `normpath(filename)` to the OS would give** (the repair this file argues for):
    the weak reading holds for every request, dot-dot or not. -/
theorem C11_links_weak_normalised (t : LTree) (fl : Bool) (root p : Str) (q : List Str)
    (hp : isAbs p = true) (hu : Under root p)
    (hno : noLinkAround t (components (normpath root)) = true)
    (h : lresolve t fl (normpath p) = .dir q ∨ lresolve t fl (normpath p) = .file q ∨
      lresolve t fl (normpath p) = .lnk q) :
    components (normpath root) <+: q := by
  have hu' : Under root (normpath p) := by
    unfold Under at hu ⊢
    rw [normpath_idem]; exact hu
  exact C11_links_weak_partial t fl root (normpath p) q (normpath_abs_isAbs p hp) hu'
    (splitSlash_normpath_nodotdot p hp) hno h

/-! ### staticdir on a tree with links -/

/-- The strong reading: whatever links exist, only objects inside the directory are reached. -/
def C11_links_strong_full : Prop :=
  ∀ (t : LTree) (i : StaticIn) (dir : Str), staticDir i = some dir → IndexPlain i.index →
    ∀ a ∈ (staticdir unquote (fsOf t) i).accesses, ∀ q,
      (lresolve t true a.path = .dir q ∨ lresolve t true a.path = .file q) →
      components (normpath dir) <+: q

/-- The weak reading: the same for trees where no link sits at, above or below the directory. -/
def C11_links_weak_full : Prop :=
  ∀ (t : LTree) (i : StaticIn) (dir : Str), staticDir i = some dir → IndexPlain i.index →
    noLinkAround t (components (normpath dir)) = true →
    ∀ a ∈ (staticdir unquote (fsOf t) i).accesses, ∀ q,
      (lresolve t true a.path = .dir q ∨ lresolve t true a.path = .file q) →
      components (normpath dir) <+: q

/-- The weak reading for `staticdir` as it was before the F32 repair. -/
def C11_links_weak_preF32_full : Prop :=
  ∀ (t : LTree) (i : StaticIn) (dir : Str), staticDir i = some dir → IndexPlain i.index →
    noLinkAround t (components (normpath dir)) = true →
    ∀ a ∈ (staticdirPreF32 unquote (fsOf t) i).accesses, ∀ q,
      (lresolve t true a.path = .dir q ∨ lresolve t true a.path = .file q) →
      components (normpath dir) <+: q

def S (s : String) : Str := s.toList
def P (l : List String) : List Str := l.map String.toList

/-- `/t/root/l -> /t/secret` (a link the operator put inside the directory). -/
def treeInside : LTree :=
  ⟨[(P ["t"], .dir), (P ["t", "root"], .dir), (P ["t", "secret"], .file),
    (P ["t", "root", "l"], .link (S "/t/secret"))]⟩

/-- Directory without any link; a sibling directory holds `lnk -> /x/y/z`. -/
def treeOutside : LTree :=
  ⟨[(P ["t"], .dir), (P ["t", "root"], .dir), (P ["t", "root", "f"], .file),
    (P ["t", "other"], .dir), (P ["t", "other", "lnk"], .link (S "/x/y/z")),
    (P ["x"], .dir), (P ["x", "y"], .dir), (P ["x", "y", "z"], .dir),
    (P ["x", "root"], .dir), (P ["x", "root", "f"], .file)]⟩

def reqStatic (pi : String) : StaticIn := ⟨strGET, true, S "/static", S "/t/root", [], [], S pi⟩

theorem C11_links_strong_false : ¬ C11_links_strong_full := by
  intro h
  have := h treeInside (reqStatic "/static/l") (S "/t/root") (by decide) ⟨by decide, by decide⟩
    ⟨.stat, S "/t/root/l"⟩ (by decide) (P ["t", "secret"]) (by decide)
  revert this
  decide

/-- **The weak reading was violated before the F32 repair**: no link at, above or inside `/t/root`,
    the request passes the (lexical) test as `/t/root/f`, and `stat`/`open` reach `/x/root/f`. -/
theorem C11_links_weak_false : ¬ C11_links_weak_preF32_full := by
  intro h
  have := h treeOutside (reqStatic "/static/../other/lnk/../../root/f") (S "/t/root") (by decide)
    ⟨by decide, by decide⟩ (by decide)
    ⟨.openR, S "/t/root/../other/lnk/../../root/f"⟩ (by decide) (P ["x", "root", "f"]) (by decide)
  revert this
  decide

/-- The pre-repair witness was a served request (200 with the content of `/x/root/f`); the repaired
    code serves `/t/root/f`, which the kernel finds inside the directory. -/
example :
    (staticdirPreF32 unquote (fsOf treeOutside) (reqStatic "/static/../other/lnk/../../root/f")).outcome =
      .served (S "/t/root/../other/lnk/../../root/f") ∧
    staticdir unquote (fsOf treeOutside) (reqStatic "/static/../other/lnk/../../root/f") =
      ⟨.served (S "/t/root/f"), [⟨.stat, S "/t/root/f"⟩, ⟨.openR, S "/t/root/f"⟩]⟩ ∧
    lresolve treeOutside true (S "/t/root/f") = .file (P ["t", "root", "f"]) := by decide

theorem splitSlash_staticTarget_nodotdot (f : Str) (hf : isAbs f = true) :
    ∀ c ∈ splitSlash (staticTarget f), c ≠ dotdot := by
  have hn := splitSlash_normpath_nodotdot f hf
  unfold staticTarget
  split
  · rw [splitSlash_snoc_slash]
    intro c hc
    rcases List.mem_append.1 hc with hc | hc
    · exact hn c hc
    · simp only [List.mem_singleton] at hc; subst hc; simp [dotdot]
  · exact hn

/-- **C11 with links, weak reading, full strength for `staticdir`** (the code as repaired for F32):
    in every tree with no link at / above / below the configured directory, every object `stat`
    and `open` reach - for EVERY request, dot-dot or not, and for the index fallback - is at or
    below the directory. -/
theorem C11_links_weak : C11_links_weak_full := by
  intro t i dir hd hix hno a ha q hq
  obtain ⟨dir', hd', hu⟩ := C11_static_contained unquote (fsOf t) i hix a ha
  have hdd : dir' = dir := by rw [hd] at hd'; exact (Option.some.inj hd').symm
  subst hdd
  have hq' : lresolve t true a.path = .dir q ∨ lresolve t true a.path = .file q ∨
      lresolve t true a.path = .lnk q := by
    rcases hq with hq | hq
    · exact .inl hq
    · exact .inr (.inl hq)
  have hpaths : isAbs a.path = true ∧ ∀ c ∈ splitSlash a.path, c ≠ dotdot := by
    unfold staticdir at ha
    by_cases hm : i.method ≠ strGET ∧ i.method ≠ strHEAD
    · simp [hm] at ha
    · simp only [hm, if_false] at ha
      by_cases hmo : i.matchOk = false
      · simp [hmo] at ha
      · simp only [hmo, hd] at ha
        by_cases hchk : containedCheck (normpath dir') (normpath (join dir' (staticBranch unquote i))) = false
        · simp [hchk] at ha
        · simp only [hchk] at ha
          obtain ⟨ht, hp⟩ := serveChecked_paths (fsOf t) _ _ a ha
          have hf : isAbs (join dir' (staticBranch unquote i)) = true := by
            rw [← isAbs_staticTarget]; exact ht
          have hfile := splitSlash_staticTarget_nodotdot _ hf
          rcases hp with hp | hp
          · rw [hp]; exact ⟨ht, hfile⟩
          · rw [hp]
            exact ⟨isAbs_join _ _ ht, splitSlash_join_nodotdot _ _ hfile hix.2⟩
  exact C11_links_weak_partial t true dir' a.path q hpaths.1 hu hpaths.2 hno hq'

/-- Non-vacuity: the hypotheses hold on `treeOutside`, and the request is served. -/
example : (staticdir unquote (fsOf treeOutside) (reqStatic "/static/f")).outcome = .served (S "/t/root/f") ∧
    lresolve treeOutside true (S "/t/root/f") = .file (P ["t", "root", "f"]) ∧
    noLinkAround treeOutside (components (normpath (S "/t/root"))) = true := by decide

/-! ### FileSession on a tree with links -/

theorem splitSlash_noslash_append (a b : Str) (ha : '/' ∉ a) :
    ∃ x xs, splitSlash b = x :: xs ∧ splitSlash (a ++ b) = (a ++ x) :: xs := by
  induction a with
  | nil =>
    cases hb : splitSlash b with
    | nil => exact absurd hb (splitSlash_ne_nil b)
    | cons x xs => exact ⟨x, xs, rfl, by simpa using hb⟩
  | cons c a ih =>
    have hc : c ≠ '/' := fun e => ha (by simp [e])
    obtain ⟨x, xs, h1, h2⟩ := ih (fun h => ha (by simp [h]))
    refine ⟨x, xs, h1, ?_⟩
    simp only [List.cons_append, splitSlash, hc, if_false, h2]

/-- The weak reading for the five `FileSession` methods. -/
def C11_links_weak_session_full : Prop :=
  ∀ (t : LTree) (cwd storage id : Str) (op : SessOp) (acc : List Access), isAbs cwd = true →
    noLinkAround t (components (normpath (sessionRoot cwd storage))) = true →
    sessOp op cwd (sessionRoot cwd storage) id = some acc →
    ∀ a ∈ acc, ∀ q, (lresolve t true a.path = .dir q ∨ lresolve t true a.path = .file q) →
      components (normpath (sessionRoot cwd storage)) <+: q

/-- The same for the methods as they were before the F32b repair. -/
def C11_links_weak_session_preF32_full : Prop :=
  ∀ (t : LTree) (cwd storage id : Str) (op : SessOp) (acc : List Access), isAbs cwd = true →
    noLinkAround t (components (normpath (sessionRoot cwd storage))) = true →
    sessOpPreF32 op cwd (sessionRoot cwd storage) id = some acc →
    ∀ a ∈ acc, ∀ q, (lresolve t true a.path = .dir q ∨ lresolve t true a.path = .file q) →
      components (normpath (sessionRoot cwd storage)) <+: q

def treeSess : LTree :=
  ⟨[(P ["t"], .dir), (P ["t", "sess"], .dir), (P ["t", "sess", "session-"], .dir),
    (P ["t", "other"], .dir), (P ["t", "other", "lnk"], .link (S "/x/y/z")),
    (P ["x"], .dir), (P ["x", "y"], .dir), (P ["x", "y", "z"], .dir),
    (P ["x", "sess"], .dir), (P ["x", "sess", "session-v"], .file)]⟩

/-- **Violated before the F32b repair**: the cookie id `/../../other/lnk/../../sess/session-v` passes
    the lexical test as `/t/sess/session-v` and `_load` opened `/x/sess/session-v`. -/
theorem C11_links_weak_session_false : ¬ C11_links_weak_session_preF32_full := by
  intro h
  have := h treeSess (S "/") (S "/t/sess") (S "/../../other/lnk/../../sess/session-v") .load
    [⟨.openR, S "/t/sess/session-/../../other/lnk/../../sess/session-v"⟩] (by decide) (by decide)
    (by decide) ⟨.openR, S "/t/sess/session-/../../other/lnk/../../sess/session-v"⟩ (by decide)
    (P ["x", "sess", "session-v"]) (by decide)
  revert this
  decide

/-- The five methods on a tree with links, any `follow` flag (the repaired code: the normalised name
    is what the OS gets). -/
theorem C11_links_session_contained (t : LTree) (fl : Bool) (cwd storage id : Str) (op : SessOp)
    (acc : List Access) (hcwd : isAbs cwd = true)
    (hno : noLinkAround t (components (normpath (sessionRoot cwd storage))) = true)
    (h : sessOp op cwd (sessionRoot cwd storage) id = some acc) :
    ∀ a ∈ acc, ∀ q, (lresolve t fl a.path = .dir q ∨ lresolve t fl a.path = .file q ∨
        lresolve t fl a.path = .lnk q) →
      components (normpath (sessionRoot cwd storage)) <+: q := by
  intro a ha q hq
  have hu := C11_session_contained cwd storage id hcwd op acc h a ha
  obtain ⟨X, hX, hsp⟩ := sessionRoot_eq cwd storage hcwd
  rw [hsp] at h hu hno ⊢
  have habs : isAbs (normpath X) = true := normpath_abs_isAbs X hX
  have hraw : isAbs (sessionFileRaw (normpath X) id) = true := isAbs_join _ _ habs
  have hF : sessionFile cwd (normpath X) id = normpath (sessionFileRaw (normpath X) id) := by
    simp [sessionFile, abspath, hraw]
  have hf : isAbs (sessionFile cwd (normpath X) id) = true := by
    rw [hF]; exact normpath_abs_isAbs _ hraw
  have hfile : ∀ c ∈ splitSlash (sessionFile cwd (normpath X) id), c ≠ dotdot := by
    rw [hF]; exact splitSlash_normpath_nodotdot _ hraw
  have hlock : ∀ c ∈ splitSlash (sessionFile cwd (normpath X) id ++ lockSuffix), c ≠ dotdot := by
    obtain ⟨init, last, h1, h2⟩ :=
      splitSlash_append_noslash (sessionFile cwd (normpath X) id) lockSuffix (by decide)
    rw [h2]
    intro c hc
    rcases List.mem_append.1 hc with hc | hc
    · exact hfile c (by rw [h1]; simp [hc])
    · simp only [List.mem_singleton] at hc
      subst hc
      intro e
      have : (last ++ lockSuffix).length = 2 := by rw [e]; rfl
      simp [lockSuffix] at this
  have hpath : isAbs a.path = true ∧ ∀ c ∈ splitSlash a.path, c ≠ dotdot := by
    unfold sessOp getFilePath at h
    by_cases hchk : sessionCheck cwd (normpath X) id = true
    · simp only [hchk, if_true, Option.some.injEq] at h
      rw [← h] at ha
      cases op with
      | exists_ =>
        simp only at ha
        split at ha
        · simp at ha
        · simp only [List.mem_singleton] at ha; rw [ha]; exact ⟨hf, hfile⟩
      | load => simp only [List.mem_singleton] at ha; rw [ha]; exact ⟨hf, hfile⟩
      | save => simp only [List.mem_singleton] at ha; rw [ha]; exact ⟨hf, hfile⟩
      | delete => simp only [List.mem_singleton] at ha; rw [ha]; exact ⟨hf, hfile⟩
      | acquireLock =>
        simp only [List.mem_singleton] at ha; rw [ha]; exact ⟨isAbs_append _ _ hf, hlock⟩
    · simp [hchk] at h
  exact C11_links_weak_partial t fl (normpath X) a.path q hpath.1 hu hpath.2 hno hq

/-- **C11 with links, weak reading, full strength for the five `FileSession` methods**: for EVERY
    session id (dot-dot or not) everything tested, read, written, locked or unlinked is at or below
    the storage directory, in every tree with no link at / above / below it. -/
theorem C11_links_weak_session : C11_links_weak_session_full := by
  intro t cwd storage id op acc hcwd hno h a ha q hq
  refine C11_links_session_contained t true cwd storage id op acc hcwd hno h a ha q ?_
  rcases hq with hq | hq
  · exact .inl hq
  · exact .inr (.inl hq)

/-- The F32b id on the repaired code: accepted as `/t/sess/session-v`, which is what the OS gets. -/
example : sessOp .load (S "/") (sessionRoot (S "/") (S "/t/sess")) (S "/../../other/lnk/../../sess/session-v") =
    some [⟨.openR, S "/t/sess/session-v"⟩] ∧
    noLinkAround treeSess (components (normpath (sessionRoot (S "/") (S "/t/sess")))) = true := by decide

/-- A relative link inside the root that stays inside, followed by the kernel (fuel is used). -/
example : lresolve ⟨[(P ["t"], .dir), (P ["t", "a"], .dir), (P ["t", "a", "f"], .file),
      (P ["t", "l"], .link (S "a/./f"))]⟩ true (S "/t/l") = .file (P ["t", "a", "f"]) ∧
    lresolve ⟨[(P ["t"], .dir), (P ["t", "l"], .link (S "l"))]⟩ true (S "/t/l") = .eloop ∧
    lresolve ⟨[(P ["t"], .dir), (P ["t", "l"], .link (S "l"))]⟩ false (S "/t/l") = .lnk (P ["t", "l"]) := by
  decide

end CpProofs.C11
