import CpModel.ConfigIni
/-!
  C08, the INI layer: option names keep their case, `DEFAULT` is inherited and overridden, interpolation.
-/
namespace CpProofs.C08
open CpModel.ConfigIni

theorem scan_cons_ne (sub : Raw → Except IniErr (List Char)) (xf : List Char → List Char) (own dflt : Opts)
    (f : Nat) (c : Char) (rest : Raw) (hc : c ≠ '%') :
    CpModel.ConfigIni.scan sub xf own dflt (f + 1) (c :: rest) =
      (CpModel.ConfigIni.scan sub xf own dflt f rest).map (c :: ·) := by
  rw [CpModel.ConfigIni.scan]
  intro h; exact hc h

theorem scan_no_percent (sub : Raw → Except IniErr (List Char)) (xf : List Char → List Char) (own dflt : Opts) :
    ∀ (s : Raw) (f : Nat), s.length < f → '%' ∉ s → CpModel.ConfigIni.scan sub xf own dflt f s = .ok s := by
  intro s
  induction s with
  | nil => intro f hf _; cases f with
    | zero => omega
    | succ f => rfl
  | cons c rest ih =>
    intro f hf hp
    cases f with
    | zero => simp at hf
    | succ f =>
      have hc : c ≠ '%' := fun e => hp (e ▸ List.mem_cons_self ..)
      have hr : '%' ∉ rest := fun h => hp (List.mem_cons_of_mem _ h)
      have hlen : rest.length < f := by simp at hf; omega
      rw [scan_cons_ne _ _ _ _ _ _ _ hc, ih f hlen hr]
      rfl

/-- **A value without `%` is taken literally** (whatever else the file holds). -/
theorem C08_ini_plain (xf : List Char → List Char) (own dflt : Opts) (d : Nat) (s : Raw) (h : '%' ∉ s) :
    interpD xf own dflt (d + 1) s = .ok s := by
  unfold interpD
  exact scan_no_percent _ xf own dflt s _ (by omega) h

/-- **`DEFAULT` is inherited and overridden**: an option is read from the section when the section has it,
    from `[DEFAULT]` otherwise. -/
theorem C08_ini_section_over_default (own dflt : Opts) (n : List Char) :
    lookupOpt own dflt n = match CpModel.Dispatch.lookup own n with
      | some v => some v
      | none => CpModel.Dispatch.lookup dflt n := rfl

theorem mem_optionNames (own dflt : Opts) (n : List Char) :
    n ∈ optionNames own dflt ↔ n ∈ own.map (·.1) ∨ n ∈ dflt.map (·.1) := by
  unfold optionNames
  simp only [List.mem_append, List.mem_map, List.mem_filter]
  constructor
  · rintro (h | ⟨⟨a, b⟩, ⟨hm, _⟩, he⟩)
    · exact .inl h
    · exact .inr ⟨(a, b), hm, he⟩
  · rintro (h | ⟨⟨a, b⟩, hm, he⟩)
    · exact .inl h
    · by_cases hown : own.any (·.1 = a) = true
      · left
        rw [List.any_eq_true] at hown
        obtain ⟨x, hx, hxe⟩ := hown
        refine ⟨x, hx, ?_⟩
        simp only [decide_eq_true_eq] at hxe
        simp only at he
        rw [hxe]; exact he
      · right
        have hf : own.any (·.1 = a) = false := Bool.eq_false_iff.mpr hown
        exact ⟨(a, b), ⟨hm, by simp [hf]⟩, he⟩

/-- **The options of a section** are its own plus those of `[DEFAULT]` — so every section sees every
    `DEFAULT` entry. -/
theorem C08_ini_options (own dflt : Opts) (n : List Char) :
    n ∈ optionNames own dflt ↔ n ∈ own.map (·.1) ∨ n ∈ dflt.map (·.1) := mem_optionNames own dflt n

theorem readOpts_id_names : ∀ (opts r : Opts), readOpts id opts = .ok r → r = opts := by
  intro opts
  induction opts with
  | nil => intro r h; cases h; rfl
  | cons x xs ih =>
    obtain ⟨n, v⟩ := x
    intro r h
    simp only [readOpts] at h
    split at h
    · cases h
    · rename_i r' hr'
      split at h
      · cases h
      · injection h with h
        rw [← h, ih r' hr']
        rfl

/-- **Option names keep their case** (`Parser.optionxform` is the identity): what is read is what was written. -/
theorem C08_ini_case_kept (opts r : Opts) (h : readOpts id opts = .ok r) : r = opts :=
  readOpts_id_names opts r h

def kOpts : Opts := [("K".toList, "1".toList), ("k".toList, "2".toList)]

/-- `K` and `k` are two options for `Parser` … -/
theorem C08_ini_case_sensitive : readOpts id kOpts = .ok kOpts := by rfl

/-- … and one (a `DuplicateOptionError`) under the stock lower-casing `optionxform`. -/
theorem C08_ini_stock_lowercases : readOpts lowerAscii kOpts = .error .duplicateOption := by rfl

def demoOwn : Opts := [("my.dir".toList, "%(dir)s + \"/my\"".toList), ("pct".toList, "'100%%'".toList)]
def demoDflt : Opts := [("dir".toList, "\"/some\"".toList)]

/-- interpolation inserts the referenced option's TEXT (from `DEFAULT` here), `%%` is a percent sign -/
example : getOpt id demoOwn demoDflt "my.dir".toList = .ok "\"/some\" + \"/my\"".toList := by rfl
example : getOpt id demoOwn demoDflt "pct".toList = .ok "'100%'".toList := by rfl
example : getOpt id [("a".toList, "%(a)s".toList)] [] "a".toList = .error .depth := by rfl
example : getOpt id [("a".toList, "%(b)s".toList)] [] "a".toList = .error .missingOption := by rfl
example : getOpt id [("a".toList, "50%".toList)] [] "a".toList = .error .syntaxErr := by rfl

end CpProofs.C08
