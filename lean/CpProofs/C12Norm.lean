import CpProofs.C12
import CpModel.HeaderNorm
/-!
  C12 (round 2) — theorems about `CpModel.HeaderNorm`: what `str.title()`, `valid_status`,
  `http.cookies`, `_make_content_disposition` and the request-side RFC 2047 reader can and cannot
  do to a text on its way to a header.  All statements quantify over ALL texts; the finite facts
  about the tables (regenerated from the live functions on every run) are discharged by `decide`.
-/
set_option linter.unusedSimpArgs false
set_option linter.unnecessarySimpa false

namespace CpProofs.C12
open CpModel.HeaderEnc CpModel.HeaderNorm CpModel.Gen.C12N

theorem char_toNat_ofNat_lt256 : ∀ n, n < 256 → (Char.ofNat n).toNat = n := by decide +kernel

theorem char_eq_ofNat (c : Char) : c = Char.ofNat c.toNat := (Char.ofNat_toNat c).symm

/-! ### `str.title()` — header-name normalisation -/

def asciiLetter (n : Nat) : Bool := (65 ≤ n && n ≤ 90) || (97 ≤ n && n ≤ 122)

/-- table fact: whatever a modelled character is mapped to by title/lower-casing, the ASCII
    characters among the results are letters -/
theorem caseTable_ascii_letters :
    ∀ e ∈ caseTable, ∀ x ∈ toText (e.2.2.1 ++ e.2.2.2), x.toNat < 128 → asciiLetter x.toNat = true := by
  decide +kernel

theorem caseLookup_mem (n : Nat) (e : Bool × List Nat × List Nat) (h : caseLookup n = some e) :
    (n, e) ∈ caseTable := by
  unfold caseLookup at h
  simp only [Option.map_eq_some_iff] at h
  obtain ⟨e', he', rfl⟩ := h
  have hm := List.mem_of_find?_eq_some he'
  have hp := List.find?_some he'
  have : e'.1 = n := by simpa using hp
  rw [← this]
  exact hm

theorem case_map_origin (c x : Char) (hx : x ∈ toTitle c ∨ x ∈ toLower c)
    (h128 : x.toNat < 128) (hl : asciiLetter x.toNat = false) : x = c := by
  unfold toTitle toLower at hx
  cases hlk : caseLookup c.toNat with
  | none => rw [hlk] at hx; simpa using hx
  | some e =>
    rw [hlk] at hx
    have hm := caseLookup_mem _ _ hlk
    have := caseTable_ascii_letters _ hm x (by
      simp only [toText, List.map_append, List.mem_append] at hx ⊢
      exact hx) h128
    rw [this] at hl; cases hl

theorem titleAux_origin (s : Text) :
    ∀ prev out, titleAux prev s = some out →
      ∀ x ∈ out, x.toNat < 128 → asciiLetter x.toNat = false → x ∈ s := by
  induction s with
  | nil => intro prev out h; simp [titleAux] at h; subst h; simp
  | cons c rest ih =>
    intro prev out h x hx h128 hl
    simp only [titleAux] at h
    split at h
    · simp only [Option.map_eq_some_iff] at h
      obtain ⟨r, hr, rfl⟩ := h
      simp only [List.mem_append] at hx
      rcases hx with hx | hx
      · have : x = c := by
          apply case_map_origin c x _ h128 hl
          split at hx
          · exact Or.inr hx
          · exact Or.inl hx
        rw [this]; simp
      · exact List.mem_cons_of_mem _ (ih _ r hr x hx h128 hl)
    · cases h

/-- **C12_title_no_new_ascii_nonletter**: `str.title()` never manufactures a control character,
    a space, a colon, a quote, `;`, `,`, `=` … : every ASCII character of the normalised header
    name that is not a letter already stood in the name the application (or the client) gave. -/
theorem C12_title_no_new_ascii_nonletter (s out : Text) (h : title? s = some out) :
    ∀ x ∈ out, x.toNat < 128 → asciiLetter x.toNat = false → x ∈ s :=
  titleAux_origin s false out h

/-- non-vacuity: `ß` is modelled and becomes two characters -/
example : title? [Char.ofNat 0xDF, 'x', '\n', 'y'] = some ['S', 's', 'x', '\n', 'Y'] := by
  decide +kernel

def asciiUpper (c : Char) : Char :=
  if 97 ≤ c.toNat ∧ c.toNat ≤ 122 then Char.ofNat (c.toNat - 32) else c

def asciiLower (c : Char) : Char :=
  if 65 ≤ c.toNat ∧ c.toNat ≤ 90 then Char.ofNat (c.toNat + 32) else c

/-- on ASCII the live table is plain ASCII case mapping -/
theorem ascii_case_facts : ∀ n, n < 128 →
    isCased (Char.ofNat n) = asciiLetter n ∧
    toTitle (Char.ofNat n) = [asciiUpper (Char.ofNat n)] ∧
    toLower (Char.ofNat n) = [asciiLower (Char.ofNat n)] ∧
    (asciiUpper (Char.ofNat n)).toNat < 128 ∧ (asciiLower (Char.ofNat n)).toNat < 128 ∧
    asciiLetter (asciiUpper (Char.ofNat n)).toNat = asciiLetter n ∧
    asciiLetter (asciiLower (Char.ofNat n)).toNat = asciiLetter n ∧
    asciiUpper (asciiUpper (Char.ofNat n)) = asciiUpper (Char.ofNat n) ∧
    asciiLower (asciiLower (Char.ofNat n)) = asciiLower (Char.ofNat n) ∧
    asciiUpper (asciiLower (Char.ofNat n)) = asciiUpper (Char.ofNat n) ∧
    asciiLower (asciiUpper (Char.ofNat n)) = asciiLower (Char.ofNat n) := by
  decide +kernel

theorem ascii_facts (c : Char) (h : c.toNat < 128) :
    isCased c = asciiLetter c.toNat ∧ toTitle c = [asciiUpper c] ∧ toLower c = [asciiLower c] ∧
    (asciiUpper c).toNat < 128 ∧ (asciiLower c).toNat < 128 ∧
    asciiLetter (asciiUpper c).toNat = asciiLetter c.toNat ∧
    asciiLetter (asciiLower c).toNat = asciiLetter c.toNat ∧
    asciiUpper (asciiUpper c) = asciiUpper c ∧ asciiLower (asciiLower c) = asciiLower c ∧
    asciiUpper (asciiLower c) = asciiUpper c ∧ asciiLower (asciiUpper c) = asciiLower c := by
  have := ascii_case_facts c.toNat h
  rw [Char.ofNat_toNat] at this
  exact this

/-- `str.title()` restricted to ASCII -/
def titleAsciiAux : Bool → Text → Text
  | _, [] => []
  | prev, c :: rest =>
    (if prev then asciiLower c else asciiUpper c) :: titleAsciiAux (asciiLetter c.toNat) rest

theorem caseBound_gt : 128 ≤ caseBound := by decide

theorem titleAux_ascii (s : Text) (hs : ∀ c ∈ s, c.toNat < 128) :
    ∀ prev, titleAux prev s = some (titleAsciiAux prev s) := by
  induction s with
  | nil => intro _; rfl
  | cons c rest ih =>
    intro prev
    have hc := hs c (by simp)
    have f := ascii_facts c hc
    have hb : c.toNat < caseBound := Nat.lt_of_lt_of_le hc caseBound_gt
    simp only [titleAux, hb, ite_true, titleAsciiAux]
    rw [f.1, ih (fun x hx => hs x (by simp [hx]))]
    cases prev with
    | false => simp [f.2.1]
    | true => simp [f.2.2.1]

theorem titleAsciiAux_ascii (s : Text) (hs : ∀ c ∈ s, c.toNat < 128) :
    ∀ prev, ∀ c ∈ titleAsciiAux prev s, c.toNat < 128 := by
  induction s with
  | nil => intro _ c hc; cases hc
  | cons a rest ih =>
    intro prev c hc
    have f := ascii_facts a (hs a (by simp))
    simp only [titleAsciiAux, List.mem_cons] at hc
    rcases hc with rfl | hc
    · cases prev with
      | false => simpa using f.2.2.2.1
      | true => simpa using f.2.2.2.2.1
    · exact ih (fun x hx => hs x (by simp [hx])) _ c hc

theorem titleAsciiAux_idem (s : Text) (hs : ∀ c ∈ s, c.toNat < 128) :
    ∀ prev, titleAsciiAux prev (titleAsciiAux prev s) = titleAsciiAux prev s := by
  induction s with
  | nil => intro _; rfl
  | cons a rest ih =>
    intro prev
    have f := ascii_facts a (hs a (by simp))
    have ih' := ih (fun x hx => hs x (by simp [hx]))
    cases prev with
    | false =>
      simp only [titleAsciiAux, Bool.false_eq_true, ite_false]
      rw [f.2.2.2.2.2.1, f.2.2.2.2.2.2.2.1, ih']
    | true =>
      simp only [titleAsciiAux, ite_true]
      rw [f.2.2.2.2.2.2.1, f.2.2.2.2.2.2.2.2.1, ih']

/-- **C12_title_ascii_idempotent**: on ASCII names (every legal header-name token) normalisation is
    total and idempotent — the key stored by `CaseInsensitiveDict` is found again under itself. -/
theorem C12_title_ascii_idempotent (s : Text) (hs : ∀ c ∈ s, c.toNat < 128) :
    ∃ t, title? s = some t ∧ title? t = some t ∧ ∀ c ∈ t, c.toNat < 128 := by
  refine ⟨titleAsciiAux false s, titleAux_ascii s hs false, ?_, titleAsciiAux_ascii s hs false⟩
  unfold title?
  rw [titleAux_ascii _ (titleAsciiAux_ascii s hs false) false, titleAsciiAux_idem s hs false]

/-- the full statement "normalisation is idempotent" -/
def C12_title_idempotent_full : Prop := ∀ s t : Text, title? s = some t → title? t = some t

/-- it is FALSE beyond ASCII (quirk of `str.title()`, not a break-out): `ǰa` (U+01F0) becomes
    `J` + U+030C + `a`; the combining caron is not cased, so a second pass gives `J` + U+030C + `A`.
    A non-ASCII name is emitted as an RFC 2047 word in any case. -/
theorem C12_title_idempotent_full_false : ¬ C12_title_idempotent_full := by
  intro h
  have h1 : title? [Char.ofNat 0x1F0, 'a'] = some ['J', Char.ofNat 0x30C, 'a'] := by decide +kernel
  have h2 := h _ _ h1
  revert h2
  decide +kernel

theorem titleAsciiAux_fold (s : Text) (hs : ∀ c ∈ s, c.toNat < 128) :
    ∀ prev, titleAsciiAux prev (s.map asciiLower) = titleAsciiAux prev s := by
  induction s with
  | nil => intro _; rfl
  | cons a rest ih =>
    intro prev
    have f := ascii_facts a (hs a (by simp))
    have ih' := ih (fun x hx => hs x (by simp [hx]))
    cases prev with
    | false =>
      simp only [List.map_cons, titleAsciiAux, Bool.false_eq_true, ite_false]
      rw [f.2.2.2.2.2.2.1, f.2.2.2.2.2.2.2.2.2.1, ih']
    | true =>
      simp only [List.map_cons, titleAsciiAux, ite_true]
      rw [f.2.2.2.2.2.2.1, f.2.2.2.2.2.2.2.2.1, ih']

/-- **C12_title_ascii_case_insensitive**: two ASCII spellings of a name that differ only in case
    are normalised to the same key, so a header set twice is emitted once. -/
theorem C12_title_ascii_case_insensitive (s t : Text) (hs : ∀ c ∈ s, c.toNat < 128)
    (ht : ∀ c ∈ t, c.toNat < 128) (h : s.map asciiLower = t.map asciiLower) :
    title? s = title? t := by
  unfold title?
  rw [titleAux_ascii s hs, titleAux_ascii t ht, ← titleAsciiAux_fold s hs, ← titleAsciiAux_fold t ht, h]

example : title? "x-FOO-bar".toList = some "X-Foo-Bar".toList ∧
    title? "X-foo-BAR".toList = some "X-Foo-Bar".toList := by decide +kernel

/-! ### `valid_status` -/

theorem lstrip_suffix (s : Text) : ∃ a, s = a ++ lstrip s := by
  induction s with
  | nil => exact ⟨[], rfl⟩
  | cons c rest ih =>
    unfold lstrip
    split
    · obtain ⟨a, ha⟩ := ih
      exact ⟨c :: a, by rw [List.cons_append, ← ha]⟩
    · exact ⟨[], rfl⟩

theorem strip_infix (s : Text) : ∃ a b, s = a ++ strip s ++ b := by
  obtain ⟨a, ha⟩ := lstrip_suffix s
  obtain ⟨b, hb⟩ := lstrip_suffix (lstrip s).reverse
  refine ⟨a, b.reverse, ?_⟩
  unfold strip
  have : lstrip s = (lstrip (lstrip s).reverse).reverse ++ b.reverse := by
    have := congrArg List.reverse hb
    simpa using this
  rw [List.append_assoc, ← this, ← ha]

theorem partitionSpace_suffix (s : Text) : ∃ a, s = a ++ (partitionSpace s).2 := by
  induction s with
  | nil => exact ⟨[], rfl⟩
  | cons c rest ih =>
    unfold partitionSpace
    split
    · exact ⟨[c], rfl⟩
    · obtain ⟨a, ha⟩ := ih
      exact ⟨c :: a, by simp only [List.cons_append]; rw [← ha]⟩

/-- table fact: every default reason phrase is printable ASCII -/
theorem responseReasons_printable :
    ∀ e ∈ responseReasons, ∀ c ∈ toText e.2, 32 ≤ c.toNat ∧ c.toNat < 127 := by
  decide +kernel

theorem defaultReason_printable (code : Nat) : ∀ c ∈ defaultReason code, 32 ≤ c.toNat ∧ c.toNat < 127 := by
  unfold defaultReason
  split
  · rename_i e he
    exact responseReasons_printable e (List.mem_of_find?_eq_some he)
  · intro c hc; cases hc

/-- **C12_valid_status_reason_origin**: the reason phrase `valid_status` hands to `finalize` is a
    contiguous part of the status the application set, or the default of the live table (printable
    ASCII): `valid_status` adds nothing of its own. -/
theorem C12_valid_status_reason_origin (st : Text) (code : Nat) (r : Text)
    (h : validStatus st = .ok code r) :
    (∃ a b, st = a ++ r ++ b) ∨ (r = defaultReason code ∧ ∀ c ∈ r, 32 ≤ c.toNat ∧ c.toNat < 127) := by
  unfold validStatus at h
  split at h
  · cases h
    exact Or.inr ⟨rfl, defaultReason_printable 200⟩
  · simp only at h
    split at h
    · cases h
    · split at h
      · split at h <;> cases h
      · rename_i code' _
        split at h
        · cases h
        · cases h
          split
          · exact Or.inr ⟨rfl, defaultReason_printable _⟩
          · left
            obtain ⟨a, ha⟩ := partitionSpace_suffix st
            obtain ⟨x, y, hxy⟩ := strip_infix (partitionSpace st).2
            refine ⟨a ++ x, y, ?_⟩
            rw [List.append_assoc, List.append_assoc, ← List.append_assoc x, ← hxy, ← ha]

/-- **C12_status_raw_clean**: whatever `str` status the application sets (client data included),
    the status line `Response.finalize` emits for it consists of clean bytes. -/
theorem C12_status_raw_clean (st : Text) (out : Bytes) (h : statusLineRaw st = some (.ok out)) :
    ∀ b ∈ out, Clean b := by
  unfold statusLineRaw at h
  split at h
  · rename_i code reason _
    have : statusLine code reason = .ok out := Option.some.inj h
    exact statusLine_clean code reason out this
  · cases h
  · cases h

example : validStatus "404 \t No <b>\r\n".toList = .ok 404 "No <b>".toList ∧
    validStatus "404".toList = .ok 404 "Not Found".toList ∧ validStatus "99 x".toList = .bad := by
  decide +kernel

end CpProofs.C12
