import CpModel.IsolationCfg
import CpModel.Gen.C10Tables
/-!
  C10, config part: serving a request leaves every long-lived config dict (global config, every `_cp_config`
  on the tree, every application section) unchanged, and the effective configuration a request observes is a
  function of the site and the path alone - for EVERY merge table satisfying the copy-on-merge obligation,
  every site (any sharing of `_cp_config` cells between paths and applications), every initial heap and every
  history of requests that write into their own `request.config`.  The obligation is discharged by `decide` on
  the table measured on the live code; it is necessary (each of the three alias modes leaks, by witness).
-/
namespace CpProofs.C10
open CpModel.IsolationCfg

/-- The copy-on-merge obligation. -/
def CfgGood (t : Table) : Prop := t.rootMode = .copy ∧ t.nodeMode = .copy ∧ t.globMode = .copy

theorem cfgGood_of_b {t : Table} (h : t.good = true) : CfgGood t := by
  unfold Table.good at h
  simp only [Bool.and_eq_true, decide_eq_true_eq] at h
  exact ⟨h.1.1, h.1.2, h.2⟩

/-! ### no step of the merge writes into the heap when everything it holds is its own -/

theorem upd_own (h : Heap) (d e : Dict) : Ref.upd h (.own d) e = (h, .own (d.update e)) := rfl

theorem startConf_copy_own (h : Heap) (cfg : Option Nat) : ∃ d, startConf .copy h cfg = .own d := by
  cases cfg with
  | none => exact ⟨_, rfl⟩
  | some i => exact ⟨_, rfl⟩

theorem mixSection_own (site : Site) (h : Heap) (d : Dict) (path : List Nat) :
    ∃ d', mixSection site h (.own d) path = (h, .own d') := by
  unfold mixSection
  cases site.sect path with
  | none => exact ⟨_, rfl⟩
  | some s => exact ⟨_, rfl⟩

/-- The descent under a copying table: the heap is untouched. -/
theorem walk_copy_heap {tbl : Table} (hn : tbl.nodeMode = .copy) (site : Site) (h : Heap) (node : Option Nat)
    (pre names : List Nat) : (walk tbl site h node pre names).1 = h := by
  induction names generalizing h node pre with
  | nil => rfl
  | cons name rest ih =>
    simp only [walk]
    rw [hn]
    obtain ⟨d, hd⟩ := startConf_copy_own h ((node.bind fun n => site.child n name).bind fun n => (site.info n).cfg)
    rw [hd]
    obtain ⟨d', hd'⟩ := mixSection_own site h d (pre ++ [name])
    rw [hd']
    exact ih h _ _

theorem dispatchTrail_copy_heap {tbl : Table} (hr : tbl.rootMode = .copy) (hn : tbl.nodeMode = .copy) (site : Site)
    (h : Heap) (names : List Nat) : (dispatchTrail tbl site h names).1 = h := by
  simp only [dispatchTrail]
  rw [hr]
  obtain ⟨d, hd⟩ := startConf_copy_own h (site.info site.root).cfg
  rw [hd]
  obtain ⟨d', hd'⟩ := mixSection_own site h d []
  rw [hd']
  exact walk_copy_heap hn site h _ _ _

/-- `set_conf` into an own base dict: the heap is untouched and the result is an own dict, whatever the trail
    entries denote (the `default` handler's `_cp_config` is in the trail by identity - it is only read). -/
theorem collapse_own (h : Heap) (d : Dict) (es : List Entry) : ∃ d', collapse h (.own d) es = (h, .own d') := by
  induction es generalizing d with
  | nil => exact ⟨d, rfl⟩
  | cons e es ih =>
    simp only [collapse, upd_own]
    exact ih _

/-- One request under a good table: no long-lived dict changes and `request.config` is the request's own dict. -/
theorem serve_good {tbl : Table} (g : CfgGood tbl) (site : Site) (h : Heap) (names : List Nat) :
    ∃ d, serve tbl site h names = (h, .own d) := by
  obtain ⟨hr, hn, hg⟩ := g
  simp only [serve]
  rw [dispatchTrail_copy_heap hr hn, hg]
  simp only [baseRef]
  exact collapse_own h _ _

theorem cfgWrites_own (h : Heap) (d : Dict) (ws : List (Nat × Nat)) : ∃ d', cfgWrites h (.own d) ws = (h, .own d') := by
  induction ws generalizing d with
  | nil => exact ⟨d, rfl⟩
  | cons w ws ih =>
    obtain ⟨k, v⟩ := w
    simp only [cfgWrites, upd_own]
    exact ih _

/-- Whole histories: the heap is what it was and every request observed what it would have observed first. -/
theorem runReqs_good {tbl : Table} (g : CfgGood tbl) (h : Heap) (rs : List Req) :
    runReqs tbl h rs = (h, rs.map fun r => effective tbl r.site h r.names) := by
  induction rs with
  | nil => rfl
  | cons r rs ih =>
    obtain ⟨d, hd⟩ := serve_good g r.site h r.names
    simp only [runReqs, effective, hd, List.map_cons]
    obtain ⟨d', hd'⟩ := cfgWrites_own h d r.writes
    rw [hd']
    simp only [ih, effective]

/-- **Serving any sequence of requests leaves every shared config cell unchanged** (any site, any sharing of
    `_cp_config` cells between paths and applications, any writes of requests into their own config). -/
theorem C10_cfg_shared_cells_unchanged {tbl : Table} (g : CfgGood tbl) (h : Heap) (rs : List Req) (c : Cell) :
    (runReqs tbl h rs).1 c = h c := by
  rw [runReqs_good g]

/-- **History independence of the effective configuration**: after any history the request observes exactly
    what it observes as the first request the process ever serves. -/
theorem C10_cfg_history_independent {tbl : Table} (g : CfgGood tbl) (h : Heap) (pre : List Req) (r : Req) :
    (runReqs tbl h (pre ++ [r])).2.getLast? = (runReqs tbl h [r]).2.head? := by
  rw [runReqs_good g, runReqs_good g]
  simp

/-- `request.config` is the request's own dict: what it writes there reaches no long-lived dict. -/
theorem C10_cfg_request_config_own {tbl : Table} (g : CfgGood tbl) (site : Site) (h : Heap) (names : List Nat) :
    (serve tbl site h names).2.isOwn = true := by
  obtain ⟨d, hd⟩ := serve_good g site h names
  rw [hd]; rfl

/-! ### the obligation on the code -/

theorem gen_cfg_table_good : CfgGood CpModel.Gen.C10.cfgTable := cfgGood_of_b (by decide)

/-- The probe saw no write into an application config section or a `default` handler's `_cp_config` either. -/
theorem gen_cfg_no_foreign_writes : CpModel.Gen.C10.cfgForeignWrites = false := by decide

theorem C10_cfg_shared_cells_unchanged_code (h : Heap) (rs : List Req) (c : Cell) :
    (runReqs CpModel.Gen.C10.cfgTable h rs).1 c = h c :=
  C10_cfg_shared_cells_unchanged gen_cfg_table_good h rs c

theorem C10_cfg_history_independent_code (h : Heap) (pre : List Req) (r : Req) :
    (runReqs CpModel.Gen.C10.cfgTable h (pre ++ [r])).2.getLast? = (runReqs CpModel.Gen.C10.cfgTable h [r]).2.head? :=
  C10_cfg_history_independent gen_cfg_table_good h pre r

/-! ### necessity: each alias mode leaks (two requests, the second sees the first one's section) -/

/-- names: index = 0, a = 1, b = 2; nodes: root 0, `a` 1 and `b` 2 (instances of one class: ONE `_cp_config`
    cell 0), their `index` methods 3 and 4.  Only `/a` has a section (cell 0). -/
def wSite (rootCfg : Option Nat) (sectRoot sectA : Option Nat) : Site where
  root := 0
  index := 0
  info := fun n =>
    if n = 0 then ⟨rootCfg, false, none⟩
    else if n = 1 ∨ n = 2 then ⟨some 0, false, none⟩
    else ⟨none, true, none⟩
  child := fun n name =>
    if n = 0 ∧ name = 1 then some 1 else if n = 0 ∧ name = 2 then some 2
    else if n = 1 ∧ name = 0 then some 3 else if n = 2 ∧ name = 0 then some 4
    else if n = 0 ∧ name = 0 then some 5 else none
  sect := fun p => if p = [] then sectRoot else if p = [1] then sectA else none

/-- `_cp_config` cell 0 holds key 5, root's cell 1 holds key 6, section 0 sets key 7, the global config key 9. -/
def wHeap : Heap
  | .glob => Dict.single 9 9
  | .cp 0 => Dict.single 5 5
  | .cp _ => Dict.single 6 6
  | .sect _ => Dict.single 7 1

def eff2 (tbl : Table) (r1 r2 : Req) (k : Nat) : Option Nat :=
  match (runReqs tbl wHeap [r1, r2]).2 with
  | [_, d] => d k
  | _ => none

def eff1 (tbl : Table) (r : Req) (k : Nat) : Option Nat :=
  match (runReqs tbl wHeap [r]).2 with
  | [d] => d k
  | _ => none

/-- `nodeconf = node._cp_config` (the shape of seeded change C10-1): `/b/` after `/a/` sees `/a`'s section and
    the class-level `_cp_config` has grown. -/
theorem C10_cfg_node_alias_leaks :
    let tbl : Table := { rootMode := .copy, nodeMode := .alias, globMode := .copy }
    let site := wSite none none (some 0)
    eff2 tbl ⟨site, [1], []⟩ ⟨site, [2], []⟩ 7 = some 1 ∧ eff1 tbl ⟨site, [2], []⟩ 7 = none ∧
    (runReqs tbl wHeap [⟨site, [1], []⟩]).1 (.cp 0) 7 = some 1 := by decide

/-- The same root object mounted in two applications, `nodeconf = root._cp_config`: application 2 sees the `/`
    section of application 1. -/
theorem C10_cfg_root_alias_leaks :
    let tbl : Table := { rootMode := .alias, nodeMode := .copy, globMode := .copy }
    let app1 := wSite (some 1) (some 0) none
    let app2 := wSite (some 1) none none
    eff2 tbl ⟨app1, [], []⟩ ⟨app2, [], []⟩ 7 = some 1 ∧ eff1 tbl ⟨app2, [], []⟩ 7 = none := by decide

/-- `base = cherrypy.config` without the copy: everything a request merges or writes lands in the global config. -/
theorem C10_cfg_glob_alias_leaks :
    let tbl : Table := { rootMode := .copy, nodeMode := .copy, globMode := .alias }
    let site := wSite none none (some 0)
    eff2 tbl ⟨site, [1], [(11, 3)]⟩ ⟨site, [2], []⟩ 7 = some 1 ∧
    eff2 tbl ⟨site, [1], [(11, 3)]⟩ ⟨site, [2], []⟩ 11 = some 3 ∧ eff1 tbl ⟨site, [2], []⟩ 7 = none := by decide

/-- Non-vacuity: under the good table the witness site really merges (class cell, section, global config all
    arrive in the effective config of `/a/`, none of the section in `/b/`). -/
example :
    let site := wSite (some 1) none (some 0)
    eff1 Table.allCopy ⟨site, [1], []⟩ 7 = some 1 ∧ eff1 Table.allCopy ⟨site, [1], []⟩ 5 = some 5 ∧
    eff1 Table.allCopy ⟨site, [1], []⟩ 6 = some 6 ∧ eff1 Table.allCopy ⟨site, [1], []⟩ 9 = some 9 ∧
    eff2 Table.allCopy ⟨site, [1], [(11, 3)]⟩ ⟨site, [2], []⟩ 7 = none ∧
    eff2 Table.allCopy ⟨site, [1], [(11, 3)]⟩ ⟨site, [2], []⟩ 11 = none := by decide

/-- An exposed `default` handler's `_cp_config` enters the trail right after its candidate and is only read. -/
example :
    let site : Site :=
      { root := 0, index := 0,
        info := fun n => if n = 0 then ⟨none, false, some 9⟩ else if n = 9 then ⟨some 0, true, none⟩ else ⟨none, false, none⟩,
        child := fun _ _ => none, sect := fun p => if p = [3] then some 0 else none }
    eff1 Table.allCopy ⟨site, [3], []⟩ 5 = some 5 ∧ eff1 Table.allCopy ⟨site, [3], []⟩ 7 = some 1 ∧
    (runReqs Table.allCopy wHeap [⟨site, [3], []⟩]).1 (.cp 0) 7 = none := by decide

end CpProofs.C10
