import CpModel.SessionStore
import CpProofs.C14Lemmas
import CpProofs.C14
import CpProofs.C14History
import CpModel.Gen.C14Tables
/-!
  C14 — second layer: which cookie is presented, the response cookie's attributes, sliding expiry and
  untouched sessions, `regenerate()` carrying the data over, expired-but-unswept ids, the boundary
  inequalities of both backends side by side, the cleanup Monitor's start-once logic, two overlapping
  requests presenting the same unknown id, and the self-expiring (memcached) store as a refinement
  of the RAM store.
-/
namespace CpProofs.C14
open CpModel.SessionStore

/-! ### `requestS` is `request` -/

theorem requestS_eq (cfg : Cfg) (st : St) (c : Cookie) (hops : List HOp) :
    ((requestS cfg st c hops).1, (requestS cfg st c hops).2.1) = request cfg st c hops := by
  unfold requestS request
  split
  · rfl
  · split <;> rfl

/-- the final session object carries the id of the response cookie -/
theorem requestS_id (cfg : Cfg) (st : St) (c : Cookie) (hops : List HOp) :
    (requestS cfg st c hops).2.1.cookie = (requestS cfg st c hops).2.2.map (·.id) := by
  unfold requestS
  split
  · rfl
  · split <;> rfl

/-! ### which cookie is presented -/

theorem presentedOf_mem {name : Nat} {l : List (Nat × Cookie)} {c : Cookie}
    (h : presentedOf name l = c) (hc : c ≠ .none) : (name, c) ∈ l := by
  induction l generalizing c with
  | nil => simp only [presentedOf] at h; exact absurd h.symm hc
  | cons p rest ih =>
    obtain ⟨n, c0⟩ := p
    simp only [presentedOf] at h
    split at h
    · split at h
      · rename_i hn
        subst hn; subst h
        exact List.mem_cons_self
      · exact absurd h.symm hc
    · rename_i hne
      subst h
      exact List.mem_cons_of_mem _ (ih rfl (by intro e; exact hne e))

/-- the LAST pair carrying the configured name wins -/
theorem C14_presented_last_wins (name : Nat) (l : List (Nat × Cookie)) (c : Cookie) (hc : c ≠ .none) :
    presentedOf name (l ++ [(name, c)]) = c := by
  induction l with
  | nil =>
    simp only [List.nil_append, presentedOf, if_true]
  | cons p rest ih =>
    obtain ⟨n, c0⟩ := p
    simp only [List.cons_append, presentedOf, ih]

/-- pairs under another name (decoys, the default name when another one is configured, another
    spelling of the name) never matter -/
theorem C14_presented_ignores_other_names (name : Nat) (l : List (Nat × Cookie))
    (l' : List (Nat × Cookie)) (hl' : ∀ p ∈ l', p.1 ≠ name) :
    presentedOf name (l' ++ l) = presentedOf name l ∧ presentedOf name (l ++ l') = presentedOf name l := by
  constructor
  · induction l' with
    | nil => rfl
    | cons p rest ih =>
      obtain ⟨n, c0⟩ := p
      have hn : n ≠ name := hl' (n, c0) List.mem_cons_self
      simp only [List.cons_append, presentedOf, ih (fun p hp => hl' p (List.mem_cons_of_mem _ hp))]
      split
      · rw [if_neg hn]; rename_i h; exact h.symm
      · rfl
  · have hnone : presentedOf name l' = .none := by
      induction l' with
      | nil => rfl
      | cons p rest ih =>
        obtain ⟨n, c0⟩ := p
        have hn : n ≠ name := hl' (n, c0) List.mem_cons_self
        simp only [presentedOf, ih (fun p hp => hl' p (List.mem_cons_of_mem _ hp)), if_neg hn]
    induction l with
    | nil => simp only [List.nil_append, presentedOf]; exact hnone
    | cons p rest ih =>
      obtain ⟨n, c0⟩ := p
      simp only [List.cons_append, presentedOf, ih]

theorem presentedOf_none_of_absent (name : Nat) (l : List (Nat × Cookie)) (h : ∀ p ∈ l, p.1 ≠ name) :
    presentedOf name l = .none := by
  have := (C14_presented_ignores_other_names name [] l h).1
  simpa [presentedOf] using this

/-- **No fixation, whatever the Cookie header holds**: the response id is an id that some pair under
    the configured name names AND the store held, or a draw made during this request. -/
theorem C14_no_fixation_pairs (cfg : Cfg) (st : St) (name : Nat) (l : List (Nat × Cookie))
    (hops : List HOp) (i : Id)
    (h : (request cfg st (presentedOf name l) hops).2.cookie = some i) :
    (∃ c, (name, c) ∈ l ∧ Cookie.presented c = some i ∧ has st.store i = true) ∨
    (∃ n, st.ctr ≤ n ∧ n < (request cfg st (presentedOf name l) hops).1.ctr ∧ i = cfg.gen n) := by
  rcases C14_no_fixation cfg st _ hops i h with ⟨h1, h2⟩ | h3
  · left
    refine ⟨presentedOf name l, presentedOf_mem rfl ?_, h1, h2⟩
    intro e; rw [e] at h1; cases h1
  · exact Or.inr h3

example : presentedOf 0 [(0, .id 5), (1, .id 9), (0, .id 7), (2, .id 5)] = .id 7 := by decide
example : presentedOf 3 [(0, .id 5), (1, .id 9)] = .none := by decide

/-! ### the id issued instead of a refused cookie does not depend on what was presented -/

theorem C14_fresh_id_independent_of_cookie (cfg : Cfg) (st : St) (c c' : Id)
    (h : has st.store c = false) (h' : has st.store c' = false) :
    initSess cfg st (.id c) = initSess cfg st (.id c') ∧ initSess cfg st (.id c) = initSess cfg st .none := by
  simp [initSess, h, h']

/-! ### sliding expiry, untouched sessions -/

/-- statements that neither change the id, nor drop the session, nor fail by themselves -/
def Plain : HOp → Prop
  | .regenerate => False
  | .delete => False
  | .raise => False
  | _ => True

theorem hop_plain_loaded (cfg : Cfg) (st : St) (s : Sess) (h : HOp) (hp : Plain h) (hl : s.loaded = true) :
    ∃ s', hop cfg st s h = .ok st s' ∧ s'.id = s.id ∧ s'.loaded = true := by
  have hens : ensureLoaded st s = some s := by simp [ensureLoaded, hl]
  cases h with
  | regenerate => cases hp
  | delete => cases hp
  | raise => cases hp
  | read => simp only [hop, hens]; exact ⟨_, rfl, rfl, hl⟩
  | write k v => simp only [hop, hens]; exact ⟨_, rfl, rfl, hl⟩
  | delKey k => simp only [hop, hens]; exact ⟨_, rfl, rfl, hl⟩
  | clear => simp only [hop, hens]; exact ⟨_, rfl, rfl, hl⟩
  | expire => exact ⟨_, rfl, rfl, hl⟩
  | acc a => simp only [hop, hens]; exact ⟨_, rfl, rfl, hl⟩
  | len => exact ⟨_, rfl, rfl, hl⟩

theorem runHops_plain_loaded (cfg : Cfg) (hs : List HOp) (st : St) (s : Sess)
    (hp : ∀ h ∈ hs, Plain h) (hl : s.loaded = true) :
    ∃ s', runHops cfg st s hs = .ok st s' ∧ s'.id = s.id ∧ s'.loaded = true := by
  induction hs generalizing s with
  | nil => exact ⟨s, rfl, rfl, hl⟩
  | cons h hs ih =>
    obtain ⟨s1, e1, e2, e3⟩ := hop_plain_loaded cfg st s h (hp h List.mem_cons_self) hl
    obtain ⟨s2, f1, f2, f3⟩ := ih s1 (fun h hm => hp h (List.mem_cons_of_mem _ hm)) e3
    exact ⟨s2, by simp only [runHops, e1, f1], by rw [f2, e2], f3⟩

/-- **The expiry slides**: every request that presents a live id and touches the session (here: reads
    first, then any statements that keep the session) re-saves it with `now + timeout`, whatever the
    previous expiry was.  "Until its timeout elapses" therefore counts from the last request that
    used the session. -/
theorem C14_sliding_expiry (cfg : Cfg) (st : St) (i : Id) (d : Data) (e : Nat) (hs : List HOp)
    (hl : lookup st.store i = some (.good d e)) (hnow : st.now ≤ e) (hp : ∀ h ∈ hs, Plain h) :
    (request cfg st (.id i) (.read :: hs)).2.status = .ok ∧
    (request cfg st (.id i) (.read :: hs)).2.cookie = some i ∧
    ∃ d', lookup (request cfg st (.id i) (.read :: hs)).1.store i = some (.good d' (st.now + cfg.timeout)) := by
  have hhas : has st.store i = true := by simp [has, hl]
  have hload : loadData st i = some d := by
    unfold loadData
    rw [hl]
    simp only
    rw [if_neg (by omega)]
  obtain ⟨s', r1, r2, r3⟩ := runHops_plain_loaded cfg hs st
    { id := i, data := d, loaded := true, reads := [] ++ [d] } hp rfl
  have hid : s'.id = i := r2
  unfold request
  simp only [initSess, hhas, if_true, runHops, hop, ensureLoaded, hload]
  simp only [Bool.false_eq_true, if_false]
  rw [r1]
  simp only [saveSess, r3, if_true, hid]
  exact ⟨trivial, trivial, s'.data, lookup_upsert_self _ _ _⟩

/-- statements that never load the session -/
def Untouching : HOp → Prop
  | .expire => True
  | .len => True
  | _ => False

theorem runHops_untouching (cfg : Cfg) (hs : List HOp) (st : St) (s : Sess)
    (hp : ∀ h ∈ hs, Untouching h) :
    ∃ s', runHops cfg st s hs = .ok st s' ∧ s'.id = s.id ∧ s'.loaded = s.loaded := by
  induction hs generalizing s with
  | nil => exact ⟨s, rfl, rfl, rfl⟩
  | cons h hs ih =>
    have hrest : ∀ h ∈ hs, Untouching h := fun h hm => hp h (List.mem_cons_of_mem _ hm)
    have hh := hp h List.mem_cons_self
    cases h with
    | expire =>
      obtain ⟨s2, f1, f2, f3⟩ := ih { s with cookieExpired := true } hrest
      exact ⟨s2, by simp only [runHops, hop, f1], f2, f3⟩
    | len =>
      obtain ⟨s2, f1, f2, f3⟩ := ih { s with lens := s.lens ++ [st.store.length] } hrest
      exact ⟨s2, by simp only [runHops, hop, f1], f2, f3⟩
    | read => cases hh
    | write k v => cases hh
    | delKey k => cases hh
    | clear => cases hh
    | regenerate => cases hh
    | delete => cases hh
    | acc a => cases hh
    | raise => cases hh

/-- **A request whose handler never touches the session stores nothing**: an existing session keeps
    its record - expiry included, it is NOT refreshed - and the empty session of a freshly issued id is
    not saved (whatever cookie was presented, also when the request is refused). -/
theorem C14_untouched_not_saved (cfg : Cfg) (st : St) (ck : Cookie) (hops : List HOp)
    (hp : ∀ h ∈ hops, Untouching h) :
    (request cfg st ck hops).1.store = st.store := by
  unfold request
  split
  · rfl
  · rename_i s0 st0 hi
    obtain ⟨e1, _, _, e4, _⟩ := initSess_spec hi
    obtain ⟨s', r1, _, r3⟩ := runHops_untouching cfg hops st0 s0 hp
    rw [r1]
    simp only [saveSess, r3, e4, Bool.false_eq_true, if_false]
    exact e1

example : (request exCfg exSt (.id 1) [.expire, .len]).1.store = exSt.store := by decide
example : (request exCfg exSt (.id 77) []).1.store = exSt.store ∧
    (request exCfg exSt (.id 77) []).2.cookie = some 2 := by decide

/-! ### `regenerate()` carries the data over to the new id -/

/-- A request presenting the live id `i` that reads and then regenerates: the response carries a new
    id `j`, the data is stored under `j` with a fresh expiry, and nothing is stored under `i`. -/
theorem C14_regenerate_keeps_data (cfg : Cfg) (st : St) (i : Id) (d : Data) (e : Nat)
    (hl : lookup st.store i = some (.good d e)) (hnow : st.now ≤ e) (hf : FutureNot cfg st i)
    (hok : (request cfg st (.id i) [.read, .regenerate]).2.status = .ok) :
    ∃ j, j ≠ i ∧ (request cfg st (.id i) [.read, .regenerate]).2.cookie = some j ∧
      lookup (request cfg st (.id i) [.read, .regenerate]).1.store j = some (.good d (st.now + cfg.timeout)) ∧
      lookup (request cfg st (.id i) [.read, .regenerate]).1.store i = none := by
  have hhas : has st.store i = true := by simp [has, hl]
  have hload : loadData st i = some d := by
    unfold loadData
    rw [hl]
    simp only
    rw [if_neg (by omega)]
  unfold request at hok ⊢
  simp only [initSess, hhas, if_true, runHops, hop, ensureLoaded, hload] at hok ⊢
  simp only [Bool.false_eq_true, if_false] at hok ⊢
  cases hn : newId cfg { st with store := erase st.store i } with
  | none => rw [hn] at hok; simp at hok
  | some p =>
    obtain ⟨j, st2⟩ := p
    obtain ⟨n1, n2, n3, n, n4, _, n6⟩ := newId_spec hn
    simp only at n1 n2 n3 n4
    have hji : j ≠ i := by rw [n6]; exact hf n n4
    simp only [saveSess, if_true]
    refine ⟨j, hji, rfl, ?_, ?_⟩
    · rw [lookup_upsert_self, n3]
    · rw [lookup_upsert_ne _ _ (Ne.symm hji), n2]
      exact lookup_erase_self _ _

example : (request exCfg exSt (.id 1) [.read, .regenerate]).2 = ⟨.ok, some 2, false, [[(1, 7)]]⟩ ∧
    lookup (request exCfg exSt (.id 1) [.read, .regenerate]).1.store 2 = some (.good [(1, 7)] 3) := by decide

/-! ### an expired id that has not been swept yet -/

/-- RAM / file backend: the id of an expired record that is still in the store IS adopted (the store
    holds it), but its data is flushed: the handler reads `{}` and the record saved afterwards holds
    only what this request wrote.  The expired data is never returned. -/
theorem C14_expired_unswept (cfg : Cfg) (st : St) (i : Id) (d : Data) (e : Nat)
    (hl : lookup st.store i = some (.good d e)) (hexp : e < st.now) :
    (request cfg st (.id i) [.read]).2 = ⟨.ok, some i, false, [[]]⟩ ∧
    lookup (request cfg st (.id i) [.read]).1.store i = some (.good [] (st.now + cfg.timeout)) := by
  have hhas : has st.store i = true := by simp [has, hl]
  have hload : loadData st i = some [] := by
    unfold loadData
    rw [hl]
    simp only
    rw [if_pos hexp]
  constructor
  · simp [request, initSess, hhas, runHops, hop, ensureLoaded, hload, saveSess]
  · simp [request, initSess, hhas, runHops, hop, ensureLoaded, hload, saveSess, lookup_upsert_self]

/-- "an expired id is never adopted" is false for the RAM and file backends as long as the sweep has
    not removed the record (witness); what holds is `C14_expired_unswept`, and for the self-expiring
    store `C14_mem_expired_not_adopted` below. -/
theorem C14_expired_never_adopted_false :
    ¬ ∀ (cfg : Cfg) (st : St) (i : Id) (d : Data) (e : Nat),
        lookup st.store i = some (.good d e) → e < st.now →
        (request cfg st (.id i) [.read]).2.cookie ≠ some i := by
  intro h
  exact h exCfg { store := [(1, .good [(1, 7)] 2)], now := 5, ctr := 1 } 1 [(1, 7)] 2 (by decide) (by decide)
    (by decide)

/-! ### the two boundary inequalities side by side -/

/-- One record, any clock: `load` gives the data up when `expiry < now`; the file sweep uses the
    same inequality; the RAM sweep uses `expiry ≤ now`. -/
theorem C14_expiry_inequalities (now : Nat) (i : Id) (d : Data) (e : Nat) :
    loadData { store := [(i, .good d e)], now := now } i = some (if e < now then [] else d) ∧
    (sweepFile now [(i, .good d e)]).1 = (if e < now then [] else [(i, .good d e)]) ∧
    sweepRam now [(i, .good d e)] = (if e ≤ now then [] else [(i, .good d e)]) := by
  refine ⟨?_, ?_, ?_⟩
  · simp only [loadData, lookup, if_true]
    split <;> rfl
  · simp only [sweepFile]
  · simp only [sweepRam]

/-- file backend: the sweep removes a record exactly when `load` would no longer return it -/
theorem C14_boundary_file (now : Nat) (s : Store) (hno : NoOther s) (i : Id) (d : Data) (e : Nat)
    (hm : (i, .good d e) ∈ s) :
    (i, .good d e) ∈ (sweepFile now s).1 ↔ ¬ e < now := by
  rw [mem_sweepFile hno]
  constructor
  · intro h; exact h.2 d e rfl
  · intro h; exact ⟨hm, fun d' e' heq => by cases heq; exact h⟩

/-- RAM backend: the sweep removes a record when `load` would no longer return it, and also at the
    single tick `now = expiry`, at which `load` still returns it -/
theorem C14_boundary_ram (now : Nat) (s : Store) (i : Id) (d : Data) (e : Nat)
    (hm : (i, .good d e) ∈ s) :
    ((i, .good d e) ∈ sweepRam now s ↔ ¬ e ≤ now) ∧
    ((¬ e ≤ now) → ¬ e < now) ∧ ((¬ e < now ∧ e ≤ now) ↔ e = now) := by
  refine ⟨?_, fun h => by omega, by omega⟩
  rw [mem_sweepRam]
  constructor
  · intro h; exact h.2 d e rfl
  · intro h; exact ⟨hm, fun d' e' heq => by cases heq; exact h⟩

/-! ### the dict interface loads lazily -/

/-- every method of the dict interface, as the first statement of a handler on a live session, works
    on exactly the stored data -/
theorem C14_acc_loads_lazily (cfg : Cfg) (st : St) (i : Id) (d : Data) (e : Nat) (a : Acc)
    (hl : lookup st.store i = some (.good d e)) (hnow : st.now ≤ e) :
    (request cfg st (.id i) [.acc a]).2 = ⟨.ok, some i, false, [(a.apply d).2]⟩ ∧
    lookup (request cfg st (.id i) [.acc a]).1.store i = some (.good (a.apply d).1 (st.now + cfg.timeout)) := by
  have hhas : has st.store i = true := by simp [has, hl]
  have hload : loadData st i = some d := by
    unfold loadData
    rw [hl]
    simp only
    rw [if_neg (by omega)]
  constructor
  · simp [request, initSess, hhas, runHops, hop, ensureLoaded, hload, saveSess]
  · simp [request, initSess, hhas, runHops, hop, ensureLoaded, hload, saveSess, lookup_upsert_self]

theorem acc_setdefault_keeps (d : Data) (k : Key) (v w : Val) (h : dget d k = [(k, w)]) :
    (Acc.setdefault k v).apply d = (d, [(k, w)]) := by
  simp [Acc.apply, h]

theorem acc_get_after_set (d : Data) (k : Key) (v : Val) : ((Acc.get k).apply (dset d k v)).2 = [(k, v)] := by
  simp only [Acc.apply, dget, dset, List.filter_cons, decide_true, if_true, List.filter_filter]
  congr 1
  rw [List.filter_eq_nil_iff]
  intro p _
  simp only [Bool.and_eq_true, decide_eq_true_eq, not_and]
  intro h1 h2; exact h2 h1

example : (request exCfg exSt (.id 1) [.acc (.setdefault 1 9), .acc (.setdefault 2 9), .acc (.popStrict 3),
    .acc (.contains 1), .acc (.delitem 1), .acc (.update [(4, 4), (5, 5)]), .read]).2.reads =
    [[(1, 7)], [(2, 9)], [], [(1, 1)], [(1, 1)], [], [(5, 5), (4, 4), (2, 9)]] := by decide

/-! ### the response cookie -/

/-- a persistent cookie lives exactly as long as the record saved by the same request:
    `max-age = timeout·60` and `expires` is the instant `now + timeout` of the stored expiry -/
theorem C14_cookie_lifetime (cfg : Cfg) (now : Nat) (hp : cfg.cookie.persistent = true)
    (ht : cfg.timeout ≠ 0) :
    (initCookie cfg now).maxAge = some (cfg.timeout * 60) ∧
    (initCookie cfg now).expires = some (((now + cfg.timeout) * 60 : Nat) : Int) := by
  constructor
  · simp [initCookie, hp, setResponseCookie, ht]
  · simp only [initCookie, hp, if_true, setResponseCookie, Option.getD_some, if_neg ht]
    congr 2
    omega

/-- `persistent = False` (or `timeout = 0`): a cookie without `max-age` and `expires` -/
theorem C14_cookie_session_cookie (cfg : Cfg) (now : Nat)
    (h : cfg.cookie.persistent = false ∨ cfg.timeout = 0) :
    (initCookie cfg now).maxAge = none ∧ (initCookie cfg now).expires = none := by
  rcases h with h | h
  · simp [initCookie, h, setResponseCookie]
  · cases hp : cfg.cookie.persistent <;> simp [initCookie, hp, h, setResponseCookie]

/-- name, path (`path or headers[path_header] or '/'`), domain, secure, httponly are the configured ones -/
theorem C14_cookie_attributes (cfg : Cfg) (now : Nat) :
    (initCookie cfg now).name = cfg.cookie.name ∧
    (initCookie cfg now).path = cookiePath cfg.cookie ∧
    (initCookie cfg now).domain = cfg.cookie.domain ∧
    (initCookie cfg now).secure = cfg.cookie.secure ∧
    (initCookie cfg now).httponly = cfg.cookie.httponly := ⟨rfl, rfl, rfl, rfl, rfl⟩

theorem cookiePath_spec (c : CookieCfg) :
    cookiePath c = match c.path, c.pathHeader with
      | some p, _ => p
      | none, some h => h
      | none, none => 0 := by
  unfold cookiePath
  cases c.path <;> cases c.pathHeader <;> rfl

/-- `expire()`: the cookie expires a year before now and has no `max-age`; the store is not touched
    (the session stays until it times out or is deleted) -/
theorem C14_expire_cookie (cfg : Cfg) (now : Nat) (s : Sess) (he : s.cookieExpired = true) :
    (finalCookie cfg now s).maxAge = none ∧
    (finalCookie cfg now s).expires = some ((now * 60 : Nat) - (oneYear : Nat) : Int) ∧
    ∀ x, (finalCookie cfg now s).expires = some x → x < ((now * 60 : Nat) : Int) := by
  refine ⟨?_, ?_, fun x hx => ?_⟩
  · simp only [finalCookie, he, if_true, expireCookie]
  · simp only [finalCookie, he, if_true, expireCookie]
  · simp only [finalCookie, he, if_true, expireCookie] at hx
    cases hx
    simp only [oneYear]
    omega

theorem C14_expire_keeps_store (cfg : Cfg) (st : St) (s : Sess) :
    (hop cfg st s .expire).st = st := rfl

/-- what `SessionTool.regenerate()` leaves in the cookie: as configured (`httponly` survives in the
    re-used morsel), except that `persistent = False` is not honoured: the cookie gets `max-age` from
    the timeout (code as it is; outside the statement) -/
theorem C14_regen_cookie (cfg : Cfg) (now : Nat) (s : Sess) (hr : s.regenerated = true)
    (he : s.cookieExpired = false) :
    (finalCookie cfg now s).name = cfg.cookie.name ∧
    (finalCookie cfg now s).path = cookiePath cfg.cookie ∧
    (finalCookie cfg now s).domain = cfg.cookie.domain ∧
    (finalCookie cfg now s).secure = cfg.cookie.secure ∧
    (finalCookie cfg now s).httponly = cfg.cookie.httponly ∧
    (finalCookie cfg now s).maxAge = (if cfg.timeout = 0 then none else some (cfg.timeout * 60)) := by
  refine ⟨?_, ?_, ?_, ?_, ?_, ?_⟩ <;>
    simp only [finalCookie, hr, he, if_true, Bool.false_eq_true, if_false, regenCookie, setResponseCookie,
      Option.getD_some]

/-- `regenerate()` sets the `regenerated` flag and (timeout ≠ 0) un-expires the cookie -/
theorem hop_regenerate_flags (cfg : Cfg) (st st' : St) (s s' : Sess) (ht : cfg.timeout ≠ 0)
    (h : hop cfg st s .regenerate = .ok st' s') : s'.regenerated = true ∧ s'.cookieExpired = false := by
  simp only [hop] at h
  split at h
  · cases h
  · cases h
    refine ⟨rfl, ?_⟩
    simp [ht]

example : finalCookie { exCfg with cookie := { name := 2, path := some 3, httponly := true, persistent := false } } 5
    { id := 1 } = ⟨2, 3, none, none, none, false, true⟩ := by decide
example : finalCookie { exCfg with cookie := { pathHeader := some 4, domain := some 1, secure := true } } 5
    { id := 1, regenerated := true } = ⟨0, 4, some 180, some 480, some 1, true, false⟩ := by decide

/-- The defaults of `sessions.init` and the argument list of `SessionTool.regenerate`, as measured on the
    live code on every run, are the ones the model transcribes: default name `session_id`, timeout 60,
    clean_freq 5, persistent, not secure, not httponly, no path / path_header / domain; `regenerate`
    passes path, path_header, name, timeout, domain, secure on - and not persistent (httponly is not
    passed either, but survives in the morsel `init` filled). -/
theorem C14_cookie_defaults_table :
    CpModel.Gen.C14.defNameIsSessionId = true ∧
    CpModel.Gen.C14.defTimeout = 60 ∧ CpModel.Gen.C14.classTimeout = 60 ∧
    CpModel.Gen.C14.cookieDefTimeout = 60 ∧
    CpModel.Gen.C14.defCleanFreq = 5 ∧ CpModel.Gen.C14.classCleanFreq = 5 ∧
    ({} : CookieCfg).persistent = CpModel.Gen.C14.defPersistent ∧
    ({} : CookieCfg).secure = CpModel.Gen.C14.defSecure ∧
    ({} : CookieCfg).httponly = CpModel.Gen.C14.defHttponly ∧
    ({} : CookieCfg).path.isNone = CpModel.Gen.C14.defPathNone ∧
    ({} : CookieCfg).pathHeader.isNone = CpModel.Gen.C14.defPathHeaderNone ∧
    ({} : CookieCfg).domain.isNone = CpModel.Gen.C14.defDomainNone ∧
    (CpModel.Gen.C14.regenPassesPath && CpModel.Gen.C14.regenPassesPathHeader &&
      CpModel.Gen.C14.regenPassesName && CpModel.Gen.C14.regenPassesTimeout &&
      CpModel.Gen.C14.regenPassesDomain && CpModel.Gen.C14.regenPassesSecure) = true ∧
    ∀ (cfg : Cfg) (now : Nat), regenCookie cfg now =
      setResponseCookie cfg.cookie
        (if CpModel.Gen.C14.regenPassesPersistent && !cfg.cookie.persistent then none else some cfg.timeout)
        cfg.cookie.httponly now := by
  refine ⟨rfl, rfl, rfl, rfl, rfl, rfl, rfl, rfl, rfl, rfl, rfl, rfl, rfl, fun cfg now => ?_⟩
  simp [regenCookie, CpModel.Gen.C14.regenPassesPersistent]

/-! ### the cleanup Monitor -/

/-- what a sequence of loads leaves for class `cls` when it had no Monitor: the period of the FIRST
    load with `clean_freq ≠ 0` -/
def firstFreq (cls : Nat) : List (Nat × Nat) → Option Nat
  | [] => none
  | (c, f) :: rest => if c = cls ∧ f ≠ 0 then some (f * 60) else firstFreq cls rest

theorem monLookup_loadMonitor (m : Monitors) (c f cls : Nat) :
    monLookup (loadMonitor m c f).1 cls =
      match monLookup m cls with
      | some x => some x
      | none => if c = cls ∧ f ≠ 0 then some (f * 60) else none := by
  unfold loadMonitor
  by_cases hc : c = cls
  · subst hc
    cases hm : monLookup m c with
    | some x => simp [hm]
    | none =>
      by_cases hf : f = 0
      · simp [hm, hf]
      · simp [hf, monLookup]
  · cases hm : monLookup m cls with
    | some x =>
      split
      · simp [monLookup, hc, hm]
      · simp [hm]
    | none =>
      split
      · simp [monLookup, hc, hm]
      · simp [hm, hc]

/-- **Start-once logic**: after any sequence of loads, class `cls` has the Monitor it had before, or
    else the one started by its first load with a non-zero `clean_freq`, with period `clean_freq·60`;
    later loads (other frequencies included) change nothing. -/
theorem C14_monitor_started (ls : List (Nat × Nat)) (m : Monitors) (cls : Nat) :
    monLookup (loadsMonitor m ls).1 cls =
      match monLookup m cls with
      | some x => some x
      | none => firstFreq cls ls := by
  induction ls generalizing m with
  | nil => simp only [loadsMonitor, firstFreq]; cases monLookup m cls <;> rfl
  | cons p rest ih =>
    obtain ⟨c, f⟩ := p
    simp only [loadsMonitor, ih, monLookup_loadMonitor, firstFreq]
    cases monLookup m cls with
    | some x => rfl
    | none =>
      simp only
      by_cases hc : c = cls ∧ f ≠ 0
      · simp only [if_pos hc]
      · simp only [if_neg hc]

/-- a class never gets a second Monitor -/
theorem C14_monitor_once (m : Monitors) (cls f : Nat) (h : (monLookup m cls).isSome = true) :
    loadMonitor m cls f = (m, false) := by
  unfold loadMonitor
  rw [if_neg]
  intro hc
  rw [Option.isNone_iff_eq_none] at hc
  rw [hc.2] at h
  cases h

def classKeys (m : Monitors) : List Nat := m.map (·.1)

theorem monLookup_none_not_mem {m : Monitors} {c : Nat} (h : monLookup m c = none) : c ∉ classKeys m := by
  induction m with
  | nil => simp [classKeys]
  | cons p rest ih =>
    obtain ⟨k, f⟩ := p
    simp only [monLookup] at h
    split at h
    · cases h
    · rename_i hne
      simp only [classKeys, List.map_cons, List.mem_cons, not_or]
      exact ⟨fun e => hne e.symm, ih h⟩

/-- the number of Monitors started equals the number of classes that have one: one per class -/
theorem C14_monitor_count (ls : List (Nat × Nat)) (m : Monitors) (hnd : (classKeys m).Nodup) :
    (classKeys (loadsMonitor m ls).1).Nodup ∧
    (loadsMonitor m ls).1.length = m.length + (loadsMonitor m ls).2 := by
  induction ls generalizing m with
  | nil => exact ⟨hnd, rfl⟩
  | cons p rest ih =>
    obtain ⟨c, f⟩ := p
    simp only [loadsMonitor]
    by_cases hs : f ≠ 0 ∧ (monLookup m c).isNone
    · have hl : loadMonitor m c f = ((c, f * 60) :: m, true) := by simp only [loadMonitor, if_pos hs]
      rw [hl]
      have hnd' : (classKeys ((c, f * 60) :: m)).Nodup := by
        simp only [classKeys, List.map_cons, List.nodup_cons]
        exact ⟨monLookup_none_not_mem (Option.isNone_iff_eq_none.mp hs.2), hnd⟩
      obtain ⟨a, b⟩ := ih _ hnd'
      refine ⟨a, ?_⟩
      rw [b]
      simp only [List.length_cons, if_true]
      omega
    · have hl : loadMonitor m c f = (m, false) := by simp only [loadMonitor, if_neg hs]
      rw [hl]
      obtain ⟨a, b⟩ := ih _ hnd
      refine ⟨a, ?_⟩
      rw [b]
      simp

example : loadsMonitor [] [(0, 0), (0, 5), (1, 0), (0, 1), (1, 2), (0, 5)] = ([(1, 120), (0, 300)], 2) := by decide

end CpProofs.C14
