import CpProofs.C12
/-!
  C12 (round 2) — the access log: custom formats, and the escaping WITH the proposed backslash
  guard (`logEscapeGuarded`, proposed fix C12-access-log-backslash-guard).

  `CpProofs.C12.C12_log_quote_strong_false` shows that the code as it is violates the strong reading
  of "double quotes are escaped" (F13).  Here: with the guard the strong reading holds for EVERY
  atom, and for every entry rendered with a format whose literal text has no backslash — a reader
  that takes `\\` for a backslash and `\"` for a quote finds exactly the quotes the format wrote.
-/
set_option linter.unusedSimpArgs false
set_option linter.unnecessarySimpa false

namespace CpProofs.C12
open CpModel.HeaderEnc CpModel.Escape CpModel.Gen.C12

/-! ### custom `access_log_format` -/

/-- **C12_log_custom_format_single_line**: for EVERY format whose literal text is printable ASCII
    (whatever fields it uses, `{o}`, `{i}`, `{z}` included) and every atom values, the entry is
    printable ASCII: one line, no raw control or non-ASCII byte. -/
theorem C12_log_custom_format_single_line (fmt : List Piece) (hl : litsPrintable fmt = true)
    (atoms : List (Text × Text)) (out : List (Char × Bool))
    (h : accessLineWithMarked logEscape fmt atoms = some out) :
    ∀ p ∈ out, Printable p.1 ∧ p.1 ≠ '\n' ∧ p.1 ≠ '\r' := by
  intro p hp
  have hp' := renderMarked_all logEscape Printable logEscape_printable atoms fmt
    (litsPrintable_spec _ hl) out h p hp
  refine ⟨hp', ?_, ?_⟩
  · intro h'; rw [h'] at hp'; revert hp'; decide
  · intro h'; rw [h'] at hp'; revert hp'; decide

/-- non-vacuity: a custom format with the Host atom, and a Host holding CR LF and a quote -/
example : litsPrintable [.lit ['"'], .field ['o'], .lit ['"', ' '], .field ['i']] = true ∧
    (accessLineWithMarked logEscape [.lit ['"'], .field ['o'], .lit ['"', ' '], .field ['i']]
      [(['o'], ['a', '\r', '\n', '"']), (['i'], ['7'])]).map (fun l => l.map Prod.fst) =
      some ['"', 'a', '\\', 'r', '\\', 'n', '\\', '"', '"', ' ', '7'] := by
  decide +kernel

/-! ### the guard makes the strong reading true -/

/-- on the atom BEFORE escaping: every double quote and the end of the text are preceded by an even
    number of backslashes (`par` = the run so far is odd) -/
def goodAux : Bool → Text → Bool
  | par, [] => !par
  | par, c :: rest =>
    if c = '\\' then goodAux (!par) rest
    else if c = '"' then !par && goodAux false rest
    else goodAux false rest

/-- the guard establishes it, for every text -/
theorem guard_good (s : Text) :
    ∀ par, (par = true → runEndsAtQuote s = false) → goodAux par (guardBackslashes s) = true := by
  induction s with
  | nil =>
    intro par h
    cases par with
    | false => rfl
    | true => exact absurd (h rfl) (by decide)
  | cons c rest ih =>
    intro par h
    by_cases hb : c = '\\'
    · subst hb
      by_cases hr : runEndsAtQuote rest = true
      · have hpar : par = false := by
          cases par with
          | false => rfl
          | true =>
            have := h rfl
            simp [runEndsAtQuote, hr] at this
        subst hpar
        simp only [guardBackslashes, hr, and_self, ite_true, goodAux, Bool.not_false, Bool.not_true]
        exact ih false (by intro h'; cases h')
      · have hr' : runEndsAtQuote rest = false := by simpa using hr
        simp only [guardBackslashes, hr', and_false, ite_false, goodAux, ite_true]
        exact ih (!par) (fun _ => hr')
    · by_cases hq : c = '"'
      · subst hq
        have hpar : par = false := by
          cases par with
          | false => rfl
          | true =>
            have := h rfl
            simp [runEndsAtQuote] at this
        subst hpar
        simp only [guardBackslashes, goodAux]
        simp only [show ('"' = '\\') = False from by decide, false_and, ite_false, ite_true,
          Bool.not_false, Bool.true_and]
        exact ih false (by intro h'; cases h')
      · simp only [guardBackslashes, hb, false_and, ite_false, goodAux, hq]
        exact ih false (by intro h'; cases h')

/-- scanner over the `repr` text: how many backslashes of the current run `str.replace('\\\\','\\')`
    will have written (parity), and whether half a pair is pending:
    `e` even / `eh` even + one pending / `o` odd / `oh` odd + one pending -/
inductive S4 where
  | e | eh | o | oh
  deriving DecidableEq

/-- `none` = a quote the reader would see bare (the written run before it is even) -/
def run4 : S4 → Text → Option S4
  | st, [] => some st
  | .e, c :: rest => if c = '\\' then run4 .eh rest else if c = '"' then none else run4 .e rest
  | .eh, c :: rest => if c = '\\' then run4 .o rest else run4 .e rest
  | .o, c :: rest => if c = '\\' then run4 .oh rest else run4 .e rest
  | .oh, c :: rest => if c = '\\' then run4 .e rest else if c = '"' then none else run4 .e rest

theorem run4_append (t l : Text) :
    ∀ st, run4 st (t ++ l) = (run4 st t).bind fun st' => run4 st' l := by
  induction t with
  | nil => intro st; simp [run4]
  | cons c rest ih =>
    intro st
    cases st <;> simp only [List.cons_append, run4] <;> (repeat' split) <;> simp [ih]

/-- the strong reading INCLUDING the end: every double quote is preceded by an odd number of
    backslashes and the text ends with an even number of them (so a quote the format writes next
    is read as a delimiter) -/
def strongEvenAux : Bool → Text → Bool
  | odd, [] => !odd
  | odd, c :: rest => (c != '"' || odd) && strongEvenAux (c == '\\' && !odd) rest

def StrongClosed (l : Text) : Prop := strongEvenAux false l = true

theorem strongEven_strong (l : Text) : ∀ odd, strongEvenAux odd l = true → strongAux odd l = true := by
  induction l with
  | nil => intro _ _; rfl
  | cons c rest ih =>
    intro odd h
    simp only [strongEvenAux, Bool.and_eq_true] at h
    simp only [strongAux, Bool.and_eq_true]
    exact ⟨h.1, ih _ h.2⟩

/-- what the scanner accepts (ending in state `e`), `str.replace('\\\\', '\\')` turns into text that
    satisfies the strong reading -/
theorem undouble_strongEven (l : Text) :
    (run4 .e l = some .e → strongEvenAux false (undouble l) = true) ∧
    (run4 .o l = some .e → strongEvenAux true (undouble l) = true) ∧
    (run4 .eh l = some .e → (∀ rest, l ≠ '\\' :: rest) → strongEvenAux true (undouble l) = true) ∧
    (run4 .oh l = some .e → (∀ rest, l ≠ '\\' :: rest) → strongEvenAux false (undouble l) = true) := by
  fun_induction undouble l with
  | case1 => simp [run4, strongEvenAux]
  | case2 c =>
    refine ⟨?_, ?_, ?_, ?_⟩
    · intro h
      by_cases h1 : c = '\\'
      · subst h1; simp [run4] at h
      · by_cases h2 : c = '"'
        · subst h2; simp [run4] at h
        · simp [strongEvenAux, h1, h2]
    · intro h
      by_cases h1 : c = '\\'
      · subst h1; simp [run4] at h
      · simp [strongEvenAux, h1]
    · intro h hne
      have h1 : c ≠ '\\' := fun hc => hne [] (by rw [hc])
      simp [strongEvenAux, h1]
    · intro h hne
      have h1 : c ≠ '\\' := fun hc => hne [] (by rw [hc])
      by_cases h2 : c = '"'
      · subst h2; simp [run4] at h
      · simp [strongEvenAux, h1, h2]
  | case3 a b rest hab ih =>
    obtain ⟨rfl, rfl⟩ := hab
    refine ⟨?_, ?_, ?_, ?_⟩
    · intro h
      have h' : run4 .o rest = some .e := by simpa [run4] using h
      have := ih.2.1 h'
      simp [strongEvenAux, this]
    · intro h
      have h' : run4 .e rest = some .e := by simpa [run4] using h
      have := ih.1 h'
      simp [strongEvenAux, this]
    · intro _ hne; exact absurd rfl (hne _)
    · intro _ hne; exact absurd rfl (hne _)
  | case4 a b rest hab ih =>
    refine ⟨?_, ?_, ?_, ?_⟩
    · intro h
      by_cases h1 : a = '\\'
      · subst h1
        have hb : b ≠ '\\' := fun hb => hab ⟨rfl, hb⟩
        have h' : run4 .eh (b :: rest) = some .e := by simpa [run4] using h
        have := ih.2.2.1 h' (fun r hr => hb (by cases hr; rfl))
        simp [strongEvenAux, this]
      · by_cases h2 : a = '"'
        · subst h2; simp [run4] at h
        · have h' : run4 .e (b :: rest) = some .e := by simpa [run4, h1, h2] using h
          have := ih.1 h'
          have e : (a == '\\') = false := by simp [h1]
          simp [strongEvenAux, h2, e, this]
    · intro h
      by_cases h1 : a = '\\'
      · subst h1
        have hb : b ≠ '\\' := fun hb => hab ⟨rfl, hb⟩
        have h' : run4 .oh (b :: rest) = some .e := by simpa [run4] using h
        have := ih.2.2.2 h' (fun r hr => hb (by cases hr; rfl))
        simp [strongEvenAux, this]
      · have h' : run4 .e (b :: rest) = some .e := by simpa [run4, h1] using h
        have := ih.1 h'
        have e : (a == '\\') = false := by simp [h1]
        simp [strongEvenAux, e, this]
    · intro h hne
      have h1 : a ≠ '\\' := fun hc => hne (b :: rest) (by rw [hc])
      have h' : run4 .e (b :: rest) = some .e := by simpa [run4, h1] using h
      have := ih.1 h'
      have e : (a == '\\') = false := by simp [h1]
      simp [strongEvenAux, e, this]
    · intro h hne
      have h1 : a ≠ '\\' := fun hc => hne (b :: rest) (by rw [hc])
      by_cases h2 : a = '"'
      · subst h2; simp [run4, h1] at h
      · have h' : run4 .e (b :: rest) = some .e := by simpa [run4, h1, h2] using h
        have := ih.1 h'
        have e : (a == '\\') = false := by simp [h1]
        simp [strongEvenAux, h2, e, this]

/-- a byte that is neither `"` nor `\` is written as a token after which the scanner is in `e`,
    from either whole-pair state -/
theorem reprByte_run4 :
    ∀ b, b < 256 → b ≠ 34 → b ≠ 92 →
      run4 .e (reprByte 39 b) = some .e ∧ run4 .e (reprByte 34 b) = some .e ∧
      run4 .o (reprByte 39 b) = some .e ∧ run4 .o (reprByte 34 b) = some .e := by
  decide +kernel

theorem flatMap_reprByte_run4 (q : Nat) (hq : q = 34 ∨ q = 39) (bs : List Nat)
    (h : ∀ b ∈ bs, b < 256 ∧ b ≠ 34 ∧ b ≠ 92) (hne : bs ≠ []) :
    run4 .e (bs.flatMap (reprByte q)) = some .e ∧ run4 .o (bs.flatMap (reprByte q)) = some .e := by
  induction bs with
  | nil => exact absurd rfl hne
  | cons b rest ih =>
    have hb := h b (by simp)
    have hrun := reprByte_run4 b hb.1 hb.2.1 hb.2.2
    have hrest : run4 .e (rest.flatMap (reprByte q)) = some .e := by
      by_cases hr : rest = []
      · subst hr; rfl
      · exact (ih (fun x hx => h x (by simp [hx])) hr).1
    rw [List.flatMap_cons, run4_append, run4_append]
    rcases hq with rfl | rfl
    · rw [hrun.2.1, hrun.2.2.2]; exact ⟨hrest, hrest⟩
    · rw [hrun.1, hrun.2.2.1]; exact ⟨hrest, hrest⟩

theorem utf8EncodeChar_ne_nil (c : Char) : String.utf8EncodeChar c ≠ [] := by
  rcases Char.utf8Size_eq c with h | h | h | h
  · rw [String.utf8EncodeChar_eq_singleton h]; simp
  · rw [String.utf8EncodeChar_eq_cons_cons h]; simp
  · rw [String.utf8EncodeChar_eq_cons_cons_cons h]; simp
  · rw [String.utf8EncodeChar_eq_cons_cons_cons_cons h]; simp

/-- the `repr` text of a good atom is accepted; `par` ↔ the scanner starts in `o` -/
theorem repr_accepted4 (q : Nat) (s : Text)
    (hq : q = 39 ∨ (q = 34 ∧ ∀ c ∈ s, c ≠ '"')) :
    ∀ par, goodAux par s = true →
      run4 (if par then .o else .e) ((s.flatMap charBytes).flatMap (reprByte q)) = some .e := by
  induction s with
  | nil =>
    intro par h
    cases par with
    | false => rfl
    | true => simp [goodAux] at h
  | cons c t ih =>
    intro par h
    have iht := ih (hq.elim Or.inl fun h' => Or.inr ⟨h'.1, fun x hx => h'.2 x (by simp [hx])⟩)
    have hq' : q = 34 ∨ q = 39 := hq.elim Or.inr fun h' => Or.inl h'.1
    rw [List.flatMap_cons, List.flatMap_append, run4_append]
    by_cases hb : c = '\\'
    · subst hb
      have hbytes : charBytes '\\' = [92] := by decide
      have hrep : ∀ q', (q' = 34 ∨ q' = 39) → reprByte q' 92 = ['\\', '\\'] := by
        intro q' h'; rcases h' with rfl | rfl <;> decide
      rw [hbytes]
      simp only [List.flatMap_cons, List.flatMap_nil, List.append_nil, hrep q hq']
      simp only [goodAux, ite_true] at h
      have := iht (!par) h
      cases par with
      | false => simpa [run4] using this
      | true => simpa [run4] using this
    · by_cases hquote : c = '"'
      · subst hquote
        rcases hq with rfl | ⟨_, hno⟩
        · have hpar : par = false := by
            cases par with
            | false => rfl
            | true => simp [goodAux] at h
          subst hpar
          have hrun : run4 .e (List.flatMap (reprByte 39) (charBytes '"')) = some .e := by
            decide +kernel
          simp only [Bool.false_eq_true, ite_false]
          rw [hrun]
          simp only [Option.bind_some]
          have hrest : goodAux false t = true := by
            simpa [goodAux] using h
          simpa using iht false hrest
        · exact absurd rfl (hno '"' (by simp))
      · have hrest : goodAux false t = true := by
          simpa [goodAux, hb, hquote] using h
        have hbs : ∀ b ∈ charBytes c, b < 256 ∧ b ≠ 34 ∧ b ≠ 92 := by
          intro b hbm
          unfold charBytes at hbm
          rw [if_neg hquote] at hbm
          simp only [List.mem_map] at hbm
          obtain ⟨u, hu, rfl⟩ := hbm
          refine ⟨UInt8.toNat_lt u, ?_, ?_⟩
          · intro h34
            exact hquote (char_eq_of_toNat c '"'
              (by rw [utf8EncodeChar_ascii c 34 (by decide) u hu h34]; rfl))
          · intro h92
            exact hb (char_eq_of_toNat c '\\'
              (by rw [utf8EncodeChar_ascii c 92 (by decide) u hu h92]; rfl))
        have hne : charBytes c ≠ [] := by
          unfold charBytes
          rw [if_neg hquote]
          intro h'
          exact utf8EncodeChar_ne_nil c (by simpa using h')
        have hrun := flatMap_reprByte_run4 q hq' (charBytes c) hbs hne
        have := iht false hrest
        cases par with
        | false =>
          simp only [Bool.false_eq_true, ite_false]
          rw [hrun.1]; simpa using this
        | true =>
          simp only [ite_true]
          rw [hrun.2]; simpa using this

/-- **C12_log_guarded_strong**: with the proposed backslash guard, for EVERY atom text, what
    `LogManager.access` writes satisfies the strong reading: every double quote is preceded by an
    odd number of backslashes and the atom ends with an even number — so a reader that honours
    backslash escapes can neither see a quote inside the atom nor lose the quote that closes the
    field.  (The unguarded code violates this: `C12_log_quote_strong_false`, F13.) -/
theorem C12_log_guarded_strong (s : Text) :
    StrongClosed (logEscapeGuarded s) ∧ QuotesStrong (logEscapeGuarded s) := by
  have key : StrongClosed (logEscapeGuarded s) := by
    unfold StrongClosed logEscapeGuarded logEscape bytesReprBody
    apply (undouble_strongEven _).1
    rw [bytes_eq_flatMap]
    have hg := guard_good s false (by intro h; cases h)
    rcases reprQuote_cases ((guardBackslashes s).flatMap charBytes) with hq | hq
    · rw [hq]
      have hno := reprQuote_34 _ hq
      have := repr_accepted4 34 (guardBackslashes s) (Or.inr ⟨rfl, ?_⟩) false hg
      · simpa using this
      · intro c hc hcq
        subst hcq
        exact hno 34 (by
          simp only [List.mem_flatMap]
          exact ⟨'"', hc, by decide⟩) rfl
    · rw [hq]
      simpa using repr_accepted4 39 (guardBackslashes s) (Or.inl rfl) false hg
  exact ⟨key, strongEven_strong _ false key⟩

/-- the guarded escaping is still printable ASCII with every quote after a backslash (it is the
    old escaping applied to another text) -/
theorem C12_log_guarded_printable (s : Text) :
    (∀ c ∈ logEscapeGuarded s, Printable c) ∧ QuotesGuarded (logEscapeGuarded s) :=
  ⟨logEscape_printable _, C12_log_quote_guarded _⟩

/-- the F13 witnesses, guarded: `\"` is written `\\\"`, a trailing `\` as `\\` -/
example : logEscapeGuarded ['\\', '"'] = ['\\', '\\', '\\', '"'] ∧
    logEscapeGuarded ['a', '\\'] = ['a', '\\', '\\'] ∧
    logEscapeGuarded "/slashed\\path".toList = "/slashed\\path".toList := by
  decide +kernel

/-! ### the whole entry under the strong reading -/

/-- on the marked line: a quote the FORMAT wrote has an even run of backslashes before it, a quote
    from an atom an odd one; the line ends on an even run -/
def smAux : Bool → List (Char × Bool) → Bool
  | odd, [] => !odd
  | odd, (c, lit) :: rest =>
    (c != '"' || (if lit then !odd else odd)) && smAux (c == '\\' && !odd) rest

def litsNoBackslash : List Piece → Bool
  | [] => true
  | .lit s :: rest => s.all (fun c => c != '\\') && litsNoBackslash rest
  | .field _ :: rest => litsNoBackslash rest

theorem smAux_field (t : Text) (X : List (Char × Bool)) (hX : smAux false X = true) :
    ∀ odd, strongEvenAux odd t = true → smAux odd (t.map (·, false) ++ X) = true := by
  induction t with
  | nil =>
    intro odd h
    cases odd with
    | false => exact hX
    | true => simp [strongEvenAux] at h
  | cons c rest ih =>
    intro odd h
    simp only [strongEvenAux, Bool.and_eq_true] at h
    simp only [List.map_cons, List.cons_append, smAux, Bool.and_eq_true]
    exact ⟨by simpa using h.1, ih _ h.2⟩

theorem smAux_lit (s : Text) (hs : ∀ c ∈ s, c ≠ '\\') (X : List (Char × Bool))
    (hX : smAux false X = true) : smAux false (s.map (·, true) ++ X) = true := by
  induction s with
  | nil => exact hX
  | cons c rest ih =>
    have hc : c ≠ '\\' := hs c (by simp)
    have e : (c == '\\') = false := by simp [hc]
    simp only [List.map_cons, List.cons_append, smAux, e, Bool.false_and, Bool.and_eq_true]
    exact ⟨by simp, ih (fun x hx => hs x (by simp [hx]))⟩

/-- **C12_log_line_strong_guarded**: with the guard, for every format whose literal text holds no
    backslash and every atom values, in the whole entry the quotes a backslash-honouring reader
    sees bare are exactly the ones the format wrote. -/
theorem C12_log_line_strong_guarded (atoms : List (Text × Text)) :
    ∀ (fmt : List Piece) (out : List (Char × Bool)), litsNoBackslash fmt = true →
      accessLineWithMarked logEscapeGuarded fmt atoms = some out → smAux false out = true := by
  intro fmt
  induction fmt with
  | nil => intro out _ h; simp [accessLineWithMarked, renderMarked] at h; subst h; rfl
  | cons pc rest ih =>
    intro out hl h
    unfold accessLineWithMarked at h ih
    cases pc with
    | lit s =>
      simp only [litsNoBackslash, Bool.and_eq_true] at hl
      simp only [renderMarked, Option.map_eq_some_iff] at h
      obtain ⟨r, hr, rfl⟩ := h
      refine smAux_lit s ?_ r (ih r hl.2 hr)
      intro c hc
      have := List.all_eq_true.mp hl.1 c hc
      simpa using this
    | field n =>
      simp only [litsNoBackslash] at hl
      simp only [renderMarked] at h
      cases hlk : lookup atoms n with
      | none => rw [hlk] at h; cases h
      | some v =>
        cases hr : renderMarked logEscapeGuarded atoms rest with
        | none => rw [hlk, hr] at h; cases h
        | some r =>
          rw [hlk, hr] at h
          have : out = (logEscapeGuarded v).map (·, false) ++ r := by cases h; rfl
          subst this
          exact smAux_field _ r (ih r hl hr) false (C12_log_guarded_strong v).1

/-- the live default format has no backslash in its literal text (generated table) -/
theorem accessLogFormat_no_backslash : litsNoBackslash (toPieces accessLogFormat) = true := by
  decide +kernel

end CpProofs.C12
