import CpModel.Bus
/-!
  C18 — process bus: every listener runs, in order; state follows the lifecycle.

  Theorems are about `CpModel.Bus` (the transcription of `wspbus.Bus`).  They quantify over
  *all* listener lists, priorities, failure patterns and bus states; the fragment covered by
  proof is listeners without re-entrant actions (`Simple`) on a bus whose `log` listeners do
  not raise (`LogQuiet`).  Both hypotheses are explicit, have non-vacuity examples, and the
  statements that are false without them are proved false with concrete witnesses
  (`final_state_full_false`, `all_run_with_failing_log_false`).
-/
namespace CpProofs.C18
open CpModel.Bus

/-! ### the priority sort -/

theorem insertByPrio_perm (a : Listener) (l : List Listener) :
    (insertByPrio a l).Perm (a :: l) := by
  induction l with
  | nil => exact List.Perm.refl _
  | cons y ys ih =>
    simp only [insertByPrio]
    split
    · exact List.Perm.refl _
    · exact (List.Perm.cons y ih).trans (List.Perm.swap a y ys)

/-- `sorted(...)` invokes exactly the subscribed listeners, each exactly once. -/
theorem sortByPrio_perm (l : List Listener) : (sortByPrio l).Perm l := by
  induction l with
  | nil => exact List.Perm.refl _
  | cons x xs ih => exact (insertByPrio_perm x _).trans (List.Perm.cons x ih)

def Sorted : List Listener → Prop
  | [] => True
  | [_] => True
  | a :: b :: rest => a.prio ≤ b.prio ∧ Sorted (b :: rest)

theorem insertByPrio_sorted (a : Listener) (l : List Listener) (h : Sorted l) :
    Sorted (insertByPrio a l) := by
  induction l with
  | nil => simp [insertByPrio, Sorted]
  | cons y ys ih =>
    simp only [insertByPrio]
    split
    · exact ⟨by assumption, h⟩
    · rename_i hlt
      have hya : y.prio ≤ a.prio := by omega
      cases ys with
      | nil => simp [insertByPrio, Sorted]; omega
      | cons z zs =>
        have hs : Sorted (z :: zs) := h.2
        have := ih hs
        simp only [insertByPrio] at this ⊢
        split
        · exact ⟨hya, by assumption, hs⟩
        · rename_i h2
          simp only [h2, if_false] at this
          exact ⟨h.1, this⟩

/-- ascending priority order -/
theorem sortByPrio_sorted (l : List Listener) : Sorted (sortByPrio l) := by
  induction l with
  | nil => trivial
  | cons x xs ih => exact insertByPrio_sorted x _ ih

theorem insertByPrio_filter (p : Nat) (a : Listener) (l : List Listener) (h : Sorted l) :
    (insertByPrio a l).filter (·.prio = p) =
      if a.prio = p then a :: l.filter (·.prio = p) else l.filter (·.prio = p) := by
  induction l with
  | nil => simp [insertByPrio, List.filter]; split <;> simp_all
  | cons y ys ih =>
    have hs : Sorted ys := by
      cases ys with
      | nil => trivial
      | cons z zs => exact h.2
    simp only [insertByPrio]
    split
    · simp [List.filter]; split <;> simp_all
    · rename_i hlt
      have hya : y.prio < a.prio := by omega
      rw [List.filter_cons, ih hs]
      by_cases hap : a.prio = p
      · have : ¬ y.prio = p := by omega
        simp [hap, this]
      · simp [hap, List.filter_cons]

/-- ties keep attachment (subscription) order: the sort is stable -/
theorem sortByPrio_stable (l : List Listener) (p : Nat) :
    (sortByPrio l).filter (·.prio = p) = l.filter (·.prio = p) := by
  induction l with
  | nil => rfl
  | cons x xs ih =>
    simp only [sortByPrio]
    rw [insertByPrio_filter p x _ (sortByPrio_sorted xs), ih, List.filter_cons]
    by_cases h : x.prio = p <;> simp [h]

/-! ### the publish loop on listeners without re-entrant actions -/

/-- no re-entrant actions -/
def Simple (l : Listener) : Prop := l.acts = []

/-- every `log` listener is simple and returns normally -/
def LogQuiet (b : Bus) : Prop :=
  ∀ ls, lookup b.chans .log = some ls → ∀ l ∈ ls, l.acts = [] ∧ l.out = .ok

def entry (ch : Chan) (st : St) (l : Listener) : Entry := ⟨ch, l.id, st, l.prio⟩

/-- journal without the log channel's invocations -/
def nl (j : List Entry) : List Entry := j.filter (fun e => e.ch ≠ .log)

theorem nl_append (a b : List Entry) : nl (a ++ b) = nl a ++ nl b := by simp [nl]

theorem pubLoop_log_quiet (pub : Pub) (items : List Listener)
    (h : ∀ l ∈ items, l.acts = [] ∧ l.out = .ok) (w : W) (fails : List Nat) :
    pubLoop pub .log items w fails =
      ({ w with j := w.j ++ items.map (entry .log w.bus.state) },
       if fails.isEmpty then none else some (.chanFail fails)) := by
  induction items generalizing w with
  | nil => simp [pubLoop]
  | cons l rest ih =>
    have hl := h l (by simp)
    have hr : ∀ x ∈ rest, x.acts = [] ∧ x.out = .ok := fun x hx => h x (by simp [hx])
    simp only [pubLoop, hl.1, hl.2, runActs]
    rw [ih hr]
    simp [entry]

/-- With quiet log listeners `self.log(...)` returns and only journals log invocations. -/
theorem log_quiet (n : Nat) (w : W) (h : LogQuiet w.bus) :
    ∃ es, publish (n + 1) w .log = ({ w with j := w.j ++ es }, none) ∧ nl es = [] := by
  simp only [publish]
  cases hl : lookup w.bus.chans .log with
  | none => exact ⟨[], by simp, rfl⟩
  | some ls =>
    have hq : ∀ l ∈ sortByPrio ls, l.acts = [] ∧ l.out = .ok :=
      fun l hm => h ls hl l ((sortByPrio_perm ls).mem_iff.mp hm)
    refine ⟨(sortByPrio ls).map (entry .log w.bus.state), ?_, ?_⟩
    · simp [pubLoop_log_quiet _ _ hq]
    · simp [nl, entry, List.filter_eq_nil_iff]

/-- ids of the listeners that raise, in invocation order -/
def raisers (items : List Listener) : List Nat :=
  (items.filter (fun l => l.out = .raise)).map (·.id)

/-- Loop specification: simple listeners that only return or raise, quiet log.
    Every item is journalled exactly once, in list order, in the state at entry, and the
    result is `ChannelFailures` carrying exactly the raisers (after those already collected). -/
theorem pubLoop_spec (n : Nat) (ch : Chan) (hch : ch ≠ .log) (items : List Listener)
    (hs : ∀ l ∈ items, Simple l ∧ (l.out = .ok ∨ l.out = .raise))
    (w : W) (hq : LogQuiet w.bus) (fails : List Nat) :
    ∃ w', pubLoop (publish (n + 1)) ch items w fails =
        (w', if (fails ++ raisers items).isEmpty then none else some (.chanFail (fails ++ raisers items)))
      ∧ w'.bus = w.bus
      ∧ nl w'.j = nl w.j ++ items.map (entry ch w.bus.state) := by
  induction items generalizing w fails with
  | nil => exact ⟨w, by simp [pubLoop, raisers], rfl, by simp⟩
  | cons l rest ih =>
    have hl := hs l (by simp)
    have hr : ∀ x ∈ rest, Simple x ∧ (x.out = .ok ∨ x.out = .raise) := fun x hx => hs x (by simp [hx])
    have hne : nl [(⟨ch, l.id, w.bus.state, l.prio⟩ : Entry)] = [⟨ch, l.id, w.bus.state, l.prio⟩] := by
      simp [nl, hch]
    rcases hl.2 with hok | hra
    · -- returns normally
      obtain ⟨w', h1, h2, h3⟩ := ih hr { w with j := w.j ++ [⟨ch, l.id, w.bus.state, l.prio⟩] } hq fails
      refine ⟨w', ?_, h2, ?_⟩
      · have : l.acts = [] := hl.1
        simp only [pubLoop, this, runActs, hok]
        rw [h1]; simp [raisers, hok]
      · rw [h3, nl_append, hne]; simp [entry]
    · -- raises: logged, recorded, loop goes on
      let w1 : W := { w with j := w.j ++ [⟨ch, l.id, w.bus.state, l.prio⟩] }
      obtain ⟨es, hlog, hes⟩ := log_quiet n w1 hq
      obtain ⟨w', h1, h2, h3⟩ := ih hr { w1 with j := w1.j ++ es } hq (fails ++ [l.id])
      refine ⟨w', ?_, h2, ?_⟩
      · have : l.acts = [] := hl.1
        simp only [pubLoop, this, runActs, hra, raised, logFailure, hch, if_false]
        rw [show ({ w with j := w.j ++ [⟨ch, l.id, w.bus.state, l.prio⟩] } : W) = w1 from rfl, hlog]
        simp only
        rw [h1]; simp [raisers, hra, List.append_assoc]
      · rw [h3]
        have : nl ((⟨ch, l.id, w.bus.state, l.prio⟩ : Entry) :: es) = [⟨ch, l.id, w.bus.state, l.prio⟩] := by
          have := nl_append [(⟨ch, l.id, w.bus.state, l.prio⟩ : Entry)] es
          simp only [List.singleton_append] at this
          rw [this, hne, hes]; rfl
        simp [nl_append, w1, entry, this]

theorem publish_succ (k : Nat) (w : W) (ch : Chan) :
    publish (k + 1) w ch = match lookup w.bus.chans ch with
      | none => (w, none)
      | some ls => pubLoop (publish k) ch (sortByPrio ls) w [] := rfl

/-- what `self.listeners[channel]` holds at entry -/
def subscribed (w : W) (ch : Chan) : List Listener := (lookup w.bus.chans ch).getD []

/-- `publish` on a channel of simple ok/raise listeners with a quiet log. -/
theorem publish_spec (n : Nat) (ch : Chan) (hch : ch ≠ .log) (w : W)
    (hs : ∀ l ∈ subscribed w ch, Simple l ∧ (l.out = .ok ∨ l.out = .raise)) (hq : LogQuiet w.bus) :
    ∃ w', publish (n + 2) w ch =
        (w', if (raisers (sortByPrio (subscribed w ch))).isEmpty then none
             else some (.chanFail (raisers (sortByPrio (subscribed w ch)))))
      ∧ w'.bus = w.bus
      ∧ nl w'.j = nl w.j ++ (sortByPrio (subscribed w ch)).map (entry ch w.bus.state) := by
  rw [publish_succ]
  unfold subscribed at *
  split
  · rename_i hl
    exact ⟨w, by simp [hl, sortByPrio, raisers], rfl, by simp [hl, sortByPrio]⟩
  · rename_i ls hl
    simp only [hl, Option.getD_some] at hs ⊢
    have hs' : ∀ l ∈ sortByPrio ls, Simple l ∧ (l.out = .ok ∨ l.out = .raise) :=
      fun l hm => hs l ((sortByPrio_perm ls).mem_iff.mp hm)
    obtain ⟨w', h1, h2, h3⟩ := pubLoop_spec n ch hch _ hs' w hq []
    exact ⟨w', by rw [h1]; simp, h2, h3⟩

/-- **C18 — all listeners run, in order.**  `publish ch` journals the listeners subscribed at
    entry — a permutation of them (`sortByPrio_perm`), ascending (`sortByPrio_sorted`), ties in
    subscription order (`sortByPrio_stable`) — each exactly once, even when others raise. -/
theorem publish_all_run_in_order (n : Nat) (ch : Chan) (hch : ch ≠ .log) (w : W)
    (hs : ∀ l ∈ subscribed w ch, Simple l ∧ (l.out = .ok ∨ l.out = .raise)) (hq : LogQuiet w.bus) :
    nl (publish (n + 2) w ch).1.j =
      nl w.j ++ (sortByPrio (subscribed w ch)).map (entry ch w.bus.state) := by
  obtain ⟨w', h1, _, h3⟩ := publish_spec n ch hch w hs hq
  rw [h1]; exact h3

/-- **C18 — failures are reported collectively**: the call raises `ChannelFailures` carrying
    exactly the listeners that raised (in invocation order) iff at least one raised. -/
theorem publish_result (n : Nat) (ch : Chan) (hch : ch ≠ .log) (w : W)
    (hs : ∀ l ∈ subscribed w ch, Simple l ∧ (l.out = .ok ∨ l.out = .raise)) (hq : LogQuiet w.bus) :
    (publish (n + 2) w ch).2 =
      if (raisers (sortByPrio (subscribed w ch))).isEmpty then none
      else some (.chanFail (raisers (sortByPrio (subscribed w ch)))) := by
  obtain ⟨w', h1, _, _⟩ := publish_spec n ch hch w hs hq
  rw [h1]

/-! ### simple listeners with any outcome (return, raise, SystemExit, KeyboardInterrupt) -/

/-- Reference semantics of the loop for simple listeners: which listeners are invoked (a
    prefix of the list, cut at the first SystemExit / KeyboardInterrupt) and how it ends. -/
def loopSpec : List Listener → List Nat → List Listener × Option Exc
  | [], fails => ([], if fails.isEmpty then none else some (.chanFail fails))
  | l :: rest, fails =>
    match l.out with
    | .ok => ((l :: (loopSpec rest fails).1), (loopSpec rest fails).2)
    | .raise => ((l :: (loopSpec rest (fails ++ [l.id])).1), (loopSpec rest (fails ++ [l.id])).2)
    | .kbdInt => ([l], some .kbdInt)
    | .sysExit c => ([l], some (.sysExit (fixCode fails c)))

/-- `w'` extends `w` by the (non-log) journal entries `es` and leaves the bus alone -/
def Ext (w w' : W) (es : List Entry) : Prop := w'.bus = w.bus ∧ nl w'.j = nl w.j ++ es

theorem Ext.trans {a b c : W} {e1 e2 : List Entry} (h1 : Ext a b e1) (h2 : Ext b c e2) :
    Ext a c (e1 ++ e2) := by
  refine ⟨h2.1.trans h1.1, ?_⟩
  rw [h2.2, h1.2, List.append_assoc]

theorem log_ext (n : Nat) (w : W) (h : LogQuiet w.bus) :
    ∃ w', publish (n + 1) w .log = (w', none) ∧ Ext w w' [] := by
  obtain ⟨es, h1, h2⟩ := log_quiet n w h
  exact ⟨_, h1, rfl, by simp [nl_append, h2]⟩

theorem pubLoop_simple (n : Nat) (ch : Chan) (hch : ch ≠ .log) (items : List Listener)
    (hs : ∀ l ∈ items, Simple l) (w : W) (hq : LogQuiet w.bus) (fails : List Nat) :
    ∃ w', pubLoop (publish (n + 1)) ch items w fails = (w', (loopSpec items fails).2)
      ∧ Ext w w' ((loopSpec items fails).1.map (entry ch w.bus.state)) := by
  induction items generalizing w fails with
  | nil => exact ⟨w, by simp [pubLoop, loopSpec], rfl, by simp [loopSpec]⟩
  | cons l rest ih =>
    have hl : l.acts = [] := hs l (by simp)
    have hr : ∀ x ∈ rest, Simple x := fun x hx => hs x (by simp [hx])
    have hne : nl [(⟨ch, l.id, w.bus.state, l.prio⟩ : Entry)] = [⟨ch, l.id, w.bus.state, l.prio⟩] := by
      simp [nl, hch]
    let w1 : W := { w with j := w.j ++ [⟨ch, l.id, w.bus.state, l.prio⟩] }
    have hw1 : Ext w w1 [entry ch w.bus.state l] := ⟨rfl, by simp [w1, nl_append, hne, entry]⟩
    cases hout : l.out with
    | ok =>
      obtain ⟨w', h1, h2⟩ := ih hr w1 hq fails
      refine ⟨w', ?_, ?_⟩
      · simp only [pubLoop, hl, runActs, hout, loopSpec]; exact h1
      · have := hw1.trans h2
        simpa [loopSpec, hout, w1] using this
    | raise =>
      obtain ⟨w2, hlog, hx⟩ := log_ext n w1 hq
      have hq2 : LogQuiet w2.bus := by rw [hx.1]; exact hq
      obtain ⟨w', h1, h2⟩ := ih hr w2 hq2 (fails ++ [l.id])
      refine ⟨w', ?_, ?_⟩
      · simp only [pubLoop, hl, runActs, hout, loopSpec, raised, logFailure, hch, if_false]
        rw [show ({ w with j := w.j ++ [⟨ch, l.id, w.bus.state, l.prio⟩] } : W) = w1 from rfl, hlog]
        exact h1
      · have := (hw1.trans hx).trans h2
        have hst : w2.bus.state = w.bus.state := by rw [hx.1]
        simpa [loopSpec, hout, hst] using this
    | kbdInt =>
      exact ⟨w1, by simp only [pubLoop, hl, runActs, hout, loopSpec]; rfl,
             by simpa [loopSpec, hout] using hw1⟩
    | sysExit c =>
      exact ⟨w1, by simp only [pubLoop, hl, runActs, hout, loopSpec]; rfl,
             by simpa [loopSpec, hout] using hw1⟩

/-- all listeners subscribed to `ch` are simple -/
def SimpleChan (b : Bus) (ch : Chan) : Prop := ∀ ls, lookup b.chans ch = some ls → ∀ l ∈ ls, Simple l

/-- reference semantics of `publish` on a simple channel -/
def pubS (b : Bus) (ch : Chan) : List Listener × Option Exc :=
  loopSpec (sortByPrio ((lookup b.chans ch).getD [])) []

theorem publish_simple (n : Nat) (ch : Chan) (hch : ch ≠ .log) (w : W)
    (hs : SimpleChan w.bus ch) (hq : LogQuiet w.bus) :
    ∃ w', publish (n + 2) w ch = (w', (pubS w.bus ch).2)
      ∧ Ext w w' ((pubS w.bus ch).1.map (entry ch w.bus.state)) := by
  rw [publish_succ]
  unfold pubS
  split
  · rename_i hl
    exact ⟨w, by simp [hl, sortByPrio, loopSpec], rfl, by simp [hl, sortByPrio, loopSpec]⟩
  · rename_i ls hl
    have hs' : ∀ l ∈ sortByPrio ls, Simple l :=
      fun l hm => hs ls hl l ((sortByPrio_perm ls).mem_iff.mp hm)
    obtain ⟨w', h1, h2⟩ := pubLoop_simple n ch hch _ hs' w hq []
    exact ⟨w', by simp [hl, h1], by simpa [hl] using h2⟩

/-- **C18** — a publish (any outcomes of simple listeners) never changes the bus state, and every
    listener it invokes is journalled in the state the bus had at entry. -/
theorem publish_state_unchanged (n : Nat) (ch : Chan) (hch : ch ≠ .log) (w : W)
    (hs : SimpleChan w.bus ch) (hq : LogQuiet w.bus) :
    (publish (n + 2) w ch).1.bus = w.bus ∧
    ∃ inv : List Listener, inv.Sublist (sortByPrio ((lookup w.bus.chans ch).getD [])) ∧
      nl (publish (n + 2) w ch).1.j = nl w.j ++ inv.map (entry ch w.bus.state) := by
  obtain ⟨w', h1, h2⟩ := publish_simple n ch hch w hs hq
  rw [h1]
  refine ⟨h2.1, (pubS w.bus ch).1, ?_, h2.2⟩
  unfold pubS
  generalize sortByPrio ((lookup w.bus.chans ch).getD []) = items
  generalize ([] : List Nat) = fails
  induction items generalizing fails with
  | nil => simp [loopSpec]
  | cons l rest ih =>
    simp only [loopSpec]
    split
    · exact (ih _).cons_cons l
    · exact (ih _).cons_cons l
    · simp
    · simp

/-! ### lifecycle methods: reference semantics and refinement -/

/-- log quiet and the four lifecycle channels simple; depends on the subscription table only -/
def Tame (b : Bus) : Prop :=
  LogQuiet b ∧ SimpleChan b .start ∧ SimpleChan b .stop ∧ SimpleChan b .exit ∧ SimpleChan b .graceful

theorem Tame.of_chans {b b' : Bus} (h : b'.chans = b.chans) (t : Tame b) : Tame b' := by
  unfold Tame LogQuiet SimpleChan at *
  rw [h]; exact t

theorem pubS_congr {b b' : Bus} (h : b'.chans = b.chans) (ch : Chan) : pubS b' ch = pubS b ch := by
  unfold pubS; rw [h]

/-- `w'` = `w` with state `st`, non-log journal extended by `es`, same subscriptions and execv -/
def Does (w w' : W) (st : St) (es : List Entry) : Prop :=
  w'.bus.chans = w.bus.chans ∧ w'.bus.execv = w.bus.execv ∧ w'.bus.state = st ∧
    nl w'.j = nl w.j ++ es

/-- reference semantics of `Bus.stop` -/
def stopS (b : Bus) : St × List Entry × Option Exc :=
  ((if (pubS b .stop).2 = none then .stopped else .stopping),
   (pubS b .stop).1.map (entry .stop .stopping), (pubS b .stop).2)

def excToRes (e : Exc) : Res := if isException e then .procExit 70 else .exc e

/-- reference semantics of `Bus.exit` -/
def exitS (b : Bus) : St × List Entry × Res :=
  match (pubS b .stop).2 with
  | some e => (.stopping, (stopS b).2.1, excToRes e)
  | none =>
    let es := (stopS b).2.1 ++ (pubS b .exit).1.map (entry .exit .exiting)
    match (pubS b .exit).2 with
    | some e => (.exiting, es, excToRes e)
    | none => (.exiting, es, if b.state = .starting then .procExit 70 else .ret)

/-- reference semantics of `Bus.start` -/
def startS (b : Bus) : St × List Entry × Res :=
  let es0 := (pubS b .start).1.map (entry .start .starting)
  match (pubS b .start).2 with
  | none => (.started, es0, .ret)
  | some e =>
    if isException e then
      let x := exitS { b with state := .starting }
      (x.1, es0 ++ x.2.1, match x.2.2 with | .ret => .exc e | r => r)
    else (.starting, es0, .exc e)

@[simp] theorem setState_j (w : W) (s : St) : (setState w s).j = w.j := rfl
@[simp] theorem setState_chans (w : W) (s : St) : (setState w s).bus.chans = w.bus.chans := rfl
@[simp] theorem setState_execv (w : W) (s : St) : (setState w s).bus.execv = w.bus.execv := rfl
@[simp] theorem setState_state (w : W) (s : St) : (setState w s).bus.state = s := rfl

theorem stop_spec (n : Nat) (w : W) (t : Tame w.bus) :
    ∃ w', stop (n + 2) w = (w', (stopS w.bus).2.2) ∧ Does w w' (stopS w.bus).1 (stopS w.bus).2.1 := by
  have t1 : Tame (setState w .stopping).bus := t.of_chans rfl
  obtain ⟨w1, hl1, x1⟩ := log_ext (n + 1) (setState w .stopping) t1.1
  have t2 : Tame w1.bus := by rw [x1.1]; exact t1
  obtain ⟨w2, hp, x2⟩ := publish_simple n .stop (by decide) w1 t2.2.2.1 t2.1
  have hps : pubS w1.bus .stop = pubS w.bus .stop := pubS_congr (by rw [x1.1]; rfl) _
  have hst1 : w1.bus.state = .stopping := by rw [x1.1]; rfl
  rw [hps] at x2 hp
  rw [hst1] at x2
  unfold stop log
  simp only [hl1, hp]
  cases hr : (pubS w.bus .stop).2 with
  | some e =>
    refine ⟨w2, by simp [stopS, hr], ?_⟩
    have := x1.trans x2
    refine ⟨by rw [this.1]; rfl, by rw [this.1]; rfl, by rw [this.1]; simp [stopS, hr, setState], ?_⟩
    simpa [stopS] using this.2
  | none =>
    have t3 : Tame (setState w2 .stopped).bus := by
      apply Tame.of_chans (b := w.bus) _ t
      show w2.bus.chans = w.bus.chans
      rw [x2.1, x1.1]; rfl
    obtain ⟨w3, hl3, x3⟩ := log_ext (n + 1) (setState w2 .stopped) t3.1
    refine ⟨w3, by simp [stopS, hr, hl3], ?_⟩
    have h12 := x1.trans x2
    refine ⟨by rw [x3.1]; show w2.bus.chans = _; rw [h12.1]; rfl,
            by rw [x3.1]; show w2.bus.execv = _; rw [h12.1]; rfl,
            by rw [x3.1]; simp [stopS, hr, setState], ?_⟩
    rw [x3.2]
    show nl w2.j ++ [] = _
    simpa [stopS] using h12.2

theorem Does.tame {w w' : W} {st : St} {es : List Entry} (d : Does w w' st es) (t : Tame w.bus) :
    Tame w'.bus := t.of_chans d.1

theorem exit_spec (n : Nat) (w : W) (t : Tame w.bus) :
    ∃ w', exit (n + 2) w = (w', (exitS w.bus).2.2) ∧ Does w w' (exitS w.bus).1 (exitS w.bus).2.1 := by
  obtain ⟨w1, hs, d1⟩ := stop_spec n w t
  unfold exit
  simp only [hs]
  cases hr : (pubS w.bus .stop).2 with
  | some e =>
    have hs2 : (stopS w.bus).2.2 = some e := by simp [stopS, hr]
    have hst : (stopS w.bus).1 = .stopping := by simp [stopS, hr]
    rw [hst] at d1
    simp only [hs2, exitS, hr, excToRes]
    by_cases he : isException e = true
    · exact ⟨w1, by simp [he], d1⟩
    · exact ⟨w1, by simp [he], d1⟩
  | none =>
    have hs2 : (stopS w.bus).2.2 = none := by simp [stopS, hr]
    have hst : (stopS w.bus).1 = .stopped := by simp [stopS, hr]
    rw [hst] at d1
    have t1 : Tame w1.bus := d1.tame t
    have t2 : Tame (setState w1 .exiting).bus := t1.of_chans rfl
    obtain ⟨w2, hl2, x2⟩ := log_ext (n + 1) (setState w1 .exiting) t2.1
    have t3 : Tame w2.bus := by rw [x2.1]; exact t2
    obtain ⟨w3, hp, x3⟩ := publish_simple n .exit (by decide) w2 t3.2.2.2.1 t3.1
    have hps : pubS w2.bus .exit = pubS w.bus .exit :=
      pubS_congr (by rw [x2.1]; simp [d1.1]) _
    have hst2 : w2.bus.state = .exiting := by rw [x2.1]; rfl
    rw [hps] at x3 hp
    rw [hst2] at x3
    have h23 := x2.trans x3
    have hdoes : Does w w3 .exiting
        ((stopS w.bus).2.1 ++ (pubS w.bus .exit).1.map (entry .exit .exiting)) := by
      refine ⟨by rw [h23.1]; simp [d1.1], by rw [h23.1]; simp [d1.2.1], by rw [h23.1]; simp, ?_⟩
      rw [h23.2]; simp [d1.2.2.2]
    simp only [hs2, log, hl2, hp, exitS, hr]
    cases hx : (pubS w.bus .exit).2 with
    | some e =>
      simp only [excToRes]
      by_cases he : isException e = true
      · exact ⟨w3, by simp [he], hdoes⟩
      · exact ⟨w3, by simp [he], hdoes⟩
    | none =>
      have t4 : Tame w3.bus := hdoes.tame t
      obtain ⟨w4, hl4, x4⟩ := log_ext (n + 1) w3 t4.1
      have hd4 : Does w w4 .exiting
          ((stopS w.bus).2.1 ++ (pubS w.bus .exit).1.map (entry .exit .exiting)) := by
        refine ⟨by rw [x4.1]; exact hdoes.1, by rw [x4.1]; exact hdoes.2.1,
                by rw [x4.1]; exact hdoes.2.2.1, ?_⟩
        rw [x4.2, hdoes.2.2.2]; simp
      simp only [hl4]
      by_cases hst : w.bus.state = .starting
      · exact ⟨w4, by simp [hst], hd4⟩
      · exact ⟨w4, by simp [hst], hd4⟩

theorem exitS_congr {b b' : Bus} (h : b'.chans = b.chans) (hs : b'.state = b.state) :
    exitS b' = exitS b := by
  unfold exitS stopS
  simp only [pubS_congr h, hs]

theorem start_spec (n : Nat) (w : W) (t : Tame w.bus) :
    ∃ w', start (n + 2) w = (w', (startS w.bus).2.2) ∧ Does w w' (startS w.bus).1 (startS w.bus).2.1 := by
  have t0 : Tame (setState w .starting).bus := t.of_chans rfl
  obtain ⟨w1, hl1, x1⟩ := log_ext (n + 1) (setState w .starting) t0.1
  have t1 : Tame w1.bus := by rw [x1.1]; exact t0
  obtain ⟨w2, hp, x2⟩ := publish_simple n .start (by decide) w1 t1.2.1 t1.1
  have hps : pubS w1.bus .start = pubS w.bus .start := pubS_congr (by rw [x1.1]; rfl) _
  have hst1 : w1.bus.state = .starting := by rw [x1.1]; rfl
  rw [hps] at x2 hp
  rw [hst1] at x2
  have h12 := x1.trans x2
  have hd2 : Does w w2 .starting ((pubS w.bus .start).1.map (entry .start .starting)) :=
    ⟨by rw [h12.1]; rfl, by rw [h12.1]; rfl, by rw [h12.1]; rfl, by rw [h12.2]; simp⟩
  unfold start
  simp only [log, hl1, hp]
  cases hr : (pubS w.bus .start).2 with
  | none =>
    have t3 : Tame (setState w2 .started).bus := (hd2.tame t).of_chans rfl
    obtain ⟨w3, hl3, x3⟩ := log_ext (n + 1) (setState w2 .started) t3.1
    refine ⟨w3, by simp [hl3, startS, hr], ?_⟩
    simp only [startS, hr]
    exact ⟨by rw [x3.1]; exact hd2.1, by rw [x3.1]; exact hd2.2.1, by rw [x3.1]; rfl,
           by rw [x3.2]; simp [hd2.2.2.2]⟩
  | some e =>
    by_cases he : isException e = true
    · have t2 : Tame w2.bus := hd2.tame t
      obtain ⟨w3, hl3, x3⟩ := log_ext (n + 1) w2 t2.1
      have hd3 : Does w w3 .starting ((pubS w.bus .start).1.map (entry .start .starting)) :=
        ⟨by rw [x3.1]; exact hd2.1, by rw [x3.1]; exact hd2.2.1, by rw [x3.1]; exact hd2.2.2.1,
         by rw [x3.2]; simp [hd2.2.2.2]⟩
      have t3 : Tame w3.bus := hd3.tame t
      obtain ⟨w4, hx, d4⟩ := exit_spec n w3 t3
      have hcg : exitS w3.bus = exitS { w.bus with state := .starting } :=
        exitS_congr hd3.1 hd3.2.2.1
      rw [hcg] at hx d4
      have hd4 : Does w w4 (exitS { w.bus with state := .starting }).1
          ((pubS w.bus .start).1.map (entry .start .starting) ++
            (exitS { w.bus with state := .starting }).2.1) :=
        ⟨d4.1.trans hd3.1, d4.2.1.trans hd3.2.1, d4.2.2.1,
         by rw [d4.2.2.2, hd3.2.2.2, List.append_assoc]⟩
      refine ⟨w4, ?_, by simpa [startS, hr, he] using hd4⟩
      simp only [he, Bool.not_true, Bool.false_eq_true, if_false, hl3, hx, startS, hr, if_true]
      cases (exitS { w.bus with state := .starting }).2.2 <;> rfl
    · refine ⟨w2, by simp [he, startS, hr], by simpa [startS, hr, he] using hd2⟩

/-! ### the property theorems -/

/-- start / stop / exit listeners are journalled in STARTING / STOPPING / EXITING -/
def Disciplined (e : Entry) : Prop :=
  (e.ch = .start → e.st = .starting) ∧ (e.ch = .stop → e.st = .stopping) ∧
  (e.ch = .exit → e.st = .exiting)

theorem disc_start (l : List Listener) : ∀ e ∈ l.map (entry .start .starting), Disciplined e := by
  intro e he; simp only [List.mem_map, entry] at he; obtain ⟨x, _, rfl⟩ := he
  simp [Disciplined]

theorem disc_stop (l : List Listener) : ∀ e ∈ l.map (entry .stop .stopping), Disciplined e := by
  intro e he; simp only [List.mem_map, entry] at he; obtain ⟨x, _, rfl⟩ := he
  simp [Disciplined]

theorem disc_exit (l : List Listener) : ∀ e ∈ l.map (entry .exit .exiting), Disciplined e := by
  intro e he; simp only [List.mem_map, entry] at he; obtain ⟨x, _, rfl⟩ := he
  simp [Disciplined]

theorem disc_append {a b : List Entry} (ha : ∀ e ∈ a, Disciplined e) (hb : ∀ e ∈ b, Disciplined e) :
    ∀ e ∈ a ++ b, Disciplined e := by
  intro e he; rcases List.mem_append.mp he with h | h
  · exact ha e h
  · exact hb e h

theorem stopS_disc (b : Bus) : ∀ e ∈ (stopS b).2.1, Disciplined e := disc_stop _

theorem exitS_disc (b : Bus) : ∀ e ∈ (exitS b).2.1, Disciplined e := by
  unfold exitS
  split
  · exact stopS_disc b
  · split
    · exact disc_append (stopS_disc b) (disc_exit _)
    · exact disc_append (stopS_disc b) (disc_exit _)

theorem startS_disc (b : Bus) : ∀ e ∈ (startS b).2.1, Disciplined e := by
  unfold startS
  split
  · exact disc_start _
  · split
    · exact disc_append (disc_start _) (exitS_disc _)
    · exact disc_start _

/-- **C18** — whatever the failure pattern, everything `start()` invokes (including the stop and
    exit listeners of the shutdown after a failed start) sees the documented state. -/
theorem start_listeners_see_STARTING (n : Nat) (w : W) (t : Tame w.bus) :
    ∃ es, nl (start (n + 2) w).1.j = nl w.j ++ es ∧ ∀ e ∈ es, Disciplined e := by
  obtain ⟨w', h, d⟩ := start_spec n w t
  exact ⟨_, by rw [h]; exact d.2.2.2, startS_disc _⟩

theorem stop_listeners_see_STOPPING (n : Nat) (w : W) (t : Tame w.bus) :
    ∃ es, nl (stop (n + 2) w).1.j = nl w.j ++ es ∧ ∀ e ∈ es, e.ch = .stop ∧ e.st = .stopping := by
  obtain ⟨w', h, d⟩ := stop_spec n w t
  refine ⟨_, by rw [h]; exact d.2.2.2, ?_⟩
  intro e he; simp only [stopS, List.mem_map, entry] at he; obtain ⟨x, _, rfl⟩ := he
  exact ⟨rfl, rfl⟩

theorem exit_listeners_see_EXITING (n : Nat) (w : W) (t : Tame w.bus) :
    ∃ es, nl (exit (n + 2) w).1.j = nl w.j ++ es ∧ ∀ e ∈ es, Disciplined e := by
  obtain ⟨w', h, d⟩ := exit_spec n w t
  exact ⟨_, by rw [h]; exact d.2.2.2, exitS_disc _⟩

theorem loopSpec_none (items : List Listener) (fails : List Nat)
    (h : (loopSpec items fails).2 = none) : (loopSpec items fails).1 = items := by
  induction items generalizing fails with
  | nil => rfl
  | cons l rest ih =>
    simp only [loopSpec] at h ⊢
    split at h <;> simp_all

/-- **C18** — `exit()` runs the stop listeners before the exit listeners; if any exit listener
    ran, then *all* subscribed stop listeners ran first (in priority order) and `stop` returned. -/
theorem exit_runs_stop_first (n : Nat) (w : W) (t : Tame w.bus) :
    ∃ a b : List Entry, nl (exit (n + 2) w).1.j = nl w.j ++ (a ++ b) ∧
      (∀ e ∈ a, e.ch = .stop ∧ e.st = .stopping) ∧ (∀ e ∈ b, e.ch = .exit ∧ e.st = .exiting) ∧
      (b ≠ [] → a = (sortByPrio ((lookup w.bus.chans .stop).getD [])).map (entry .stop .stopping)) := by
  obtain ⟨w', h, d⟩ := exit_spec n w t
  have hstop : ∀ e ∈ (stopS w.bus).2.1, e.ch = .stop ∧ e.st = .stopping := by
    intro e he; simp only [stopS, List.mem_map, entry] at he; obtain ⟨x, _, rfl⟩ := he
    exact ⟨rfl, rfl⟩
  have hexit : ∀ e ∈ (pubS w.bus .exit).1.map (entry .exit .exiting), e.ch = .exit ∧ e.st = .exiting := by
    intro e he; simp only [List.mem_map, entry] at he; obtain ⟨x, _, rfl⟩ := he
    exact ⟨rfl, rfl⟩
  rw [h]
  have hj := d.2.2.2
  unfold exitS at hj
  cases hr : (pubS w.bus .stop).2 with
  | some e =>
    simp only [hr] at hj
    exact ⟨(stopS w.bus).2.1, [], by simpa using hj, hstop, by simp, by simp⟩
  | none =>
    have hall : (stopS w.bus).2.1 =
        (sortByPrio ((lookup w.bus.chans .stop).getD [])).map (entry .stop .stopping) := by
      simp only [stopS]
      have := loopSpec_none _ _ (by simpa [pubS] using hr)
      simp only [pubS]; rw [this]
    simp only [hr] at hj
    refine ⟨(stopS w.bus).2.1, (pubS w.bus .exit).1.map (entry .exit .exiting), ?_, hstop, hexit,
            fun _ => hall⟩
    split at hj <;> exact hj

/-- **C18** — final states of calls that return: STARTED / STOPPED / EXITING as documented. -/
theorem final_state_of_returning_calls (n : Nat) (w : W) (t : Tame w.bus) :
    ((start (n + 2) w).2 = .ret → (start (n + 2) w).1.bus.state = .started) ∧
    ((stop (n + 2) w).2 = none → (stop (n + 2) w).1.bus.state = .stopped) ∧
    ((exit (n + 2) w).2 = .ret → (exit (n + 2) w).1.bus.state = .exiting) ∧
    ((restart (n + 2) w).2 = .ret → (restart (n + 2) w).1.bus.state = .exiting ∧
        (restart (n + 2) w).1.bus.execv = true) := by
  refine ⟨?_, ?_, ?_, ?_⟩
  · obtain ⟨w', h, d⟩ := start_spec n w t
    rw [h]; intro hr
    rw [d.2.2.1]
    simp only [startS] at hr ⊢
    split at hr
    · simp_all
    · split at hr
      · -- exit() from STARTING never returns normally
        rename_i e he _
        exfalso
        simp only at hr
        revert hr
        generalize hx : (exitS { w.bus with state := .starting }).2.2 = r
        cases r <;> simp
      · simp at hr
  · obtain ⟨w', h, d⟩ := stop_spec n w t
    rw [h]; intro hr
    rw [d.2.2.1]
    simp only [stopS] at hr ⊢
    simp [hr]
  · obtain ⟨w', h, d⟩ := exit_spec n w t
    rw [h]; intro hr
    rw [d.2.2.1]
    unfold exitS at hr ⊢
    split at hr
    · simp only [excToRes] at hr; split at hr <;> cases hr
    · rename_i hnone
      split <;> rfl
  · have t' : Tame ({ w with bus := { w.bus with execv := true } } : W).bus := t.of_chans rfl
    obtain ⟨w', h, d⟩ := exit_spec n { w with bus := { w.bus with execv := true } } t'
    unfold restart
    rw [h]; intro hr
    refine ⟨?_, by rw [d.2.1]⟩
    rw [d.2.2.1]
    unfold exitS at hr ⊢
    split at hr
    · simp only [excToRes] at hr; split at hr <;> cases hr
    · rename_i hnone
      split <;> rfl

/-- **C18** — a failing start listener shuts the bus down: `start()` never returns normally and
    never leaves the bus STARTED (or STARTING); the stop listeners run next (in STOPPING), and
    the call ends the process with code 70 unless a stop/exit listener itself raised
    SystemExit / KeyboardInterrupt (which then propagates). -/
theorem start_failure_shuts_down (n : Nat) (w : W) (t : Tame w.bus) (ids : List Nat)
    (hf : (pubS w.bus .start).2 = some (.chanFail ids)) :
    let r := start (n + 2) w
    (r.2 = .procExit 70 ∨ (∃ c, r.2 = .exc (.sysExit c)) ∨ r.2 = .exc .kbdInt) ∧
    (r.1.bus.state = .stopping ∨ r.1.bus.state = .exiting) ∧
    (∃ rest, nl r.1.j = nl w.j ++ (pubS w.bus .start).1.map (entry .start .starting)
        ++ (pubS w.bus .stop).1.map (entry .stop .stopping) ++ rest) := by
  obtain ⟨w', h, d⟩ := start_spec n w t
  simp only
  rw [h, d.2.2.1, d.2.2.2]
  simp only [startS, hf, isException, if_true]
  have hps : ∀ ch, pubS { w.bus with state := .starting } ch = pubS w.bus ch := fun ch => pubS_congr rfl ch
  unfold exitS stopS
  simp only [hps]
  cases hs : (pubS w.bus .stop).2 with
  | some e =>
    simp only [excToRes]
    refine ⟨?_, by simp, [], by simp⟩
    cases e <;> simp [isException]
  | none =>
    cases hx : (pubS w.bus .exit).2 with
    | some e =>
      simp only [excToRes]
      refine ⟨?_, by simp, _, by simp [List.append_assoc]; rfl⟩
      cases e <;> simp [isException]
    | none =>
      exact ⟨by simp, by simp, _, by simp [List.append_assoc]; rfl⟩

/-- **C18** — a failure while exiting ends the process with a non-zero code: if a stop listener
    or (after a clean stop) an exit listener raised, `exit()` is `os._exit(70)`. -/
theorem exit_failure_nonzero (n : Nat) (w : W) (t : Tame w.bus) (ids : List Nat)
    (hf : (pubS w.bus .stop).2 = some (.chanFail ids) ∨
          ((pubS w.bus .stop).2 = none ∧ (pubS w.bus .exit).2 = some (.chanFail ids))) :
    (exit (n + 2) w).2 = .procExit 70 := by
  obtain ⟨w', h, _⟩ := exit_spec n w t
  rw [h]
  unfold exitS
  rcases hf with hf | ⟨h1, h2⟩
  · simp [hf, excToRes, isException]
  · simp [h1, h2, excToRes, isException]

theorem loopSpec_sysexit (pre rest : List Listener) (l : Listener) (c : Nat)
    (hpre : ∀ x ∈ pre, x.out = .ok ∨ x.out = .raise) (hc : l.out = .sysExit c) (fails : List Nat) :
    (loopSpec (pre ++ l :: rest) fails).2 = some (.sysExit (fixCode (fails ++ raisers pre) c)) := by
  induction pre generalizing fails with
  | nil => simp [loopSpec, hc, raisers]
  | cons x xs ih =>
    have hx := hpre x (by simp)
    have hxs : ∀ y ∈ xs, y.out = .ok ∨ y.out = .raise := fun y hy => hpre y (by simp [hy])
    rcases hx with hx | hx
    · simp only [List.cons_append, loopSpec, hx]
      rw [ih hxs]; simp [raisers, hx]
    · simp only [List.cons_append, loopSpec, hx]
      rw [ih hxs]; simp [raisers, hx, List.append_assoc]

/-- **C18** — `SystemExit(0)` raised by a listener after earlier listeners of the same publish
    failed leaves with code 1 (never 0); otherwise the code is unchanged. -/
theorem sysexit_code_fixup (n : Nat) (ch : Chan) (hch : ch ≠ .log) (pre rest : List Listener)
    (l : Listener) (c : Nat)
    (hpre : ∀ x ∈ pre, Simple x ∧ (x.out = .ok ∨ x.out = .raise)) (hl : Simple l)
    (hc : l.out = .sysExit c) (hrest : ∀ x ∈ rest, Simple x) (w : W) (hq : LogQuiet w.bus) :
    (pubLoop (publish (n + 1)) ch (pre ++ l :: rest) w []).2 =
      some (.sysExit (if raisers pre ≠ [] ∧ c = 0 then 1 else c)) := by
  have hs : ∀ x ∈ pre ++ l :: rest, Simple x := by
    intro x hx
    rcases List.mem_append.mp hx with h | h
    · exact (hpre x h).1
    · rcases List.mem_cons.mp h with h | h
      · exact h ▸ hl
      · exact hrest x h
  obtain ⟨w', h1, _⟩ := pubLoop_simple n ch hch _ hs w hq []
  rw [h1, loopSpec_sysexit pre rest l c (fun x hx => (hpre x hx).2) hc]
  simp only [fixCode, List.nil_append]
  by_cases h0 : c = 0 <;> cases hr : raisers pre <;> simp [h0]

/-! ### arbitrary (re-entrant) listeners: the state a listener observes -/

/-- effect summary valid for ANY listener scripts: the bus state is untouched and every
    journalled invocation (at any re-entrancy depth) carries the state at entry -/
def StateStable (w w' : W) : Prop :=
  w'.bus.state = w.bus.state ∧ ∃ es, w'.j = w.j ++ es ∧ ∀ e ∈ es, e.st = w.bus.state

theorem StateStable.refl (w : W) : StateStable w w := ⟨rfl, [], by simp, by simp⟩

theorem StateStable.trans {a b c : W} (h1 : StateStable a b) (h2 : StateStable b c) :
    StateStable a c := by
  obtain ⟨s1, e1, j1, m1⟩ := h1
  obtain ⟨s2, e2, j2, m2⟩ := h2
  refine ⟨s2.trans s1, e1 ++ e2, by rw [j2, j1, List.append_assoc], ?_⟩
  intro e he
  rcases List.mem_append.mp he with h | h
  · exact m1 e h
  · rw [← s1]; exact m2 e h

def PubStable (pub : Pub) : Prop := ∀ w ch, StateStable w (pub w ch).1

theorem subscribe_state (b : Bus) (ch : Chan) (l : Listener) : (subscribe b ch l).state = b.state := rfl

theorem unsubscribe_state (b : Bus) (ch : Chan) (id : Nat) : (unsubscribe b ch id).state = b.state := by
  unfold unsubscribe; split
  · rfl
  · split <;> rfl

theorem runActs_stable (pub : Pub) (hp : PubStable pub) (acts : List Act) (w : W) :
    StateStable w (runActs pub w acts).1 := by
  induction acts generalizing w with
  | nil => exact StateStable.refl w
  | cons a rest ih =>
    cases a with
    | sub ch id prio out =>
      simp only [runActs]
      exact StateStable.trans (b := { w with bus := subscribe w.bus ch ⟨id, prio, [], out⟩ })
        ⟨subscribe_state _ _ _, [], by simp, by simp⟩ (ih _)
    | unsub ch id =>
      simp only [runActs]
      exact StateStable.trans (b := { w with bus := unsubscribe w.bus ch id })
        ⟨unsubscribe_state _ _ _, [], by simp, by simp⟩ (ih _)
    | pub ch =>
      simp only [runActs]
      have h := hp w ch
      generalize pub w ch = r at h
      obtain ⟨w', o⟩ := r
      cases o with
      | none => exact h.trans (ih w')
      | some e => exact h
    | call m =>
      simp only [runActs]
      exact StateStable.refl w

theorem pubLoop_stable (pub : Pub) (hp : PubStable pub) (ch : Chan) (items : List Listener)
    (w : W) (fails : List Nat) : StateStable w (pubLoop pub ch items w fails).1 := by
  induction items generalizing w fails with
  | nil => exact StateStable.refl w
  | cons l rest ih =>
    have h1 : StateStable w { w with j := w.j ++ [⟨ch, l.id, w.bus.state, l.prio⟩] } :=
      ⟨rfl, [_], rfl, by simp⟩
    have h2 := runActs_stable pub hp l.acts { w with j := w.j ++ [⟨ch, l.id, w.bus.state, l.prio⟩] }
    simp only [pubLoop]
    generalize runActs pub { w with j := w.j ++ [⟨ch, l.id, w.bus.state, l.prio⟩] } l.acts = r at h2
    obtain ⟨w2, o⟩ := r
    have h12 := h1.trans h2
    have hraise : StateStable w
        (raised pub ch w2 (fun w3 => pubLoop pub ch rest w3 (fails ++ [l.id]))).1 := by
      unfold raised logFailure
      by_cases hlog : ch = .log
      · rw [if_pos hlog]
        exact h12.trans (ih w2 _)
      · rw [if_neg hlog]
        have h3 := hp w2 .log
        generalize pub w2 .log = r3 at h3
        obtain ⟨w3, o3⟩ := r3
        cases o3 with
        | none => exact (h12.trans h3).trans (ih w3 _)
        | some e => exact h12.trans h3
    cases o with
    | none =>
      cases hout : l.out with
      | ok => simpa [hout] using h12.trans (ih w2 fails)
      | raise => simpa [hout] using hraise
      | kbdInt => simpa [hout] using h12
      | sysExit c => simpa [hout] using h12
    | some e =>
      cases e with
      | chanFail ids => simpa using hraise
      | sysExit c => simpa using h12
      | kbdInt => simpa using h12
      | outOfFuel => simpa using h12

/-- **C18** — for ARBITRARY listener scripts (re-entrant subscribe / unsubscribe / publish,
    any outcomes, failing log listeners, any fuel): `publish` never changes the bus state and
    every listener it invokes, directly or re-entrantly, is journalled in the state at entry. -/
theorem publish_state_stable_general (fuel : Nat) : PubStable (publish fuel) := by
  induction fuel with
  | zero => intro w ch; exact StateStable.refl w
  | succ n ih =>
    intro w ch
    rw [publish_succ]
    split
    · exact StateStable.refl w
    · exact pubLoop_stable _ ih ch _ w []

/-- **C18** — for ARBITRARY listener scripts (re-entrant, failing log listeners, any fuel):
    everything `stop()` invokes sees STOPPING or (the closing log call) STOPPED, and `stop()` leaves
    the bus STOPPED, or STOPPING when it raised — never any other state. -/
theorem stop_general (fuel : Nat) (w : W) :
    ((stop fuel w).1.bus.state = .stopping ∨ (stop fuel w).1.bus.state = .stopped) ∧
    ∃ es, (stop fuel w).1.j = w.j ++ es ∧ ∀ e ∈ es, e.st = .stopping ∨ e.st = .stopped := by
  have key : ∀ (w0 : W) (c : Chan), StateStable w0 (publish fuel w0 c).1 :=
    fun w0 c => publish_state_stable_general fuel w0 c
  unfold stop log
  dsimp only
  have h1 := key (setState w .stopping) .log
  generalize publish fuel (setState w .stopping) .log = r1 at h1
  obtain ⟨w1, o1⟩ := r1
  obtain ⟨s1, e1, j1, m1⟩ := h1
  simp only [setState_state, setState_j] at s1 j1 m1
  cases o1 with
  | some e => exact ⟨Or.inl s1, e1, j1, fun e he => Or.inl (m1 e he)⟩
  | none =>
    dsimp only
    have h2 := key w1 .stop
    generalize publish fuel w1 .stop = r2 at h2 ⊢
    obtain ⟨w2, o2⟩ := r2
    obtain ⟨s2, e2, j2, m2⟩ := h2
    rw [s1] at s2 m2
    cases o2 with
    | some e =>
      dsimp only at s2 j2 ⊢
      refine ⟨Or.inl s2, e1 ++ e2, by simp [j2, j1], ?_⟩
      intro e he; rcases List.mem_append.mp he with h | h
      · exact Or.inl (m1 e h)
      · exact Or.inl (m2 e h)
    | none =>
      dsimp only at s2 j2 ⊢
      have h3 := key (setState w2 .stopped) .log
      generalize publish fuel (setState w2 .stopped) .log = r3 at h3 ⊢
      obtain ⟨w3, o3⟩ := r3
      obtain ⟨s3, e3, j3, m3⟩ := h3
      simp only [setState_state, setState_j] at s3 j3 m3
      refine ⟨Or.inr s3, e1 ++ e2 ++ e3, by simp [j3, j2, j1], ?_⟩
      intro e he
      rcases List.mem_append.mp he with h | h
      · rcases List.mem_append.mp h with h | h
        · exact Or.inl (m1 e h)
        · exact Or.inl (m2 e h)
      · exact Or.inr (m3 e h)

/-! ### statements that are false on the unchanged tree (known findings F19, F22) -/

def raisingStop : W :=
  { bus := subscribe Bus.init .stop ⟨1, 50, [], .raise⟩ }

/-- **F19** — the full "final state" claim (also for calls that raise) is false: a raising stop
    listener leaves the bus in STOPPING. -/
theorem final_state_full_false :
    ¬ (∀ (w : W), Tame w.bus →
        (stop 8 w).1.bus.state = .stopped ∨ (stop 8 w).1.bus.state = .started ∨
        (stop 8 w).1.bus.state = .exiting) := by
  intro h
  have t : Tame raisingStop.bus := by
    unfold Tame LogQuiet SimpleChan raisingStop
    refine ⟨?_, ?_, ?_, ?_, ?_⟩ <;> intro ls hl <;> simp [subscribe, Bus.init, builtinChannels, lookup, setChan] at hl <;>
      subst hl <;> simp [Simple]
  have := h raisingStop t
  revert this
  decide

def failingLog : W :=
  { bus := subscribe (subscribe (subscribe Bus.init .log ⟨9, 50, [], .raise⟩)
      (.custom 1) ⟨1, 10, [], .raise⟩) (.custom 1) ⟨2, 50, [], .ok⟩ }

/-- **F22** — without `LogQuiet` "every subscribed listener runs even when others raise" is
    false: a raising log listener makes the first failure abort the loop (listener 2 never runs). -/
theorem all_run_with_failing_log_false :
    ¬ (∀ (w : W) (ch : Chan), ch ≠ .log →
        (∀ l ∈ subscribed w ch, Simple l ∧ (l.out = .ok ∨ l.out = .raise)) →
        nl (publish 8 w ch).1.j = nl w.j ++ (sortByPrio (subscribed w ch)).map (entry ch w.bus.state)) := by
  intro h
  have := h failingLog (.custom 1) (by decide) (by
    intro l hl
    simp [subscribed, failingLog, subscribe, Bus.init, builtinChannels, lookup, setChan] at hl
    rcases hl with rfl | rfl <;> simp [Simple])
  revert this
  decide

/-! ### non-vacuity: the hypotheses are met by non-trivial buses -/

def demo : W :=
  { bus := subscribe (subscribe (subscribe (subscribe Bus.init .log ⟨9, 50, [], .ok⟩)
      .start ⟨1, 50, [], .raise⟩) .stop ⟨2, 50, [], .ok⟩) .exit ⟨3, 10, [], .sysExit 0⟩ }

example : Tame demo.bus := by
  unfold Tame LogQuiet SimpleChan demo
  refine ⟨?_, ?_, ?_, ?_, ?_⟩ <;> intro ls hl <;> simp [subscribe, Bus.init, builtinChannels, lookup, setChan] at hl <;>
    subst hl <;> simp [Simple]

example : (pubS demo.bus .start).2 = some (.chanFail [1]) := by decide
example : (start 8 demo).2 = .exc (.sysExit 0) ∧ (start 8 demo).1.bus.state = .exiting := by decide
example : (exit 8 raisingStop).2 = .procExit 70 := by decide

end CpProofs.C18
