import CpProofs.C20Monitor
import CpProofs.C20Block
import CpProofs.C20Threads
import CpProofs.C20Admit
/-!
  C20 — background workers obey stop/graceful under every thread interleaving.
  Part M (this file): `BackgroundTask` / `Monitor`.  Parts B (`Bus.block/wait`) and T
  (`ThreadManager`) are in `C20Block.lean` / `C20Threads.lean`.
-/
namespace CpProofs.C20
open CpModel CpModel.Monitor

/-! ### statements, at full strength (every schedule, every call sequence, any number of workers) -/

/-- at most one armed worker per monitor -/
def OneWorker (p : Params) (c : Cfg) : Prop :=
  ∀ i j, active p (c.ws i) = true → active p (c.ws j) = true → i = j

/-- once `stop()` has returned, the worker it cancelled invokes the callback at most once more and
    then never again (it is disarmed and, after that invocation, can only leave the loop) -/
def AtMostOnce (c : Cfg) : Prop :=
  ∀ i, (c.ws i).stopRet = true →
    (c.ws i).running = false ∧ (c.ws i).after ≤ 1 ∧
    ((c.ws i).after = 1 → (c.ws i).pc = .loop ∨ (c.ws i).pc = .done)

/-- between two controller calls: after `start`/`graceful` exactly one worker is armed, and it is
    alive unless its callback raised (then `run()` re-raised and the thread died, still armed);
    after `stop` none is -/
def GracefulLeavesOne (p : Params) (c : Cfg) : Prop :=
  atBoundary c →
    match c.lastRet with
    | some .stop => ∀ j, active p (c.ws j) = false
    | some _ => p.freqPos = true →
        ∃ k, c.thread = some k ∧ active p (c.ws k) = true ∧
          (c.ws k).pc ≠ .created ∧ (c.ws k).pc ≠ .ret ∧
          ((c.ws k).pc = .done → (c.ws k).crashed = true) ∧
          ∀ j, active p (c.ws j) = true → j = k
    | none => True

def C20_one_worker_full (m : Mode) : Prop :=
  ∀ (p : Params) (calls : List Call) (c : Cfg), p.mode = m → ReachAll p calls c → OneWorker p c
def C20_at_most_once_after_stop_full (m : Mode) : Prop :=
  ∀ (p : Params) (calls : List Call) (c : Cfg), p.mode = m → ReachAll p calls c → AtMostOnce c
def C20_graceful_leaves_one_full (m : Mode) : Prop :=
  ∀ (p : Params) (calls : List Call) (c : Cfg), p.mode = m → ReachAll p calls c →
    GracefulLeavesOne p c

theorem oneWorker_of_inv {p : Params} {c : Cfg} (h : Inv p c) : OneWorker p c := by
  intro i j hi hj
  have := h.g1 i ((active_iff _ _).mp hi)
  have := h.g1 j ((active_iff _ _).mp hj)
  simp_all

theorem atMostOnce_of_inv {p : Params} {c : Cfg} (h : Inv p c) : AtMostOnce c := by
  intro i hi
  obtain ⟨h1, _, h3, h4, _⟩ := h.g2 i hi
  refine ⟨?_, h3, h4⟩
  simp only [Act] at h1
  cases hr : (c.ws i).running <;> simp_all

theorem gracefulLeavesOne_of_inv {p : Params} {c : Cfg} (h : Inv p c) : GracefulLeavesOne p c := by
  intro hb
  have hl := h.b hb
  have g1 := h.g1
  have g4 := h.g4
  have hnone : c.thread = none → ∀ j, active p (c.ws j) = false := by
    intro ht j
    cases ha : active p (c.ws j) with
    | false => rfl
    | true => have := g1 j ((active_iff _ _).mp ha); simp_all
  unfold lastOk at hl
  cases hlr : c.lastRet with
  | none => simp only []
  | some x =>
    cases x <;> simp only [hlr] at hl ⊢
    case stop => exact hnone hl
    all_goals
      intro hf
      obtain ⟨k, hk, ha, hc⟩ := hl hf
      refine ⟨k, hk, (active_iff _ _).mpr ha, hc, (g4 k ha).1, (g4 k ha).2, ?_⟩
      intro j hj
      have := g1 j ((active_iff _ _).mp hj)
      simp_all

/-! ### the repaired protocol: every schedule -/

theorem C20_one_worker : C20_one_worker_full .fixed :=
  fun _ _ _ hp h => oneWorker_of_inv (inv_of_reach (reachAll_fixed hp h))

theorem C20_at_most_once_after_stop : C20_at_most_once_after_stop_full .fixed :=
  fun _ _ _ hp h => atMostOnce_of_inv (inv_of_reach (reachAll_fixed hp h))

theorem C20_graceful_leaves_one : C20_graceful_leaves_one_full .fixed :=
  fun _ _ _ hp h => gracefulLeavesOne_of_inv (inv_of_reach (reachAll_fixed hp h))

/-- `stop()` on a non-daemon worker joins it: when `stop()` has returned the worker has left `run`
    and no invocation at all begins afterwards. -/
theorem C20_stop_joins_nondaemon (p : Params) (calls : List Call) (c : Cfg)
    (hd : p.daemon = false) (h : Reach p calls c) :
    ∀ i, (c.ws i).stopRet = true → (c.ws i).pc = .done ∧ (c.ws i).after = 0 :=
  fun i hi => ((inv_of_reach h).g2 i hi).2.2.2.2 hd

/-- with a single controller no line of `Monitor` ever dereferences `None` -/
theorem C20_controller_never_crashes (p : Params) (calls : List Call) (c : Cfg)
    (h : Reach p calls c) : c.cpc ≠ .crashed := by
  intro hc
  have := (inv_of_reach h).ctl
  simp [ctlInv, hc] at this

/-! ### the protocol in which the worker arms itself (`asIs`): false in general, true when the
    worker executes its first instruction before it is cancelled -/

theorem C20_one_worker_partial (p : Params) (calls : List Call) (c : Cfg)
    (h : Reach p calls c) : OneWorker p c := oneWorker_of_inv (inv_of_reach h)

theorem C20_at_most_once_after_stop_partial (p : Params) (calls : List Call) (c : Cfg)
    (h : Reach p calls c) : AtMostOnce c := atMostOnce_of_inv (inv_of_reach h)

theorem C20_graceful_leaves_one_partial (p : Params) (calls : List Call) (c : Cfg)
    (h : Reach p calls c) : GracefulLeavesOne p c := gracefulLeavesOne_of_inv (inv_of_reach h)

def ctlN (n : Nat) : List Tid := List.replicate n .ctl
def wN (i n : Nat) : List Tid := List.replicate n (.w i)

/-- `start(); stop()` run to completion before the worker's first instruction, then the worker:
    the cancel is lost. -/
def lostCancelSched : List Tid := ctlN 17 ++ wN 0 12

def asIsP : Params := { mode := .asIs }

theorem lost_cancel_witness :
    let c := run asIsP (init [.start, .stop]) lostCancelSched
    c.cpc = .done ∧ c.lastRet = some .stop ∧ (c.ws 0).stopRet = true ∧ (c.ws 0).running = true ∧
      (c.ws 0).after = 2 := by
  decide +kernel

theorem C20_at_most_once_after_stop_asIs_false : ¬ C20_at_most_once_after_stop_full .asIs := by
  intro h
  have := h asIsP [.start, .stop] _ rfl (reachAll_run _ _ lostCancelSched) 0 (by decide +kernel)
  exact absurd this.2.1 (by decide +kernel)

/-- ... and the next `start()` puts a second armed worker beside the one that was never stopped. -/
def twoWorkersSched : List Tid := ctlN 17 ++ wN 0 2 ++ ctlN 9

theorem C20_one_worker_asIs_false : ¬ C20_one_worker_full .asIs := by
  intro h
  have := h asIsP [.start, .stop, .start] _ rfl (reachAll_run _ _ twoWorkersSched) 0 1
    (by decide +kernel) (by decide +kernel)
  exact absurd this (by decide +kernel)

theorem C20_graceful_leaves_one_asIs_false : ¬ C20_graceful_leaves_one_full .asIs := by
  intro h
  have := h asIsP [.start, .graceful] _ rfl (reachAll_run _ _ (ctlN 28 ++ wN 0 2))
    (Or.inl (by decide +kernel))
  have h2 : (run asIsP (init [.start, .graceful]) (ctlN 28 ++ wN 0 2)).lastRet = some .graceful := by
    decide +kernel
  simp only [h2] at this
  obtain ⟨k, _, _, _, _, _, hu⟩ := this rfl
  have h0 := hu 0 (by decide +kernel)
  have h1 := hu 1 (by decide +kernel)
  omega

/-! non-vacuity of the hypotheses -/
example : Reach asIsP [.start, .stop] (run asIsP (init [.start, .stop]) []) := .init
example : ∃ c, Reach { mode := .fixed } [.start, .stop, .start] c ∧ (c.ws 0).stopRet = true ∧
    (c.ws 1).running = true :=
  ⟨_, reachAll_fixed rfl (reachAll_run _ _ (ctlN 32)), by decide, by decide⟩

/-! ### progress of a cancelled worker -/

/-- how many of its own steps a disarmed worker needs, at most, to leave `run` -/
def wdist : WPc → Nat
  | .created => 0 | .held => 2 | .arm => 0 | .loop => 1 | .slp => 3 | .chk => 2 | .ret => 1
  | .try_ => 3 | .call => 2 | .done => 0

/-- facts about worker `i` that make it run off: its `stop()` has returned -/
def Off (c : Cfg) (i : Nat) : Prop := (c.ws i).stopRet = true

/-- a turn of worker `i` (with or without a failing callback) -/
def turnOf (i : Nat) (t : Tid) : Bool := t == .w i || t == .wx i

theorem off_stepW {p : Params} {c : Cfg} (i j : Nat) (boom : Bool) (hp : p.mode = .fixed) (h : Inv p c)
    (ho : Off c i) :
    Off (stepW p c j boom) i ∧
      wdist ((stepW p c j boom).ws i).pc ≤ if j = i then wdist (c.ws i).pc - 1 else wdist (c.ws i).pc := by
  have g2 := h.g2 i ho
  have g8 := h.g8 hp i
  simp only [Act, hp] at g2
  unfold stepW Off at *
  by_cases hj : j = i
  · subst hj
    cases boom <;> cases hpc : (c.ws j).pc <;> simp_all [setW, wdist]
  · have hj' : ¬ i = j := fun h => hj h.symm
    cases boom <;> cases hpc : (c.ws j).pc <;> simp_all [setW, wdist]

theorem enter_ws (c : Cfg) : (enter c).ws = c.ws := by
  unfold enter; split <;> rfl

theorem retTop_ws (c : Cfg) : (retTop c).ws = c.ws := by
  unfold retTop; rw [enter_ws]

theorem retStart_ws (c : Cfg) : (retStart c).ws = c.ws := by
  unfold retStart; split <;> exact retTop_ws c

theorem retStop_ws_pc (c : Cfg) (i : Nat) :
    ((retStop c).ws i).pc = (c.ws i).pc ∧ ((c.ws i).stopRet = true → ((retStop c).ws i).stopRet = true) := by
  unfold retStop
  cases hc : c.cancelled with
  | none => simp only []; split <;> simp [retTop_ws]
  | some k =>
    simp only []
    split <;> simp only [retTop_ws, setW] <;> (by_cases hik : i = k <;> simp [hik])

theorem off_stepCtl {p : Params} {c : Cfg} (i : Nat) (hp : p.mode = .fixed) (h : Inv p c)
    (ho : Off c i) :
    Off (stepCtl p c) i ∧ ((stepCtl p c).ws i).pc = (c.ws i).pc := by
  have g2 := h.g2 i ho
  have g5 := h.g5 i
  have hctl := h.ctl
  have hlt : i < c.nw := by
    apply Nat.lt_of_not_le
    intro hle
    have := g5 hle
    simp [Off, this] at ho
  unfold Off at *
  unfold stepCtl
  cases hpc : c.cpc <;> simp only [hp] <;> (try split) <;> (try split) <;>
    simp only [retStart_ws, setW, ctlInv, hpc] at * <;>
    first
      | exact ⟨ho, rfl⟩
      | exact ⟨(retStop_ws_pc _ i).2 ho, (retStop_ws_pc _ i).1⟩
      | grind

theorem off_step {p : Params} {c : Cfg} (i : Nat) (t : Tid) (hp : p.mode = .fixed) (h : Inv p c)
    (ho : Off c i) :
    Inv p (step p c t) ∧ Off (step p c t) i ∧
      wdist ((step p c t).ws i).pc ≤
        if turnOf i t = true then wdist (c.ws i).pc - 1 else wdist (c.ws i).pc := by
  refine ⟨inv_step t h (by simp [okStep, hp]), ?_⟩
  have hlt : i < c.nw := by
    apply Nat.lt_of_not_le
    intro hle
    have := h.g5 i hle
    simp [Off, this] at ho
  have hdis : ∀ j, (j < c.nw && (c.ws j).pc ≠ .created && (c.ws j).pc ≠ .done) = false → j = i →
      wdist (c.ws i).pc ≤ wdist (c.ws i).pc - 1 := by
    intro j hen hji
    subst hji
    simp only [hlt, decide_true, Bool.true_and, Bool.and_eq_false_imp, decide_eq_true_eq,
      decide_eq_false_iff_not, ne_eq, Decidable.not_not] at hen
    by_cases hc : (c.ws j).pc = .created
    · simp [hc, wdist]
    · simp [hen hc, wdist]
  unfold step
  split
  · cases t with
    | ctl =>
      obtain ⟨h1, h2⟩ := off_stepCtl i hp h ho
      exact ⟨h1, by simp [h2, turnOf]⟩
    | ctl2 =>
      rename_i hen
      simp [enabled, h.g10] at hen
    | w j =>
      obtain ⟨h1, h2⟩ := off_stepW i j false hp h ho
      refine ⟨h1, ?_⟩
      by_cases hj : j = i <;> simp_all [turnOf]
    | wx j =>
      obtain ⟨h1, h2⟩ := off_stepW i j true hp h ho
      refine ⟨h1, ?_⟩
      by_cases hj : j = i <;> simp_all [turnOf]
  · rename_i hen
    refine ⟨ho, ?_⟩
    cases t with
    | ctl => simp [turnOf]
    | ctl2 => simp [turnOf]
    | w j =>
      by_cases hj : j = i
      · simp only [enabled, Bool.not_eq_true] at hen
        simpa [turnOf, hj] using hdis j hen hj
      · simp [turnOf, hj]
    | wx j =>
      by_cases hj : j = i
      · simp only [enabled, Bool.not_eq_true] at hen
        simpa [turnOf, hj] using hdis j hen hj
      · simp [turnOf, hj]

theorem wdist_run {p : Params} (hp : p.mode = .fixed) (i : Nat) (sched : List Tid) :
    ∀ c : Cfg, Inv p c → Off c i →
      Inv p (run p c sched) ∧ Off (run p c sched) i ∧
        wdist ((run p c sched).ws i).pc ≤ wdist (c.ws i).pc - sched.countP (turnOf i) := by
  induction sched with
  | nil => intro c h ho; exact ⟨h, ho, by simp [run]⟩
  | cons t ts ih =>
    intro c h ho
    obtain ⟨h1, h2, h3⟩ := off_step i t hp h ho
    obtain ⟨k1, k2, k3⟩ := ih (step p c t) h1 h2
    refine ⟨k1, k2, ?_⟩
    simp only [run, List.countP_cons]
    by_cases ht : turnOf i t = true
    · simp only [ht, if_true] at h3 ⊢
      omega
    · simp only [ht] at h3 ⊢
      simp only [Bool.false_eq_true, if_false] at h3 ⊢
      omega

/-- "... and then never again", as progress: a worker whose `stop()` has returned leaves `run`
    within 3 of its own steps, whatever all other threads do in between (repaired protocol). -/
theorem C20_cancelled_worker_terminates (p : Params) (calls : List Call) (c : Cfg)
    (hp : p.mode = .fixed) (h : ReachAll p calls c) (i : Nat) (hs : (c.ws i).stopRet = true)
    (sched : List Tid) (hf : 3 ≤ sched.countP (turnOf i)) : ((run p c sched).ws i).pc = .done := by
  have hi := inv_of_reach (reachAll_fixed hp h)
  obtain ⟨k1, k2, k3⟩ := wdist_run hp i sched c hi hs
  have hb : wdist (c.ws i).pc ≤ 3 := by cases (c.ws i).pc <;> simp [wdist]
  have h0 : wdist ((run p c sched).ws i).pc = 0 := by omega
  have g2 := k1.g2 i k2
  have g8 := k1.g8 hp i
  cases hpc : ((run p c sched).ws i).pc <;> simp_all [wdist]



/-! ### a callback that raises (`Tid.wx`): `BackgroundTask.run` logs, re-raises, the worker dies

  All theorems above quantify over schedules that contain such turns.  What `Monitor` does with
  the dead worker: it stays `Monitor.thread` and stays armed (`running`), but it is inert; `stop()`
  cancels it, joins it at once and clears `Monitor.thread` (covered by `GracefulLeavesOne` /
  `C20_stop_joins_nondaemon`); `start()` finds `thread is not None` and starts NOTHING
  (`C20_start_keeps_dead_worker`), `graceful()` replaces it (`C20_graceful_replaces_dead_worker`). -/

/-- a worker whose callback raised has left `run`, is never scheduled again and invokes nothing -/
theorem C20_dead_worker_inert (p : Params) (calls : List Call) (c : Cfg) (h : Reach p calls c)
    (i : Nat) (hc : (c.ws i).crashed = true) :
    (c.ws i).pc = .done ∧ enabled c (.w i) = false ∧ enabled c (.wx i) = false ∧
      ∀ b, stepW p c i b = c := by
  have hd := (inv_of_reach h).g9 i hc
  refine ⟨hd, by simp [enabled, hd], by simp [enabled, hd], fun b => by simp [stepW, hd]⟩

def crashP : Params := { mode := .fixed }

/-- `start(); <callback raises>; start()`: the second `start()` returns without starting a worker —
    no live worker is left (the dead one is still `Monitor.thread`, still armed) -/
theorem C20_start_keeps_dead_worker :
    let c := run crashP (init [.start, .start]) (ctlN 11 ++ wN 0 5 ++ [.wx 0] ++ ctlN 6)
    c.cpc = .done ∧ c.nret = 2 ∧ c.nw = 1 ∧ c.thread = some 0 ∧ (c.ws 0).crashed = true ∧
      (c.ws 0).pc = .done ∧ (c.ws 0).running = true ∧ (c.ws 0).calls = 1 := by
  decide +kernel

/-- `start(); <callback raises>; graceful()`: the dead worker is disarmed and a fresh one started -/
theorem C20_graceful_replaces_dead_worker :
    let c := run crashP (init [.start, .graceful]) (ctlN 11 ++ wN 0 5 ++ [.wx 0] ++ ctlN 30)
    c.cpc = .done ∧ c.nret = 2 ∧ c.nw = 2 ∧ c.thread = some 1 ∧ (c.ws 0).running = false ∧
      (c.ws 0).pc = .done ∧ (c.ws 1).running = true ∧ (c.ws 1).pc = .held := by
  decide +kernel

/-- reachability by schedules in which no callback raises -/
inductive ReachQuiet (p : Params) (calls : List Call) : Cfg → Prop where
  | init : ReachQuiet p calls (init calls)
  | step {c : Cfg} (t : Tid) : ReachQuiet p calls c → (∀ i, t ≠ .wx i) →
      ReachQuiet p calls (step p c t)

theorem retStop_crashed (c : Cfg) (i : Nat) : ((retStop c).ws i).crashed = (c.ws i).crashed := by
  unfold retStop
  cases hc : c.cancelled with
  | none => simp only []; split <;> simp [retTop_ws]
  | some k =>
    simp only []
    split <;> simp only [retTop_ws, setW] <;> (by_cases hik : i = k <;> simp [hik])

theorem quiet_stepCtl {p : Params} {c : Cfg} (h : ∀ i, (c.ws i).crashed = false) :
    ∀ i, ((stepCtl p c).ws i).crashed = false := by
  intro i
  have hi := h i
  unfold stepCtl
  cases hpc : c.cpc <;> simp only [] <;> (try split) <;> (try split) <;> (try split) <;>
    (try simp only [retStart_ws, retStop_crashed, setW]) <;> (try split) <;> simp_all

/-- if no callback raises no worker dies armed: together with `C20_graceful_leaves_one` the worker
    left by `start`/`graceful` is ALIVE (`pc ≠ done`) -/
theorem C20_no_raise_no_dead_worker (p : Params) (calls : List Call) (c : Cfg)
    (h : ReachQuiet p calls c) : ∀ i, (c.ws i).crashed = false := by
  induction h with
  | init => intro i; unfold init enter; split <;> rfl
  | @step c t _ hq ih =>
    unfold step
    split
    · cases t with
      | ctl => exact quiet_stepCtl ih
      | ctl2 => exact fun i => quiet_stepCtl (p := p) (c := swap c) ih i
      | w j =>
        intro i
        have hi := ih i
        have hj := ih j
        unfold stepW
        by_cases hij : i = j <;> cases hpc : (c.ws j).pc <;> simp_all [setW]
      | wx j => exact absurd rfl (hq j)
    · exact ih


/-! ### overlapping controller calls (a SECOND controller thread, `Tid.ctl2`)

  The property quantifies over ONE sequence of controller calls (`Inv.g10`: the second controller is
  idle; every theorem above is about that case — `reachAll2_idle`).  `Monitor` has no lock: when
  `stop()` from a second thread overlaps `graceful()` (= `stop(); start()`), the statements are
  false — proved here by witness schedules, which the harness replays on the real code. -/

inductive ReachAll2 (p : Params) (calls calls2 : List Call) : Cfg → Prop where
  | init : ReachAll2 p calls calls2 (init2 calls calls2)
  | step {c : Cfg} (t : Tid) : ReachAll2 p calls calls2 c → ReachAll2 p calls calls2 (step p c t)

theorem init2_nil (calls : List Call) : init2 calls [] = init calls := by
  unfold init2 init enter
  cases calls with
  | nil => rfl
  | cons a r => cases a <;> rfl

/-- a second controller without calls changes nothing: the two-controller system is the
    one-controller system of the theorems above -/
theorem reachAll2_idle {p : Params} {calls : List Call} {c : Cfg} (h : ReachAll2 p calls [] c) :
    ReachAll p calls c := by
  induction h with
  | init => rw [init2_nil]; exact .init
  | step t _ ih => exact .step t ih

theorem reachAll2_run (p : Params) (calls calls2 : List Call) (sched : List Tid) :
    ReachAll2 p calls calls2 (run p (init2 calls calls2) sched) := by
  suffices ∀ c, ReachAll2 p calls calls2 c → ReachAll2 p calls calls2 (run p c sched) from this _ .init
  induction sched with
  | nil => intro c h; exact h
  | cons t ts ih => intro c h; exact ih _ (.step t h)

def c2N (n : Nat) : List Tid := List.replicate n .ctl2

/-- `stop()` on a second thread while the first runs `graceful()`: the second `stop()` has cancelled
    the worker; `graceful()` clears `Monitor.thread`; `self.thread.daemon` in the second thread then
    dereferences `None` (AttributeError) -/
theorem C20_overlapping_stop_crashes :
    let c := run crashP (init2 [.start, .graceful] [.stop]) (ctlN 11 ++ c2N 5 ++ ctlN 9 ++ c2N 1)
    c.c2.cpc = .crashed ∧ c.thread = none := by
  decide +kernel

/-- ... or worse: the second `stop()` evaluates `self.thread` (the old worker) for `cancel()`, the
    first thread's `graceful()` replaces the worker, the second `stop()` then clears
    `Monitor.thread` — the NEW worker is armed and running but no longer known to the monitor, and
    the next `start()` puts a second armed worker beside it. -/
def orphanSched : List Tid := ctlN 11 ++ c2N 4 ++ ctlN 21 ++ c2N 4 ++ ctlN 11

theorem overlapping_orphan_witness :
    let c := run crashP (init2 [.start, .graceful, .start] [.stop]) orphanSched
    c.cpc = .done ∧ c.c2.cpc = .done ∧ c.nret = 3 ∧ c.c2.nret = 1 ∧ c.thread = some 2 ∧
      (c.ws 1).running = true ∧ (c.ws 1).pc = .held ∧ (c.ws 2).running = true ∧ (c.ws 2).pc = .held := by
  decide +kernel

theorem C20_overlapping_stop_breaks_one_worker :
    ¬ ∀ c, ReachAll2 crashP [.start, .graceful, .start] [.stop] c → OneWorker crashP c := by
  intro h
  have := h _ (reachAll2_run _ _ _ orphanSched) 1 2 (by decide +kernel) (by decide +kernel)
  exact absurd this (by decide)

/-! ### trace inclusion: what an admitted implementation trace inherits

  The driver answers `ok` for a recorded trace of the real threads exactly when
  `C20Admit.admitsInit step enabled obsStr keyStr FUEL init o0 tr = true`.  By construction of the
  subset simulation such a trace is a sampling of a genuine model run: there are model states
  `cs`, one per observed turn, each reached from the previous one by steps of the observed thread
  only, whose observations are the recorded ones — so every invariant of ALL model runs holds at
  every observed point of the real execution, whatever the line structure of the source. -/

section Admit
open CpModel.C20Admit

/-- generic form (any transition system, any observation function, any duplicate key) -/
theorem C20_admitted_trace_is_model_run {σ τ ο : Type} [DecidableEq ο] (step : σ → τ → σ)
    (en : σ → τ → Bool) (obs : σ → ο) (key : σ → String) (fuel : Nat) (c0 : σ) (o0 : ο) (tr : List (τ × ο))
    (h : admitsInit step en obs key fuel c0 o0 tr = true) :
    obs c0 = o0 ∧ ∃ cs : List σ, Follows step obs c0 tr cs ∧ cs.map obs = tr.map (·.2) ∧
      ∃ sched : List τ, cs.getLast? = (if tr.isEmpty then none else some (sched.foldl step c0)) := by
  obtain ⟨h0, cs, hf⟩ := C20Admit.admitsInit_sound step en obs key fuel c0 o0 tr h
  refine ⟨h0, cs, hf, ?_, C20Admit.follows_sched hf⟩
  exact (C20Admit.follows_inv (P := fun _ => True) (fun _ _ _ => trivial) trivial hf).2

/-- M (repaired protocol): at every observed point of an admitted trace the monitor state is a
    reachable model state with the recorded observation, hence at most one armed worker, at most one
    more invocation after `stop()` returned, exactly one armed worker after start/graceful, no crash -/
theorem C20_admitted_M_safe (p : Params) (calls : List Call) (o0 : Obs)
    (tr : List (Tid × Obs)) (hp : p.mode = .fixed)
    (h : admitsInit (step p) enabled obs keyStr FUEL (init2 calls []) o0 tr = true) :
    ∃ cs : List Cfg, cs.map obs = tr.map (·.2) ∧
      ∀ c ∈ cs, ReachAll p calls c ∧ OneWorker p c ∧ AtMostOnce c ∧ GracefulLeavesOne p c ∧
        c.cpc ≠ .crashed := by
  rw [init2_nil] at h
  obtain ⟨_, cs, hf⟩ := C20Admit.admitsInit_sound _ _ _ _ _ _ _ _ h
  obtain ⟨h1, h2⟩ := C20Admit.follows_inv (P := ReachAll p calls) (fun _ t hc => .step t hc) .init hf
  refine ⟨cs, h2, fun c hc => ?_⟩
  have hr := h1 c hc
  have hi := inv_of_reach (reachAll_fixed hp hr)
  exact ⟨hr, oneWorker_of_inv hi, atMostOnce_of_inv hi, gracefulLeavesOne_of_inv hi,
    C20_controller_never_crashes p calls c (reachAll_fixed hp hr)⟩
end Admit

/-! ### parts B and T restated under the property's namespace -/
section B
open CpModel.BlockWait

/-- EXITING is stable once `exit()` has written it (every schedule). -/
theorem C20_exiting_stable (s0 : St) (calls : List BCall) (fr : List Bool) (c : BlockWait.Cfg)
    (hs : s0 ≠ .exiting) (hl : ExitLast calls = true) (h : C20B.Reach s0 calls fr c)
    (he : c.exited = true) (sched : List BlockWait.Tid) : (BlockWait.run c sched).state = .exiting :=
  C20B.C20_exiting_stable s0 calls fr c hs hl h he sched

/-- `block()` returns once the bus is EXITING and the non-daemon foreign threads have finished,
    under any schedule that gives main `2 * #foreign + 14` turns. -/
theorem C20_block_returns (s0 : St) (calls : List BCall) (fr : List Bool) (c : BlockWait.Cfg)
    (hs : s0 ≠ .exiting) (hl : ExitLast calls = true) (h : C20B.Reach s0 calls fr c)
    (he : c.exited = true) (hfd : C20B.ForeignDone c) (sched : List BlockWait.Tid)
    (hf : 2 * c.foreign.length + 14 ≤ sched.count .main) : (BlockWait.run c sched).mpc = .done :=
  C20B.C20_block_returns s0 calls fr c hs hl h he hfd sched hf

/-- ... and never earlier. -/
theorem C20_block_only_after_exiting (s0 : St) (calls : List BCall) (fr : List Bool)
    (c : BlockWait.Cfg) (hs : s0 ≠ .exiting) (hl : ExitLast calls = true)
    (h : C20B.Reach s0 calls fr c) (hm : C20B.leftWait c.mpc) : c.exited = true ∧ c.state = .exiting :=
  C20B.C20_block_only_after_exiting s0 calls fr c hs hl h hm

theorem C20_execv_iff_restart (s0 : St) (calls : List BCall) (fr : List Bool) (c : BlockWait.Cfg)
    (hs : s0 ≠ .exiting) (hl : ExitLast calls = true) (h : C20B.Reach s0 calls fr c)
    (hm : c.mpc = .done) : c.execvDone = true ↔ BCall.restart ∈ calls :=
  C20B.C20_execv_iff_restart s0 calls fr c hs hl h hm

/-- which threads `block()` joins: only non-daemon foreign threads (never the caller, never the
    `_MainThread`, no daemon) -/
theorem C20_block_joins_only_nondaemon (s0 : St) (calls : List BCall) (fr : List Bool)
    (c : BlockWait.Cfg) (h : C20B.Reach s0 calls fr c) :
    ∀ k ∈ c.joined, k < c.foreign.length ∧ c.foreign.getD k true = false :=
  C20B.C20_block_joins_only_nondaemon s0 calls fr c h

/-- ... and all of them: past the join loop every non-daemon foreign thread has finished -/
theorem C20_block_waits_for_foreign (s0 : St) (calls : List BCall) (fr : List Bool)
    (c : BlockWait.Cfg) (h : C20B.Reach s0 calls fr c)
    (hm : c.mpc = .ex ∨ c.mpc = .dx ∨ c.mpc = .done) : C20B.ForeignDone c :=
  C20B.C20_block_waits_for_foreign s0 calls fr c h hm

/-- execv (restart) only after those joins -/
theorem C20_execv_after_joins (s0 : St) (calls : List BCall) (fr : List Bool) (c : BlockWait.Cfg)
    (hs : s0 ≠ .exiting) (hl : ExitLast calls = true) (h : C20B.Reach s0 calls fr c)
    (hx : c.execvDone = true) : C20B.ForeignDone c :=
  C20B.C20_execv_after_joins s0 calls fr c hs hl h hx

/-- B: at every observed point of an admitted trace: `block()` has left its loop only after EXITING
    was written (and it still holds), and when it has returned execv was performed iff `restart()`
    was among the calls -/
theorem C20_admitted_B_safe (calls : List BCall) (fr : List Bool) (o0 : String)
    (tr : List (BlockWait.Tid × String)) (hl : ExitLast calls = true)
    (h : CpModel.C20Admit.admitsInit BlockWait.step BlockWait.enabled (BlockWait.obsStr calls.length)
      BlockWait.keyStr CpModel.C20Admit.FUEL (BlockWait.init .started calls fr) o0 tr = true) :
    ∃ cs : List BlockWait.Cfg, cs.map (BlockWait.obsStr calls.length) = tr.map (·.2) ∧
      ∀ c ∈ cs, C20B.Reach .started calls fr c ∧
        (C20B.leftWait c.mpc → c.exited = true ∧ c.state = .exiting) ∧
        (c.mpc = .done → (c.execvDone = true ↔ BCall.restart ∈ calls)) ∧
        (∀ k ∈ c.joined, k < c.foreign.length ∧ c.foreign.getD k true = false) ∧
        (c.mpc = .done → C20B.ForeignDone c) := by
  obtain ⟨_, cs, hf⟩ := C20Admit.admitsInit_sound _ _ _ _ _ _ _ _ h
  obtain ⟨h1, h2⟩ := C20Admit.follows_inv (P := C20B.Reach .started calls fr) (fun _ t hc => .step t hc) .init hf
  refine ⟨cs, h2, fun c hc => ?_⟩
  have hr := h1 c hc
  exact ⟨hr, C20B.C20_block_only_after_exiting .started calls fr c (by decide) hl hr,
    C20B.C20_execv_iff_restart .started calls fr c (by decide) hl hr,
    C20B.C20_block_joins_only_nondaemon .started calls fr c hr,
    fun hm => C20B.C20_block_waits_for_foreign .started calls fr c hr (Or.inr (Or.inr hm))⟩
end B

section T
open CpModel.ThreadMgr

theorem C20_thread_notifications : C20T.C20_thread_notifications_full .fixed :=
  C20T.C20_thread_notifications

theorem C20_thread_notifications_quiescent (scripts : List (List ROp)) (nstops : Nat)
    (c : ThreadMgr.Cfg) (h : C20T.Reach .fixed scripts nstops c) (hs : c.spc = .done) (t : Nat)
    (ht : (c.rs t).pc = .done) :
    (c.rs t).nstart = (c.rs t).nstop + C20T.b2n (c.d t).isSome :=
  C20T.C20_thread_notifications_quiescent scripts nstops c h hs t ht

theorem C20_thread_notifications_partial (scripts : List (List ROp)) (c : ThreadMgr.Cfg)
    (h : C20T.Reach .asIs scripts 0 c) : (∀ t, C20T.Bal c t) ∧ c.spc ≠ .rterr :=
  C20T.C20_thread_notifications_partial scripts c h

theorem C20_thread_notifications_asIs_false : ¬ C20T.C20_thread_notifications_full .asIs :=
  C20T.C20_thread_notifications_asIs_false

/-- T (repaired `stop()`): at every observed point of an admitted trace the conservation law of
    start_thread/stop_thread holds for every thread and `stop()` has not died -/
theorem C20_admitted_T_safe (scripts : List (List ROp)) (nstops : Nat) (o0 : String)
    (tr : List (ThreadMgr.Tid × String))
    (h : CpModel.C20Admit.admitsInit (ThreadMgr.step .fixed) ThreadMgr.enabled
      (ThreadMgr.obsStr (scripts.map List.length) nstops) ThreadMgr.keyStr CpModel.C20Admit.FUEL
      (ThreadMgr.init .fixed scripts nstops) o0 tr = true) :
    ∃ cs : List ThreadMgr.Cfg,
      cs.map (ThreadMgr.obsStr (scripts.map List.length) nstops) = tr.map (·.2) ∧
      ∀ c ∈ cs, C20T.Reach .fixed scripts nstops c ∧ (∀ t, C20T.Bal c t) ∧ c.spc ≠ .rterr := by
  obtain ⟨_, cs, hf⟩ := C20Admit.admitsInit_sound _ _ _ _ _ _ _ _ h
  obtain ⟨h1, h2⟩ := C20Admit.follows_inv (P := C20T.Reach .fixed scripts nstops)
    (fun _ t hc => .step t hc) .init hf
  refine ⟨cs, h2, fun c hc => ?_⟩
  have hr := h1 c hc
  exact ⟨hr, C20T.C20_thread_notifications scripts nstops c hr⟩
end T

end CpProofs.C20
