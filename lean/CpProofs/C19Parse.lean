import CpModel.Auth
import CpProofs.C19Lemmas
/-!
  C19 helper: round trip of the RFC 2617 credentials serialisation through the transcription of
  `urllib.request.parse_http_list` / `parse_keqv_list`.

  `serialise [f₁, f₂, …]` = `f₁, f₂, …` where a field is written either as `k="esc(v)"` (quoted-string, `\` and `"`
  backslash-escaped; **arbitrary** value: commas, quotes, backslashes, spaces, empty, any code point) or as `k=v`
  (token form, as RFC 2617 spells `qop=auth`, `nc=00000001`, `algorithm=MD5`; value non-empty, free of `,` `"` and
  white space).  For keys that are non-empty and free of `,` `"` `=` and white space the parsers give back exactly
  the pairs.
-/
namespace CpProofs.C19
open CpModel.Auth CpModel.Gen.C19

/- quoted-string escaping: `CpModel.Auth.escQ` (since the fix for F26 the server side uses it as well) -/

/-- `k="esc(v)"` as the client writes it -/
def item (k v : Str) : Str := k ++ '=' :: '"' :: (escQ v ++ ['"'])

/-- `k="v"` as `parse_http_list` hands it on (escapes resolved) -/
def item' (k v : Str) : Str := k ++ '=' :: '"' :: (v ++ ['"'])

structure GoodKey (k : Str) : Prop where
  ne : k ≠ []
  chars : ∀ c ∈ k, c ≠ ',' ∧ c ≠ '"' ∧ c ≠ '=' ∧ isSpace c = false

structure GoodTok (v : Str) : Prop where
  ne : v ≠ []
  chars : ∀ c ∈ v, c ≠ ',' ∧ c ≠ '"' ∧ isSpace c = false

/-- one credentials parameter as the client writes it -/
inductive Fld
  | quoted (k v : Str)
  | token (k v : Str)

/-- the text on the wire -/
def Fld.text : Fld → Str
  | .quoted k v => item k v
  | .token k v => k ++ '=' :: v

/-- the list item `parse_http_list` hands on -/
def Fld.seen : Fld → Str
  | .quoted k v => item' k v
  | .token k v => k ++ '=' :: v

def Fld.pair : Fld → Str × Str
  | .quoted k v => (k, v)
  | .token k v => (k, v)

def Fld.Good : Fld → Prop
  | .quoted k _ => GoodKey k
  | .token k v => GoodKey k ∧ GoodTok v

def serialise : List Fld → Str
  | [] => []
  | [f] => f.text
  | f :: f2 :: rest => f.text ++ ',' :: ' ' :: serialise (f2 :: rest)

/-! ### the `parse_http_list` state machine on the pieces -/

theorem fold_key (k : Str) (hk : ∀ c ∈ k, c ≠ ',' ∧ c ≠ '"') (rest : Str) (res : List Str) (part : Str) :
    (k ++ rest).foldl hlStep ⟨res, part, false, false⟩ = rest.foldl hlStep ⟨res, k.reverse ++ part, false, false⟩ := by
  induction k generalizing part with
  | nil => simp
  | cons c cs ih =>
    have hc := hk c (by simp)
    have hcs : ∀ d ∈ cs, d ≠ ',' ∧ d ≠ '"' := fun d hd => hk d (List.mem_cons_of_mem _ hd)
    simp only [List.cons_append, List.foldl_cons]
    have : hlStep ⟨res, part, false, false⟩ c = ⟨res, c :: part, false, false⟩ := by
      simp [hlStep, hc.1, hc.2]
    rw [this, ih hcs]
    simp

theorem fold_quoted (v : Str) (rest : Str) (res : List Str) (part : Str) :
    (escQ v ++ '"' :: rest).foldl hlStep ⟨res, part, false, true⟩ =
      rest.foldl hlStep ⟨res, '"' :: (v.reverse ++ part), false, false⟩ := by
  induction v generalizing part with
  | nil => simp [escQ, hlStep]
  | cons c cs ih =>
    simp only [escQ]
    split
    · rename_i hc
      simp only [List.cons_append, List.foldl_cons]
      have h1 : hlStep ⟨res, part, false, true⟩ '\\' = ⟨res, part, true, true⟩ := by simp [hlStep]
      have h2 : hlStep ⟨res, part, true, true⟩ c = ⟨res, c :: part, false, true⟩ := by simp [hlStep]
      rw [h1, h2, ih]
      simp
    · rename_i hc
      simp only [not_or] at hc
      simp only [List.cons_append, List.foldl_cons]
      have h1 : hlStep ⟨res, part, false, true⟩ c = ⟨res, c :: part, false, true⟩ := by
        simp [hlStep, hc.1, hc.2]
      rw [h1, ih]
      simp

theorem fold_item (k v : Str) (hk : GoodKey k) (rest : Str) (res : List Str) (part : Str) :
    (item k v ++ rest).foldl hlStep ⟨res, part, false, false⟩ =
      rest.foldl hlStep ⟨res, (item' k v).reverse ++ part, false, false⟩ := by
  have hk' : ∀ c ∈ k, c ≠ ',' ∧ c ≠ '"' := fun c hc => ⟨(hk.chars c hc).1, (hk.chars c hc).2.1⟩
  unfold item item'
  rw [List.append_assoc, fold_key k hk']
  simp only [List.cons_append, List.foldl_cons, List.append_assoc]
  have h1 : hlStep ⟨res, k.reverse ++ part, false, false⟩ '=' = ⟨res, '=' :: (k.reverse ++ part), false, false⟩ := by
    simp [hlStep]
  have h2 : hlStep ⟨res, '=' :: (k.reverse ++ part), false, false⟩ '"' =
      ⟨res, '"' :: '=' :: (k.reverse ++ part), false, true⟩ := by simp [hlStep]
  rw [h1, h2]
  have := fold_quoted v rest res ('"' :: '=' :: (k.reverse ++ part))
  simp only [List.nil_append] at this ⊢
  rw [this]
  simp

theorem fold_fld (f : Fld) (hf : f.Good) (rest : Str) (res : List Str) (part : Str) :
    (f.text ++ rest).foldl hlStep ⟨res, part, false, false⟩ =
      rest.foldl hlStep ⟨res, f.seen.reverse ++ part, false, false⟩ := by
  cases f with
  | quoted k v => exact fold_item k v hf rest res part
  | token k v =>
    obtain ⟨hk, hv⟩ := hf
    have hall : ∀ c ∈ k ++ '=' :: v, c ≠ ',' ∧ c ≠ '"' := by
      intro c hc
      rcases List.mem_append.mp hc with h | h
      · exact ⟨(hk.chars c h).1, (hk.chars c h).2.1⟩
      · rcases List.mem_cons.mp h with h | h
        · subst h; decide
        · exact ⟨(hv.chars c h).1, (hv.chars c h).2.1⟩
    exact fold_key (k ++ '=' :: v) hall rest res part

/-- the items `parse_http_list` collects (before `strip`), newest first, and the pending part -/
def collected (res : List Str) (pre : Str) : List Fld → List Str × Str
  | [] => (res, pre)
  | [f] => (res, f.seen.reverse ++ pre)
  | f :: f2 :: rest => collected ((pre.reverse ++ f.seen) :: res) [' '] (f2 :: rest)

theorem fold_serialise (fs : List Fld) (hk : ∀ f ∈ fs, f.Good) (res : List Str) (pre : Str) :
    (serialise fs).foldl hlStep ⟨res, pre, false, false⟩ =
      ⟨(collected res pre fs).1, (collected res pre fs).2, false, false⟩ := by
  induction fs generalizing res pre with
  | nil => simp [serialise, collected]
  | cons f rest ih =>
    have hkk : f.Good := hk f (by simp)
    cases rest with
    | nil =>
      have := fold_fld f hkk [] res pre
      simpa [serialise, collected] using this
    | cons f2 rest' =>
      have hrest : ∀ g ∈ f2 :: rest', g.Good := fun g h => hk g (List.mem_cons_of_mem _ h)
      simp only [serialise, collected]
      rw [fold_fld f hkk]
      simp only [List.foldl_cons]
      have h1 : hlStep ⟨res, f.seen.reverse ++ pre, false, false⟩ ',' =
          ⟨(pre.reverse ++ f.seen) :: res, [], false, false⟩ := by
        simp [hlStep]
      have h2 : hlStep ⟨(pre.reverse ++ f.seen) :: res, [], false, false⟩ ' ' =
          ⟨(pre.reverse ++ f.seen) :: res, [' '], false, false⟩ := by
        simp [hlStep]
      rw [h1, h2, ih hrest]

/-! ### `strip()` leaves the items alone -/

theorem dropWhile_head {p : Char → Bool} (c : Char) (cs : Str) (h : p c = false) :
    (c :: cs).dropWhile p = c :: cs := by
  simp [List.dropWhile, h]

theorem item'_head (k v : Str) (hk : GoodKey k) : ∃ c cs, item' k v = c :: cs ∧ isSpace c = false := by
  cases k with
  | nil => exact absurd rfl hk.ne
  | cons c cs => exact ⟨c, _, rfl, (hk.chars c (by simp)).2.2.2⟩

theorem item'_rev (k v : Str) : ∃ cs, (item' k v).reverse = '"' :: cs := by
  unfold item'
  refine ⟨(k ++ '=' :: '"' :: v).reverse, ?_⟩
  simp

/-- a string whose first and last characters are not white space is left alone by `strip()` -/
theorem strip_id (s : Str) (c : Char) (cs : Str) (d : Char) (rs : Str) (h1 : s = c :: cs) (h2 : isSpace c = false)
    (h3 : s.reverse = d :: rs) (h4 : isSpace d = false) : pyStrip s = s := by
  unfold pyStrip
  rw [h1, dropWhile_head c cs h2, ← h1, h3, dropWhile_head d rs h4, ← h3]
  simp

theorem seen_head (f : Fld) (hf : f.Good) : ∃ c cs, f.seen = c :: cs ∧ isSpace c = false := by
  cases f with
  | quoted k v => exact item'_head k v hf
  | token k v =>
    obtain ⟨hk, _⟩ := hf
    cases k with
    | nil => exact absurd rfl hk.ne
    | cons c cs => exact ⟨c, _, rfl, (hk.chars c (by simp)).2.2.2⟩

theorem seen_last (f : Fld) (hf : f.Good) : ∃ d rs, f.seen.reverse = d :: rs ∧ isSpace d = false := by
  cases f with
  | quoted k v =>
    obtain ⟨rs, h⟩ := item'_rev k v
    exact ⟨'"', rs, h, by decide⟩
  | token k v =>
    obtain ⟨_, hv⟩ := hf
    have hne : v.reverse ≠ [] := by simpa using hv.ne
    cases hr : v.reverse with
    | nil => exact absurd hr hne
    | cons d rs =>
      have hd : d ∈ v := by
        have : d ∈ v.reverse := by rw [hr]; simp
        simpa using this
      refine ⟨d, rs ++ ('=' :: k.reverse), ?_, (hv.chars d hd).2.2⟩
      simp [Fld.seen, hr]

theorem strip_seen (f : Fld) (hf : f.Good) : pyStrip f.seen = f.seen := by
  obtain ⟨c, cs, h1, h2⟩ := seen_head f hf
  obtain ⟨d, rs, h3, h4⟩ := seen_last f hf
  exact strip_id _ c cs d rs h1 h2 h3 h4

theorem strip_space_seen (f : Fld) (hf : f.Good) : pyStrip (' ' :: f.seen) = f.seen := by
  have : pyStrip (' ' :: f.seen) = pyStrip f.seen := by
    unfold pyStrip
    have hs : isSpace ' ' = true := by decide
    simp [List.dropWhile, hs]
  rw [this, strip_seen f hf]

/-- the pending prefix is either empty (first item) or the single space after a comma -/
theorem collected_out (fs : List Fld) (hk : ∀ f ∈ fs, f.Good) (hne : fs ≠ [])
    (res : List Str) (pre : Str) (hpre : pre = [] ∨ pre = [' ']) :
    ((collected res pre fs).2.reverse :: (collected res pre fs).1).reverse.map pyStrip =
      res.reverse.map pyStrip ++ fs.map Fld.seen ∧ (collected res pre fs).2 ≠ [] := by
  induction fs generalizing res pre with
  | nil => exact absurd rfl hne
  | cons f rest ih =>
    have hkk : f.Good := hk f (by simp)
    have hstrip : pyStrip (pre.reverse ++ f.seen) = f.seen := by
      rcases hpre with rfl | rfl
      · simpa using strip_seen f hkk
      · simpa using strip_space_seen f hkk
    cases rest with
    | nil =>
      simp only [collected]
      constructor
      · simp [hstrip]
      · obtain ⟨d, rs, h3, _⟩ := seen_last f hkk
        rw [h3]; simp
    | cons f2 rest' =>
      have hrest : ∀ g ∈ f2 :: rest', g.Good := fun g h => hk g (List.mem_cons_of_mem _ h)
      simp only [collected]
      obtain ⟨h1, h2⟩ := ih hrest (by simp) ((pre.reverse ++ f.seen) :: res) [' '] (Or.inr rfl)
      refine ⟨?_, h2⟩
      rw [h1]
      simp [hstrip]

/-- `parse_http_list` on the serialisation: the items with their escapes resolved -/
theorem parseHttpList_serialise (fs : List Fld) (hk : ∀ f ∈ fs, f.Good) :
    parseHttpList (serialise fs) = fs.map Fld.seen := by
  unfold parseHttpList
  rw [fold_serialise fs hk]
  cases fs with
  | nil => simp [collected]
  | cons f rest =>
    obtain ⟨h1, h2⟩ := collected_out (f :: rest) hk (by simp) [] [] (Or.inl rfl)
    simp only
    have : (collected [] [] (f :: rest)).2.isEmpty = false := by
      cases h : (collected [] [] (f :: rest)).2 with
      | nil => exact absurd h h2
      | cons _ _ => rfl
    rw [this]
    simpa using h1

theorem getLast_snoc (c d : Char) (v : Str) : (c :: (v ++ [d])).getLast? = some d := by
  have : c :: (v ++ [d]) = (c :: v) ++ [d] := rfl
  rw [this, List.getLast?_append]
  simp

theorem parseKeqv1_item' (k v : Str) (hk : GoodKey k) : parseKeqv1 (item' k v) = .ok (k, v) := by
  have hke : '=' ∉ k := fun h => (hk.chars '=' h).2.2.1 rfl
  unfold parseKeqv1 item'
  rw [split1_of_append k _ hke]
  simp [getLast_snoc]

theorem parseKeqv1_seen (f : Fld) (hf : f.Good) : parseKeqv1 f.seen = .ok f.pair := by
  cases f with
  | quoted k v => exact parseKeqv1_item' k v hf
  | token k v =>
    obtain ⟨hk, hv⟩ := hf
    have hke : '=' ∉ k := fun h => (hk.chars '=' h).2.2.1 rfl
    cases v with
    | nil => exact absurd rfl hv.ne
    | cons c cs =>
      have hc : c ≠ '"' := (hv.chars c (by simp)).2.1
      unfold parseKeqv1 Fld.seen Fld.pair
      rw [split1_of_append k _ hke]
      simp [hc]

theorem parseKeqvList_items (fs : List Fld) (hk : ∀ f ∈ fs, f.Good) :
    parseKeqvList (fs.map Fld.seen) = .ok (fs.map Fld.pair) := by
  induction fs with
  | nil => rfl
  | cons f rest ih =>
    have hkk : f.Good := hk f (by simp)
    have hrest : ∀ g ∈ rest, g.Good := fun g h => hk g (List.mem_cons_of_mem _ h)
    simp only [List.map_cons, parseKeqvList, parseKeqv1_seen f hkk, ih hrest]

/-- **serialise → parse round trip**: arbitrary quoted values, token values, well-formed keys -/
theorem parse_serialise (fs : List Fld) (hk : ∀ f ∈ fs, f.Good) :
    parseKeqvList (parseHttpList (serialise fs)) = .ok (fs.map Fld.pair) := by
  rw [parseHttpList_serialise fs hk, parseKeqvList_items fs hk]

end CpProofs.C19
