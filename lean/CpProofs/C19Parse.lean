import CpModel.Auth
import CpProofs.C19Lemmas
/-!
  C19 helper: round trip of the RFC 2617 credentials serialisation through the transcription of
  `urllib.request.parse_http_list` / `parse_keqv_list`.

  `serialise [(k₁,v₁), …]` = `k₁="esc(v₁)", k₂="esc(v₂)", …` with `\` and `"` backslash-escaped.  For keys that are
  non-empty and free of `,` `"` `=` and white space, and **arbitrary** values (commas, quotes, backslashes, spaces,
  empty, any code point), the parsers give back exactly the pairs.
-/
namespace CpProofs.C19
open CpModel.Auth CpModel.Gen.C19

/-- quoted-string escaping -/
def escQ : Str → Str
  | [] => []
  | c :: cs => if c = '"' ∨ c = '\\' then '\\' :: c :: escQ cs else c :: escQ cs

/-- `k="esc(v)"` as the client writes it -/
def item (k v : Str) : Str := k ++ '=' :: '"' :: (escQ v ++ ['"'])

/-- `k="v"` as `parse_http_list` hands it on (escapes resolved) -/
def item' (k v : Str) : Str := k ++ '=' :: '"' :: (v ++ ['"'])

def serialise : List (Str × Str) → Str
  | [] => []
  | [(k, v)] => item k v
  | (k, v) :: kv2 :: rest => item k v ++ ',' :: ' ' :: serialise (kv2 :: rest)

structure GoodKey (k : Str) : Prop where
  ne : k ≠ []
  chars : ∀ c ∈ k, c ≠ ',' ∧ c ≠ '"' ∧ c ≠ '=' ∧ isSpace c = false

/-! ### the `parse_http_list` state machine on the pieces -/

theorem fold_key (k : Str) (hk : ∀ c ∈ k, c ≠ ',' ∧ c ≠ '"') (rest : Str) (res : List Str) (part : Str) :
    (k ++ rest).foldl hlStep ⟨res, part, false, false⟩ = rest.foldl hlStep ⟨res, k.reverse ++ part, false, false⟩ := by
  induction k generalizing part with
  | nil => simp
  | cons c cs ih =>
    have hc := hk c (by simp)
    have hcs : ∀ d ∈ cs, d ≠ ',' ∧ d ≠ '"' := fun d hd => hk d (List.mem_cons_of_mem _ hd)
    simp only [List.cons_append, List.foldl_cons]
    have : hlStep ⟨res, part, false, false⟩ c = ⟨res, c :: part, false, false⟩ := by
      simp [hlStep, hc.1, hc.2]
    rw [this, ih hcs]
    simp

theorem fold_quoted (v : Str) (rest : Str) (res : List Str) (part : Str) :
    (escQ v ++ '"' :: rest).foldl hlStep ⟨res, part, false, true⟩ =
      rest.foldl hlStep ⟨res, '"' :: (v.reverse ++ part), false, false⟩ := by
  induction v generalizing part with
  | nil => simp [escQ, hlStep]
  | cons c cs ih =>
    simp only [escQ]
    split
    · rename_i hc
      simp only [List.cons_append, List.foldl_cons]
      have h1 : hlStep ⟨res, part, false, true⟩ '\\' = ⟨res, part, true, true⟩ := by simp [hlStep]
      have h2 : hlStep ⟨res, part, true, true⟩ c = ⟨res, c :: part, false, true⟩ := by simp [hlStep]
      rw [h1, h2, ih]
      simp
    · rename_i hc
      simp only [not_or] at hc
      simp only [List.cons_append, List.foldl_cons]
      have h1 : hlStep ⟨res, part, false, true⟩ c = ⟨res, c :: part, false, true⟩ := by
        simp [hlStep, hc.1, hc.2]
      rw [h1, ih]
      simp

theorem fold_item (k v : Str) (hk : GoodKey k) (rest : Str) (res : List Str) (part : Str) :
    (item k v ++ rest).foldl hlStep ⟨res, part, false, false⟩ =
      rest.foldl hlStep ⟨res, (item' k v).reverse ++ part, false, false⟩ := by
  have hk' : ∀ c ∈ k, c ≠ ',' ∧ c ≠ '"' := fun c hc => ⟨(hk.chars c hc).1, (hk.chars c hc).2.1⟩
  unfold item item'
  rw [List.append_assoc, fold_key k hk']
  simp only [List.cons_append, List.foldl_cons, List.append_assoc]
  have h1 : hlStep ⟨res, k.reverse ++ part, false, false⟩ '=' = ⟨res, '=' :: (k.reverse ++ part), false, false⟩ := by
    simp [hlStep]
  have h2 : hlStep ⟨res, '=' :: (k.reverse ++ part), false, false⟩ '"' =
      ⟨res, '"' :: '=' :: (k.reverse ++ part), false, true⟩ := by simp [hlStep]
  rw [h1, h2]
  have := fold_quoted v rest res ('"' :: '=' :: (k.reverse ++ part))
  simp only [List.nil_append] at this ⊢
  rw [this]
  simp

/-- the items `parse_http_list` collects (before `strip`), newest first, and the pending part -/
def collected (res : List Str) (pre : Str) : List (Str × Str) → List Str × Str
  | [] => (res, pre)
  | [(k, v)] => (res, (item' k v).reverse ++ pre)
  | (k, v) :: kv2 :: rest => collected ((pre.reverse ++ item' k v) :: res) [' '] (kv2 :: rest)

theorem fold_serialise (kvs : List (Str × Str)) (hk : ∀ kv ∈ kvs, GoodKey kv.1) (res : List Str) (pre : Str) :
    (serialise kvs).foldl hlStep ⟨res, pre, false, false⟩ =
      ⟨(collected res pre kvs).1, (collected res pre kvs).2, false, false⟩ := by
  induction kvs generalizing res pre with
  | nil => simp [serialise, collected]
  | cons kv rest ih =>
    obtain ⟨k, v⟩ := kv
    have hkk : GoodKey k := hk (k, v) (by simp)
    cases rest with
    | nil =>
      have := fold_item k v hkk [] res pre
      simpa [serialise, collected] using this
    | cons kv2 rest' =>
      have hrest : ∀ kv ∈ kv2 :: rest', GoodKey kv.1 := fun kv h => hk kv (List.mem_cons_of_mem _ h)
      simp only [serialise, collected]
      rw [fold_item k v hkk]
      simp only [List.foldl_cons]
      have h1 : hlStep ⟨res, (item' k v).reverse ++ pre, false, false⟩ ',' =
          ⟨(pre.reverse ++ item' k v) :: res, [], false, false⟩ := by
        simp [hlStep]
      have h2 : hlStep ⟨(pre.reverse ++ item' k v) :: res, [], false, false⟩ ' ' =
          ⟨(pre.reverse ++ item' k v) :: res, [' '], false, false⟩ := by
        simp [hlStep]
      rw [h1, h2, ih hrest]

/-! ### `strip()` leaves the items alone -/

theorem dropWhile_head {p : Char → Bool} (c : Char) (cs : Str) (h : p c = false) :
    (c :: cs).dropWhile p = c :: cs := by
  simp [List.dropWhile, h]

theorem item'_head (k v : Str) (hk : GoodKey k) : ∃ c cs, item' k v = c :: cs ∧ isSpace c = false := by
  cases k with
  | nil => exact absurd rfl hk.ne
  | cons c cs => exact ⟨c, _, rfl, (hk.chars c (by simp)).2.2.2⟩

theorem item'_rev (k v : Str) : ∃ cs, (item' k v).reverse = '"' :: cs := by
  unfold item'
  refine ⟨(k ++ '=' :: '"' :: v).reverse, ?_⟩
  simp

theorem strip_item' (k v : Str) (hk : GoodKey k) : pyStrip (item' k v) = item' k v := by
  obtain ⟨c, cs, h1, h2⟩ := item'_head k v hk
  obtain ⟨rs, h3⟩ := item'_rev k v
  unfold pyStrip
  rw [h1, dropWhile_head c cs h2, ← h1, h3, dropWhile_head '"' rs (by decide), ← h3]
  simp

theorem strip_space_item' (k v : Str) (hk : GoodKey k) : pyStrip (' ' :: item' k v) = item' k v := by
  have : pyStrip (' ' :: item' k v) = pyStrip (item' k v) := by
    unfold pyStrip
    have hs : isSpace ' ' = true := by decide
    simp [List.dropWhile, hs]
  rw [this, strip_item' k v hk]

/-- the pending prefix is either empty (first item) or the single space after a comma -/
theorem collected_out (kvs : List (Str × Str)) (hk : ∀ kv ∈ kvs, GoodKey kv.1) (hne : kvs ≠ [])
    (res : List Str) (pre : Str) (hpre : pre = [] ∨ pre = [' ']) :
    ((collected res pre kvs).2.reverse :: (collected res pre kvs).1).reverse.map pyStrip =
      res.reverse.map pyStrip ++ kvs.map (fun kv => item' kv.1 kv.2) ∧ (collected res pre kvs).2 ≠ [] := by
  induction kvs generalizing res pre with
  | nil => exact absurd rfl hne
  | cons kv rest ih =>
    obtain ⟨k, v⟩ := kv
    have hkk : GoodKey k := hk (k, v) (by simp)
    have hstrip : pyStrip (pre.reverse ++ item' k v) = item' k v := by
      rcases hpre with rfl | rfl
      · simpa using strip_item' k v hkk
      · simpa using strip_space_item' k v hkk
    cases rest with
    | nil =>
      simp only [collected]
      constructor
      · simp [hstrip]
      · obtain ⟨rs, h3⟩ := item'_rev k v
        rw [h3]; simp
    | cons kv2 rest' =>
      have hrest : ∀ kv ∈ kv2 :: rest', GoodKey kv.1 := fun kv h => hk kv (List.mem_cons_of_mem _ h)
      simp only [collected]
      obtain ⟨h1, h2⟩ := ih hrest (by simp) ((pre.reverse ++ item' k v) :: res) [' '] (Or.inr rfl)
      refine ⟨?_, h2⟩
      rw [h1]
      simp [hstrip]

/-- `parse_http_list` on the serialisation: the items with their escapes resolved -/
theorem parseHttpList_serialise (kvs : List (Str × Str)) (hk : ∀ kv ∈ kvs, GoodKey kv.1) :
    parseHttpList (serialise kvs) = kvs.map (fun kv => item' kv.1 kv.2) := by
  unfold parseHttpList
  rw [fold_serialise kvs hk]
  cases kvs with
  | nil => simp [collected]
  | cons kv rest =>
    obtain ⟨h1, h2⟩ := collected_out (kv :: rest) hk (by simp) [] [] (Or.inl rfl)
    simp only
    have : (collected [] [] (kv :: rest)).2.isEmpty = false := by
      cases h : (collected [] [] (kv :: rest)).2 with
      | nil => exact absurd h h2
      | cons _ _ => rfl
    rw [this]
    simpa using h1

theorem getLast_snoc (c d : Char) (v : Str) : (c :: (v ++ [d])).getLast? = some d := by
  have : c :: (v ++ [d]) = (c :: v) ++ [d] := rfl
  rw [this, List.getLast?_append]
  simp

theorem parseKeqv1_item' (k v : Str) (hk : GoodKey k) : parseKeqv1 (item' k v) = .ok (k, v) := by
  have hke : '=' ∉ k := fun h => (hk.chars '=' h).2.2.1 rfl
  unfold parseKeqv1 item'
  rw [split1_of_append k _ hke]
  simp [getLast_snoc]

theorem parseKeqvList_items (kvs : List (Str × Str)) (hk : ∀ kv ∈ kvs, GoodKey kv.1) :
    parseKeqvList (kvs.map (fun kv => item' kv.1 kv.2)) = .ok kvs := by
  induction kvs with
  | nil => rfl
  | cons kv rest ih =>
    obtain ⟨k, v⟩ := kv
    have hkk : GoodKey k := hk (k, v) (by simp)
    have hrest : ∀ kv ∈ rest, GoodKey kv.1 := fun kv h => hk kv (List.mem_cons_of_mem _ h)
    simp only [List.map_cons, parseKeqvList, parseKeqv1_item' k v hkk, ih hrest]

/-- **serialise → parse round trip**: arbitrary values, well-formed keys -/
theorem parse_serialise (kvs : List (Str × Str)) (hk : ∀ kv ∈ kvs, GoodKey kv.1) :
    parseKeqvList (parseHttpList (serialise kvs)) = .ok kvs := by
  rw [parseHttpList_serialise kvs hk, parseKeqvList_items kvs hk]

end CpProofs.C19
