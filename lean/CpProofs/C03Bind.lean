import CpProofs.C03Req
import CpModel.UrlEncBind
/-!
  C03, binding (`CpModel.UrlEncBind`): `PageHandler.__call__` + `test_callable_spec`.

  * a handler that can take every keyword (`**kwargs`, no named parameters, `self` not reachable by
    keyword) is called with exactly `request.params` — `respond` is `handleX` (`C03_bind_catchall`,
    `respond_catchall`);
  * binding answers 404 / 400 / 500 only; 400 needs a parameter that came with the body
    (`bindDecision_status`, `C03_bind_400_needs_body_key`);
  * **never a 5xx from binding** is FALSE for the code, repaired or not (`C03_bind_never_5xx_full_false`;
    witnesses: a required keyword-only parameter left out, a positional-only parameter named by keyword,
    a plain function as handler; before repair 172eec3 also the key `self` sent to a method —
    `C03_bind_self_key_repaired` shows that class gone: 404 / 400 now); it is proved for the signatures
    `test_callable_spec` was written for — a bound method (or callable object) without positional-only and
    without required keyword-only parameters (`C03_bind_never_5xx_partial`, for the repaired code with NO
    condition on the request's keys; for the unrepaired code the request must not use the name of `self`):
    there `test_callable_spec` is COMPLETE, every TypeError of the call is turned into 404 or 400.
  All theorems carry the flag `fix` (is the bound first argument checked?), probed on the live function.
-/
namespace CpProofs.C03
open CpModel.UrlEnc

/-! ## a handler that takes everything -/

/-- Can take any keyword and any number of path atoms. -/
def CatchAll (s : Sig) : Prop :=
  s.params = [] ∧ s.kwonly = [] ∧ s.varargs = true ∧ s.varkw = true ∧ ∀ n, s.self? ≠ some (n, false)

theorem C03_bind_catchall (fix : Bool) (s : Sig) (h : CatchAll s) (nargs : Nat) (kwargs : List (Text × Bool)) :
    bindDecision fix s nargs kwargs = .call := by
  obtain ⟨hp, hk, hva, hvk, hself⟩ := h
  have : pyCallOk s nargs (kwargs.map (·.1)) = true := by
    simp only [pyCallOk, hp, hk, hva, List.length_nil, Bool.or_true, List.zipIdx_nil, List.all_nil,
      Bool.and_true, Bool.true_and, List.all_eq_true]
    intro key _
    simp [kwOk, hp, hk, idxOf?, hvk, hself key]
  simp [bindDecision, this]

/-- `def index(*args, **kwargs)` as an instance attribute, `def index(self, /, *args, **kwargs)`. -/
example : CatchAll { self? := none, params := [], posOnly := 0, defaults := 0, varargs := true, kwonly := [], varkw := true } ∧
    CatchAll { self? := some ("self".toList, true), params := [], posOnly := 0, defaults := 0, varargs := true,
               kwonly := [], varkw := true } := by
  refine ⟨⟨rfl, rfl, rfl, rfl, by simp⟩, ⟨rfl, rfl, rfl, rfl, by simp⟩⟩

/-- **A `**kwargs` handler is called with exactly the parameters**: whatever `handleX` hands over
    arrives; binding adds no refusal of its own. -/
theorem respond_catchall (fix : Bool) (r : ReqX) (s : Sig) (h : CatchAll s) (nargs : Nat) :
    respond fix r s nargs = handleX r := by
  unfold respond
  cases handleX r with
  | status c => rfl
  | handler kw => simp [C03_bind_catchall fix s h, lateKwargs]

/-- Late binding: what a tool assigns between dispatch and the call reaches the handler — the last
    assignment to a key wins over whatever the request carried, every other key is untouched. -/
theorem lookup_lateKwargs (params : Params) (late : List (Text × Text)) (k : Text) :
    lookup (lateKwargs params late) k =
      match late.reverse.find? (fun kv => kv.1 = k) with
      | some kv => some (.one (.str kv.2))
      | none => lookup params k := by
  induction late generalizing params with
  | nil => simp [lateKwargs]
  | cons kv rest ih =>
    have := ih (assign params kv.1 (.one (.str kv.2)))
    simp only [lateKwargs, List.foldl_cons] at this ⊢
    rw [this, List.reverse_cons, List.find?_append]
    cases hf : rest.reverse.find? (fun x => x.1 = k) with
    | some x => simp
    | none =>
      simp only [Option.none_or, List.find?_cons, List.find?_nil]
      rw [lookup_assign]
      by_cases hk : kv.1 = k
      · simp [hk]
      · simp [hk]

theorem respond_catchall_late (fix : Bool) (r : ReqX) (s : Sig) (h : CatchAll s) (nargs : Nat)
    (late : List (Text × Text)) (kw : Params) (hx : handleX r = .handler kw) :
    respond fix r s nargs late = .handler (lateKwargs kw late) := by
  unfold respond
  simp [hx, C03_bind_catchall fix s h]

/-! ## status codes -/

theorem specCheck_codes (fix : Bool) (s : Sig) (nargs : Nat) (kwargs : List (Text × Bool)) (c : Nat)
    (h : specCheck fix s nargs kwargs = some c) : c = 404 ∨ c = 400 := by
  unfold specCheck at h
  simp only [] at h
  repeat' split at h
  all_goals (simp at h; try omega)

theorem bindDecision_status (fix : Bool) (s : Sig) (nargs : Nat) (kwargs : List (Text × Bool)) (c : Nat)
    (h : bindDecision fix s nargs kwargs = .status c) : c = 404 ∨ c = 400 ∨ c = 500 := by
  unfold bindDecision at h
  split at h
  · cases h
  · cases hs : specCheck fix s nargs kwargs with
    | none => rw [hs] at h; simp only [Decision.status.injEq] at h; omega
    | some c' =>
      rw [hs] at h
      simp only [Decision.status.injEq] at h
      have := specCheck_codes fix s nargs kwargs c' hs
      omega

theorem contains_map_fst (kwargs : List (Text × Bool)) (k : Text) (h : (kwargs.map (·.1)).contains k = true) :
    ∃ kb ∈ kwargs, kb.1 = k := by
  simp only [List.contains_eq_mem, List.mem_map, decide_eq_true_eq] at h
  obtain ⟨kb, hkb, e⟩ := h
  exact ⟨kb, hkb, e⟩

/-- **400 from binding needs a body parameter**: when no key came with the body, a binding failure is a
    404 (or the 500 of the cases below), never a 400. -/
theorem C03_bind_400_needs_body_key (fix : Bool) (s : Sig) (nargs : Nat) (kwargs : List (Text × Bool))
    (hq : ∀ kb ∈ kwargs, kb.2 = false) : bindDecision fix s nargs kwargs ≠ .status 400 := by
  intro h
  unfold bindDecision at h
  split at h
  · cases h
  · cases hs : specCheck fix s nargs kwargs with
    | none => rw [hs] at h; cases h
    | some c =>
      rw [hs] at h
      simp only [Decision.status.injEq] at h
      subst h
      unfold specCheck at hs
      simp only [] at hs
      split at hs
      · cases hs
      · split at hs
        · cases hs
        · split at hs
          · cases hs
          · split at hs
            · -- the bound first argument named by a key: that key came with the query string
              rename_i hsel
              split at hs
              · cases hs
              · rename_i hnq
                exfalso
                unfold selfKeyed at hsel
                unfold selfKeyFromQs at hnq
                cases hself : s.self? with
                | none => simp [hself] at hsel
                | some sn =>
                  simp only [hself, Bool.and_eq_true] at hsel hnq
                  obtain ⟨kb, hkb, e⟩ := contains_map_fst kwargs sn.1 hsel.2
                  apply hnq
                  simp only [List.any_eq_true, Bool.and_eq_true, decide_eq_true_eq, Bool.not_eq_eq_eq_not,
                    Bool.not_true]
                  exact ⟨kb, hkb, e, hq kb hkb⟩
            · split at hs
              · rename_i hm
                split at hs
                · cases hs
                · rename_i hnq
                  -- some name in `multiple` is a key; it is a query-string key
                  simp only [Bool.not_eq_true', List.isEmpty_eq_false_iff_exists_mem] at hm
                  obtain ⟨m, hmm⟩ := hm
                  simp only [List.mem_map, List.mem_filter, Bool.and_eq_true, decide_eq_true_eq] at hmm
                  obtain ⟨ni, ⟨_, _, hc⟩, rfl⟩ := hmm
                  obtain ⟨kb, hkb, e⟩ := contains_map_fst kwargs ni.1 hc
                  apply hnq
                  simp only [List.any_eq_true, List.mem_map, List.mem_filter, Bool.and_eq_true, decide_eq_true_eq,
                    Bool.not_eq_eq_eq_not, Bool.not_true]
                  exact ⟨ni.1, ⟨ni, ⟨by assumption, by assumption, hc⟩, rfl⟩, kb, hkb, e, hq kb hkb⟩
              · split at hs
                · split at hs
                  · cases hs
                  · split at hs
                    · rename_i hb
                      simp only [List.any_eq_true, Bool.and_eq_true, decide_eq_true_eq] at hb
                      obtain ⟨k, _, kb, hkb, _, hb2⟩ := hb
                      rw [hq kb hkb] at hb2
                      cases hb2
                    · cases hs
                · cases hs

/-! ## never a 5xx from binding? -/

/-- The statement one would like: binding never ends in a server error. -/
def C03_bind_never_5xx_full (fix : Bool) : Prop :=
  ∀ (s : Sig) (nargs : Nat) (kwargs : List (Text × Bool)), bindDecision fix s nargs kwargs ≠ .status 500

def sigMethodKw : Sig :=       -- def index(self, **kw)
  { self? := some ("self".toList, false), params := [], posOnly := 0, defaults := 0, varargs := false,
    kwonly := [], varkw := true }
def sigKwOnly : Sig :=         -- def index(self, *, a)
  { self? := some ("self".toList, false), params := [], posOnly := 0, defaults := 0, varargs := false,
    kwonly := [("a".toList, false)], varkw := false }
def sigPosOnly : Sig :=        -- def index(self, a, /)
  { self? := some ("self".toList, false), params := ["a".toList], posOnly := 1, defaults := 0, varargs := false,
    kwonly := [], varkw := false }
def sigPlain : Sig :=          -- def index(a)   (a plain function set on the instance / a staticmethod)
  { self? := none, params := ["a".toList], posOnly := 0, defaults := 0, varargs := false, kwonly := [], varkw := false }
def sigPlainDefaults : Sig :=  -- def index(a=1, b=2)
  { self? := none, params := ["a".toList, "b".toList], posOnly := 0, defaults := 2, varargs := false, kwonly := [],
    varkw := false }

/-- The code, repaired (172eec3) or not, answers 500 in (at least) these situations:
    no parameter at all to `def index(self, *, a)`; `?a=1` to `def index(self, a, /)`; no parameter to the
    plain function `def index(a)`; `?c=1` to the plain function `def index(a=1, b=2)` (IndexError inside
    `test_callable_spec`). -/
theorem C03_bind_5xx_witnesses (fix : Bool) :
    bindDecision fix sigKwOnly 0 [] = .status 500 ∧
    bindDecision fix sigPosOnly 0 [("a".toList, false)] = .status 500 ∧
    bindDecision fix sigPlain 0 [] = .status 500 ∧
    bindDecision fix sigPlainDefaults 0 [("c".toList, false)] = .status 500 := by
  cases fix <;> decide

/-- The witness class the repair removed: `?self=1` to `def index(self, **kw)` was a 500; the repaired
    `test_callable_spec` answers 404 when the key came with the query string, 400 when it came with the
    body (also next to other parameters). -/
theorem C03_bind_self_key_repaired :
    bindDecision false sigMethodKw 0 [("self".toList, false)] = .status 500 ∧
    bindDecision true sigMethodKw 0 [("self".toList, false)] = .status 404 ∧
    bindDecision true sigMethodKw 0 [("self".toList, true)] = .status 400 ∧
    bindDecision true sigMethodKw 0 [("a".toList, true), ("self".toList, false)] = .status 404 := by decide

theorem C03_bind_never_5xx_full_false (fix : Bool) : ¬ C03_bind_never_5xx_full fix :=
  fun h => h sigKwOnly 0 [] (C03_bind_5xx_witnesses fix).1

/-- The signatures `test_callable_spec` understands: a bound first parameter, no positional-only
    parameters, every keyword-only parameter has a default, `defaults` fit. -/
def Classic (s : Sig) : Prop :=
  s.self?.isSome ∧ s.posOnly = 0 ∧ (∀ kd ∈ s.kwonly, kd.2 = true) ∧ s.defaults ≤ s.params.length

theorem idxOf?_none {l : List Text} {k : Text} (h : idxOf? l k = none) : l.contains k = false := by
  induction l with
  | nil => rfl
  | cons x rest ih =>
    simp only [idxOf?] at h
    split at h
    · cases h
    · rename_i hx
      simp only [Option.map_eq_none_iff] at h
      have := ih h
      simp only [List.contains_eq_mem, decide_eq_false_iff_not, List.mem_cons, not_or] at this ⊢
      exact ⟨fun e => hx e.symm, this⟩

theorem idxOf?_some_mem (l : List Text) (k : Text) (i n : Nat) (h : idxOf? l k = some i) :
    (k, i + n) ∈ l.zipIdx n := by
  induction l generalizing i n with
  | nil => cases h
  | cons x rest ih =>
    simp only [idxOf?] at h
    split at h
    · rename_i hx
      simp only [Option.some.injEq] at h
      subst h hx
      simp [List.zipIdx_cons]
    · simp only [Option.map_eq_some_iff] at h
      obtain ⟨j, hj, rfl⟩ := h
      have := ih j (n + 1) hj
      simp only [List.zipIdx_cons, List.mem_cons]
      right
      have e : j + (n + 1) = j + 1 + n := by omega
      rw [← e]
      exact this

theorem specArgs_bound (s : Sig) (h : s.self?.isSome) : specArgs s = s.params := by
  unfold specArgs
  cases hs : s.self? with
  | none => simp [hs] at h
  | some x => simp

/-- **`C03_bind_never_5xx_partial`.**  For a classic signature and a request that does not use the name
    of the bound parameter as a key, `test_callable_spec` is complete: whenever the call raises TypeError
    it raises HTTPError 404 or 400, so binding never ends in a 500. -/
theorem C03_bind_never_5xx_partial (fix : Bool) (s : Sig) (hc : Classic s) (nargs : Nat)
    (kwargs : List (Text × Bool))
    (hself : fix = true ∨ ∀ kb ∈ kwargs, s.self? ≠ some (kb.1, false)) :
    bindDecision fix s nargs kwargs ≠ .status 500 := by
  obtain ⟨hb, hpo, hko, hd⟩ := hc
  intro h
  unfold bindDecision at h
  split at h
  · cases h
  · rename_i hcall
    cases hs : specCheck fix s nargs kwargs with
    | some c =>
      rw [hs] at h
      simp only [Decision.status.injEq] at h
      have := specCheck_codes fix s nargs kwargs c hs
      omega
    | none =>
      -- `test_callable_spec` found nothing: then the call cannot have failed
      apply hcall
      unfold specCheck at hs
      simp only [specArgs_bound s hb] at hs
      have hd' : ¬ s.params.length < s.defaults := by omega
      simp only [hd', if_false] at hs
      split at hs
      · cases hs
      · rename_i hmiss
        split at hs
        · cases hs
        · rename_i hmany
          split at hs
          · split at hs <;> cases hs
          · rename_i hnsel
            split at hs
            · split at hs <;> cases hs
            · rename_i hmult
              have hextra : s.varkw = true ∨
                  ((kwargs.map (·.1)).filter (fun k => !s.params.contains k)).isEmpty = true := by
                split at hs
                · rename_i hx
                  exfalso
                  simp only [Bool.and_eq_true, Bool.not_eq_eq_eq_not, Bool.not_true,
                    List.isEmpty_eq_false_iff_exists_mem] at hx
                  obtain ⟨_, e, he⟩ := hx
                  have hek : e ∈ kwargs.map (·.1) := (List.mem_filter.1 he).1
                  simp only [List.mem_map] at hek
                  obtain ⟨kb, hkb, rfl⟩ := hek
                  split at hs
                  · cases hs
                  · rename_i hnq
                    split at hs
                    · cases hs
                    · rename_i hnb
                      cases hb2 : kb.2 with
                      | false =>
                        apply hnq
                        simp only [List.any_eq_true, Bool.and_eq_true, decide_eq_true_eq, Bool.not_eq_eq_eq_not,
                          Bool.not_true]
                        exact ⟨kb.1, he, kb, hkb, rfl, hb2⟩
                      | true =>
                        apply hnb
                        simp only [List.any_eq_true, Bool.and_eq_true, decide_eq_true_eq]
                        exact ⟨kb.1, he, kb, hkb, rfl, hb2⟩
                · rename_i hx
                  simp only [Bool.and_eq_true, Bool.not_eq_eq_eq_not, Bool.not_true, not_and,
                    Bool.not_eq_false] at hx
                  cases hv : s.varkw with
                  | true => exact Or.inl rfl
                  | false => exact Or.inr (hx hv)
              -- assemble `pyCallOk`
              simp only [pyCallOk, Bool.and_eq_true, Bool.or_eq_true, decide_eq_true_eq, List.all_eq_true]
              refine ⟨⟨⟨?_, ?_⟩, ?_⟩, ?_⟩
              · -- not too many positional arguments
                simp only [Bool.and_eq_true, Bool.not_eq_eq_eq_not, Bool.not_true, decide_eq_true_eq, not_and] at hmany
                cases hv : s.varargs with
                | true => exact Or.inr rfl
                | false =>
                  left
                  have := hmany hv
                  omega
              · -- every keyword finds its place
                intro key hkey
                simp only [List.mem_map] at hkey
                obtain ⟨kb, hkb, rfl⟩ := hkey
                unfold kwOk
                cases hi : idxOf? s.params kb.1 with
                | some i =>
                  simp only [hpo, Nat.not_lt_zero, if_false, Bool.not_eq_eq_eq_not, Bool.not_true,
                    decide_eq_false_iff_not]
                  intro hlt
                  apply hmult
                  simp only [Bool.not_eq_true', List.isEmpty_eq_false_iff_exists_mem]
                  refine ⟨kb.1, ?_⟩
                  simp only [List.mem_map, List.mem_filter, Bool.and_eq_true, decide_eq_true_eq]
                  have hm := idxOf?_some_mem s.params kb.1 i 0 hi
                  refine ⟨(kb.1, i), ⟨by simpa using hm, hlt, ?_⟩, rfl⟩
                  simp only [List.contains_eq_mem, List.mem_map, decide_eq_true_eq]
                  exact ⟨kb, hkb, rfl⟩
                | none =>
                  simp only []
                  split
                  · rfl
                  · split
                    · rename_i hs'
                      rcases hself with hfix | hself
                      · -- repaired: the bound-argument check did not fire, so the key is not its name
                        exfalso
                        apply hnsel
                        have hc : (kwargs.map (·.1)).contains kb.1 = true := by
                          simp only [List.contains_eq_mem, List.mem_map, decide_eq_true_eq]
                          exact ⟨kb, hkb, rfl⟩
                        have hk : selfKeyed s (kwargs.map (·.1)) = true := by
                          unfold selfKeyed
                          rw [hs']
                          exact hc
                        rw [hfix, hk]
                        rfl
                      · exact absurd hs' (hself kb hkb)
                    · rcases hextra with hv | he
                      · exact hv
                      · exfalso
                        have : kb.1 ∈ (kwargs.map (·.1)).filter (fun k => !s.params.contains k) := by
                          simp only [List.mem_filter, List.mem_map, Bool.not_eq_eq_eq_not, Bool.not_true]
                          exact ⟨⟨kb, hkb, rfl⟩, idxOf?_none hi⟩
                        rw [List.isEmpty_iff] at he
                        rw [he] at this
                        cases this
              · -- every positional parameter is filled
                intro ni hni
                simp only [List.any_eq_true, Bool.and_eq_true, Bool.not_eq_eq_eq_not, Bool.not_true,
                  decide_eq_false_iff_not, not_exists, not_and] at hmiss
                unfold posFilled
                simp only [hpo, Nat.zero_le, decide_true, Bool.true_and, Bool.or_eq_true, decide_eq_true_eq]
                by_cases h1 : ni.2 < nargs
                · exact Or.inl (Or.inl h1)
                · cases h2 : (kwargs.map (·.1)).contains ni.1 with
                  | true => exact Or.inl (Or.inr rfl)
                  | false =>
                    right
                    have := hmiss ni hni ⟨h1, h2⟩
                    simpa using this
              · -- keyword-only parameters all have defaults
                intro kd hkd
                simp [hko kd hkd]

/-- Non-vacuity: `def index(self, a, b=2, *args, k=1, **kw)` is classic; `def index(self, a, b=2)` answers
    404 to a missing `a`, to an unknown query key and to a surplus path atom, 400 to an unknown body key. -/
example : Classic { self? := some ("self".toList, false), params := ["a".toList, "b".toList], posOnly := 0, defaults := 1,
                    varargs := true, kwonly := [("k".toList, true)], varkw := true } := by
  refine ⟨rfl, rfl, ?_, by decide⟩
  intro kd hkd
  simp only [List.mem_cons, List.not_mem_nil, or_false] at hkd
  subst hkd
  rfl

def sigAB : Sig :=             -- def index(self, a, b=2)
  { self? := some ("self".toList, false), params := ["a".toList, "b".toList], posOnly := 0, defaults := 1,
    varargs := false, kwonly := [], varkw := false }

example (fix : Bool) :
    bindDecision fix sigAB 0 [] = .status 404 ∧
    bindDecision fix sigAB 0 [("a".toList, false)] = .call ∧
    bindDecision fix sigAB 0 [("a".toList, true)] = .call ∧
    bindDecision fix sigAB 0 [("a".toList, false), ("c".toList, false)] = .status 404 ∧
    bindDecision fix sigAB 0 [("a".toList, false), ("c".toList, true)] = .status 400 ∧
    bindDecision fix sigAB 3 [] = .status 404 ∧
    bindDecision fix sigAB 1 [("a".toList, false)] = .status 404 ∧
    bindDecision fix sigAB 1 [("a".toList, true)] = .status 400 ∧
    bindDecision fix sigAB 1 [("b".toList, true)] = .call := by cases fix <;> decide

/-! ## the whole request -/

/-- Statuses of a whole request as far as parameters are concerned. -/
theorem respond_status (fix : Bool) (r : ReqX) (s : Sig) (nargs : Nat) (late : List (Text × Text)) (c : Nat)
    (h : respond fix r s nargs late = .status c) :
    c = 404 ∨ c = 411 ∨ c = 400 ∨ c = 500 := by
  unfold respond at h
  cases hx : handleX r with
  | status c' =>
    rw [hx] at h
    simp only [Outcome.status.injEq] at h
    subst h
    have := handleX_status r c' hx
    omega
  | handler kw =>
    rw [hx] at h
    simp only [] at h
    split at h
    · cases h
    · rename_i c' hb
      simp only [Outcome.status.injEq] at h
      subst h
      have := bindDecision_status _ _ _ _ _ hb
      omega

/-- When the handler is called it is called with what `handleX` computed — binding never alters,
    drops or adds a parameter. -/
theorem respond_handler (fix : Bool) (r : ReqX) (s : Sig) (nargs : Nat) (late : List (Text × Text)) (kw : Params)
    (h : respond fix r s nargs late = .handler kw) :
    ∃ kw0, handleX r = .handler kw0 ∧ kw = lateKwargs kw0 late := by
  unfold respond at h
  cases hx : handleX r with
  | status c => rw [hx] at h; cases h
  | handler kw' =>
    rw [hx] at h
    simp only [] at h
    split at h
    · simp only [Outcome.handler.injEq] at h
      exact ⟨kw', rfl, h.symm⟩
    · cases h

end CpProofs.C03
