import CpModel.Ranges
import CpProofs.C16
/-!
  C16 — the multipart/byteranges body is decodable: a receiver that walks the body produced by
  `file_ranges()` (`CpModel.Ranges.renderMultipart`: CRLF, per range `--boundary`, Content-type,
  `Content-range: bytes a-b/total`, blank line, the slice, CRLF; `--boundary--` CRLF) and trusts each
  part's Content-range for the payload length gets back exactly the parts — for every boundary, every
  content type, every number of parts and every payload (payloads may contain the boundary).

  With `serve_multi` (each part's body is `content[first..last]`, `last - first + 1` bytes long) this is
  "each multipart/byteranges part is exactly the requested slice with a truthful Content-Range" at the
  level of the bytes on the wire.
-/
namespace CpProofs.C16
open CpModel.Ranges

/-! ### a reference decoder -/

def stripPrefix : Bytes → Bytes → Option Bytes
  | [], s => some s
  | _ :: _, [] => none
  | a :: p, b :: s => if a = b then stripPrefix p s else none

def isDigitByte (b : UInt8) : Bool := 48 ≤ b.toNat && b.toNat ≤ 57

def parseDecAux : Bytes → Nat → Nat × Bytes
  | [], acc => (acc, [])
  | b :: bs, acc =>
    if isDigitByte b then parseDecAux bs (10 * acc + (b.toNat - 48)) else (acc, b :: bs)

def parseDec (s : Bytes) : Nat × Bytes := parseDecAux s 0

def headerPrefix (boundary ctype : Bytes) : Bytes :=
  dashes ++ boundary ++ crlf ++ ascii "Content-type: ".toList ++ ctype ++ crlf ++
    ascii "Content-range: bytes ".toList

def decodePart (boundary ctype : Bytes) (s : Bytes) : Option (Part × Bytes) :=
  match stripPrefix (headerPrefix boundary ctype) s with
  | none => none
  | some s1 =>
    match stripPrefix [45] (parseDec s1).2 with
    | none => none
    | some s2 =>
      match stripPrefix [47] (parseDec s2).2 with
      | none => none
      | some s3 =>
        match stripPrefix (crlf ++ crlf) (parseDec s3).2 with
        | none => none
        | some s4 =>
          let a := (parseDec s1).1
          let b := (parseDec s2).1
          let t := (parseDec s3).1
          match stripPrefix crlf (s4.drop (b - a + 1)) with
          | none => none
          | some rest => some (⟨a, b, t, s4.take (b - a + 1)⟩, rest)

def closing (boundary : Bytes) : Bytes := dashes ++ boundary ++ dashes ++ crlf

def decodeParts (boundary ctype : Bytes) : Nat → Bytes → Option (List Part)
  | 0, _ => none
  | fuel + 1, s =>
    match stripPrefix (closing boundary) s with
    | some [] => some []
    | _ =>
      match decodePart boundary ctype s with
      | none => none
      | some (p, rest) => (decodeParts boundary ctype fuel rest).map (p :: ·)

def decodeMultipart (boundary ctype body : Bytes) : Option (List Part) :=
  match stripPrefix crlf body with
  | none => none
  | some s => decodeParts boundary ctype (s.length + 1) s

/-! ### lemmas -/

theorem stripPrefix_append (p rest : Bytes) : stripPrefix p (p ++ rest) = some rest := by
  induction p with
  | nil => cases rest <;> rfl
  | cons a p ih => simp [stripPrefix, ih]

theorem stripPrefix_common (x p s : Bytes) : stripPrefix (x ++ p) (x ++ s) = stripPrefix p s := by
  induction x with
  | nil => rfl
  | cons a x ih => simp [stripPrefix, ih]

/-- decimal digits of `n`, most significant first -/
def digitsOf : Nat → Nat → List Nat
  | 0, _ => []
  | fuel + 1, n => if n < 10 then [n] else digitsOf fuel (n / 10) ++ [n % 10]

theorem toDec_eq (fuel n : Nat) : toDec fuel n = (digitsOf fuel n).map digitChar := by
  induction fuel generalizing n with
  | zero => rfl
  | succ f ih =>
    simp only [toDec, digitsOf]
    split
    · rfl
    · simp [ih]

theorem digitsOf_lt (fuel n : Nat) : ∀ d ∈ digitsOf fuel n, d < 10 := by
  induction fuel generalizing n with
  | zero => simp [digitsOf]
  | succ f ih =>
    simp only [digitsOf]
    split
    · intro d m; simp at m; omega
    · intro d m
      simp only [List.mem_append, List.mem_singleton] at m
      rcases m with m | m
      · exact ih _ d m
      · omega

theorem digitsOf_fold (fuel n : Nat) (h : n < fuel) (acc : Nat) :
    (digitsOf fuel n).foldl (fun a d => 10 * a + d) acc = acc * 10 ^ (digitsOf fuel n).length + n := by
  induction fuel generalizing n acc with
  | zero => omega
  | succ f ih =>
    simp only [digitsOf]
    split
    · simp; omega
    · rename_i hn
      have hlt : n / 10 < f := by omega
      rw [List.foldl_append, ih (n / 10) hlt]
      simp only [List.foldl_cons, List.foldl_nil, List.length_append, List.length_singleton]
      rw [Nat.pow_succ]
      have := Nat.div_add_mod n 10
      generalize 10 ^ (digitsOf f (n / 10)).length = P at *
      rw [Nat.mul_add]
      have hmul : 10 * (acc * P) = acc * (P * 10) := by ac_rfl
      omega

theorem digit_byte_facts : ∀ d, d < 10 →
    isDigitByte (UInt8.ofNat (digitChar d).toNat) = true ∧
    (UInt8.ofNat (digitChar d).toNat).toNat - 48 = d := by decide

theorem parseDecAux_digits (ds : List Nat) (hd : ∀ d ∈ ds, d < 10) (rest : Bytes)
    (hr : ∀ b r, rest = b :: r → isDigitByte b = false) (acc : Nat) :
    parseDecAux (ascii (ds.map digitChar) ++ rest) acc =
      (ds.foldl (fun a d => 10 * a + d) acc, rest) := by
  induction ds generalizing acc with
  | nil =>
    simp only [List.map_nil, ascii, List.nil_append, List.foldl_nil]
    cases rest with
    | nil => rfl
    | cons b r => simp [parseDecAux, hr b r rfl]
  | cons d ds ih =>
    have hf := digit_byte_facts d (hd d (by simp))
    simp only [List.map_cons, ascii, List.cons_append, parseDecAux, hf.1, if_true, hf.2,
      List.foldl_cons]
    exact ih (fun x m => hd x (List.mem_cons_of_mem _ m)) _

/-- reading back a rendered number that is followed by a non-digit -/
theorem parseDec_dec (n : Nat) (rest : Bytes) (hr : ∀ b r, rest = b :: r → isDigitByte b = false) :
    parseDec (ascii (dec n) ++ rest) = (n, rest) := by
  simp only [parseDec, dec, toDec_eq]
  rw [parseDecAux_digits _ (digitsOf_lt _ _) rest hr 0, digitsOf_fold (n + 1) n (by omega) 0]
  simp

theorem decodePart_render (boundary ctype : Bytes) (p : Part) (rest : Bytes)
    (hp : p.body.length = p.last - p.first + 1) :
    decodePart boundary ctype (partHeader boundary ctype p ++ p.body ++ crlf ++ rest) =
      some (p, rest) := by
  have e : partHeader boundary ctype p ++ p.body ++ crlf ++ rest =
      headerPrefix boundary ctype ++ (ascii (dec p.first) ++ ([45] ++ (ascii (dec p.last) ++
        ([47] ++ (ascii (dec p.total) ++ (crlf ++ crlf ++ (p.body ++ (crlf ++ rest)))))))) := by
    simp [partHeader, headerPrefix, List.append_assoc]
  rw [e]
  unfold decodePart
  rw [stripPrefix_append]
  simp only []
  rw [parseDec_dec p.first _ (by intro b r h; simp at h; rw [← h.1]; decide)]
  simp only []
  rw [stripPrefix_append]
  simp only []
  rw [parseDec_dec p.last _ (by intro b r h; simp at h; rw [← h.1]; decide)]
  simp only []
  rw [stripPrefix_append]
  simp only []
  rw [parseDec_dec p.total _ (by intro b r h; simp [crlf] at h; rw [← h.1]; decide)]
  simp only []
  rw [stripPrefix_append]
  simp only []
  rw [← hp, List.drop_left, stripPrefix_append]
  simp only [List.take_left]

theorem closing_not_at_part (boundary ctype : Bytes) (p : Part) (tail : Bytes) :
    stripPrefix (closing boundary) (partHeader boundary ctype p ++ tail) = none := by
  have e1 : closing boundary = (dashes ++ boundary) ++ (dashes ++ crlf) := by
    simp [closing, List.append_assoc]
  rw [e1]
  simp only [partHeader, List.append_assoc]
  rw [← List.append_assoc dashes boundary, ← List.append_assoc dashes boundary, stripPrefix_common]
  simp [dashes, crlf, stripPrefix]

theorem decodeParts_render (boundary ctype : Bytes) (parts : List Part)
    (hp : ∀ p ∈ parts, p.body.length = p.last - p.first + 1) (fuel : Nat) (hf : parts.length < fuel) :
    decodeParts boundary ctype fuel
      ((parts.flatMap fun p => partHeader boundary ctype p ++ p.body ++ crlf) ++ closing boundary) =
      some parts := by
  induction parts generalizing fuel with
  | nil =>
    cases fuel with
    | zero => omega
    | succ f =>
      simp only [List.flatMap_nil, List.nil_append, decodeParts]
      have := stripPrefix_append (closing boundary) []
      simp only [List.append_nil] at this
      rw [this]
  | cons p ps ih =>
    cases fuel with
    | zero => omega
    | succ f =>
      simp only [List.flatMap_cons, decodeParts]
      have e : partHeader boundary ctype p ++ p.body ++ crlf ++
          (ps.flatMap fun p => partHeader boundary ctype p ++ p.body ++ crlf) ++ closing boundary =
          partHeader boundary ctype p ++ (p.body ++ (crlf ++
            ((ps.flatMap fun p => partHeader boundary ctype p ++ p.body ++ crlf) ++ closing boundary))) := by
        simp [List.append_assoc]
      rw [e, closing_not_at_part]
      simp only []
      have e2 : partHeader boundary ctype p ++ (p.body ++ (crlf ++
            ((ps.flatMap fun p => partHeader boundary ctype p ++ p.body ++ crlf) ++ closing boundary))) =
          partHeader boundary ctype p ++ p.body ++ crlf ++
            ((ps.flatMap fun p => partHeader boundary ctype p ++ p.body ++ crlf) ++ closing boundary) := by
        simp [List.append_assoc]
      rw [e2, decodePart_render boundary ctype p _ (hp p (by simp))]
      simp only []
      rw [ih (fun q m => hp q (List.mem_cons_of_mem _ m)) f (by simp at hf; omega)]
      rfl

theorem flatMap_length_ge (boundary ctype : Bytes) (parts : List Part) :
    parts.length ≤ (parts.flatMap fun p => partHeader boundary ctype p ++ p.body ++ crlf).length := by
  induction parts with
  | nil => simp
  | cons p ps ih =>
    have hc : crlf.length = 2 := rfl
    simp only [List.flatMap_cons, List.length_append, List.length_cons]
    omega

/-- **The multipart body decodes to exactly the parts**, for every boundary, content type, list of
    truthful parts and payloads. -/
theorem multipart_decodes (boundary ctype : Bytes) (parts : List Part)
    (hp : ∀ p ∈ parts, p.body.length = p.last - p.first + 1) :
    decodeMultipart boundary ctype (renderMultipart boundary ctype parts) = some parts := by
  unfold decodeMultipart renderMultipart
  have e : crlf ++ (parts.flatMap fun p => partHeader boundary ctype p ++ p.body ++ crlf) ++ dashes ++
      boundary ++ dashes ++ crlf =
      crlf ++ ((parts.flatMap fun p => partHeader boundary ctype p ++ p.body ++ crlf) ++ closing boundary) := by
    simp [closing, List.append_assoc]
  rw [e, stripPrefix_append]
  simp only []
  apply decodeParts_render boundary ctype parts hp
  have := flatMap_length_ge boundary ctype parts
  simp only [List.length_append]
  omega

/-- **Wire-level multipart truthfulness.**  For ≥ 2 ranges the bytes sent decode, part by part, to
    `Content-range: bytes first-last/len` with payload exactly `content[first..last]`. -/
theorem serve_multi_wire (range : Option Text) (content : Bytes) (r1 r2 : Nat × Nat)
    (rest : List (Nat × Nat)) (h : getRanges range content.length = some (r1 :: r2 :: rest))
    (boundary ctype : Bytes) :
    ∃ ps, serveFileobj true true range content = .multi ps ∧
      decodeMultipart boundary ctype (renderMultipart boundary ctype ps) = some ps ∧
      ps = (r1 :: r2 :: rest).map fun p => ⟨p.1, p.2 - 1, content.length, slice content p.1 p.2⟩ := by
  obtain ⟨hs, hb⟩ := serve_multi range content r1 r2 rest h
  refine ⟨_, hs, ?_, rfl⟩
  apply multipart_decodes
  intro p hm
  obtain ⟨q, hq, rfl⟩ := List.mem_map.mp hm
  exact (hb q hq).2.2

example : ∀ p ∈ [(⟨2, 3, 14, [7, 8]⟩ : Part), ⟨10, 13, 14, [45, 45, 66, 13]⟩],
    p.body.length = p.last - p.first + 1 := by decide

set_option maxRecDepth 20000 in
example : decodeMultipart [66] [116]
    (renderMultipart [66] [116] [⟨2, 3, 14, [7, 8]⟩, ⟨10, 13, 14, [45, 45, 66, 13]⟩]) =
    some [⟨2, 3, 14, [7, 8]⟩, ⟨10, 13, 14, [45, 45, 66, 13]⟩] := by decide

end CpProofs.C16
