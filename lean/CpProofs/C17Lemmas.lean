import CpModel.Gzip
import CpModel.Negotiate
/-!
  Helper lemmas for C17: CRC-32 streaming, little-endian fields, chunk accumulation.
-/
namespace CpProofs.C17

open CpModel.Gzip CpModel.Negotiate

theorem xor_ones_ones (x : UInt32) : (x ^^^ 0xFFFFFFFF) ^^^ 0xFFFFFFFF = x := by
  rw [UInt32.xor_assoc, UInt32.xor_self, UInt32.xor_zero]

/-- `zlib.crc32(b, zlib.crc32(a, c)) = zlib.crc32(a + b, c)`: the running interface is a monoid action. -/
theorem crc32_append (a b : Bytes) (c : UInt32) : crc32 b (crc32 a c) = crc32 (a ++ b) c := by
  simp only [crc32, crcRaw, xor_ones_ones, List.foldl_append]

theorem crc32_nil (c : UInt32) : crc32 [] c = c := by
  simp only [crc32, crcRaw, List.foldl_nil, xor_ones_ones]

/-- the loop state after feeding the chunks one by one, from any start state -/
theorem feed_chunks (chunks : List Bytes) (a : Acc) :
    chunks.foldl Acc.feed a = ⟨crc32 chunks.flatten a.crc, a.size + chunks.flatten.length⟩ := by
  induction chunks generalizing a with
  | nil => simp [crc32_nil]
  | cons c cs ih =>
    simp only [List.foldl_cons, ih, Acc.feed, List.flatten_cons, crc32_append, List.length_append]
    congr 1
    omega

/-- streaming CRC over any chunking = CRC of the concatenation -/
theorem crc32_chunks (chunks : List Bytes) :
    (chunks.foldl Acc.feed Acc.init).crc = crc32 chunks.flatten := by
  rw [feed_chunks]
  simp [Acc.init, crc32_nil]

/-- accumulated size over any chunking = length of the concatenation -/
theorem size_chunks (chunks : List Bytes) :
    (chunks.foldl Acc.feed Acc.init).size = chunks.flatten.length := by
  rw [feed_chunks]
  simp [Acc.init]

/-- reading back a little-endian field written by `le32` gives the value mod 2^32 -/
theorem rd32_le32 (n : Nat) :
    rd32 (UInt8.ofNat (n % 256)) (UInt8.ofNat (n / 256 % 256)) (UInt8.ofNat (n / 65536 % 256))
      (UInt8.ofNat (n / 16777216 % 256)) = n % 4294967296 := by
  simp only [rd32, UInt8.toNat_ofNat', Nat.reducePow]
  omega

/-! ## negotiation: gzip -/

def isGz (e : Elem) : Prop := e.value = sGzip ∨ e.value = sXGzip

/-- the q of `e` is a number (neither malformed nor outside the decimal model) -/
def qNumber (e : Elem) : Prop := e.q ≠ Q.bad ∧ e.q ≠ Q.exotic

theorem gzipLoop_compress (ct : Str) (mimes : List Str) (els : List Elem)
    (h : gzipLoop ct mimes els = some .compress) :
    ∃ e ∈ els, isGz e ∧ qNumber e ∧ e.q.isZero = false ∧ mimeMatch ct mimes = .yes := by
  induction els with
  | nil => simp [gzipLoop] at h
  | cons e es ih =>
    simp only [gzipLoop] at h
    split at h
    · -- identity
      split at h
      · simp at h
      · simp at h
      · split at h
        · obtain ⟨e', he', r⟩ := ih h
          exact ⟨e', List.mem_cons_of_mem _ he', r⟩
        · simp at h
    · split at h
      · rename_i hg
        split at h
        · simp at h
        · simp at h
        · rename_i q hb hx
          split at h
          · simp at h
          · rename_i hz
            refine ⟨e, List.mem_cons_self, hg, ⟨hb, hx⟩, by simpa using hz, ?_⟩
            simp only [mimeDecision] at h
            split at h <;> simp_all
      · obtain ⟨e', he', r⟩ := ih h
        exact ⟨e', List.mem_cons_of_mem _ he', r⟩

theorem refusalLoop_ne_compress (els : List Elem) : refusalLoop els ≠ .compress := by
  induction els with
  | nil => simp [refusalLoop]
  | cons e es ih =>
    simp only [refusalLoop]
    split
    · split
      · simp
      · simp
      · split
        · simp
        · exact ih
    · exact ih

/-- the loop falls off the end only if no gzip/x-gzip element is listed and every identity element has q = 0 -/
theorem gzipLoop_none (ct : Str) (mimes : List Str) (els : List Elem)
    (h : gzipLoop ct mimes els = none) :
    (∀ e ∈ els, ¬ isGz e) ∧ (∀ e ∈ els, e.value = sIdentity → e.q.isZero = true) := by
  induction els with
  | nil => simp
  | cons e es ih =>
    simp only [gzipLoop] at h
    split at h
    · rename_i hid
      split at h
      · simp at h
      · simp at h
      · split at h
        · rename_i hz
          obtain ⟨h1, h2⟩ := ih h
          refine ⟨?_, ?_⟩
          · intro e' he'
            rcases List.mem_cons.mp he' with rfl | hm
            · intro hg
              rcases hg with hg | hg <;> (rw [hid] at hg; revert hg; decide)
            · exact h1 e' hm
          · intro e' he' hv
            rcases List.mem_cons.mp he' with rfl | hm
            · exact hz
            · exact h2 e' hm hv
        · simp at h
    · rename_i hid
      split at h
      · split at h
        · simp at h
        · simp at h
        · split at h <;> simp at h
      · rename_i hg
        obtain ⟨h1, h2⟩ := ih h
        refine ⟨?_, ?_⟩
        · intro e' he'
          rcases List.mem_cons.mp he' with rfl | hm
          · exact hg
          · exact h1 e' hm
        · intro e' he' hv
          rcases List.mem_cons.mp he' with rfl | hm
          · exact absurd hv hid
          · exact h2 e' hm hv

theorem refusalLoop_406 (els : List Elem) (h : refusalLoop els = .notAcceptable) :
    ∃ e ∈ els, (e.value = sIdentity ∨ e.value = sStar) ∧ e.q.isZero = true := by
  induction els with
  | nil => simp [refusalLoop] at h
  | cons e es ih =>
    simp only [refusalLoop] at h
    split at h
    · rename_i hv
      split at h
      · simp at h
      · simp at h
      · split at h
        · rename_i hz
          exact ⟨e, List.mem_cons_self, hv, hz⟩
        · obtain ⟨e', he', r⟩ := ih h
          exact ⟨e', List.mem_cons_of_mem _ he', r⟩
    · obtain ⟨e', he', r⟩ := ih h
      exact ⟨e', List.mem_cons_of_mem _ he', r⟩

/-! ## ordering -/

theorem ins_perm (lt : Elem → Elem → Bool) (x : Elem) (l : List Elem) : (ins lt x l).Perm (x :: l) := by
  induction l with
  | nil => exact List.Perm.refl _
  | cons y ys ih =>
    simp only [ins]
    split
    · exact (List.Perm.cons y ih).trans (List.Perm.swap x y ys)
    · exact List.Perm.refl _

/-- `sorted` returns a permutation of its input -/
theorem sortAsc_perm (lt : Elem → Elem → Bool) (l : List Elem) : (sortAsc lt l).Perm l := by
  induction l with
  | nil => exact List.Perm.refl _
  | cons x xs ih =>
    simp only [sortAsc]
    exact (ins_perm lt x _).trans (List.Perm.cons x ih)

/-- ascending in the q key -/
def AscKey (l : List Elem) : Prop := l.Pairwise (fun a b => a.q.key ≤ b.q.key)

theorem acceptLt_key {a b : Elem} (h : acceptLt a b = true) : a.q.key ≤ b.q.key := by
  simp only [acceptLt, Q.eq, Q.lt] at h
  by_cases he : a.q.key = b.q.key
  · omega
  · simp only [he, decide_false, Bool.false_eq_true, if_false, decide_eq_true_eq] at h
    omega

theorem not_acceptLt_key {a b : Elem} (h : ¬ acceptLt a b = true) : b.q.key ≤ a.q.key := by
  simp only [acceptLt, Q.eq, Q.lt] at h
  by_cases he : a.q.key = b.q.key
  · omega
  · simp only [he, decide_false, Bool.false_eq_true, if_false, decide_eq_true_eq] at h
    omega

theorem ins_asc (x : Elem) (l : List Elem) (h : AscKey l) : AscKey (ins acceptLt x l) := by
  induction l with
  | nil => simp [ins, AscKey]
  | cons y ys ih =>
    simp only [ins]
    have hy := List.pairwise_cons.mp h
    split
    · rename_i hlt
      have hk := acceptLt_key hlt
      refine List.pairwise_cons.mpr ⟨?_, ih hy.2⟩
      intro z hz
      have := (ins_perm acceptLt x ys).mem_iff.mp hz
      rcases List.mem_cons.mp this with rfl | hm
      · exact hk
      · exact hy.1 z hm
    · rename_i hlt
      have hk := not_acceptLt_key hlt
      refine List.pairwise_cons.mpr ⟨?_, h⟩
      intro z hz
      rcases List.mem_cons.mp hz with rfl | hm
      · exact hk
      · have := hy.1 z hm
        omega

/-- `sorted(result)` is ascending in q -/
theorem sortAsc_sorted (l : List Elem) : AscKey (sortAsc acceptLt l) := by
  induction l with
  | nil => simp [sortAsc, AscKey]
  | cons x xs ih => exact ins_asc x _ ih

/-- descending in the q key -/
def DescKey (l : List Elem) : Prop := l.Pairwise (fun a b => b.q.key ≤ a.q.key)

/-- the list every consumer iterates over (`reversed(sorted(...))`) is in descending q order, and is a
    permutation of the parsed elements -/
theorem acceptElements_descending (v : Option Str) (els : List Elem)
    (h : acceptElements v = .ok els) : DescKey els := by
  unfold acceptElements at h
  split at h
  · cases h; simp [DescKey]
  · cases h; simp [DescKey]
  · simp only at h
    split at h
    · split at h
      · simp at h
      · split at h
        · simp at h
        · cases h
          exact List.pairwise_reverse.mpr (sortAsc_sorted _)
    · cases h
      rename_i hl
      generalize List.map acceptFromStr _ = l at hl ⊢
      match l, hl with
      | [], _ => simp [DescKey]
      | [a], _ => simp [DescKey]
      | _ :: _ :: _, hl => simp at hl

/-! ## charset negotiation -/

/-- the charset an element stands for: `*` means the default -/
def nameOf (e : Elem) : Str := if e.value = sStar then sUtf8 else e.value

theorem tryEnc_true (can : Str → Bool) (att : List Str) (n : Str)
    (h : (tryEnc can false att n).1 = true) : can n = true := by
  simp only [tryEnc] at h
  split at h <;> simp_all

theorem tryEnc_false (can : Str → Bool) (att : List Str) (n : Str)
    (hinv : ∀ m ∈ att, can m = false) (h : (tryEnc can false att n).1 = false) :
    can n = false ∧ ∀ m ∈ (tryEnc can false att n).2, can m = false := by
  simp only [tryEnc] at h ⊢
  split
  · rename_i hc
    have hm : n ∈ att := List.contains_iff_mem.mp hc
    exact ⟨hinv n hm, hinv⟩
  · rename_i hc
    simp only [hc] at h
    have hn : can n = false := by simpa using h
    refine ⟨hn, ?_⟩
    intro m hm
    rcases List.mem_cons.mp hm with rfl | hm'
    · exact hn
    · exact hinv m hm'

/-- a `*` element the loop passes over: the field ranks the default charset itself -/
def shadowed (d : Bool) (e : Elem) : Prop := e.value = sStar ∧ d = true

theorem csLoop_cons (can : Str → Bool) (stream d : Bool) (e : Elem) (es : List Elem) (att : List Str) :
    csLoop can stream d (e :: es) att =
      match e.q with
      | .bad => .inl .err400
      | .exotic => .inl .exotic
      | q =>
        if q.isPos then
          if e.value = sStar ∧ d = true then csLoop can stream d es att
          else if (tryEnc can stream att (nameOf e)).1 then .inl (.chosen (nameOf e))
          else csLoop can stream d es (tryEnc can stream att (nameOf e)).2
        else csLoop can stream d es att := by
  simp only [csLoop, nameOf]
  rfl

/-- buffered loop, a charset was chosen: it is the first effective element (q > 0, not a shadowed `*`)
    whose charset can encode the body; every earlier effective element cannot -/
theorem csLoop_chosen (can : Str → Bool) (d : Bool) (es : List Elem) (att : List Str) (c : Str)
    (hinv : ∀ m ∈ att, can m = false) (h : csLoop can false d es att = .inl (.chosen c)) :
    ∃ pre e post, es = pre ++ e :: post ∧ e.q.isPos = true ∧ ¬ shadowed d e ∧ c = nameOf e ∧ can c = true ∧
      ∀ e' ∈ pre, e'.q.isPos = true → ¬ shadowed d e' → can (nameOf e') = false := by
  induction es generalizing att with
  | nil => simp [csLoop] at h
  | cons e es ih =>
    rw [csLoop_cons] at h
    split at h
    · simp at h
    · simp at h
    · split at h
      · rename_i hpos
        split at h
        · rename_i hsh
          obtain ⟨pre, e1, post, hes, hp, hns, hc, hcan, hpre⟩ := ih _ hinv h
          refine ⟨e :: pre, e1, post, by simp [hes], hp, hns, hc, hcan, ?_⟩
          intro e' he' hq hn
          rcases List.mem_cons.mp he' with rfl | hm
          · exact absurd hsh hn
          · exact hpre e' hm hq hn
        · rename_i hsh
          split at h
          · rename_i htry
            have hc : c = nameOf e := by
              simp only [Sum.inl.injEq, CsResult.chosen.injEq] at h
              exact h.symm
            refine ⟨[], e, es, rfl, hpos, hsh, hc, ?_, by simp⟩
            rw [hc]; exact tryEnc_true can att _ htry
          · rename_i htry
            have hf := tryEnc_false can att _ hinv (by simpa using htry)
            obtain ⟨pre, e1, post, hes, hp, hns, hc, hcan, hpre⟩ := ih _ hf.2 h
            refine ⟨e :: pre, e1, post, by simp [hes], hp, hns, hc, hcan, ?_⟩
            intro e' he' hq hn
            rcases List.mem_cons.mp he' with rfl | hm
            · exact hf.1
            · exact hpre e' hm hq hn
      · rename_i hpos
        obtain ⟨pre, e1, post, hes, hp, hns, hc, hcan, hpre⟩ := ih _ hinv h
        refine ⟨e :: pre, e1, post, by simp [hes], hp, hns, hc, hcan, ?_⟩
        intro e' he' hq hn
        rcases List.mem_cons.mp he' with rfl | hm
        · exact absurd hq hpos
        · exact hpre e' hm hq hn

/-- buffered loop, nothing chosen: no effective element can encode the body -/
theorem csLoop_inr (can : Str → Bool) (d : Bool) (es : List Elem) (att att' : List Str)
    (hinv : ∀ m ∈ att, can m = false) (h : csLoop can false d es att = .inr att') :
    (∀ m ∈ att', can m = false) ∧
      ∀ e ∈ es, e.q.isPos = true → ¬ shadowed d e → can (nameOf e) = false := by
  induction es generalizing att with
  | nil =>
    simp only [csLoop, Sum.inr.injEq] at h
    subst h
    exact ⟨hinv, by simp⟩
  | cons e es ih =>
    rw [csLoop_cons] at h
    split at h
    · simp at h
    · simp at h
    · split at h
      · rename_i hpos
        split at h
        · rename_i hsh
          obtain ⟨h1, h2⟩ := ih _ hinv h
          refine ⟨h1, ?_⟩
          intro e' he' hq hn
          rcases List.mem_cons.mp he' with rfl | hm
          · exact absurd hsh hn
          · exact h2 e' hm hq hn
        · split at h
          · simp at h
          · rename_i htry
            have hf := tryEnc_false can att _ hinv (by simpa using htry)
            obtain ⟨h1, h2⟩ := ih _ hf.2 h
            refine ⟨h1, ?_⟩
            intro e' he' hq hn
            rcases List.mem_cons.mp he' with rfl | hm
            · exact hf.1
            · exact h2 e' hm hq hn
      · rename_i hpos
        obtain ⟨h1, h2⟩ := ih _ hinv h
        refine ⟨h1, ?_⟩
        intro e' he' hq hn
        rcases List.mem_cons.mp he' with rfl | hm
        · exact absurd hq hpos
        · exact h2 e' hm hq hn


theorem csLoop_ne_406 (can : Str → Bool) (stream d : Bool) (es : List Elem) (att : List Str) :
    csLoop can stream d es att ≠ .inl .notAcceptable := by
  induction es generalizing att with
  | nil => simp [csLoop]
  | cons e es ih =>
    rw [csLoop_cons]
    split
    · simp
    · simp
    · split
      · split
        · exact ih _
        · split
          · simp
          · exact ih _
      · exact ih _

end CpProofs.C17
