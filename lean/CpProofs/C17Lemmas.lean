import CpModel.Gzip
import CpModel.Negotiate
/-!
  Helper lemmas for C17: CRC-32 streaming, little-endian fields, chunk accumulation.
-/
namespace CpProofs.C17

open CpModel.Gzip

theorem xor_ones_ones (x : UInt32) : (x ^^^ 0xFFFFFFFF) ^^^ 0xFFFFFFFF = x := by
  rw [UInt32.xor_assoc, UInt32.xor_self, UInt32.xor_zero]

/-- `zlib.crc32(b, zlib.crc32(a, c)) = zlib.crc32(a + b, c)`: the running interface is a monoid action. -/
theorem crc32_append (a b : Bytes) (c : UInt32) : crc32 b (crc32 a c) = crc32 (a ++ b) c := by
  simp only [crc32, crcRaw, xor_ones_ones, List.foldl_append]

theorem crc32_nil (c : UInt32) : crc32 [] c = c := by
  simp only [crc32, crcRaw, List.foldl_nil, xor_ones_ones]

/-- the loop state after feeding the chunks one by one, from any start state -/
theorem feed_chunks (chunks : List Bytes) (a : Acc) :
    chunks.foldl Acc.feed a = ⟨crc32 chunks.flatten a.crc, a.size + chunks.flatten.length⟩ := by
  induction chunks generalizing a with
  | nil => simp [crc32_nil]
  | cons c cs ih =>
    simp only [List.foldl_cons, ih, Acc.feed, List.flatten_cons, crc32_append, List.length_append]
    congr 1
    omega

/-- streaming CRC over any chunking = CRC of the concatenation -/
theorem crc32_chunks (chunks : List Bytes) :
    (chunks.foldl Acc.feed Acc.init).crc = crc32 chunks.flatten := by
  rw [feed_chunks]
  simp [Acc.init, crc32_nil]

/-- accumulated size over any chunking = length of the concatenation -/
theorem size_chunks (chunks : List Bytes) :
    (chunks.foldl Acc.feed Acc.init).size = chunks.flatten.length := by
  rw [feed_chunks]
  simp [Acc.init]

/-- reading back a little-endian field written by `le32` gives the value mod 2^32 -/
theorem rd32_le32 (n : Nat) :
    rd32 (UInt8.ofNat (n % 256)) (UInt8.ofNat (n / 256 % 256)) (UInt8.ofNat (n / 65536 % 256))
      (UInt8.ofNat (n / 16777216 % 256)) = n % 4294967296 := by
  simp only [rd32, UInt8.toNat_ofNat', Nat.reducePow]
  omega

end CpProofs.C17
