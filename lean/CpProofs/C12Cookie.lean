import CpProofs.C12
import CpModel.HeaderNorm
/-!
  C12 (round 2) — `http.cookies` value quoting / `Morsel.output()` and
  `_make_content_disposition` / `urllib.parse.quote`: what a VALUE taken from the request can and
  cannot do inside the header it is put into.  Tables regenerated from the live functions.
-/
set_option linter.unusedSimpArgs false
set_option linter.unnecessarySimpa false

namespace CpProofs.C12
open CpModel.HeaderEnc CpModel.HeaderNorm CpModel.Gen.C12N

/-! ### `urllib.parse.quote` and `Content-Disposition` -/

/-- what may appear in a percent-encoded text: printable ASCII other than space, `"`, `;`, `,`, `\` -/
def UrlOk (c : Char) : Prop :=
  32 < c.toNat ∧ c.toNat < 127 ∧ c ≠ '"' ∧ c ≠ ';' ∧ c ≠ ',' ∧ c ≠ '\\'
instance (c : Char) : Decidable (UrlOk c) := by unfold UrlOk; infer_instance

theorem quoteByte_ok : ∀ b, b < 256 → (quoteByte b).all (fun c => decide (UrlOk c)) = true := by
  decide +kernel

/-- **C12_urlQuote_safe**: for every text, `urllib.parse.quote` yields printable ASCII without
    space, double quote, semicolon, comma or backslash (live safe set in the generated table). -/
theorem C12_urlQuote_safe (s : Text) : ∀ c ∈ urlQuote s, UrlOk c := by
  intro c hc
  simp only [urlQuote, List.mem_flatMap, List.mem_map] at hc
  obtain ⟨b, ⟨u, _, rfl⟩, hcb⟩ := hc
  have := List.all_eq_true.mp (quoteByte_ok u.toNat (UInt8.toNat_lt u)) c hcb
  simpa using this

/-- **C12_content_disposition_ext_safe**: in `Content-Disposition`, the `filename*` parameter
    (the only place a non-ASCII file name goes) is `; filename*=UTF-8''` followed by characters
    that cannot close a quoted string, start a parameter or a header line — for every name. -/
theorem C12_content_disposition_ext_safe (disp a f : Text) :
    ∃ ext, contentDisposition disp a f = disp ++ "; filename=\"".toList ++ a ++ ['"'] ++ ext ∧
      (ext = [] ∨ ∃ q, ext = "; filename*=UTF-8''".toList ++ q ∧ ∀ c ∈ q, UrlOk c) := by
  unfold contentDisposition
  split
  · exact ⟨[], rfl, Or.inl rfl⟩
  · exact ⟨_, rfl, Or.inr ⟨urlQuote f, rfl, C12_urlQuote_safe f⟩⟩

/-- the `filename="…"` parameter is NOT protected: a double quote in an ASCII file name ends the
    quoted string early and the rest of the name is read as further parameters.  Not a clause of
    the statement (no control character, nothing beyond Latin-1); recorded as an observation. -/
theorem content_disposition_quote_unescaped :
    contentDisposition "attachment".toList "a\"; x=\"b".toList "a\"; x=\"b".toList =
      "attachment; filename=\"a\"; x=\"b\"".toList := by
  decide +kernel

/-! ### `http.cookies._quote` -/

/-- a character that cannot end a cookie value, start an attribute or a header line -/
def CookieOk (c : Char) : Prop := c ≠ ';' ∧ c ≠ ',' ∧ 32 ≤ c.toNat ∧ c.toNat ≠ 127
instance (c : Char) : Decidable (CookieOk c) := by unfold CookieOk; infer_instance

theorem cookieXlate_keys : ∀ e ∈ cookieXlate, e.1 < 256 := by decide +kernel
theorem cookieLegal_keys : ∀ n ∈ cookieLegal, n < 256 := by decide +kernel

theorem cookieXlate_ok : ∀ n, n < 256 →
    (cookieXlateChar (Char.ofNat n)).all (fun c => decide (CookieOk c)) = true := by
  decide +kernel

theorem cookieLegal_ok : ∀ n, n < 256 → isCookieLegal (Char.ofNat n) = true →
    CookieOk (Char.ofNat n) ∧ n ≠ 34 := by
  decide +kernel

theorem cookieXlateChar_high (c : Char) (h : 256 ≤ c.toNat) : cookieXlateChar c = [c] := by
  unfold cookieXlateChar
  have : cookieXlate.find? (fun e => e.1 == c.toNat) = none := by
    rw [List.find?_eq_none]
    intro e he
    have := cookieXlate_keys e he
    simp only [beq_iff_eq]
    omega
  rw [this]

theorem isCookieLegal_lt (c : Char) (h : isCookieLegal c = true) : c.toNat < 256 := by
  unfold isCookieLegal at h
  exact cookieLegal_keys _ (by simpa using h)

theorem cookieXlateChar_ok (x c : Char) (h : c ∈ cookieXlateChar x) : CookieOk c := by
  by_cases hx : x.toNat < 256
  · have := cookieXlate_ok x.toNat hx
    rw [Char.ofNat_toNat] at this
    simpa using List.all_eq_true.mp this c h
  · rw [cookieXlateChar_high x (by omega)] at h
    simp only [List.mem_singleton] at h
    subst h
    unfold CookieOk
    refine ⟨?_, ?_, by omega, by omega⟩
    · rintro rfl; exact hx (by decide)
    · rintro rfl; exact hx (by decide)

/-- **C12_cookie_value_no_separator**: for every text, the coded cookie value
    (`SimpleCookie.value_encode`) holds no `;`, no `,`, no CR, LF or other control character and no
    DEL: a value taken from the request can neither add a cookie attribute nor leave the header
    line (live translation table). -/
theorem C12_cookie_value_no_separator (s : Text) : ∀ c ∈ cookieQuote s, CookieOk c := by
  intro c hc
  unfold cookieQuote at hc
  split at hc
  · rename_i h
    have hl : isCookieLegal c = true := List.all_eq_true.mp h.2 c hc
    have := (cookieLegal_ok c.toNat (isCookieLegal_lt c hl) (by rw [Char.ofNat_toNat]; exact hl)).1
    rw [Char.ofNat_toNat] at this
    exact this
  · simp only [List.mem_cons, List.mem_append, List.mem_flatMap, List.not_mem_nil, or_false] at hc
    rcases hc with (rfl | ⟨x, _, hx⟩) | rfl
    · decide
    · exact cookieXlateChar_ok x c hx
    · decide

/-! #### the quoted form reads back -/

/-- the shapes `str.translate(_Translator)` produces for one character with code `n` -/
def xlShape (n : Nat) (l : Text) : Bool :=
  match l with
  | [x] => x == Char.ofNat n && n != 92
  | [s, x] => s == '\\' && x == Char.ofNat n && !isOct x
  | [s, a, b, d] =>
    s == '\\' && isOct a && isOct b && isOct d && decide (octVal a < 4) &&
      (octVal a * 64 + octVal b * 8 + octVal d == n)
  | _ => false

theorem cookieXlate_shapes : ∀ n, n < 256 → xlShape n (cookieXlateChar (Char.ofNat n)) = true := by
  decide +kernel

theorem char_toNat_ofNat_256 : ∀ n, n < 256 → (Char.ofNat n).toNat = n := by decide +kernel

theorem unq_shape (n : Nat) (hn : n < 256) (l rest : Text) (h : xlShape n l = true) :
    unqAux 0 (l ++ rest) = Char.ofNat n :: unqAux 0 rest := by
  match l, h with
  | [], h => simp [xlShape] at h
  | [x], h =>
    simp only [xlShape, Bool.and_eq_true, beq_iff_eq, bne_iff_ne] at h
    obtain ⟨rfl, h92⟩ := h
    have hx : Char.ofNat n ≠ '\\' := by
      intro hx
      have := congrArg Char.toNat hx
      rw [char_toNat_ofNat_256 n hn] at this
      exact h92 this
    simp [unqAux, hx]
  | [s, x], h =>
    simp only [xlShape, Bool.and_eq_true, beq_iff_eq, Bool.not_eq_true'] at h
    obtain ⟨⟨rfl, rfl⟩, ho⟩ := h
    cases rest with
    | nil => simp [unqAux]
    | cons b rest' =>
      cases rest' with
      | nil => simp [unqAux]
      | cons d rest'' => simp [unqAux, ho]
  | [s, a, b, d], h =>
    simp only [xlShape, Bool.and_eq_true, beq_iff_eq, decide_eq_true_eq] at h
    obtain ⟨⟨⟨⟨⟨rfl, ha⟩, hb⟩, hd⟩, h4⟩, hv⟩ := h
    simp [unqAux, ha, hb, hd, h4, hv]
  | [_, _, _], h => simp [xlShape] at h
  | _ :: _ :: _ :: _ :: _ :: _, h => simp [xlShape] at h

theorem unq_xlate (c : Char) (rest : Text) :
    unqAux 0 (cookieXlateChar c ++ rest) = c :: unqAux 0 rest := by
  by_cases hx : c.toNat < 256
  · have := cookieXlate_shapes c.toNat hx
    rw [Char.ofNat_toNat] at this
    have := unq_shape c.toNat hx _ rest this
    rw [Char.ofNat_toNat] at this
    exact this
  · rw [cookieXlateChar_high c (by omega)]
    have : c ≠ '\\' := by rintro rfl; exact hx (by decide)
    simp [unqAux, this]

theorem unq_body (s : Text) : unqAux 0 (s.flatMap cookieXlateChar) = s := by
  induction s with
  | nil => rfl
  | cons c rest ih => rw [List.flatMap_cons, unq_xlate, ih]

/-- **C12_cookie_value_roundtrip**: a reader of the quoted form (strip the quotes; `\ooo` is the
    octet, `\x` is `x`) gets the original text back from the coded value, for every text: the
    quoting is an encoding, it loses and invents nothing. -/
theorem C12_cookie_value_roundtrip (s : Text) : cookieUnquote (cookieQuote s) = s := by
  unfold cookieQuote
  split
  · rename_i h
    cases s with
    | nil => exact absurd rfl h.1
    | cons c t =>
      have hl : isCookieLegal c = true := List.all_eq_true.mp h.2 c (by simp)
      have hne : c ≠ '"' := by
        rintro rfl
        exact (cookieLegal_ok 34 (by decide) hl).2 rfl
      unfold cookieUnquote
      split
      · rename_i rest heq
        cases heq
        exact absurd rfl hne
      · rfl
  · show cookieUnquote ('"' :: (s.flatMap cookieXlateChar ++ ['"'])) = s
    simp [cookieUnquote, unq_body]

example : cookieQuote "a;b\"\\\r\n".toList = "\"a\\073b\\\"\\\\\\015\\012\"".toList := by
  decide +kernel

/-! ### `Morsel.output()` -/

theorem morselReserved_no_semi : ∀ e ∈ morselReserved, ∀ c ∈ toText e.2, c ≠ ';' := by
  decide +kernel

theorem count_semi_zero (l : Text) (h : ∀ c ∈ l, c ≠ ';') : l.count ';' = 0 := by
  rw [List.count_eq_zero]
  intro hm
  exact h ';' hm rfl

theorem reservedName_no_semi (k n : Text) (h : reservedName k = some n) : ∀ c ∈ n, c ≠ ';' := by
  unfold reservedName at h
  simp only [Option.map_eq_some_iff] at h
  obtain ⟨e, he, rfl⟩ := h
  exact morselReserved_no_semi e (List.mem_of_find?_eq_some he)

theorem morselAttr_no_semi (kv : Text × Text) (hv : ∀ c ∈ kv.2, c ≠ ';') (t : Text)
    (h : morselAttr kv = some t) : t.count ';' = 0 := by
  unfold morselAttr at h
  split at h
  · cases h
  · split at h
    · cases h
    · rename_i name hn
      have hname := reservedName_no_semi _ _ hn
      apply count_semi_zero
      split at h
      · cases h
        intro c hc
        simp only [List.mem_append, List.mem_cons] at hc
        rcases hc with hc | rfl | hc
        · exact hname c hc
        · decide
        · exact (C12_cookie_value_no_separator kv.2 c hc).1
      · split at h
        · cases h; exact hname
        · cases h
          intro c hc
          simp only [List.mem_append, List.mem_cons] at hc
          rcases hc with hc | rfl | hc
          · exact hname c hc
          · decide
          · exact hv c hc

theorem joinSemi_count (parts : List Text) (h : ∀ p ∈ parts, p.count ';' = 0) :
    (joinSemi parts).count ';' = parts.length := by
  induction parts with
  | nil => rfl
  | cons p rest ih =>
    simp only [joinSemi, List.count_cons, List.count_append, List.length_cons]
    rw [h p (by simp), ih (fun q hq => h q (by simp [hq]))]
    simp
    try omega

/-- **C12_morsel_value_confined**: for every cookie name without `;`, EVERY value text (coded by
    `value_encode`) and attributes whose values hold no `;`, the line `Morsel.output()` produces
    has exactly one `;` per attribute written — the value contributes none: request data placed in
    a cookie VALUE cannot add an attribute. -/
theorem C12_morsel_value_confined (key v : Text) (attrs : List (Text × Text))
    (hk : ∀ c ∈ key, c ≠ ';') (ha : ∀ kv ∈ attrs, ∀ c ∈ kv.2, c ≠ ';') :
    (morselOutput key (cookieQuote v) attrs).count ';' = (attrs.filterMap morselAttr).length := by
  unfold morselOutput
  simp only [List.count_append, List.count_cons]
  rw [count_semi_zero key hk, count_semi_zero (cookieQuote v)
    (fun c hc => (C12_cookie_value_no_separator v c hc).1), joinSemi_count]
  · have : List.count ';' "Set-Cookie: ".toList = 0 := by decide
    rw [this]; simp
  · intro p hp
    simp only [List.mem_filterMap] at hp
    obtain ⟨kv, hkv, hp⟩ := hp
    exact morselAttr_no_semi kv (ha kv hkv) p hp

/-- an ATTRIBUTE value is written as it is (only `Comment` is quoted): a `;` in it adds attributes.
    `tools.sessions` fills `Path` from a request header when `path_header` is configured.  Not a
    clause of the statement (no control character reaches the wire); recorded as an observation. -/
theorem morsel_attr_value_injects :
    morselOutput ['k'] ['v'] [("path".toList, "/; Domain=evil.example".toList)] =
      "Set-Cookie: k=v; Path=/; Domain=evil.example".toList ∧
    (morselOutput ['k'] ['v'] [("path".toList, "/; Domain=evil.example".toList)]).count ';' = 2 := by
  decide +kernel

/-- non-vacuity of the confinement hypothesis, with a value full of separators -/
example : morselOutput ['k'] (cookieQuote "v; Path=/evil\r\nX: 1".toList)
      [("path".toList, "/x".toList), ("secure".toList, "True".toList)] =
    "Set-Cookie: k=\"v\\073 Path=/evil\\015\\012X: 1\"; Path=/x; Secure".toList := by
  decide +kernel

end CpProofs.C12
