import CpModel.ConfigHist
import CpProofs.C08
/-!
  C08 over histories: what a request observes is a function of (tree, configs in force, request) only.
-/
namespace CpProofs.C08
open CpModel.Dispatch CpModel.Config CpModel.ConfigHist

/-- Obligation regenerated from the live code on every run: both copies are made
    (`Tool._merged_args`: `conf = d.copy()`; `set_conf()`: `base = cherrypy.config.copy()`). -/
theorem live_sites_copy : liveSites = ⟨true, true⟩ := by decide

/-- A request leaves everything that outlives it as it was. -/
theorem req_preserves_world (w : World) (a : Nat) (kind : Bool) (meth : Name) (path : List Char) :
    reqWorld ⟨true, true⟩ w a kind meth path = w := by
  unfold reqWorld
  split <;> simp

theorem runHist_append (s : CopySites) : ∀ (pre post : List Step) (w : World),
    runHist s w (pre ++ post) = runHist s w pre ++ runHist s (pre.foldl (stepWorld s) w) post := by
  intro pre
  induction pre with
  | nil => intro post w; rfl
  | cons st rest ih =>
    intro post w
    cases st with
    | req a kind meth path => simp [runHist, ih]
    | merge a secs => simp [runHist, ih]
    | gupdate c => simp [runHist, ih]

/-- Folding all steps = folding the configuration steps alone. -/
theorem foldl_eq_configFold : ∀ (steps : List Step) (w : World),
    steps.foldl (stepWorld ⟨true, true⟩) w = configFold w steps := by
  intro steps
  induction steps with
  | nil => intro w; rfl
  | cons st rest ih =>
    intro w
    cases st with
    | req a kind meth path =>
      simp only [List.foldl_cons, stepWorld, req_preserves_world, ih]
      simp [configFold, Step.isReq]
    | merge a secs =>
      simp only [List.foldl_cons, ih]
      simp [configFold, Step.isReq]
    | gupdate c =>
      simp only [List.foldl_cons, ih]
      simp [configFold, Step.isReq]

/-- **C08, independence of history.**  In any history (requests to any applications and paths in any
    order, `app.merge` and `cherrypy.config.update` in between) every request observes exactly what the
    statement gives for it ALONE in the world produced by the configuration steps before it: effective
    config, toolmap, tools set up with their kwargs, and the kwargs of a `tools.<t>.handler(**kw)` page
    handler.  Requests before it (to other paths, sections, applications) are invisible. -/
theorem C08_history_independent (w : World) (pre post : List Step) (a : Nat) (kind : Bool) (meth : Name)
    (path : List Char) :
    runHist liveSites w (pre ++ .req a kind meth path :: post) =
      runHist liveSites w pre ++
        observe (configFold w pre) a kind meth path :: runHist liveSites (configFold w pre) post := by
  rw [live_sites_copy, runHist_append, foldl_eq_configFold]
  simp [runHist, stepWorld, req_preserves_world]

/-- … in particular: leaving out all earlier requests changes nothing for the last one. -/
theorem C08_history_requests_invisible (w : World) (pre : List Step) (a : Nat) (kind : Bool) (meth : Name)
    (path : List Char) :
    (runHist liveSites w (pre ++ [.req a kind meth path])).getLast? =
      (runHist liveSites w (pre.filter (!·.isReq) ++ [.req a kind meth path])).getLast? := by
  rw [C08_history_independent, C08_history_independent]
  have : configFold w (pre.filter (!·.isReq)) = configFold w pre := by
    simp [configFold, List.filter_filter]
  simp [runHist, this]

/-! ### the statement is not vacuous: without the copy in `_merged_args` a request leaks into later ones -/

def demoGraph : Graph :=
  { nodes := [{ attrs := [("x".toList, 1)] }, { callable := true, exposed := true }] }

def demoWorld : World :=
  { glob := [], g := demoGraph,
    apps := [[("/x/s".toList, [("tools.h.b".toList, .int 2)])]],
    thkw := [⟨1, "h".toList, [("a".toList, .int 1)]⟩] }

def obsPage : Except Err Obs → Option (Name × Conf)
  | .ok o => o.page
  | .error _ => none

/-- the second request (outside `/x/s`) alone: the handler's own kwargs -/
example : obsPage (observe demoWorld 0 false "GET".toList "/x".toList) =
    some ("h".toList, [("a".toList, .int 1)]) := by decide

/-- … after a request inside `/x/s`, when `_merged_args` updates the dict it was given -/
theorem alias_breaks_independence :
    ((runHist ⟨false, true⟩ demoWorld
        [.req 0 false "GET".toList "/x/s".toList, .req 0 false "GET".toList "/x".toList]).map obsPage) =
      [some ("h".toList, [("a".toList, .int 1), ("b".toList, .int 2)]),
       some ("h".toList, [("a".toList, .int 1), ("b".toList, .int 2)])] := by decide

/-- … and with the copy (the live code): independent, as `C08_history_independent` says -/
example :
    ((runHist ⟨true, true⟩ demoWorld
        [.req 0 false "GET".toList "/x/s".toList, .req 0 false "GET".toList "/x".toList]).map obsPage) =
      [some ("h".toList, [("a".toList, .int 1), ("b".toList, .int 2)]),
       some ("h".toList, [("a".toList, .int 1)])] := by decide

/-! ### `app.merge` -/

theorem lookup_mergeSection (secs : List (List Char × Conf)) (name q : List Char) (c : Conf) :
    lookup (mergeSection secs name c) q =
      if q = name then some ((lookup secs name).getD [] ++ c) else lookup secs q := by
  induction secs with
  | nil =>
    by_cases h : q = name
    · subst h; simp [mergeSection, lookup]
    · have : ¬ name = q := fun e => h e.symm
      simp [mergeSection, lookup, h, this]
  | cons x xs ih =>
    obtain ⟨n, c0⟩ := x
    by_cases hn : n = name
    · subst hn
      by_cases h : q = n
      · subst h; simp [mergeSection, lookup]
      · have : ¬ n = q := fun e => h e.symm
        simp [mergeSection, lookup, h, this]
    · by_cases h : q = name
      · subst h
        simp [mergeSection, lookup, hn, ih]
      · by_cases hq : n = q
        · subst hq; simp [mergeSection, lookup, hn]
        · simp [mergeSection, lookup, hn, h, hq, ih]

/-- **`app.merge` of one section**: afterwards that section answers with the merged entry when it has
    the key, else with what it answered before; every other section is untouched. -/
theorem C08_merge_section (secs : List (List Char × Conf)) (name q : List Char) (c : Conf) (k : Name) :
    cget ((lookup (mergeSection secs name c) q).getD []) k =
      if q = name then
        match cget c k with
        | some v => some v
        | none => cget ((lookup secs name).getD []) k
      else cget ((lookup secs q).getD []) k := by
  rw [lookup_mergeSection]
  by_cases h : q = name
  · simp only [h, if_true, Option.getD_some]
    exact get_append _ _ _
  · simp [h]

/-! ### the kwargs of a `tools.<t>.handler(**kw)` page handler -/

theorem lookup_map_settings (b : Conf) (t : Name) : ∀ (names : List Name),
    lookup (names.map fun t' => (t', settingsOf b t')) t =
      if t ∈ names then some (settingsOf b t) else none := by
  intro names
  induction names with
  | nil => rfl
  | cons n ns ih =>
    by_cases h : n = t
    · subst h; simp [lookup]
    · have : ¬ t = n := fun e => h e.symm
      simp [lookup, h, this, ih]

theorem settingsOf_nil_of_not_name (b : Conf) (t : Name)
    (h : t ∉ b.filterMap fun (k, _) => (splitDot k).map (·.1)) : settingsOf b t = [] := by
  induction b with
  | nil => rfl
  | cons x xs ih =>
    obtain ⟨k, v⟩ := x
    cases hs : splitDot k with
    | none =>
      have h' : t ∉ xs.filterMap fun (k, _) => (splitDot k).map (·.1) := by
        intro hm; apply h
        rw [List.filterMap_cons_none (by simp [hs])]; exact hm
      simp only [settingsOf, List.filterMap_cons, hs]
      exact ih h'
    | some p =>
      obtain ⟨t', a⟩ := p
      have hne : t' ≠ t := by
        intro e; apply h
        rw [List.filterMap_cons_some (b := t') (by simp [hs])]
        exact e ▸ List.mem_cons_self ..
      have h' : t ∉ xs.filterMap fun (k, _) => (splitDot k).map (·.1) := by
        intro hm; apply h
        rw [List.filterMap_cons_some (b := t') (by simp [hs])]
        exact List.mem_cons_of_mem _ hm
      simp only [settingsOf, List.filterMap_cons, hs, hne, if_false]
      exact ih h'

/-- `request.toolmaps['tools'].get(t, {})` answers like the `tools.<t>.*` part of the effective config. -/
theorem toolmap_lookup (c : Conf) (t : Name) :
    (lookup (toolmap c) t).getD [] = settingsOf (bucket c toolsNs) t := by
  unfold toolmap
  dsimp only
  rw [lookup_map_settings]
  split
  · rfl
  · rename_i hm
    rw [settingsOf_nil_of_not_name _ _ (fun h => hm (mem_dedup.mpr h))]
    rfl

/-- **C08, handler-tool kwargs.**  A page handler made by `tools.<t>.handler(**kw)` calls the tool with
    `kw` overlaid by the effective `tools.<t>.*` entries of THIS request (`on` removed): an argument comes
    from the effective config when it is there, else from the handler's own kwargs, and from nowhere else. -/
theorem C08_handler_tool_args (kw c : Conf) (t a : Name) (ht : '.' ∉ t) :
    cget (mergedArgs kw (toolmap c) t) a =
      if a = onName then none else
        match cget c (toolKey t a) with
        | some v => some v
        | none => cget kw a := by
  unfold mergedArgs
  by_cases ha : a = onName
  · simp only [ha, if_true]
    apply cget_none_of_not_mem
    intro hm
    rw [List.mem_map] at hm
    obtain ⟨⟨a', v⟩, hmem, ha'⟩ := hm
    rw [List.mem_filter] at hmem
    dsimp only at ha'
    subst ha'
    simpa using hmem.2
  · simp only [ha, if_false]
    have hp : (fun (x : Name) => decide (x ≠ onName)) a = true := by simp [ha]
    rw [cget_filter_key (fun x => decide (x ≠ onName)) a hp, cget_toDict, get_append, toolmap_lookup,
      tool_setting c t a ht]
    cases cget c (toolKey t a) <;> rfl

/-! ### custom toolboxes -/

/-- `<ns>.<t>.<a>` -/
def boxKey (ns t a : Name) : Name := ns ++ '.' :: (t ++ '.' :: a)

theorem box_setting (c : Conf) (ns t a : Name) (hns : '.' ∉ ns) (ht : '.' ∉ t) :
    cget (settingsOf (bucket c ns) t) a = cget c (boxKey ns t a) := by
  rw [settingsOf_eq, cget_nsFilter t ht, bucket_eq, cget_nsFilter ns hns, cget_toDict]
  rfl

/-- **Custom toolboxes.**  A tool reachable as `<ns>.<name>` is set up exactly when the effective
    `<ns>.<name>.on` is truthy, and then with exactly the effective `<home>.<name>.*` entries (`on` and
    `priority` removed), `home` being the toolbox the tool object belongs to — never with the entries of a
    like-named tool of another toolbox (`tools.<name>.*` of a built-in one, say). -/
theorem C08_custom_toolbox (c : Conf) (t : BoxTool) (hns : '.' ∉ t.ns) (hh : '.' ∉ t.home) (hn : '.' ∉ t.name) :
    (boxToolSetup c t).isSome = ((cget c (boxKey t.ns t.name onName)).map truthy).getD false ∧
    ∀ kw, boxToolSetup c t = some kw → ∀ a,
      cget kw a = if a = onName ∨ a = priorityName then none else cget c (boxKey t.home t.name a) := by
  unfold boxToolSetup
  rw [box_setting c t.ns t.name onName hns hn]
  constructor
  · split <;> simp_all
  · intro kw h a
    split at h
    · injection h with h
      subst h
      by_cases hex : a = onName ∨ a = priorityName
      · simp only [hex, if_true]
        apply cget_none_of_not_mem
        intro hm
        rw [List.mem_map] at hm
        obtain ⟨⟨a', v⟩, hmem, ha'⟩ := hm
        rw [List.mem_filter] at hmem
        dsimp only at ha'
        subst ha'
        have := hmem.2
        simp at this
        rcases hex with e | e
        · exact this.1 e
        · exact this.2 e
      · simp only [hex, if_false]
        rw [← box_setting c t.home t.name a hh hn]
        have hp : (fun (x : Name) => decide (x ≠ onName ∧ x ≠ priorityName)) a = true := by
          simp only [not_or] at hex
          simp [hex.1, hex.2]
        exact cget_filter_key (fun x => decide (x ≠ onName ∧ x ≠ priorityName)) a hp _
    · cases h

/-- the default toolbox is the instance `ns = home = tools` -/
example (c : Conf) (t : Name) :
    boxToolSetup c ⟨toolsNs, t, toolsNs⟩ =
      (if ((cget (settingsOf (bucket c toolsNs) t) onName).map truthy).getD false then
        some ((settingsOf (bucket c toolsNs) t).filter fun (a, _) => a ≠ onName ∧ a ≠ priorityName) else none) := rfl

end CpProofs.C08
