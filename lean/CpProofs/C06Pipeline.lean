import CpProofs.C06Lemmas
/-!
  C06 — the handler stage, the cache, finalize and the request pipeline keep / establish the framing
  invariant.
-/
namespace CpProofs.C06
open CpModel CpModel.Finalize

/-! ### the handler does not lie about its own length -/

/-- the Content-Length in force when the handler's value is assigned: the handler's own, else the one
    `tools.response_headers` was configured with -/
def ownCL (p : Plan) : Option Nat :=
  match p.h.setCL with
  | some n => some n
  | none => p.t.rhCL

/-- the length `xmlrpcutil._set_response` declares for the text `t` is the length of its UTF-8 encoding
    (true for every ASCII text; for every text once the code counts bytes) -/
def XmlOk (t : List Char) : Prop := xmlLen t = (encodeText .utf8 t).length

/-- Precondition on the *application* (the property is about the framework's tools): when the handler —
    or the `tools.response_headers` configuration — sets Content-Length, either the handler's value is a
    clean byte body of exactly that length, or the encode tool is going to discard that header anyway
    (its buffered branch; its streaming branch too once `encode_stream` is repaired).  An XML-RPC text
    meets `XmlOk` or goes through the encode tool the same way; an XML-RPC fault text meets `XmlOk`. -/
def HandlerOk (p : Plan) : Prop :=
  (∀ n, ownCL p = some n →
    (allBytes (prepareIter p.h.shape).chunks = true ∧ (concat (prepareIter p.h.shape).chunks).length = n) ∨
    (p.t.encode = true ∧ p.h.ct.isText = true ∧
      (Gen.C06.encodeStreamKeepsCL = true → p.t.stream = false ∧ p.h.setStream = false))) ∧
  (∀ t, p.h.shape = .xmlrpcV t →
    XmlOk t ∨ (p.t.encode = true ∧
      (Gen.C06.encodeStreamKeepsCL = true → p.t.stream = false ∧ p.h.setStream = false))) ∧
  (∀ t, p.t.errResp = .xmlrpc t → XmlOk t)

theorem encodeStream_allBytes (cs : Charset) (l : List Chunk) (h : allBytes l = true) : encodeStream cs l = l := by
  induction l with
  | nil => rfl
  | cons c l ih =>
    cases c with
    | bytes b => simp only [allBytes] at h; simp [encodeStream, ih h]
    | text t => simp [allBytes] at h
    | nested n => simp [allBytes] at h
    | raise => simp [allBytes] at h

/-- the encode wrapper: a returned value that agrees with the current Content-Length still does -/
theorem encodeStage_CLok (rq : Req) (r : Resp) (body : Body) (h : CLok { r with body := body }) :
    CLok (encodeStage rq r body).1 ∨ (encodeStage rq r body).2 ≠ none := by
  unfold encodeStage
  split
  · split
    · split
      · -- streaming: the header is kept (or, once repaired, deleted); bytes chunks pass through unchanged
        simp only
        split
        · right; simp
        · left
          split
          · rcases CLok_cases h with h0 | h0 | ⟨n, h0, hb, hl⟩
            · exact CLok_of_none (by simpa using h0)
            · exact CLok_of_pyNone (by simpa using h0)
            · refine CLok_of_nat (n := n) (by simpa using h0) ?_ ?_
              · simp only at hb ⊢; rw [encodeStream_allBytes _ _ hb]; exact hb
              · simp only at hb hl ⊢; rw [encodeStream_allBytes _ _ hb]; exact hl
          · exact CLok_of_none (by simp)
      · simp only
        split
        · right; simp
        · split
          · right; simp
          · split
            · right; simp
            · left; exact CLok_of_none (by simp)
    · split
      · right; simp
      · left; exact h
  · split
    · right; simp
    · left; exact h

/-- ... and with a text Content-Type the encode wrapper drops Content-Length: always in its buffered
    branch, in its streaming branch once `encode_stream` is repaired -/
theorem encodeStage_drops (rq : Req) (r : Resp) (body : Body) (b : CtBase) (cs : Option Charset)
    (hct : r.hdrs .contentType = some (.ctype b cs)) (hb : b.isText = true)
    (hs : Gen.C06.encodeStreamKeepsCL = true → r.stream = false) :
    (encodeStage rq r body).1.hdrs .contentLength = none := by
  unfold encodeStage
  simp only [hct, hb, if_true]
  by_cases hk : Gen.C06.encodeStreamKeepsCL = true
  · simp only [hs hk]
    repeat' split
    all_goals first | (simp; done) | simp_all
  · by_cases hst : r.stream = true
    · simp only [hst, hk, if_true]
      repeat' split
      all_goals first | (simp; done) | simp_all
    · have hst' : r.stream = false := by simpa using hst
      simp only [hst']
      repeat' split
      all_goals first | (simp; done) | simp_all

theorem assignBody_CLok (rq : Req) (p : Plan) (isStr : Bool) (r : Resp) (body : Body)
    (h : CLok { r with body := body }) :
    CLok (assignBody rq p isStr r body).1 ∨ (assignBody rq p isStr r body).2 ≠ none := by
  unfold assignBody
  split
  · exact encodeStage_CLok rq r body h
  · split
    · right; simp
    · left; exact h

theorem take_drop_length (b : Bytes) (start stop : Nat) (h : stop ≤ b.length) :
    ((b.drop start).take (stop - start)).length = stop - start := by
  simp only [List.length_take, List.length_drop]
  omega

theorem serveFile_CLok (pg : Pages) (rq : Req) (b : Bytes) (r : Resp) :
    CLok (serveFile pg rq b r).1 ∨ (serveFile pg rq b r).2 ≠ none := by
  unfold serveFile
  simp only
  split
  · right; simp
  · split
    · right; simp
    · left
      rename_i start stop _
      exact CLok_of_nat (n := min stop b.length - start) (by simp only [set_same]) (oneChunk_allBytes _)
        (by simp only; rw [oneChunk_concat]; apply take_drop_length; omega)
    · left; exact CLok_of_none (by simp)
    · left
      exact CLok_of_nat (n := b.length) (by simp only [set_same]) (oneChunk_allBytes _)
        (by simp only; rw [oneChunk_concat])

theorem handlerStatic_CLok (pg : Pages) (rq : Req) (p : Plan) (b : Bytes) (r : Resp) :
    CLok (handlerStatic pg rq p b r).1 ∨ (handlerStatic pg rq p b r).2 ≠ none := by
  unfold handlerStatic
  have := serveFile_CLok pg rq b (withStatus p.h.st (withOwnCL p.h.setCL r))
  split
  · right; simp
  · rename_i r' heq
    rw [heq] at this
    have hr' : CLok r' := by
      rcases this with h | h
      · exact h
      · exact absurd rfl h
    split
    · exact encodeStage_CLok rq r' r'.body hr'
    · left; exact hr'

theorem handlerFileObj_CLok (rq : Req) (p : Plan) (b : Bytes) (r : Resp) :
    CLok (handlerFileObj rq p b r).1 ∨ (handlerFileObj rq p b r).2 ≠ none := by
  unfold handlerFileObj
  simp only
  split
  · exact encodeStage_CLok rq _ _ (CLok_of_pyNone (by simp))
  · left; exact CLok_of_pyNone (by simp)

/-- `xmlrpcutil._set_response`: framed exactly when the declared length is the encoded length -/
theorem xmlrpcSet_CLok (t : List Char) (r : Resp) (h : XmlOk t) : CLok (xmlrpcSet t r) :=
  CLok_of_nat (n := xmlLen t) (by simp [xmlrpcSet]) (bytesBody_allBytes _)
    (by simp only [xmlrpcSet]; rw [bytesBody_concat]; exact h.symm)

theorem xmlrpcSet_ct (t : List Char) (r : Resp) :
    (xmlrpcSet t r).hdrs .contentType = some (.ctype .textXml none) := by
  simp [xmlrpcSet, Hdrs.set]

theorem handlerXmlrpc_CLok (rq : Req) (p : Plan) (t : List Char) (r : Resp)
    (hshape : p.h.shape = .xmlrpcV t) (hok : HandlerOk p)
    (hs : r.stream = (p.t.stream || p.h.setStream)) :
    CLok (handlerXmlrpc rq p t r).1 ∨ (handlerXmlrpc rq p t r).2 ≠ none := by
  have key : CLok (if p.t.encode then encodeStage rq (xmlrpcSet t r) (xmlrpcSet t r).body
                   else (xmlrpcSet t r, none)).1 ∨
             (if p.t.encode then encodeStage rq (xmlrpcSet t r) (xmlrpcSet t r).body
                   else (xmlrpcSet t r, none)).2 ≠ none := by
    rcases hok.2.1 t hshape with hx | ⟨he, hst⟩
    · split
      · exact encodeStage_CLok rq _ _ (xmlrpcSet_CLok t r hx)
      · left; exact xmlrpcSet_CLok t r hx
    · left
      simp only [he, if_true]
      apply CLok_of_none
      apply encodeStage_drops rq _ _ .textXml none (xmlrpcSet_ct t r) rfl
      intro hk
      have := hst hk
      show r.stream = false
      rw [hs, this.1, this.2]; rfl
  unfold handlerXmlrpc
  split
  · right; simp
  · right; simp
  · right; simp
  · exact key

theorem handlerPlain_CLok (rq : Req) (p : Plan) (shape : Shape) (r : Resp)
    (hshape : shape = p.h.shape) (hok : HandlerOk p) (hcl : r.hdrs .contentLength = p.t.rhCL.map HVal.nat)
    (hct : r.hdrs .contentType = some (.ctype p.h.ct none))
    (hs : r.stream = (p.t.stream || p.h.setStream)) :
    CLok (handlerPlain rq p shape r).1 ∨ (handlerPlain rq p shape r).2 ≠ none := by
  subst hshape
  -- the response after the handler set its own headers, with the returned value assigned
  have key : ∀ (r1 : Resp), r1.hdrs = (match p.h.setCL with
                | some n => r.hdrs.set .contentLength (.nat n)
                | none => r.hdrs) → r1.stream = r.stream →
      CLok (assignBody rq p (shapeIsStr p.h.shape) r1 (prepareIter p.h.shape)).1 ∨
      (assignBody rq p (shapeIsStr p.h.shape) r1 (prepareIter p.h.shape)).2 ≠ none := by
    intro r1 hh hst
    have hr1 : r1.hdrs .contentLength = (ownCL p).map HVal.nat := by
      unfold ownCL
      cases hset : p.h.setCL with
      | none => rw [hset] at hh; rw [hh]; exact hcl
      | some n => rw [hset] at hh; rw [hh]; simp
    have hr1ct : r1.hdrs .contentType = some (.ctype p.h.ct none) := by
      cases hset : p.h.setCL with
      | none => rw [hset] at hh; rw [hh]; exact hct
      | some n => rw [hset] at hh; rw [hh]; simpa using hct
    cases hown : ownCL p with
    | none =>
      rw [hown] at hr1
      exact assignBody_CLok _ _ _ _ _ (CLok_of_none (by simpa using hr1))
    | some n =>
      rw [hown] at hr1
      rcases hok.1 n hown with ⟨hb, hl⟩ | ⟨he, hb, hstr⟩
      · exact assignBody_CLok _ _ _ _ _ (CLok_of_nat (n := n) (by simpa using hr1) hb hl)
      · left
        unfold assignBody
        simp only [he, if_true]
        apply CLok_of_none
        apply encodeStage_drops rq r1 _ p.h.ct none hr1ct hb
        intro hk
        have := hstr hk
        rw [hst, hs, this.1, this.2]; rfl
  unfold handlerPlain
  simp only
  split
  · right; simp
  · right; simp
  · right; simp
  · apply key
    · cases p.h.setCL <;> rfl
    · cases p.h.setCL <;> rfl
  · apply key
    · cases p.h.setCL <;> rfl
    · cases p.h.setCL <;> rfl

/-- the handler stage on the response the earlier stages hand over (Content-Length as configured by
    `tools.response_headers`, if at all): it returns with the invariant, or it raises -/
theorem handlerStage_CLok (pg : Pages) (rq : Req) (p : Plan) (hok : HandlerOk p) (r : Resp)
    (hcl : r.hdrs .contentLength = p.t.rhCL.map HVal.nat) (hs : r.stream = p.t.stream) :
    CLok (handlerStage pg rq p r).1 ∨ (handlerStage pg rq p r).2 ≠ none := by
  unfold handlerStage
  simp only
  split
  · exact handlerStatic_CLok ..
  · exact handlerFileObj_CLok ..
  · rename_i t hsh
    exact handlerXmlrpc_CLok rq p t _ hsh hok (by simp [hs])
  · apply handlerPlain_CLok rq p _ _ rfl hok
    · simpa using hcl
    · simp
    · simp [hs]


/-! ### the cache only ever holds self-consistent entries -/

def EntryOk (e : Entry) : Prop :=
  match e.hdrs .contentLength with
  | none => True
  | some .pyNone => True
  | some (.nat n) => e.body.length = n
  | some _ => False

def CacheOk (c : Option Cache) : Prop := ∀ c', c = some c' → ∀ kv ∈ c'.variants, EntryOk kv.2

theorem CacheOk_none : CacheOk none := by intro c' h; cases h

theorem lookup_mem {k : Option AEnc} {e : Entry} :
    ∀ {l : List (Option AEnc × Entry)}, l.lookup k = some e → (k, e) ∈ l := by
  intro l
  induction l with
  | nil => intro h; simp [List.lookup] at h
  | cons kv rest ih =>
    obtain ⟨k', e'⟩ := kv
    intro h
    simp only [List.lookup] at h
    split at h
    · rename_i heq
      have : k = k' := by simpa using heq
      cases h; subst this; exact List.mem_cons_self
    · exact List.mem_cons_of_mem _ (ih h)

theorem lookupDel_mem {k : Option AEnc} {kv : Option AEnc × Entry} :
    ∀ {l : List (Option AEnc × Entry)}, kv ∈ lookupDel k l → kv ∈ l := by
  intro l
  induction l with
  | nil => intro h; simp [lookupDel] at h
  | cons x rest ih =>
    obtain ⟨k', e'⟩ := x
    intro h
    simp only [lookupDel] at h
    split at h
    · exact List.mem_cons_of_mem _ (ih h)
    · rcases List.mem_cons.mp h with h | h
      · rw [h]; exact List.mem_cons_self
      · exact List.mem_cons_of_mem _ (ih h)

theorem cachePut_ok (c : Option Cache) (rq : Req) (e : Entry) (hc : CacheOk c) (he : EntryOk e) :
    CacheOk (cachePut c rq e) := by
  unfold cachePut
  split
  · intro c' h kv hkv
    cases h
    simp only [List.mem_singleton] at hkv
    rw [hkv]; exact he
  · rename_i c0
    intro c' h kv hkv
    cases h
    simp only at hkv
    rcases List.mem_cons.mp hkv with h | h
    · rw [h]; exact he
    · exact hc c0 rfl kv (lookupDel_mem h)

/-- the completion of the tee wrapper stores (final headers, the bytes that went through) -/
theorem teeDone_ok (c : Option Cache) (rq : Req) (r : Resp) (code : Nat) (c' : Option Cache)
    (hc : CacheOk c) (hr : CLok r) (h : teeDone c rq r code r.body.chunks = some c') : CacheOk c' := by
  unfold teeDone at h
  split at h
  · cases h; exact hc
  · split at h
    · cases h; exact hc
    · split at h
      · cases h
      · rename_i b hj
        split at h
        · cases h; exact CacheOk_none
        · cases h
          apply cachePut_ok _ _ _ hc
          have ⟨hab, hcb⟩ := join_some hj
          unfold EntryOk
          simp only
          rcases CLok_cases hr with h0 | h0 | ⟨n, h0, _, hl⟩
          · simp [h0]
          · simp [h0]
          · simp only [h0]; rw [← hcb]; exact hl

/-- a cache hit yields a response that satisfies the invariant -/
theorem hit_CLok (r : Resp) (ent : Entry) (h : EntryOk ent) :
    CLok { r with hdrs := ent.hdrs.set .age .other, status := some ent.status,
                  body := bytesBody ent.body, src := ent.src, gz := ent.gz } := by
  unfold EntryOk at h
  cases hcl : ent.hdrs .contentLength with
  | none => exact CLok_of_none (by simpa using hcl)
  | some v =>
    cases v with
    | nat n =>
      simp only [hcl] at h
      exact CLok_of_nat (n := n) (by simpa using hcl) (bytesBody_allBytes _) (by rw [bytesBody_concat]; exact h)
    | pyNone => exact CLok_of_pyNone (by simpa using hcl)
    | ctype _ _ => simp [hcl] at h
    | tag _ => simp [hcl] at h
    | other => simp [hcl] at h

/-! ### finalize -/

def codeOf (r : Resp) : Nat := r.status.getD 200

/-- the statuses a streamed finalize strips are the ones a buffered finalize strips (both tables are read from
    the live code: `finalize` tests the bodiless statuses before it looks at `stream`) -/
theorem noBodyStream_table_spec : Gen.C06.noBodyStreamCodes = Gen.C06.noBodyCodes := by decide +kernel

theorem strips_eq (stream : Bool) (c : Nat) : strips stream c = noBody c := by
  unfold strips noBodyS noBody
  rw [noBodyStream_table_spec]
  split <;> rfl

/-- What `finalize` leaves behind: the invariant; for a bodiless status (1xx / 204 / 205 / 304) neither a
    Content-Length nor a body chunk — *whether or not the response is streamed*; for any other status of a
    non-streamed response a numeric Content-Length. -/
def Framed (r : Resp) : Prop :=
  CLok r ∧
  (noBody (codeOf r) = true → r.hdrs .contentLength = none ∧ r.body.chunks = []) ∧
  (r.stream = false → noBody (codeOf r) = false → ∃ n, r.hdrs .contentLength = some (.nat n))

theorem finalize_ok (rq : Req) (s : St) (hc : CacheOk s.cache) (hr : CLok s.r) :
    CacheOk (finalize rq s).1.cache ∧ CLok (finalize rq s).1.r ∧
    ((finalize rq s).2 = none → Framed (finalize rq s).1.r) ∧
    (∀ c, (finalize rq s).2 ≠ some (.redirect c)) := by
  unfold finalize
  simp only [strips_eq]
  split
  · exact ⟨hc, hr, by simp, by simp⟩
  · rename_i code hv
    split
    · -- a bodiless status: stripped, streamed or not
      rename_i hnb
      split
      · exact ⟨hc, CLok_of_none (by simp), by simp, by simp⟩
      · split
        · exact ⟨hc, CLok_of_none (by simp), by simp, by simp⟩
        · rename_i c' htee
          refine ⟨?_, CLok_of_none (by simp), ?_, by simp⟩
          · exact teeDone_ok s.cache rq _ code c' hc (CLok_of_none (by simp)) htee
          · intro _
            exact ⟨CLok_of_none (by simp), fun _ => ⟨by simp, rfl⟩, fun _ h => by simp [codeOf, hnb] at h⟩
    · rename_i hnb
      have hnb' : noBody code = false := by simpa using hnb
      split
      · -- streaming
        rename_i hs
        split
        · have hk : CLok { s.r with status := some code, hdrs := s.r.hdrs.del .contentLength } :=
            CLok_of_none (by simp)
          exact ⟨hc, hk, fun _ => ⟨hk, fun h => by simp [codeOf, hnb'] at h, fun h => by simp [hs] at h⟩, by simp⟩
        · have hk : CLok { s.r with status := some code } := CLok_congr rfl rfl hr
          exact ⟨hc, hk, fun _ => ⟨hk, fun h => by simp [codeOf, hnb'] at h, fun h => by simp [hs] at h⟩, by simp⟩
      · have hk : CLok { s.r with status := some code } := CLok_congr rfl rfl hr
        have keep : ∀ n, s.r.hdrs .contentLength = some (.nat n) →
            Framed { s.r with status := some code } := by
          intro n hn
          exact ⟨hk, fun h => by simp [codeOf, hnb'] at h, fun _ _ => ⟨n, hn⟩⟩
        split
        · rename_i n hn
          exact ⟨hc, hk, fun _ => keep n hn, by simp⟩
        · rename_i hn; exfalso; rcases CLok_cases hr with h | h | ⟨n, h, _⟩ <;> simp [h] at hn
        · rename_i hn; exfalso; rcases CLok_cases hr with h | h | ⟨n, h, _⟩ <;> simp [h] at hn
        · rename_i hn; exfalso; rcases CLok_cases hr with h | h | ⟨n, h, _⟩ <;> simp [h] at hn
        · split
          · exact ⟨hc, hk, by simp, by simp⟩
          · rename_i b hj
            have ⟨hab, hcb⟩ := join_some hj
            have hnew : CLok { s.r with status := some code, body := bytesBody b, hdrs := s.r.hdrs.set .contentLength (.nat b.length), tee := false } :=
              CLok_of_nat (n := b.length) (by simp only [set_same]) (bytesBody_allBytes _)
                (by rw [bytesBody_concat])
            split
            · exact ⟨hc, hk, by simp, by simp⟩
            · rename_i c' htee
              refine ⟨?_, hnew, ?_, by simp⟩
              · refine teeDone_ok s.cache rq _ code c' hc ?_ htee
                exact CLok_of_nat (n := b.length) (by simp only [set_same]) hab (by rw [hcb])
              · intro _
                exact ⟨hnew, fun h => by simp [codeOf, hnb'] at h, fun _ _ => ⟨b.length, by simp⟩⟩


/-! ### the request pipeline -/

theorem hooksAndFinalize_ok (pg : Pages) (rq : Req) (cached : Bool) (hooks : List Step) (s : St)
    (hc : CacheOk s.cache) (hr : CLok s.r) :
    CacheOk (hooksAndFinalize pg rq cached hooks s).1.cache ∧
    ((hooksAndFinalize pg rq cached hooks s).2 = none → Framed (hooksAndFinalize pg rq cached hooks s).1.r) := by
  unfold hooksAndFinalize
  have h1 := runSteps_CLok pg rq cached hooks s.r hr
  split
  · exact ⟨hc, by simp⟩
  · rename_i r heq
    rw [heq] at h1
    have := finalize_ok rq { s with r := r } hc h1
    exact ⟨this.1, this.2.2.1⟩

theorem noBody_500 : noBody 500 = false := by decide

theorem bareResp_Framed (pg : Pages) (r : Resp) : Framed (bareResp pg r) := by
  have hk : CLok (bareResp pg r) :=
    CLok_of_nat (n := pg.bare.length) (by simp [bareResp]) (by simp [bareResp, allBytes])
      (by simp [bareResp, concat])
  have : codeOf (bareResp pg r) = 500 := rfl
  refine ⟨hk, fun h => ?_, fun _ _ => ⟨pg.bare.length, by simp [bareResp]⟩⟩
  rw [this, noBody_500] at h
  cases h

/-- `request.error_response()`: the default (HTTPError(500).set_response), a callable that follows the rule,
    and the XML-RPC fault (under `XmlOk`) establish the invariant when they return -/
theorem errorResponse_CLok (pg : Pages) (er : ErrResp) (r : Resp) (herr : ∀ t, er = .xmlrpc t → XmlOk t) :
    (errorResponse pg er r).2 = none → CLok (errorResponse pg er r).1 := by
  unfold errorResponse
  split
  · intro _; exact setError_CLok pg 500 r
  · intro _; exact CLok_of_none (by simp)
  · rename_i t
    intro _; exact CLok_congr rfl rfl (xmlrpcSet_CLok t r (herr t rfl))
  · intro h; cases h

theorem finalize_some_ok (rq : Req) (s s' : St) (hc : CacheOk s.cache) (hr : CLok s.r)
    (h : (match finalize rq s with | (s', none) => some s' | _ => none) = some s') :
    Framed s'.r ∧ CacheOk s'.cache := by
  have hf := finalize_ok rq s hc hr
  split at h
  · rename_i s1 hfin
    cases h
    rw [hfin] at hf
    exact ⟨hf.2.2.1 rfl, hf.1⟩
  · cases h

theorem setResponse_ok (pg : Pages) (e : Exn) (r r' : Resp) (h : setResponse pg e r = (r', none)) : CLok r' := by
  cases e with
  | httpError c =>
    have := setError_CLok pg c r
    simp only [setResponse] at h
    rw [h] at this; exact this
  | redirect c =>
    simp only [setResponse] at h
    unfold setRedirect at h
    simp only at h
    split at h
    · cases h; exact CLok_of_none (by simp)
    · cases h; exact CLok_of_none (by simp)
    · cases h; exact CLok_of_none (by simp)
    · cases h
  | exc => simp [setResponse] at h

theorem handleError_ok (pg : Pages) (rq : Req) (fails : Bool) (er : ErrResp) (s s' : St) (hc : CacheOk s.cache)
    (herr : ∀ t, er = .xmlrpc t → XmlOk t)
    (h : handleError pg rq fails er s = some s') : Framed s'.r ∧ CacheOk s'.cache := by
  unfold handleError at h
  have h1 := errorResponse_CLok pg er s.r herr
  split at h
  · cases h
  split at h
  · -- error_response raised HTTPRedirect: its set_response, then finalize
    rename_i r c heq
    split at h
    · rename_i r' hset
      have hr' : CLok r' := setResponse_ok pg (.redirect c) r r' (by simpa [setResponse] using hset)
      exact finalize_some_ok rq { s with r := r' } s' hc hr' h
    · cases h
  · cases h
  · rename_i r heq
    rw [heq] at h1
    exact finalize_some_ok rq { s with r := r } s' hc (h1 rfl) h

theorem recover_ok (pg : Pages) (rq : Req) (fails : Bool) (er : ErrResp) (cached : Bool) (hooks : List Step)
    (first : St × Option Exn)
    (s' : St) (hc : CacheOk first.1.cache) (hf : first.2 = none → Framed first.1.r)
    (herr : ∀ t, er = .xmlrpc t → XmlOk t)
    (h : recover pg rq fails er cached hooks first = some s') : Framed s'.r ∧ CacheOk s'.cache := by
  unfold recover at h
  split at h
  · cases h; exact ⟨hf rfl, hc⟩
  · exact handleError_ok pg rq fails er _ s' hc herr h
  · rename_i s e _
    split at h
    · rename_i r0 _ _
      exact handleError_ok pg rq fails er ⟨r0, s.cache⟩ s' hc herr h
    · rename_i r hset
      have hr := setResponse_ok pg e s.r r hset
      have h2 := hooksAndFinalize_ok pg rq cached hooks { s with r := r } hc hr
      split at h
      · rename_i s1 heq
        cases h
        rw [heq] at h2
        exact ⟨h2.2 rfl, h2.1⟩
      · rename_i s1 e1 heq
        rw [heq] at h2
        exact handleError_ok pg rq fails er _ s' h2.1 herr h

theorem find_ok {c : Option Cache} {rq : Req} {ent : Entry} (hc : CacheOk c)
    (h : c.bind (·.find rq) = some ent) : EntryOk ent := by
  cases c with
  | none => simp at h
  | some c0 =>
    simp only [Option.bind_some, Cache.find] at h
    exact hc c0 rfl _ (lookup_mem h)

/-- the static tool: an exception, or it declined (response untouched), or its framed response -/
theorem staticToolStage_ok (pg : Pages) (rq : Req) (p : Plan) (r : Resp) :
    (staticToolStage pg rq p r).2.1 = none →
      ((staticToolStage pg rq p r).2.2 = true → (staticToolStage pg rq p r).1 = r) ∧
      ((staticToolStage pg rq p r).2.2 = false → CLok (staticToolStage pg rq p r).1) := by
  unfold staticToolStage
  split
  · rename_i b _
    split
    · have hsf := serveFile_CLok pg rq b
        { r with hdrs := r.hdrs.set .contentType (.ctype p.h.ct none), src := .handler }
      split
      · intro h; cases h
      · rename_i r' heq
        rw [heq] at hsf
        intro _
        refine ⟨fun h => (by cases h), fun _ => ?_⟩
        rcases hsf with h | h
        · exact h
        · exact absurd rfl h
    · intro _
      exact ⟨fun _ => rfl, fun h => by cases h⟩
  · intro _
    exact ⟨fun _ => rfl, fun h => by cases h⟩

/-- before_handler up to priority 60: either an exception, or a response on which the page handler is still to
    run (Content-Length as `tools.response_headers` left it), or the static tool's framed response -/
theorem beforeHandlerTools_ok (pg : Pages) (rq : Req) (p : Plan) :
    (beforeHandlerTools pg rq p (freshResp rq p.t)).2.1 = none →
      ((beforeHandlerTools pg rq p (freshResp rq p.t)).2.2 = true →
        (beforeHandlerTools pg rq p (freshResp rq p.t)).1.hdrs .contentLength = p.t.rhCL.map HVal.nat ∧
        (beforeHandlerTools pg rq p (freshResp rq p.t)).1.stream = p.t.stream) ∧
      ((beforeHandlerTools pg rq p (freshResp rq p.t)).2.2 = false →
        CLok (beforeHandlerTools pg rq p (freshResp rq p.t)).1) := by
  have hfresh : (jsonOutStage p (freshResp rq p.t)).hdrs .contentLength = p.t.rhCL.map HVal.nat ∧
      (jsonOutStage p (freshResp rq p.t)).stream = p.t.stream := by
    unfold jsonOutStage
    split <;> simp [freshResp, Hdrs.set]
  have hst := staticToolStage_ok pg rq p (jsonOutStage p (freshResp rq p.t))
  unfold beforeHandlerTools
  generalize staticToolStage pg rq p (jsonOutStage p (freshResp rq p.t)) = st at hst ⊢
  obtain ⟨r, e, todo⟩ := st
  cases e with
  | some e => simp only; intro h; cases h
  | none =>
    simp only at hst ⊢
    split
    · intro h; cases h
    · intro _
      refine ⟨fun h => ?_, fun h => (hst trivial).2 h⟩
      rw [(hst trivial).1 h]
      exact hfresh

theorem runHandler_CLok (pg : Pages) (rq : Req) (p : Plan) (hok : HandlerOk p) (todo : Bool) (r : Resp)
    (h1 : todo = true → r.hdrs .contentLength = p.t.rhCL.map HVal.nat ∧ r.stream = p.t.stream)
    (h2 : todo = false → CLok r) :
    (runHandler pg rq p todo r).2 = none → CLok (runHandler pg rq p todo r).1 := by
  unfold runHandler
  cases todo with
  | true =>
    simp only [if_true]
    intro h
    rcases handlerStage_CLok pg rq p hok r (h1 rfl).1 (h1 rfl).2 with h' | h'
    · exact h'
    · exact absurd h h'
  | false =>
    intro _
    exact h2 rfl

theorem beforeAndHandler_ok (pg : Pages) (rq : Req) (p : Plan) (cache : Option Cache)
    (hok : HandlerOk p) (hc : CacheOk cache) :
    CacheOk (beforeAndHandler pg rq p cache).1.cache ∧
    ((beforeAndHandler pg rq p cache).2.1 = none → CLok (beforeAndHandler pg rq p cache).1.r) := by
  have hb := beforeHandlerTools_ok pg rq p
  unfold beforeAndHandler
  simp only
  split
  · exact ⟨hc, by simp⟩
  · generalize beforeHandlerTools pg rq p (freshResp rq p.t) = bt at hb ⊢
    obtain ⟨r, e, todo⟩ := bt
    cases e with
    | some e => exact ⟨hc, by simp⟩
    | none =>
      simp only at hb ⊢
      have hres := runHandler_CLok pg rq p hok todo r (hb trivial).1 (hb trivial).2
      split
      · split
        · exact ⟨CacheOk_none, hres⟩
        · split
          · exact ⟨hc, hres⟩
          · split
            · rename_i ent hfind
              split
              · exact ⟨hc, by simp⟩
              · split
                · exact ⟨hc, by simp⟩
                · exact ⟨hc, fun _ => hit_CLok _ ent (find_ok hc hfind)⟩
              · exact ⟨hc, hres⟩
            · exact ⟨hc, hres⟩
      · exact ⟨hc, hres⟩

theorem firstPass_ok (pg : Pages) (rq : Req) (p : Plan) (cache : Option Cache)
    (hok : HandlerOk p) (hc : CacheOk cache) :
    CacheOk (firstPass pg rq p cache).1.1.cache ∧
    ((firstPass pg rq p cache).1.2 = none → Framed (firstPass pg rq p cache).1.1.r) := by
  have hb := beforeAndHandler_ok pg rq p cache hok hc
  unfold firstPass
  generalize beforeAndHandler pg rq p cache = bh at hb
  obtain ⟨s, e, cached, teeOn⟩ := bh
  simp only at hb ⊢
  cases e with
  | some e => exact ⟨hb.1, by simp⟩
  | none => exact hooksAndFinalize_ok pg rq cached _ s hb.1 (hb.2 rfl)

/-- **The finalized response of every request is framed**, and the cache stays consistent:
    for every handler (that does not lie about its own length), every tool subset, every request,
    every cache content built by earlier requests. -/
theorem respond_ok (pg : Pages) (rq : Req) (p : Plan) (cache : Option Cache)
    (hok : HandlerOk p) (hc : CacheOk cache) :
    Framed (respond pg rq p cache).1.r ∧ CacheOk (respond pg rq p cache).1.cache := by
  have hf := firstPass_ok pg rq p cache hok hc
  unfold respond
  generalize firstPass pg rq p cache = fp at hf
  obtain ⟨first, cached, hooks⟩ := fp
  simp only at hf ⊢
  split
  · rename_i s hrec
    exact recover_ok pg rq p.t.errFails p.t.errResp cached hooks first s hf.1 hf.2 hok.2.2 hrec
  · exact ⟨bareResp_Framed pg _, hf.1⟩

end CpProofs.C06
