import CpModel.CondElements
import CpProofs.C16Elems
import CpProofs.C16Cond
/-!
  C16 — `HeaderMap.elements` in full (`CpModel.CondElements.elementsFull`: split, parameters, unquoting,
  the stable sort by value, its reversal, `str()`), as consumed by `validate_etags`.

  * `sortStable_perm`, `elementsFull_perm`   sorting and reversing only permute the elements of the header;
  * `ltText_trans`, `sortStable_sorted`, `elementsFull_descending`   … into descending order of the values (what
    `reversed(sorted(...))` promises; the driver comparison checks the exact order incl. stability);
  * `validateEtags_perm`, `sorting_irrelevant`   the decision of `validate_etags` does not depend on the order:
    it is the decision over the elements in header order;
  * `parseElement_plain`, `parsed_plain`, `plain_decision`   on a value without ';' the full parser IS the
    comma-outside-quotes split + strip (`elementsSimple`), so `elements_tag_list` / `listed_etag_matches`
    (weak tags, commas inside quotes, any whitespace) speak about what `validate_etags` sees;
  * `render_params_ne_value`, `param_element_never_matches`   an element that carries a parameter is compared WITH
    its parameters: `"x";q=1` does not match the ETag `"x"` (equality comparison of the rendered element).
-/
namespace CpProofs.C16
open CpModel.Ranges CpModel.Validators CpModel.CondElements

/-! ### the sort is a permutation into ascending order -/

theorem insertSorted_perm (x : Elem) (l : List Elem) : (insertSorted x l).Perm (x :: l) := by
  induction l with
  | nil => exact List.Perm.refl _
  | cons y ys ih =>
    unfold insertSorted
    split
    · exact List.Perm.refl _
    · exact (List.Perm.cons y ih).trans (List.Perm.swap x y ys)

theorem foldl_insert_perm (l acc : List Elem) :
    (l.foldl (fun acc x => insertSorted x acc) acc).Perm (acc ++ l) := by
  induction l generalizing acc with
  | nil => simp
  | cons x xs ih =>
    simp only [List.foldl_cons]
    refine (ih _).trans ?_
    refine ((insertSorted_perm x acc).append_right xs).trans ?_
    simpa using (List.perm_middle (l₁ := acc) (l₂ := xs) (a := x)).symm

/-- **sorting only permutes** -/
theorem sortStable_perm (l : List Elem) : (sortStable l).Perm l := by
  simpa [sortStable] using foldl_insert_perm l []

/-- the header-order list of rendered elements -/
def unsorted (hv : Option Text) : List Text :=
  match hv with
  | none => []
  | some [] => []
  | some s => (parsed s).map render

/-- **`elements()` is a permutation of the elements in header order** -/
theorem elementsFull_perm (hv : Option Text) : (elementsFull hv).Perm (unsorted hv) := by
  cases hv with
  | none => exact List.Perm.refl _
  | some s =>
    cases s with
    | nil => exact List.Perm.refl _
    | cons c cs =>
      simp only [elementsFull, unsorted]
      exact ((List.reverse_perm _).trans (sortStable_perm _)).map render

theorem elementsFull_mem (hv : Option Text) (x : Text) : x ∈ elementsFull hv ↔ x ∈ unsorted hv :=
  (elementsFull_perm hv).mem_iff

theorem ltText_irrefl (a : Text) : ltText a a = false := by
  induction a with
  | nil => rfl
  | cons x xs ih => simp [ltText, ih]

theorem ltText_trans {a b c : Text} (h1 : ltText a b = true) (h2 : ltText b c = true) : ltText a c = true := by
  induction a generalizing b c with
  | nil =>
    cases c with
    | nil => cases b <;> simp [ltText] at h1 h2
    | cons z zs => rfl
  | cons x xs ih =>
    cases b with
    | nil => simp [ltText] at h1
    | cons y ys =>
      cases c with
      | nil => simp [ltText] at h2
      | cons z zs =>
        simp only [ltText] at h1 h2 ⊢
        by_cases hxy : x.toNat < y.toNat
        · by_cases hyz : y.toNat < z.toNat
          · have : x.toNat < z.toNat := by omega
            simp [this]
          · by_cases hzy : z.toNat < y.toNat
            · simp [hyz, hzy] at h2
            · have : x.toNat < z.toNat := by omega
              simp [this]
        · by_cases hyx : y.toNat < x.toNat
          · simp [hxy, hyx] at h1
          · simp only [hxy, hyx, if_false] at h1
            by_cases hyz : y.toNat < z.toNat
            · have : x.toNat < z.toNat := by omega
              simp [this]
            · by_cases hzy : z.toNat < y.toNat
              · simp [hyz, hzy] at h2
              · simp only [hyz, hzy, if_false] at h2
                have e1 : ¬ x.toNat < z.toNat := by omega
                have e2 : ¬ z.toNat < x.toNat := by omega
                simp only [e1, e2, if_false]
                exact ih h1 h2

/-- ascending by value: no later element is smaller than an earlier one -/
def Ascending (l : List Elem) : Prop := l.Pairwise fun a b => ltText b.value a.value = false

theorem insertSorted_mem (x : Elem) (l : List Elem) (z : Elem) :
    z ∈ insertSorted x l ↔ z = x ∨ z ∈ l := by
  rw [(insertSorted_perm x l).mem_iff]
  simp

theorem insertSorted_ascending (x : Elem) (l : List Elem) (h : Ascending l) : Ascending (insertSorted x l) := by
  induction l with
  | nil => simp [insertSorted, Ascending]
  | cons y ys ih =>
    unfold Ascending at h ⊢
    rw [List.pairwise_cons] at h
    unfold insertSorted
    split
    · rename_i hlt
      rw [List.pairwise_cons]
      refine ⟨?_, List.pairwise_cons.mpr h⟩
      intro z hz
      rcases List.mem_cons.mp hz with rfl | hz
      · -- z = y: ¬ (y < x) because x < y
        cases hyx : ltText z.value x.value
        · rfl
        · have := ltText_trans hlt hyx
          rw [ltText_irrefl] at this
          cases this
      · cases hzx : ltText z.value x.value
        · rfl
        · have := ltText_trans hzx hlt
          rw [h.1 z hz] at this
          cases this
    · rename_i hlt
      rw [List.pairwise_cons]
      refine ⟨?_, ih h.2⟩
      intro z hz
      rcases (insertSorted_mem x ys z).mp hz with rfl | hz
      · simpa using hlt
      · exact h.1 z hz

theorem foldl_insert_ascending (l acc : List Elem) (h : Ascending acc) :
    Ascending (l.foldl (fun acc x => insertSorted x acc) acc) := by
  induction l generalizing acc with
  | nil => exact h
  | cons x xs ih => exact ih _ (insertSorted_ascending x acc h)

/-- **`sorted(result)` is ascending by value** -/
theorem sortStable_sorted (l : List Elem) : Ascending (sortStable l) :=
  foldl_insert_ascending l [] List.Pairwise.nil

/-- **`reversed(sorted(...))`: descending by value** (no later element is greater than an earlier one) -/
theorem elementsFull_descending (l : List Elem) :
    (sortStable l).reverse.Pairwise fun a b => ltText a.value b.value = false := by
  rw [List.pairwise_reverse]
  exact sortStable_sorted l

/-! ### the decision does not depend on the order -/

theorem perm_eq_singleton {l : List Text} {a : Text} (h : l.Perm [a]) : l = [a] :=
  List.perm_singleton.mp h

theorem beq_singleton_perm {l l' : List Text} (h : l.Perm l') (a : Text) : (l == [a]) = (l' == [a]) := by
  by_cases h1 : l = [a]
  · subst h1
    have := perm_eq_singleton h.symm
    simp [this]
  · have h2 : l' ≠ [a] := by
      intro e
      subst e
      exact h1 (perm_eq_singleton h)
    have e1 : (l == [a]) = false := beq_eq_false_iff_ne.mpr h1
    have e2 : (l' == [a]) = false := beq_eq_false_iff_ne.mpr h2
    rw [e1, e2]

theorem etagIn_perm {l l' : List Text} (h : l.Perm l') (e : Option Text) : etagIn e l = etagIn e l' := by
  cases e with
  | none => rfl
  | some t =>
    simp only [etagIn]
    rw [Bool.eq_iff_iff]
    simp only [List.contains_iff_mem]
    exact h.mem_iff

theorem isEmpty_perm {l l' : List Text} (h : l.Perm l') : l.isEmpty = l'.isEmpty := by
  have := h.length_eq
  cases l <;> cases l' <;> first | rfl | simp at this

/-- **`validate_etags` decides the same for any order of the condition lists** -/
theorem validateEtags_perm (e : Option Text) (st : Nat) (gh : Bool) {im im' inm inm' : List Text}
    (h1 : im.Perm im') (h2 : inm.Perm inm') :
    validateEtags e st gh im inm = validateEtags e st gh im' inm' := by
  unfold validateEtags
  rw [isEmpty_perm h1, beq_singleton_perm h1, etagIn_perm h1, beq_singleton_perm h2, etagIn_perm h2]

/-- **the sort in `header_elements` is irrelevant to the validators**: the decision is the one over the
    elements in header order -/
theorem sorting_irrelevant (e : Option Text) (st : Nat) (gh : Bool) (im inm : Option Text) :
    validateEtags e st gh (elementsFull im) (elementsFull inm) =
      validateEtags e st gh (unsorted im) (unsorted inm) :=
  validateEtags_perm e st gh (elementsFull_perm im) (elementsFull_perm inm)

/-! ### values without parameters: the full parser is the simple split -/

theorem findFrom_none (c : Char) (s : Text) (k : Nat) (h : c ∉ s) : findFrom c s k = none := by
  induction s generalizing k with
  | nil => rfl
  | cons x xs ih =>
    have hx : x ≠ c := fun e => h (by simp [e])
    have hxs : c ∉ xs := fun m => h (List.mem_cons_of_mem _ m)
    cases k with
    | zero => simp [findFrom, hx, ih 0 hxs]
    | succ k => simp [findFrom, ih k hxs]

theorem adjustEnd_none (s : Text) (fuel : Nat) : adjustEnd s fuel none = none := by
  cases fuel <;> rfl

theorem parseParam_nil (fuel : Nat) : parseParam fuel [] = [] := by
  cases fuel <;> rfl

/-- an element without ';' has no parameters: value = the stripped text -/
theorem parseElement_plain (e : Text) (h : ';' ∉ e) : parseElement e = ⟨strip e, []⟩ := by
  unfold parseElement
  have : parseParam (e.length + 2) (';' :: e) = [strip e] := by
    simp only [parseParam, findFrom_none ';' e 0 h, adjustEnd_none, Option.getD_none, List.take_length,
      List.drop_length, parseParam_nil]
  rw [this]
  rfl

theorem render_plain (v : Text) : render ⟨v, []⟩ = v := by
  simp [render]

theorem splitOutsideQuotes_mem (s : Text) :
    ∀ p, (p = (splitOutsideQuotes s).1 ∨ p ∈ (splitOutsideQuotes s).2) → ∀ c ∈ p, c ∈ s := by
  induction s with
  | nil =>
    intro p hp c hc
    simp [splitOutsideQuotes] at hp
    subst hp
    cases hc
  | cons x xs ih =>
    intro p hp c hc
    simp only [splitOutsideQuotes] at hp
    split at hp
    · rcases hp with rfl | hp
      · cases hc
      · rcases List.mem_cons.mp hp with rfl | hp
        · exact List.mem_cons_of_mem _ (ih _ (Or.inl rfl) c hc)
        · exact List.mem_cons_of_mem _ (ih _ (Or.inr hp) c hc)
    · rcases hp with rfl | hp
      · rcases List.mem_cons.mp hc with rfl | hc
        · simp
        · exact List.mem_cons_of_mem _ (ih _ (Or.inl rfl) c hc)
      · exact List.mem_cons_of_mem _ (ih _ (Or.inr hp) c hc)

/-- **without ';' anywhere the full parser is `elementsSimple`** (header order) -/
theorem parsed_plain (hv : Option Text) (h : ∀ s, hv = some s → ';' ∉ s) :
    unsorted hv = elementsSimple hv := by
  unfold unsorted elementsSimple
  split
  · rfl
  · rfl
  · rename_i s hne
    have hs := h s rfl
    simp only [parsed, List.map_map]
    apply List.map_congr_left
    intro p hp
    have hp' : p = (splitOutsideQuotes s).1 ∨ p ∈ (splitOutsideQuotes s).2 := by
      simpa using hp
    have : ';' ∉ p := fun m => hs (splitOutsideQuotes_mem s p hp' _ m)
    simp [parseElement_plain p this, render_plain]

/-- **on parameter-free header values `validate_etags` decides over the comma-outside-quotes split**, to
    which `elements_tag_list` applies (weak tags, quoted commas, any whitespace) -/
theorem plain_decision (e : Option Text) (st : Nat) (gh : Bool) (im inm : Option Text)
    (h1 : ∀ s, im = some s → ';' ∉ s) (h2 : ∀ s, inm = some s → ';' ∉ s) :
    validateEtags e st gh (elementsFull im) (elementsFull inm) =
      validateEtags e st gh (elementsSimple im) (elementsSimple inm) := by
  rw [sorting_irrelevant, parsed_plain im h1, parsed_plain inm h2]

/-! ### elements with parameters are compared with their parameters -/

theorem render_params_ne_value (v : Text) (p : Text × Text) (ps : List (Text × Text)) :
    render ⟨v, p :: ps⟩ ≠ v := by
  intro h
  have := congrArg List.length h
  simp [render] at this

/-- a single element that carries a parameter never equals the bare tag: `If-None-Match: "x";q=1` does not
    match the ETag `"x"`, and `If-Match: "x";q=1` fails for it -/
theorem param_element_never_matches (v : Text) (p : Text × Text) (ps : List (Text × Text)) :
    etagIn (some v) [render ⟨v, p :: ps⟩] = false := by
  have := render_params_ne_value v p ps
  simp only [etagIn, List.contains_cons, List.contains_nil, Bool.or_false, beq_eq_false_iff_ne, ne_eq]
  exact fun h => this h.symm

/-! ### non-vacuity -/

-- (checked against the real function: an escaped quote keeps the following comma "inside quotes" for the
-- element split, the repeated name `p` keeps its position and takes the last value, `"` < `*` < `W` < `a` < `b`)
example : elementsFull (some "b;p=1, a;P=\"x\\\"y\", b;p=3;p=4, \"q,r\";".toList) =
    ["b;p=4".toList, "b;p=x\"y".toList, "\"q,r\"".toList] := by decide
example : elementsFull (some "b;p=1, a;P=\"xy\", b;p=3;p=4, a;z=1".toList) =
    ["b;p=4".toList, "b;p=1".toList, "a;z=1".toList, "a;p=xy".toList] := by decide
example : elementsFull (some "W/\"x\", \"a;b\" ,*".toList) = ["W/\"x\"".toList, "*".toList, "\"a;b\"".toList] := by decide
example : unsorted (some "W/\"x\", \"a;b\" ,*".toList) = ["W/\"x\"".toList, "\"a;b\"".toList, "*".toList] := by decide
example : validateEtags (some "\"x\"".toList) 200 true [] (elementsFull (some "\"x\";q=1".toList)) = .pass := by decide
example : validateEtags (some "\"x\"".toList) 200 true [] (elementsFull (some "\"y\", \"x\"".toList)) = .notModified := by
  decide

end CpProofs.C16
