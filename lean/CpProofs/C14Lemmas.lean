import CpModel.SessionStore
/-!
  Helper lemmas for C14: the association-list store, the id-regeneration loop, the sweeps.
-/
namespace CpProofs.C14
open CpModel.SessionStore

/-! ### lookup / erase / upsert -/

theorem lookup_erase_self (s : Store) (i : Id) : lookup (erase s i) i = none := by
  induction s with
  | nil => rfl
  | cons p ps ih =>
    obtain ⟨j, r⟩ := p
    simp only [erase]
    split
    · exact ih
    · simp only [lookup]; split
      · contradiction
      · exact ih

theorem lookup_erase_ne (s : Store) {i j : Id} (h : j ≠ i) : lookup (erase s i) j = lookup s j := by
  induction s with
  | nil => rfl
  | cons p ps ih =>
    obtain ⟨k, r⟩ := p
    simp only [erase]
    split
    · rename_i hk
      subst hk
      simp only [lookup]
      rw [if_neg (Ne.symm h)]
      exact ih
    · simp only [lookup]; split
      · rfl
      · exact ih

theorem lookup_upsert_self (s : Store) (i : Id) (r : Rec) : lookup (upsert s i r) i = some r := by
  simp [upsert, lookup]

theorem lookup_upsert_ne (s : Store) {i j : Id} (r : Rec) (h : j ≠ i) :
    lookup (upsert s i r) j = lookup s j := by
  simp only [upsert, lookup]
  rw [if_neg (Ne.symm h)]
  exact lookup_erase_ne s h

theorem lookup_mem {s : Store} {i : Id} {r : Rec} (h : lookup s i = some r) : (i, r) ∈ s := by
  induction s with
  | nil => simp [lookup] at h
  | cons p ps ih =>
    obtain ⟨j, q⟩ := p
    simp only [lookup] at h
    split at h
    · rename_i hj
      subst hj
      cases h
      exact List.mem_cons_self
    · exact List.mem_cons_of_mem _ (ih h)

theorem not_mem_of_lookup_none {s : Store} {i : Id} (h : lookup s i = none) (r : Rec) : (i, r) ∉ s := by
  induction s with
  | nil => simp
  | cons p ps ih =>
    obtain ⟨j, q⟩ := p
    simp only [lookup] at h
    split at h
    · cases h
    · rename_i hj
      intro hm
      cases hm with
      | head => exact hj rfl
      | tail _ hm' => exact ih h hm'

theorem has_false_iff {s : Store} {i : Id} : has s i = false ↔ lookup s i = none := by
  simp [has]

theorem has_true_iff {s : Store} {i : Id} : has s i = true ↔ ∃ r, lookup s i = some r := by
  simp [has, Option.isSome_iff_exists]

theorem mem_erase {s : Store} {i j : Id} {r : Rec} (h : (j, r) ∈ erase s i) : (j, r) ∈ s ∧ j ≠ i := by
  induction s with
  | nil => simp [erase] at h
  | cons p ps ih =>
    obtain ⟨k, q⟩ := p
    simp only [erase] at h
    split at h
    · exact ⟨List.mem_cons_of_mem _ (ih h).1, (ih h).2⟩
    · rename_i hk
      cases h with
      | head => exact ⟨List.mem_cons_self, hk⟩
      | tail _ h' => exact ⟨List.mem_cons_of_mem _ (ih h').1, (ih h').2⟩

theorem mem_erase_of_ne {s : Store} {i j : Id} {r : Rec} (h : (j, r) ∈ s) (hne : j ≠ i) :
    (j, r) ∈ erase s i := by
  induction s with
  | nil => cases h
  | cons p ps ih =>
    obtain ⟨k, q⟩ := p
    simp only [erase]
    cases h with
    | head => rw [if_neg hne]; exact List.mem_cons_self
    | tail _ h' =>
      split
      · exact ih h'
      · exact List.mem_cons_of_mem _ (ih h')

theorem mem_upsert {s : Store} {i j : Id} {r q : Rec} (h : (j, q) ∈ upsert s i r) :
    (j = i ∧ q = r) ∨ (j ≠ i ∧ (j, q) ∈ s) := by
  simp only [upsert] at h
  cases h with
  | head => exact Or.inl ⟨rfl, rfl⟩
  | tail _ h' => exact Or.inr ⟨(mem_erase h').2, (mem_erase h').1⟩

theorem length_erase_le (s : Store) (i : Id) : (erase s i).length ≤ s.length := by
  induction s with
  | nil => simp [erase]
  | cons p ps ih =>
    obtain ⟨k, q⟩ := p
    simp only [erase]
    split
    · simp only [List.length_cons]; omega
    · simp only [List.length_cons]; omega

theorem length_erase_lt {s : Store} {i : Id} (h : has s i = true) : (erase s i).length < s.length := by
  induction s with
  | nil => simp [has, lookup] at h
  | cons p ps ih =>
    obtain ⟨k, q⟩ := p
    simp only [erase]
    split
    · have := length_erase_le ps i
      simp only [List.length_cons]; omega
    · rename_i hk
      have h' : has ps i = true := by
        simp only [has, lookup] at h
        rw [if_neg hk] at h
        exact h
      have := ih h'
      simp only [List.length_cons]; omega

/-! ### the regeneration loop -/

/-- The loop only ever leaves with an id the store does not hold, drawn at or after `c`. -/
theorem regenLoop_spec {gen : Nat → Id} {s : Store} {f c : Nat} {i : Id} {c' : Nat}
    (h : regenLoop gen s f c = some (i, c')) :
    has s i = false ∧ ∃ n, c ≤ n ∧ c' = n + 1 ∧ i = gen n := by
  induction f generalizing c with
  | zero => simp [regenLoop] at h
  | succ f ih =>
    simp only [regenLoop] at h
    split at h
    · obtain ⟨h1, n, hn, hc, hi⟩ := ih h
      exact ⟨h1, n, by omega, hc, hi⟩
    · rename_i hh
      cases h
      exact ⟨by simpa using hh, c, Nat.le_refl _, rfl, rfl⟩

theorem regenLoop_congr {gen : Nat → Id} {s s' : Store} (f c : Nat)
    (h : ∀ n, c ≤ n → has s (gen n) = has s' (gen n)) :
    regenLoop gen s f c = regenLoop gen s' f c := by
  induction f generalizing c with
  | zero => rfl
  | succ f ih =>
    simp only [regenLoop]
    rw [h c (Nat.le_refl _), ih (c + 1) (fun n hn => h n (by omega))]

/-- For an injective id source the loop terminates within `|store| + 1` draws. -/
theorem regenLoop_isSome {gen : Nat → Id} (hinj : ∀ a b, gen a = gen b → a = b)
    (f : Nat) (s : Store) (c : Nat) (hf : s.length < f) : (regenLoop gen s f c).isSome = true := by
  induction f generalizing s c with
  | zero => omega
  | succ f ih =>
    simp only [regenLoop]
    split
    · rename_i hh
      have hc : regenLoop gen s f (c + 1) = regenLoop gen (erase s (gen c)) f (c + 1) := by
        apply regenLoop_congr
        intro n hn
        have hne : gen n ≠ gen c := fun e => by have := hinj _ _ e; omega
        simp only [has, lookup_erase_ne s hne]
      rw [hc]
      apply ih
      have := length_erase_lt hh
      omega
    · rfl

/-! ### sweeps -/

theorem mem_sweepRam {now : Nat} {s : Store} {i : Id} {r : Rec} :
    (i, r) ∈ sweepRam now s ↔ (i, r) ∈ s ∧ ∀ d e, r = .good d e → ¬ e ≤ now := by
  induction s with
  | nil => simp [sweepRam]
  | cons p ps ih =>
    obtain ⟨j, q⟩ := p
    cases q with
    | good d e =>
      simp only [sweepRam]
      split
      · rename_i he
        rw [ih]
        constructor
        · intro h; exact ⟨List.mem_cons_of_mem _ h.1, h.2⟩
        · intro h
          refine ⟨?_, h.2⟩
          cases h.1 with
          | head => exact absurd he (h.2 d e rfl)
          | tail _ h' => exact h'
      · rename_i he
        simp only [List.mem_cons, ih]
        constructor
        · intro h
          cases h with
          | inl h => cases h; exact ⟨Or.inl rfl, fun d' e' hr => by cases hr; exact he⟩
          | inr h => exact ⟨Or.inr h.1, h.2⟩
        · intro h
          cases h.1 with
          | inl h' => exact Or.inl h'
          | inr h' => exact Or.inr ⟨h', h.2⟩
    | bad x =>
      simp only [sweepRam, List.mem_cons, ih]
      constructor
      · intro h
        cases h with
        | inl h => cases h; exact ⟨Or.inl rfl, fun d' e' hr => by cases hr⟩
        | inr h => exact ⟨Or.inr h.1, h.2⟩
      · intro h
        cases h.1 with
        | inl h' => exact Or.inl h'
        | inr h' => exact Or.inr ⟨h', h.2⟩

/-- no file on which `_load` lets an exception through -/
def NoOther (s : Store) : Prop := ∀ i, (i, Rec.bad .other) ∉ s

theorem NoOther_tail {p : Id × Rec} {ps : Store} (h : NoOther (p :: ps)) : NoOther ps :=
  fun i hm => h i (List.mem_cons_of_mem _ hm)

theorem sweepFile_not_aborted {now : Nat} {s : Store} (h : NoOther s) : (sweepFile now s).2 = false := by
  induction s with
  | nil => rfl
  | cons p ps ih =>
    obtain ⟨j, q⟩ := p
    have ih' := ih (NoOther_tail h)
    cases q with
    | good d e => simp only [sweepFile]; exact ih'
    | bad x =>
      cases x with
      | other => exact absurd List.mem_cons_self (h j)
      | eof => simp only [sweepFile]; exact ih'
      | unpickling => simp only [sweepFile]; exact ih'

theorem mem_sweepFile {now : Nat} {s : Store} (hno : NoOther s) {i : Id} {r : Rec} :
    (i, r) ∈ (sweepFile now s).1 ↔ (i, r) ∈ s ∧ ∀ d e, r = .good d e → ¬ e < now := by
  induction s with
  | nil => simp [sweepFile]
  | cons p ps ih =>
    obtain ⟨j, q⟩ := p
    have ih' := ih (NoOther_tail hno)
    cases q with
    | good d e =>
      simp only [sweepFile]
      split
      · rename_i he
        rw [ih']
        constructor
        · intro h; exact ⟨List.mem_cons_of_mem _ h.1, h.2⟩
        · intro h
          refine ⟨?_, h.2⟩
          cases h.1 with
          | head => exact absurd he (h.2 d e rfl)
          | tail _ h' => exact h'
      · rename_i he
        simp only [List.mem_cons, ih']
        constructor
        · intro h
          cases h with
          | inl h => cases h; exact ⟨Or.inl rfl, fun d' e' hr => by cases hr; exact he⟩
          | inr h => exact ⟨Or.inr h.1, h.2⟩
        · intro h
          cases h.1 with
          | inl h' => exact Or.inl h'
          | inr h' => exact Or.inr ⟨h', h.2⟩
    | bad x =>
      have hx : x ≠ .other := fun e => by subst e; exact absurd List.mem_cons_self (hno j)
      have hs : sweepFile now ((j, Rec.bad x) :: ps) =
          ((j, Rec.bad x) :: (sweepFile now ps).1, (sweepFile now ps).2) := by
        cases x with
        | other => exact absurd rfl hx
        | eof => rfl
        | unpickling => rfl
      rw [hs]
      simp only [List.mem_cons, ih']
      constructor
      · intro h
        cases h with
        | inl h => cases h; exact ⟨Or.inl rfl, fun d' e' hr => by cases hr⟩
        | inr h => exact ⟨Or.inr h.1, h.2⟩
      · intro h
        cases h.1 with
        | inl h' => exact Or.inl h'
        | inr h' => exact Or.inr ⟨h', h.2⟩

/-- since the F14d repair no file content stops the sweep -/
theorem sweepFile_never_aborted (now : Nat) (s : Store) : (sweepFile now s).2 = false := by
  induction s with
  | nil => rfl
  | cons p ps ih =>
    obtain ⟨j, q⟩ := p
    cases q with
    | good d e => simp only [sweepFile]; exact ih
    | bad x => simp only [sweepFile]; exact ih

/-- ... and it removes exactly the readable files with `expiry < now`, whatever else is there -/
theorem mem_sweepFile_all {now : Nat} {s : Store} {i : Id} {r : Rec} :
    (i, r) ∈ (sweepFile now s).1 ↔ (i, r) ∈ s ∧ ∀ d e, r = .good d e → ¬ e < now := by
  induction s with
  | nil => simp [sweepFile]
  | cons p ps ih =>
    obtain ⟨j, q⟩ := p
    cases q with
    | good d e =>
      simp only [sweepFile]
      split
      · rename_i he
        rw [ih]
        constructor
        · intro h; exact ⟨List.mem_cons_of_mem _ h.1, h.2⟩
        · intro h
          refine ⟨?_, h.2⟩
          cases h.1 with
          | head => exact absurd he (h.2 d e rfl)
          | tail _ h' => exact h'
      · rename_i he
        simp only [List.mem_cons, ih]
        constructor
        · intro h
          cases h with
          | inl h => cases h; exact ⟨Or.inl rfl, fun d' e' hr => by cases hr; exact he⟩
          | inr h => exact ⟨Or.inr h.1, h.2⟩
        · intro h
          cases h.1 with
          | inl h' => exact Or.inl h'
          | inr h' => exact Or.inr ⟨h', h.2⟩
    | bad x =>
      simp only [sweepFile, List.mem_cons, ih]
      constructor
      · intro h
        cases h with
        | inl h => cases h; exact ⟨Or.inl rfl, fun d' e' hr => by cases hr⟩
        | inr h => exact ⟨Or.inr h.1, h.2⟩
      · intro h
        cases h.1 with
        | inl h' => exact Or.inl h'
        | inr h' => exact Or.inr ⟨h', h.2⟩

/-- whatever happens, a sweep only removes entries (also when it is aborted). -/
theorem mem_sweepFile_sub {now : Nat} {s : Store} {p : Id × Rec} (h : p ∈ (sweepFile now s).1) : p ∈ s := by
  induction s with
  | nil => simp [sweepFile] at h
  | cons q qs ih =>
    obtain ⟨j, r⟩ := q
    cases r with
    | good d e =>
      simp only [sweepFile] at h
      split at h
      · exact List.mem_cons_of_mem _ (ih h)
      · cases h with
        | head => exact List.mem_cons_self
        | tail _ h' => exact List.mem_cons_of_mem _ (ih h')
    | bad x =>
      cases x with
      | other =>
        simp only [sweepFile] at h
        cases h with
        | head => exact List.mem_cons_self
        | tail _ h' => exact List.mem_cons_of_mem _ (ih h')
      | eof =>
        simp only [sweepFile] at h
        cases h with
        | head => exact List.mem_cons_self
        | tail _ h' => exact List.mem_cons_of_mem _ (ih h')
      | unpickling =>
        simp only [sweepFile] at h
        cases h with
        | head => exact List.mem_cons_self
        | tail _ h' => exact List.mem_cons_of_mem _ (ih h')

/-- lookup through the RAM sweep: an unexpired record found first is still found first. -/
theorem lookup_sweepRam_live {now : Nat} {s : Store} {i : Id} {d : Data} {e : Nat}
    (h : lookup s i = some (.good d e)) (he : ¬ e ≤ now) :
    lookup (sweepRam now s) i = some (.good d e) := by
  induction s with
  | nil => simp [lookup] at h
  | cons p ps ih =>
    obtain ⟨j, q⟩ := p
    simp only [lookup] at h
    split at h
    · rename_i hj
      cases h
      simp only [sweepRam]
      rw [if_neg he]
      simp [lookup, hj]
    · rename_i hj
      cases q with
      | good d' e' =>
        simp only [sweepRam]
        split
        · exact ih h
        · simp only [lookup]; rw [if_neg hj]; exact ih h
      | bad x => simp only [sweepRam, lookup]; rw [if_neg hj]; exact ih h

theorem lookup_sweepFile_live {now : Nat} {s : Store} {i : Id} {d : Data} {e : Nat}
    (h : lookup s i = some (.good d e)) (he : ¬ e < now) :
    lookup (sweepFile now s).1 i = some (.good d e) := by
  induction s with
  | nil => simp [lookup] at h
  | cons p ps ih =>
    obtain ⟨j, q⟩ := p
    simp only [lookup] at h
    split at h
    · rename_i hj
      cases h
      simp only [sweepFile]
      rw [if_neg he]
      simp [lookup, hj]
    · rename_i hj
      cases q with
      | good d' e' =>
        simp only [sweepFile]
        split
        · exact ih h
        · simp only [lookup]; rw [if_neg hj]; exact ih h
      | bad x =>
        cases x with
        | other => simp only [sweepFile, lookup]; rw [if_neg hj]; exact ih h
        | eof => simp only [sweepFile, lookup]; rw [if_neg hj]; exact ih h
        | unpickling => simp only [sweepFile, lookup]; rw [if_neg hj]; exact ih h

end CpProofs.C14
