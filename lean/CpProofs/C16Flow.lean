import CpModel.CondFlow
import CpModel.CondElements
import CpProofs.C16Cond
import CpProofs.C16ElemsFull
/-!
  C16, round 2: the request flow with `response.stream`, handlers that validate themselves (scripts of
  `body` / `since` / `etags auto` steps, executed before or after the body exists) and the
  before_finalize tool as one more step (`CpModel.CondFlow.respondX`).

  * `respondX_legacy`       conservative extension: on the requests of the first model `respondX` IS `respond`,
                            so every theorem of `C16Cond.lean` is a theorem about `respondX`.
  * `flow_gen_run`          a `gen` request is: run the full script (handler steps, `response.body = handler()`,
                            the tool); the first step that does not pass decides.
  * `runScript_pass_iff`, `flow_gen_iff_dictated`
                            304 / 412 exactly when a header dictates it to a step that is executed: any
                            `since` step sees the same Last-Modified, and only the FIRST `etags` step of the
                            full script ever evaluates ("guard against being run twice") — with the ETag it
                            finds or computes at that moment (`firstEtags`).
  * `flow_gen_not_dictated_full`   … and the full entity otherwise.
  * `flow_304_no_body`      FULL strength (since the repair b33ff58 of F17d): every 304 the application sends —
                            raised by a validator or chosen by the handler, streamed or buffered, any kind, any
                            script — has no body, no Content-Range, no Content-Length; `flow_304_no_body_full`.
  * `unfixed_finalize_304_with_body`   the finalize of a tree WITHOUT the repair (`plainRespXUnfixed`: `self.stream`
                            tested first) delivers the body of a handler-chosen streamed 304: witness `decide`d.
  * `flow_412_no_entity`    a 412 never carries the entity, a Content-Range or an ETag (base status ≠ 412).
  * `flow_304_getHead`      a validator-raised 304 only answers GET / HEAD.
  * `flow_non2xx_untouched` a handler status outside 2xx / 304 / 412 is never changed, whatever the script.
  * `flow_file_stream`      for served files `response.stream` changes nothing but the Content-Length of an
                            entity of unknown length.
-/
namespace CpProofs.C16
open CpModel.Ranges CpModel.Validators CpModel.CondFlow

/-! ### conservative extension -/

theorem servedRespX_buffered (r : ReqX) (hs : r.stream = false) (s : Served) (e : Option Text) :
    servedRespX r s e = servedResp s e := by
  cases s <;> simp [servedRespX, servedResp, hs]

theorem plainRespX_buffered (r : ReqX) (hs : r.stream = false) (st : Nat) (e : Option Text) :
    plainRespX r st e = plainResp r.base st e := by
  unfold plainRespX plainResp
  split <;> simp [hs]

/-- the tool step at the end of the full script is `etagPhase` -/
theorem tool_step_eq_etagPhase (r : ReqX) :
    outcome r (runScript r (if r.base.etagsOn then [Step.etags r.base.autotags] else [])
        ⟨r.base.handlerEtag, true, false⟩) =
    etagPhase r.base r.base.baseStatus (plainRespX r r.base.baseStatus) := by
  unfold etagPhase etagOf
  cases he : r.base.etagsOn
  · simp [runScript, outcome]
  · simp only [if_true, runScript, runStep, Bool.false_eq_true, if_false]
    cases hv : validateEtags (effectiveEtag r.base.handlerEtag r.base.autotags r.base.baseStatus r.base.autoTag)
        r.base.baseStatus r.base.getHead r.base.im r.base.inm <;> simp [runScript, outcome]

/-- a buffered request whose handler does what the first model's handler did -/
theorem respondX_buffered_legacy (x : ReqX) (hs : x.stream = false) (hsc : x.script = legacyScript x.base) :
    respondX x = respond x.base := by
  have hpl : plainRespX x x.base.baseStatus = plainResp x.base x.base.baseStatus := by
    funext e; exact plainRespX_buffered x hs _ _
  have hsv : ∀ s, servedRespX x s = servedResp s := by
    intro s; funext e; exact servedRespX_buffered x hs _ _
  unfold respondX respond
  cases hk : x.base.kind
  · -- file
    simp only []
    cases hh : handler x.base with
    | raised v => rfl
    | plain st =>
      simp [handler, hk] at hh
      split at hh <;> simp at hh
    | served s =>
      cases s <;> simp only [etagPhaseX, hsv]
  · -- gen
    simp only [handler, hk, fullScript, hsc, legacyScript, initState]
    cases hc : x.base.callSince
    · simp only [Bool.false_eq_true, if_false, List.nil_append, List.singleton_append, List.cons_append,
        runScript, runStep]
      exact (tool_step_eq_etagPhase x).trans (by rw [hpl])
    · simp only [if_true, List.singleton_append, List.cons_append, List.nil_append, runScript, runStep]
      cases hv : validateSince x.base.lastmod x.base.baseStatus x.base.getHead x.base.ius x.base.ims
      · simp only [runScript, runStep]
        exact (tool_step_eq_etagPhase x).trans (by rw [hpl])
      · simp [outcome]
      · simp [outcome]

/-- **`respondX` restricted to the first model's requests is `respond`.** -/
theorem respondX_legacy (r : Req) (emptyTag : Text) : respondX (lift r emptyTag) = respond r :=
  respondX_buffered_legacy (lift r emptyTag) rfl rfl

/-! ### the script -/

theorem runStep_ifRange (r : ReqX) (x : Option Text) (st : HState) (s : Step) :
    runStep { r with ifRange := x } st s = runStep r st s := by
  cases s <;> rfl

theorem runScript_ifRange (r : ReqX) (x : Option Text) (ss : List Step) (st : HState) :
    runScript { r with ifRange := x } ss st = runScript r ss st := by
  induction ss generalizing st with
  | nil => rfl
  | cons s ss ih => simp only [runScript, runStep_ifRange, ih]

/-- a `gen` request: run the full script; the first step that does not pass decides -/
theorem flow_gen_run (r : ReqX) (hk : r.base.kind = .gen) :
    respondX r = outcome r (runScript r (fullScript r) (initState r)) := by
  simp [respondX, hk]

/-- what the first `etags` step of a step list will see: (autotags, has the body been set before it) -/
def firstEtags : List Step → Bool → Option (Bool × Bool)
  | [], _ => none
  | .body :: ss, _ => firstEtags ss true
  | .since :: ss, b => firstEtags ss b
  | .etags auto :: _, b => some (auto, b)

def hasSince (ss : List Step) : Bool := ss.contains .since

/-- the ETag the first `etags` step works with -/
def etagSeen (r : ReqX) (p : Bool × Bool) : Option Text :=
  effectiveEtag r.base.handlerEtag p.1 r.base.baseStatus (if p.2 then r.base.autoTag else r.emptyTag)

/-- does a header dictate something to a step of `ss` (started with `response.ETag` unset)? -/
def dictatedSteps (r : ReqX) (ss : List Step) (bodySet : Bool) : Bool :=
  (hasSince ss && (sinceFails r.base.lastmod r.base.ius || sinceHolds r.base.lastmod r.base.ims)) ||
  (match firstEtags ss bodySet with
   | none => false
   | some p => imFails (etagSeen r p) r.base.im || inmMatches (etagSeen r p) r.base.inm)

/-- once `validate_etags` has run, only `since` steps can still raise -/
theorem runScript_done_iff (r : ReqX) (h2 : is2xx r.base.baseStatus = true) (ss : List Step) (st : HState)
    (hd : st.etagDone = true) :
    (∃ st', runScript r ss st = .done st') ↔
      (hasSince ss && (sinceFails r.base.lastmod r.base.ius || sinceHolds r.base.lastmod r.base.ims)) = false := by
  induction ss generalizing st with
  | nil => simp [runScript, hasSince]
  | cons s ss ih =>
    cases s with
    | body =>
      simp only [runScript, runStep]
      rw [ih ⟨st.etagHdr, true, st.etagDone⟩ hd]
      simp [hasSince]
    | etags auto =>
      simp only [runScript, runStep, hd, if_true]
      rw [ih st hd]
      simp [hasSince]
    | since =>
      simp only [runScript, runStep]
      rw [validateSince_table _ _ h2]
      by_cases h1 : sinceFails r.base.lastmod r.base.ius = true
      · simp [h1, hasSince]
      · by_cases h3 : sinceHolds r.base.lastmod r.base.ims = true
        · cases hg : r.base.getHead <;> simp [h1, h3, nmVerdict, hasSince]
        · simp only [h1, h3, Bool.false_eq_true, if_false]
          rw [ih st hd]
          simp [hasSince, h1, h3]

/-- **the script passes exactly when nothing is dictated to an executed step** (2xx base status; any
    script, any state in which `validate_etags` has not run yet and the ETag header is the handler's) -/
theorem runScript_pass_iff (r : ReqX) (h2 : is2xx r.base.baseStatus = true) (ss : List Step) (b : Bool) :
    (∃ st', runScript r ss ⟨r.base.handlerEtag, b, false⟩ = .done st') ↔ dictatedSteps r ss b = false := by
  induction ss generalizing b with
  | nil => simp [runScript, dictatedSteps, hasSince, firstEtags]
  | cons s ss ih =>
    cases s with
    | body =>
      simp only [runScript, runStep]
      rw [ih true]
      simp [dictatedSteps, hasSince, firstEtags]
    | since =>
      simp only [runScript, runStep]
      rw [validateSince_table _ _ h2]
      by_cases h1 : sinceFails r.base.lastmod r.base.ius = true
      · simp [h1, dictatedSteps, hasSince]
      · by_cases h3 : sinceHolds r.base.lastmod r.base.ims = true
        · cases hg : r.base.getHead <;> simp [h1, h3, nmVerdict, dictatedSteps, hasSince]
        · simp only [h1, h3, Bool.false_eq_true, if_false]
          rw [ih b]
          simp [dictatedSteps, hasSince, firstEtags, h1, h3]
    | etags auto =>
      simp only [runScript, runStep, Bool.false_eq_true, if_false]
      rw [validateEtags_table _ _ h2]
      have he : effectiveEtag r.base.handlerEtag auto r.base.baseStatus
          (if b = true then r.base.autoTag else r.emptyTag) = etagSeen r (auto, b) := rfl
      rw [he]
      by_cases h1 : imFails (etagSeen r (auto, b)) r.base.im = true
      · simp [h1, dictatedSteps, firstEtags]
      · by_cases h3 : inmMatches (etagSeen r (auto, b)) r.base.inm = true
        · cases hg : r.base.getHead <;> simp [h1, h3, nmVerdict, dictatedSteps, firstEtags]
        · simp only [h1, h3, Bool.false_eq_true, if_false]
          rw [runScript_done_iff r h2 ss _ rfl]
          simp [dictatedSteps, firstEtags, h1, h3, hasSince]

/-- does any header dictate something to this `gen` request? -/
def dictatedFlow (r : ReqX) : Bool := dictatedSteps r (fullScript r) false

theorem runScript_cases (r : ReqX) (ss : List Step) (st : HState) :
    (∃ st', runScript r ss st = .done st') ∨ (∃ v e, v ≠ .pass ∧ runScript r ss st = .raised v e) := by
  induction ss generalizing st with
  | nil => exact Or.inl ⟨st, rfl⟩
  | cons s ss ih =>
    simp only [runScript]
    cases hv : (runStep r st s).1 with
    | pass =>
      have : runStep r st s = (.pass, (runStep r st s).2) := by rw [← hv]
      rw [this]
      exact ih _
    | notModified =>
      have : runStep r st s = (.notModified, (runStep r st s).2) := by rw [← hv]
      rw [this]
      exact Or.inr ⟨_, _, by simp, rfl⟩
    | precondFailed =>
      have : runStep r st s = (.precondFailed, (runStep r st s).2) := by rw [← hv]
      rw [this]
      exact Or.inr ⟨_, _, by simp, rfl⟩

theorem plainRespX_status (r : ReqX) (st : Nat) (e : Option Text) : (plainRespX r st e).status = st := by
  unfold plainRespX plainResp
  split
  · rfl
  · split
    · rfl
    · simp_all

/-- **304 / 412 exactly when the validators dictate** — handler-generated 2xx (other than the 2xx being
    304/412, which it cannot be), any script, streamed or buffered. -/
theorem flow_gen_iff_dictated (r : ReqX) (hk : r.base.kind = .gen) (h2 : is2xx r.base.baseStatus = true) :
    ((respondX r).status = 304 ∨ (respondX r).status = 412) ↔ dictatedFlow r = true := by
  rw [flow_gen_run r hk]
  have hp := runScript_pass_iff r h2 (fullScript r) false
  have hb : r.base.baseStatus ≠ 304 ∧ r.base.baseStatus ≠ 412 := by
    simp only [is2xx, Bool.and_eq_true, decide_eq_true_eq] at h2
    omega
  unfold dictatedFlow
  rcases runScript_cases r (fullScript r) (initState r) with ⟨st', hd⟩ | ⟨v, e, hv, hr⟩
  · have : dictatedSteps r (fullScript r) false = false := hp.mp ⟨st', hd⟩
    rw [hd, this]
    simp [outcome, plainRespX_status, hb.1, hb.2]
  · have : dictatedSteps r (fullScript r) false = true := by
      cases hds : dictatedSteps r (fullScript r) false
      · obtain ⟨st', hd⟩ := hp.mpr hds
        rw [initState] at hr
        rw [hd] at hr
        cases hr
      · rfl
    rw [hr, this]
    cases v <;> simp_all [outcome, conditionalResp]

/-- **… and the full entity otherwise**: nothing dictated ⇒ the handler's status and body, delivered
    (`plainRespX`: Content-Length only when buffered; HEAD without body). -/
theorem flow_gen_not_dictated_full (r : ReqX) (hk : r.base.kind = .gen) (h2 : is2xx r.base.baseStatus = true)
    (hd : dictatedFlow r = false) :
    ∃ e, respondX r = finish r.base (plainRespX r r.base.baseStatus e) := by
  rw [flow_gen_run r hk]
  obtain ⟨st', h⟩ := (runScript_pass_iff r h2 (fullScript r) false).mpr hd
  rw [initState, h]
  exact ⟨_, rfl⟩

/-- the not-dictated answer of a 200, spelled out -/
theorem flow_gen_200_body (r : ReqX) (hk : r.base.kind = .gen) (h200 : r.base.baseStatus = 200)
    (hd : dictatedFlow r = false) (hh : r.base.isHead = false) :
    (respondX r).status = 200 ∧ (respondX r).body = .bytes r.base.content ∧ (respondX r).contentRange = none ∧
      (respondX r).contentLength = (if r.stream then none else some r.base.content.length) := by
  obtain ⟨e, h⟩ := flow_gen_not_dictated_full r hk (by rw [h200]; decide) hd
  rw [h, h200]
  cases hs : r.stream <;> simp [finish, hh, plainRespX, plainResp, noBodyStatus, hs]

/-! ### a 304 carries no body -/

def NoBody (x : Resp) : Prop := x.body = .empty ∧ x.contentRange = none ∧ x.contentLength = none

theorem finish_noBody (r : Req) (x : Resp) (h : x.status = 304 → NoBody x) :
    (finish r x).status = 304 → NoBody (finish r x) := by
  intro hf
  rw [finish_status] at hf
  have := h hf
  unfold finish
  split
  · exact ⟨rfl, this.2.1, this.2.2⟩
  · exact this

theorem conditionalResp_noBody (v : Verdict) (e : Option Text) :
    (conditionalResp v e).status = 304 → NoBody (conditionalResp v e) := by
  intro h
  cases v <;> simp_all [conditionalResp, NoBody]

theorem servedRespX_not304 (r : ReqX) (s : Served) (e : Option Text) : (servedRespX r s e).status ≠ 304 := by
  cases s <;> simp [servedRespX, servedResp]

theorem etagPhase_noBody (r : Req) (st : Nat) (ok : Option Text → Resp)
    (hok : ∀ e, (ok e).status = 304 → NoBody (ok e)) :
    (etagPhase r st ok).status = 304 → NoBody (etagPhase r st ok) := by
  unfold etagPhase
  simp only []
  split
  · exact finish_noBody _ _ (hok _)
  · exact finish_noBody _ _ (conditionalResp_noBody _ _)
  · exact finish_noBody _ _ (conditionalResp_noBody _ _)

theorem plainRespX_noBody (r : ReqX) (st : Nat) (e : Option Text) :
    (plainRespX r st e).status = 304 → NoBody (plainRespX r st e) := by
  intro hv
  rw [plainRespX_status] at hv
  subst hv
  simp [plainRespX, noBodyStatus, NoBody]

/-- **A 304 carries no body** (nor Content-Range, nor Content-Length) — FULL strength: every 304 the
    application sends, whether a validator raised it (before or after the body was produced) or the handler
    chose the status itself, any kind, any script, `response.stream` on or off. -/
theorem flow_304_no_body (r : ReqX) (h : (respondX r).status = 304) : NoBody (respondX r) := by
  revert h
  unfold respondX
  cases hk : r.base.kind
  · simp only []
    split
    · exact finish_noBody _ _ (conditionalResp_noBody _ _)
    · exact finish_noBody _ _ (fun h => by simp [servedResp] at h)
    · exact etagPhase_noBody _ _ _ (fun e h => absurd h (servedRespX_not304 r _ e))
    · exact etagPhase_noBody _ _ _ (plainRespX_noBody r _)
  · simp only [outcome]
    split
    · exact finish_noBody _ _ (conditionalResp_noBody _ _)
    · exact finish_noBody _ _ (plainRespX_noBody r _ _)

/-- the statement, unrestricted -/
def flow_304_no_body_full : Prop := ∀ r : ReqX, (respondX r).status = 304 → NoBody (respondX r)

theorem flow_304_no_body_full_holds : flow_304_no_body_full := flow_304_no_body

/-- every buffered 304 (corollary) -/
theorem flow_buffered_304_no_body (r : ReqX) (_hs : r.stream = false) (h : (respondX r).status = 304) :
    NoBody (respondX r) := flow_304_no_body r h

/-- a handler that answers 304 by itself on a streamed response, and returns a body all the same (F17d) -/
def streamed304 : ReqX :=
  ⟨{ kind := .gen, getHead := true, isHead := false, proto11 := true, lenKnown := true,
     baseStatus := 304, callSince := false, etagsOn := false, autotags := false, handlerEtag := none,
     autoTag := [], lastmod := none, im := [], inm := [], ims := none, ius := none, range := none,
     content := [1, 2, 3] }, true, [], [], none⟩

/-- **before the repair b33ff58** the finalize step kept the body of such a response: with `self.stream`
    tested first (`plainRespXUnfixed`) the F17d witness is a 304 that carries its body -/
theorem unfixed_finalize_304_with_body :
    (finish streamed304.base (plainRespXUnfixed streamed304 304 none)).status = 304 ∧
      (finish streamed304.base (plainRespXUnfixed streamed304 304 none)).body = .bytes [1, 2, 3] := by decide

/-- … and the repaired one does not -/
theorem fixed_finalize_304_no_body : respondX streamed304 = ⟨304, none, none, none, .empty⟩ := by decide

/-! ### 412, methods, other statuses -/

/-- **a 412 never carries the entity**, a Content-Range or an ETag (handler did not choose 412 itself) -/
theorem flow_412_no_entity (r : ReqX) (hb : r.base.baseStatus ≠ 412) (h : (respondX r).status = 412) :
    ((respondX r).body = .errorPage ∨ (respondX r).body = .empty) ∧ (respondX r).contentRange = none ∧
      (respondX r).etag = none := by
  have key : ∀ x : Resp, (x.status = 412 → (x.body = .errorPage ∧ x.contentRange = none ∧ x.etag = none)) →
      (finish r.base x).status = 412 →
      ((finish r.base x).body = .errorPage ∨ (finish r.base x).body = .empty) ∧
        (finish r.base x).contentRange = none ∧ (finish r.base x).etag = none := by
    intro x hx hf
    rw [finish_status] at hf
    have := hx hf
    unfold finish
    split
    · exact ⟨Or.inr rfl, this.2.1, this.2.2⟩
    · exact ⟨Or.inl this.1, this.2.1, this.2.2⟩
  have hcond : ∀ v e, (conditionalResp v e).status = 412 →
      (conditionalResp v e).body = .errorPage ∧ (conditionalResp v e).contentRange = none ∧
        (conditionalResp v e).etag = none := by
    intro v e hv
    cases v <;> simp_all [conditionalResp]
  have hserved : ∀ s e, (servedRespX r s e).status ≠ 412 := by
    intro s e
    cases s <;> simp [servedRespX, servedResp]
  have hphase : ∀ st (ok : Option Text → Resp), (∀ e, (ok e).status ≠ 412) →
      (etagPhase r.base st ok).status = 412 →
      ((etagPhase r.base st ok).body = .errorPage ∨ (etagPhase r.base st ok).body = .empty) ∧
        (etagPhase r.base st ok).contentRange = none ∧ (etagPhase r.base st ok).etag = none := by
    intro st ok hok
    unfold etagPhase
    simp only []
    split
    · exact key _ (fun h => absurd h (hok _))
    · exact key _ (hcond _ _)
    · exact key _ (hcond _ _)
  revert h
  unfold respondX
  cases hk : r.base.kind
  · simp only []
    split
    · exact key _ (hcond _ _)
    · exact key _ (fun h => by simp [servedResp] at h)
    · exact hphase _ _ (hserved _)
    · rename_i st hh
      simp [handler, hk] at hh
      split at hh <;> simp at hh
  · simp only [outcome]
    split
    · exact key _ (hcond _ _)
    · exact key _ (fun h => by rw [plainRespX_status] at h; exact absurd h hb)

theorem validateSince_notModified_getHead {lm : Option Text} {st : Nat} {gh : Bool} {ius ims : Option Text}
    (h : validateSince lm st gh ius ims = .notModified) : gh = true := by
  cases gh
  · unfold validateSince at h
    repeat' split at h
    all_goals simp_all
  · rfl

theorem validateEtags_notModified_getHead {e : Option Text} {st : Nat} {gh : Bool} {im inm : List Text}
    (h : validateEtags e st gh im inm = .notModified) : gh = true := by
  cases gh
  · unfold validateEtags at h
    repeat' split at h
    all_goals simp_all
  · rfl

theorem runScript_raised_notModified (r : ReqX) (ss : List Step) (st : HState) (e : Option Text)
    (h : runScript r ss st = .raised .notModified e) : r.base.getHead = true := by
  induction ss generalizing st with
  | nil => simp [runScript] at h
  | cons s ss ih =>
    simp only [runScript] at h
    cases s with
    | body => simp only [runStep] at h; exact ih _ h
    | since =>
      simp only [runStep] at h
      cases hv : validateSince r.base.lastmod r.base.baseStatus r.base.getHead r.base.ius r.base.ims
      · rw [hv] at h; exact ih _ h
      · exact validateSince_notModified_getHead hv
      · rw [hv] at h; simp at h
    | etags auto =>
      simp only [runStep] at h
      by_cases hd : st.etagDone = true
      · simp only [hd, if_true] at h; exact ih _ h
      · simp only [hd, Bool.false_eq_true, if_false] at h
        generalize hE : effectiveEtag st.etagHdr auto r.base.baseStatus
          (if st.bodySet = true then r.base.autoTag else r.emptyTag) = E at h
        cases hv : validateEtags E r.base.baseStatus r.base.getHead r.base.im r.base.inm
        · rw [hv] at h; exact ih _ h
        · exact validateEtags_notModified_getHead hv
        · rw [hv] at h; simp at h

/-- **a validator-raised 304 only answers GET / HEAD** (handler-generated bodies, any script) -/
theorem flow_304_getHead (r : ReqX) (hk : r.base.kind = .gen) (hb : r.base.baseStatus ≠ 304)
    (h : (respondX r).status = 304) : r.base.getHead = true := by
  rw [flow_gen_run r hk] at h
  unfold outcome at h
  split at h
  · rename_i v e hr
    cases v with
    | notModified => exact runScript_raised_notModified r _ _ _ hr
    | pass => simp [conditionalResp] at h
    | precondFailed => simp [conditionalResp] at h
  · rw [finish_status, plainRespX_status] at h
    exact absurd h hb

/-- a script never raises on a status outside 2xx / 304 / 412, and leaves the ETag header alone unless
    the status is 200 -/
theorem runScript_non2xx (r : ReqX) (h2 : is2xx r.base.baseStatus = false) (h412 : r.base.baseStatus ≠ 412)
    (h304 : r.base.baseStatus ≠ 304) (ss : List Step) (st : HState) :
    ∃ st', runScript r ss st = .done st' ∧ st'.etagHdr = st.etagHdr := by
  have h200 : r.base.baseStatus ≠ 200 := by
    intro e; rw [e] at h2; simp [is2xx] at h2
  induction ss generalizing st with
  | nil => exact ⟨st, rfl, rfl⟩
  | cons s ss ih =>
    cases s with
    | body =>
      simp only [runScript, runStep]
      obtain ⟨st', h1, h3⟩ := ih { st with bodySet := true }
      exact ⟨st', h1, h3⟩
    | since =>
      simp only [runScript, runStep, validateSince_guard _ _ h2 h412 h304]
      exact ih st
    | etags auto =>
      simp only [runScript, runStep]
      by_cases hd : st.etagDone = true
      · simp only [hd, if_true]; exact ih st
      · simp only [hd, Bool.false_eq_true, if_false, validateEtags_non2xx _ _ h2]
        have he : ∀ t, effectiveEtag st.etagHdr auto r.base.baseStatus t = st.etagHdr := by
          intro t
          unfold effectiveEtag
          simp [h200]
        obtain ⟨st', h1, h3⟩ := ih ⟨effectiveEtag st.etagHdr auto r.base.baseStatus (if st.bodySet = true then r.base.autoTag else r.emptyTag), st.bodySet, true⟩
        exact ⟨st', h1, by rw [h3]; exact he _⟩

/-- **a handler answer outside 2xx / 304 / 412 is never touched by the validators**, whatever the
    script, streamed or buffered -/
theorem flow_non2xx_untouched (r : ReqX) (hk : r.base.kind = .gen) (h2 : is2xx r.base.baseStatus = false)
    (h412 : r.base.baseStatus ≠ 412) (h304 : r.base.baseStatus ≠ 304) :
    respondX r = finish r.base (plainRespX r r.base.baseStatus r.base.handlerEtag) := by
  rw [flow_gen_run r hk]
  obtain ⟨st', h1, h3⟩ := runScript_non2xx r h2 h412 h304 (fullScript r) (initState r)
  rw [h1]
  simp only [outcome, h3, initState]

/-- **served files: `response.stream` changes nothing but the Content-Length of an entity whose
    length `serve_fileobj` could not determine** -/
theorem flow_file_stream (r : ReqX) (hk : r.base.kind = .file) :
    (respondX r).status = (respond r.base).status ∧ (respondX r).body = (respond r.base).body ∧
    (respondX r).contentRange = (respond r.base).contentRange ∧ (respondX r).etag = (respond r.base).etag ∧
    ((r.stream = false ∨ r.base.lenKnown = true) → respondX r = respond r.base) := by
  have hsv : ∀ s e, (servedRespX r s e).status = (servedResp s e).status ∧
      (servedRespX r s e).body = (servedResp s e).body ∧
      (servedRespX r s e).contentRange = (servedResp s e).contentRange ∧
      (servedRespX r s e).etag = (servedResp s e).etag ∧
      ((r.stream = false ∨ r.base.lenKnown = true) → servedRespX r s e = servedResp s e) := by
    intro s e
    cases s <;> simp [servedRespX, servedResp]
    intro h
    rcases h with h | h <;> simp [h]
  have hfin : ∀ x y : Resp, (x.status = y.status ∧ x.body = y.body ∧ x.contentRange = y.contentRange ∧
      x.etag = y.etag ∧ ((r.stream = false ∨ r.base.lenKnown = true) → x = y)) →
      ((finish r.base x).status = (finish r.base y).status ∧ (finish r.base x).body = (finish r.base y).body ∧
       (finish r.base x).contentRange = (finish r.base y).contentRange ∧
       (finish r.base x).etag = (finish r.base y).etag ∧
       ((r.stream = false ∨ r.base.lenKnown = true) → finish r.base x = finish r.base y)) := by
    intro x y ⟨h1, h2, h3, h4, h5⟩
    unfold finish
    split
    · exact ⟨h1, rfl, h3, h4, fun h => by rw [h5 h]⟩
    · exact ⟨h1, h2, h3, h4, h5⟩
  unfold respondX respond
  simp only [hk]
  cases hh : handler r.base with
  | raised v => exact ⟨rfl, rfl, rfl, rfl, fun _ => rfl⟩
  | plain st =>
    simp [handler, hk] at hh
    split at hh <;> simp at hh
  | served s =>
    cases s with
    | unsat t => exact ⟨rfl, rfl, rfl, rfl, fun _ => rfl⟩
    | whole a c b =>
      simp only [etagPhaseX, etagPhase]
      split
      · exact hfin _ _ (hsv _ _)
      · exact ⟨rfl, rfl, rfl, rfl, fun _ => rfl⟩
      · exact ⟨rfl, rfl, rfl, rfl, fun _ => rfl⟩
    | single a b t c bd =>
      simp only [etagPhaseX, etagPhase]
      split
      · exact hfin _ _ (hsv _ _)
      · exact ⟨rfl, rfl, rfl, rfl, fun _ => rfl⟩
      · exact ⟨rfl, rfl, rfl, rfl, fun _ => rfl⟩
    | multi ps =>
      simp only [etagPhaseX, etagPhase]
      split
      · exact hfin _ _ (hsv _ _)
      · exact ⟨rfl, rfl, rfl, rfl, fun _ => rfl⟩
      · exact ⟨rfl, rfl, rfl, rfl, fun _ => rfl⟩

/-! ### handlers that choose 304 / 412 themselves -/

/-- `validate_since` on a response that already is 304: If-Unmodified-Since is not looked at, a matching
    If-Modified-Since re-raises 304 (412 for other methods) -/
theorem since_on_304 (lm : Option Text) (gh : Bool) (ius ims : Option Text) :
    validateSince lm 304 gh ius ims = if sinceHolds lm ims then nmVerdict gh else .pass := by
  unfold validateSince sinceHolds nmVerdict
  cases hl : truthy lm <;> simp [is2xx]

/-- … and on a response that already is 412: only a failing If-Unmodified-Since re-raises (412) -/
theorem since_on_412 (lm : Option Text) (gh : Bool) (ius ims : Option Text) :
    validateSince lm 412 gh ius ims = if sinceFails lm ius then .precondFailed else .pass := by
  unfold validateSince sinceFails
  cases hl : truthy lm <;> simp [is2xx]

/-- a handler that answers 304 or 412 by itself gets 304 or 412, whatever its script does -/
theorem flow_handler_304_412 (r : ReqX) (hk : r.base.kind = .gen)
    (hb : r.base.baseStatus = 304 ∨ r.base.baseStatus = 412) :
    (respondX r).status = 304 ∨ (respondX r).status = 412 := by
  rw [flow_gen_run r hk]
  unfold outcome
  split
  · rename_i v e _
    cases v <;> simp [conditionalResp]
  · simpa [plainRespX_status] using hb

/-- **whenever a step raises, the entity is gone** — whoever chose the status before, streamed or not: the
    response body is empty (304, HEAD) or the error page (412), never the handler's body -/
theorem flow_raise_discards_entity (r : ReqX) (hk : r.base.kind = .gen) (v : Verdict) (e : Option Text)
    (h : runScript r (fullScript r) (initState r) = .raised v e) :
    (respondX r).body = .empty ∨ (respondX r).body = .errorPage := by
  rw [flow_gen_run r hk, h]
  unfold outcome finish
  simp only
  split
  · exact Or.inl rfl
  · cases v <;> simp [conditionalResp]

/-- **If-Range is ignored**: whatever the header says (a matching or a stale entity tag, a date, garbage), the
    answer is the same — in particular a satisfiable Range still yields its 206 (compared on every run with the
    real code, which never reads the header) -/
theorem respondX_ignores_ifRange (r : ReqX) (x : Option Text) : respondX { r with ifRange := x } = respondX r := by
  have h1 : ∀ s e, servedRespX { r with ifRange := x } s e = servedRespX r s e := by
    intro s e; cases s <;> rfl
  have h2 : ∀ st e, plainRespX { r with ifRange := x } st e = plainRespX r st e := fun _ _ => rfl
  have h3 : ∀ o, outcome { r with ifRange := x } o = outcome r o := by
    intro o; cases o <;> rfl
  cases hk : r.base.kind
  · simp only [respondX, hk, etagPhaseX]
    have e1 : servedRespX { r with ifRange := x } = servedRespX r := by funext s e; exact h1 s e
    have e2 : plainRespX { r with ifRange := x } = plainRespX r := by funext s e; exact h2 s e
    rw [e1, e2]
  · simp only [respondX, hk, h3, fullScript, initState, runScript_ifRange]

/-! ### from the raw header texts to the response -/

theorem etagPhase_congr (b b' : Req) (st : Nat) (ok : Option Text → Resp)
    (hs : b.etagsOn = b'.etagsOn ∧ b.handlerEtag = b'.handlerEtag ∧ b.autotags = b'.autotags ∧
      b.autoTag = b'.autoTag ∧ b.getHead = b'.getHead ∧ b.isHead = b'.isHead)
    (hv : ∀ e st', validateEtags e st' b.getHead b.im b.inm = validateEtags e st' b'.getHead b'.im b'.inm) :
    etagPhase b st ok = etagPhase b' st ok := by
  obtain ⟨h1, h2, h3, h4, h5, h6⟩ := hs
  unfold etagPhase etagOf finish
  simp only [hv, h1, h2, h3, h4, h6]

/-- the request with its If-Match / If-None-Match lists replaced -/
def withConds (r : ReqX) (im inm : List Text) : ReqX := { r with base := { r.base with im := im, inm := inm } }

theorem runStep_conds_perm (r : ReqX) {im im' inm inm' : List Text} (h1 : im.Perm im') (h2 : inm.Perm inm')
    (st : HState) (s : Step) : runStep (withConds r im inm) st s = runStep (withConds r im' inm') st s := by
  cases s with
  | body => rfl
  | since => rfl
  | etags auto =>
    simp only [runStep, withConds]
    split
    · rfl
    · rw [validateEtags_perm _ _ _ h1 h2]

theorem runScript_conds_perm (r : ReqX) {im im' inm inm' : List Text} (h1 : im.Perm im') (h2 : inm.Perm inm')
    (ss : List Step) (st : HState) :
    runScript (withConds r im inm) ss st = runScript (withConds r im' inm') ss st := by
  induction ss generalizing st with
  | nil => rfl
  | cons s ss ih => simp only [runScript, runStep_conds_perm r h1 h2, ih]

/-- **the response depends on the If-Match / If-None-Match lists only up to their order** -/
theorem respondX_conds_perm (r : ReqX) {im im' inm inm' : List Text} (h1 : im.Perm im') (h2 : inm.Perm inm') :
    respondX (withConds r im inm) = respondX (withConds r im' inm') := by
  cases hk : r.base.kind
  · -- file: only `tools.etags` (etagPhase) looks at the lists
    have hh : handler (withConds r im inm).base = handler (withConds r im' inm').base := by
      simp [handler, withConds, hk]
    have hp : ∀ st ok, etagPhase (withConds r im inm).base st ok = etagPhase (withConds r im' inm').base st ok :=
      fun st ok => etagPhase_congr _ _ st ok ⟨rfl, rfl, rfl, rfl, rfl, rfl⟩
        (fun e st' => validateEtags_perm e st' _ h1 h2)
    simp only [respondX, show (withConds r im inm).base.kind = .file from hk,
      show (withConds r im' inm').base.kind = .file from hk, etagPhaseX, hp, hh]
    rfl
  · simp only [respondX, show (withConds r im inm).base.kind = .gen from hk,
      show (withConds r im' inm').base.kind = .gen from hk]
    have hf : fullScript (withConds r im inm) = fullScript (withConds r im' inm') := rfl
    have hi : initState (withConds r im inm) = initState (withConds r im' inm') := rfl
    rw [hf, hi, runScript_conds_perm r h1 h2]
    cases runScript (withConds r im' inm') (fullScript (withConds r im' inm')) (initState (withConds r im' inm')) <;> rfl

/-- **End to end from the header texts**: the answer computed from `request.headers.elements(...)` (sorted,
    reversed) is the answer computed from the elements in header order — on parameter-free values: from the
    plain comma-outside-quotes split -/
theorem respondX_from_header_texts (r : ReqX) (imText inmText : Option Text) :
    respondX (withConds r (CpModel.CondElements.elementsFull imText) (CpModel.CondElements.elementsFull inmText)) =
      respondX (withConds r (unsorted imText) (unsorted inmText)) :=
  respondX_conds_perm r (elementsFull_perm imText) (elementsFull_perm inmText)

theorem respondX_from_plain_texts (r : ReqX) (imText inmText : Option Text)
    (h1 : ∀ s, imText = some s → ';' ∉ s) (h2 : ∀ s, inmText = some s → ';' ∉ s) :
    respondX (withConds r (CpModel.CondElements.elementsFull imText) (CpModel.CondElements.elementsFull inmText)) =
      respondX (withConds r (elementsSimple imText) (elementsSimple inmText)) := by
  rw [respondX_from_header_texts, parsed_plain imText h1, parsed_plain inmText h2]

/-! ### non-vacuity -/

def flowExample : ReqX :=
  ⟨{ kind := .gen, getHead := true, isHead := false, proto11 := true, lenKnown := true,
     baseStatus := 200, callSince := false, etagsOn := false, autotags := false, handlerEtag := none,
     autoTag := "\"t\"".toList, lastmod := some "D".toList, im := [], inm := ["\"t\"".toList],
     ims := some "D".toList, ius := none, range := none, content := [1, 2, 3] },
   true, [.body, .etags true, .since], "\"e\"".toList, none⟩

-- a streamed handler that validates after producing its body: 304, nothing delivered
example : respondX flowExample = ⟨304, none, none, some "\"t\"".toList, .empty⟩ := by decide
example : dictatedFlow flowExample = true := by decide
-- the first etags evaluation is the only one: a non-auto call first, then the tool's autotags never happen
example : (respondX { flowExample with script := [.etags false, .body],
                                        base := { flowExample.base with etagsOn := true, autotags := true, ims := none } }).status
    = 200 := by decide
-- nothing dictated: the full entity, streamed without Content-Length
example : respondX { flowExample with base := { flowExample.base with inm := [], ims := none } } =
    ⟨200, none, none, some "\"t\"".toList, .bytes [1, 2, 3]⟩ := by decide
example : dictatedFlow { flowExample with base := { flowExample.base with inm := [], ims := none } } = false := by
  decide
-- POST: the same validators answer 412
example : (respondX { flowExample with base := { flowExample.base with getHead := false } }).status = 412 := by decide
-- autotags before the body exists hashes the empty body
example : (respondX { flowExample with script := [.etags true], base := { flowExample.base with inm := ["\"e\"".toList] } }).status
    = 304 := by decide
example : (respondX streamed304).body = .empty := by decide
example : respondX (lift reqExample []) = respond reqExample := respondX_legacy _ _

end CpProofs.C16
