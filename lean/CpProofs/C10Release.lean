import CpModel.Isolation
import CpModel.IsolationRelease
import CpModel.Gen.C10Tables
import CpProofs.C10
/-!
  C10: the release protocol under faults, the thread-local container, internal redirects.

  * `release_serving` as a structured program: the try/finally nesting (`repairedProg`) empties the thread's
    container and closes the request WHATEVER the two callbacks do; the method as of repo ba474ca (`headProg`)
    did so exactly when the `after_request` listeners return and `close()` ends normally or with an `Exception`
    (`C10_release_head_partial`), and not otherwise (`C10_release_head_not_full`, finding F24, fixed); with `clear()`
    inside the `try` (`seededProg`, seeded change C10-3) a failing hook is enough.
  * The behaviour of the live method under all nine fault plans is measured on every run
    (`Gen.C10.releaseTable`); `gen_release_repaired` ties it to the try/finally transcription, `gen_release_full`
    is the obligation at full strength (repo ed63972 repaired finding F24; the model mirrors the repaired code).
  * `_Serving(_local)`: `load` / `clear` / `setattr` of one thread do not touch another thread's view; after
    `clear` a thread sees the class-level defaults again; `load` alone keeps ad-hoc attributes (why release must
    `clear`).
  * Internal redirect: the sub-request's collections are fresh cells, the parent's writes are invisible to it.
-/
namespace CpProofs.C10
open CpModel.Isolation CpModel.IsolationRelease

/-- The full-strength statement about a release protocol: whatever the outcome of the listeners and of
    `close()`, afterwards (whether the method returns or raises) the container is empty and the request closed. -/
def C10_release_full (prog : Stmt) : Prop :=
  ∀ p : Plan, (behaviour prog p).cleared = true ∧ (behaviour prog p).closed = true

theorem plan_cases (P : Plan → Prop)
    (h : ∀ a ∈ Out.all, ∀ b ∈ Out.all, P ⟨a, b⟩) : ∀ p, P p := by
  intro ⟨a, b⟩
  exact h a (Out.mem_all a) b (Out.mem_all b)

/-- try/finally nesting: full strength. -/
theorem C10_release_repaired_full : C10_release_full repairedProg := by
  apply plan_cases
  decide

/-- The exception that reaches the caller under the try/finally nesting is the one that was raised: a listener
    failure still propagates, an `Exception` from `close()` alone is logged and swallowed. -/
theorem C10_release_repaired_raises (p : Plan) :
    (behaviour repairedProg p).raised = (if p.close = .base then .base else p.pub) := by
  revert p
  apply plan_cases
  decide

/-- The method as of ba474ca: partial. -/
theorem C10_release_head_partial (p : Plan) (h : p.ordinary = true) :
    (behaviour headProg p).cleared = true ∧ (behaviour headProg p).closed = true ∧ (behaviour headProg p).raised = .ok := by
  revert p
  apply plan_cases
  decide

/-- ... and not full: a failing `after_request` listener leaves everything in place and skips `close()`. -/
theorem C10_release_head_not_full : ¬ C10_release_full headProg := by
  intro h
  have := (h ⟨.exc, .ok⟩).1
  revert this
  decide

theorem C10_release_head_listener_failure :
    behaviour headProg ⟨.exc, .ok⟩ = { cleared := false, closed := false, raised := .exc } := by decide

/-- `clear()` inside the `try` (seeded change C10-3): an `on_end_request` hook that raises an ordinary
    `Exception` leaves the container loaded, silently. -/
theorem C10_release_clear_inside_try_leaks :
    behaviour seededProg ⟨.ok, .exc⟩ = { cleared := false, closed := true, raised := .ok } := by decide

/-! ### the live method -/

/-- The measured behaviour of the live method is that of the try/finally transcription, on all nine plans. -/
theorem gen_release_repaired : CpModel.Gen.C10.releaseTable.agrees repairedProg = true := by decide

/-- **The obligation on the code, at full strength**: whatever the `after_request` listeners and `close()` do
    (return, raise an `Exception`, raise another `BaseException`), after `release_serving` returns or raises the
    thread's container is empty and the request has been closed. -/
theorem gen_release_full (p : Plan) :
    (CpModel.Gen.C10.releaseTable p.pub p.close).cleared = true ∧ (CpModel.Gen.C10.releaseTable p.pub p.close).closed = true := by
  revert p
  apply plan_cases
  decide

/-- For the plans of the statement (listeners fine, hooks end normally or with an `Exception`) nothing is raised. -/
theorem gen_release_ordinary (p : Plan) (h : p.ordinary = true) :
    CpModel.Gen.C10.releaseTable p.pub p.close = { cleared := true, closed := true, raised := .ok } := by
  revert p
  apply plan_cases
  decide

/-! ### effect on the history model -/

/-- After a release whose observation says `cleared`, the thread holds no request and no ad-hoc attribute - so
    the next request of that thread starts clean (`C10_serving_attrs_clean` applies). -/
theorem C10_release_step_clears (lc : Lifecycle) (o : Obs) (h : o.cleared = true) (st : State) (t : Nat) :
    (releaseStep lc o st t).serving (key lc t) = none ∧ (releaseStep lc o st t).sattrs (key lc t) = [] := by
  simp [releaseStep, h, upd]

/-- ... and of no other thread's entry. -/
theorem C10_release_step_frame (lc : Lifecycle) (htl : lc.threadLocal = true) (o : Obs) (st : State) (t t' : Nat)
    (ne : t' ≠ t) :
    (releaseStep lc o st t).serving (key lc t') = st.serving (key lc t') ∧
    (releaseStep lc o st t).sattrs (key lc t') = st.sattrs (key lc t') := by
  unfold releaseStep
  split <;> simp [upd, key, htl, ne]

/-- Under a protocol that is not full, there is a plan after which the thread still holds its request and its
    ad-hoc attributes: the next request loaded on that thread finds them. -/
theorem C10_release_leak_visible (lc : Lifecycle) (st : State) (t rid : Nat) (xs : List Nat)
    (hs : st.serving (key lc t) = some rid) (ha : st.sattrs (key lc t) = xs) :
    let o := behaviour headProg ⟨.exc, .ok⟩
    (releaseStep lc o st t).serving (key lc t) = some rid ∧ (releaseStep lc o st t).sattrs (key lc t) = xs := by
  simp [releaseStep, C10_release_head_listener_failure, hs, ha]

/-! ### the thread-local container -/

theorem aget_aerase_self (d : ADict) (a : Nat) : aget (aerase d a) a = none := by
  induction d with
  | nil => rfl
  | cons kv r ih =>
    obtain ⟨k, v⟩ := kv
    simp only [aerase]
    split
    · exact ih
    · rename_i hne
      simp [aget, hne, ih]

theorem aget_aerase_ne (d : ADict) (a b : Nat) (ne : b ≠ a) : aget (aerase d a) b = aget d b := by
  induction d with
  | nil => rfl
  | cons kv r ih =>
    obtain ⟨k, v⟩ := kv
    simp only [aerase]
    split
    · rename_i hk
      have : k ≠ b := by omega
      simp [aget, this, ih]
    · simp only [aget, ih]

theorem aget_aset_self (d : ADict) (a v : Nat) : aget (aset d a v) a = some v := by
  simp [aset, aget]

theorem aget_aset_ne (d : ADict) (a b v : Nat) (ne : b ≠ a) : aget (aset d a v) b = aget d b := by
  have : a ≠ b := fun h => ne h.symm
  simp [aset, aget, this, aget_aerase_ne d a b ne]

/-- What thread `t` does (`load`, `clear`, `setattr`) is invisible to thread `t'`. -/
theorem C10_local_frame (s : LServing) (t t' a : Nat) (ne : t' ≠ t) (rq rs b v : Nat) :
    (s.load t rq rs).getattr t' a = s.getattr t' a ∧ (s.clear t).getattr t' a = s.getattr t' a ∧
    (s.setattr t b v).getattr t' a = s.getattr t' a := by
  simp [LServing.load, LServing.clear, LServing.setattr, LServing.getattr, ne]

/-- After `load` the thread sees the loaded objects; `released_show_tracebacks` is gone. -/
theorem C10_local_load (s : LServing) (t rq rs : Nat) :
    (s.load t rq rs).getattr t 0 = some rq ∧ (s.load t rq rs).getattr t 1 = some rs ∧
    (s.load t rq rs).getattr t 2 = s.dflt 2 := by
  refine ⟨?_, ?_, ?_⟩
  · simp [LServing.load, LServing.getattr, aget_aset_ne, aget_aset_self]
  · simp [LServing.load, LServing.getattr, aget_aset_self]
  · simp [LServing.load, LServing.getattr, aget_aset_ne, aget_aerase_self]

/-- `load` alone keeps every ad-hoc attribute of the thread: the previous request's marks stay visible unless the
    release cleared them. -/
theorem C10_local_load_keeps_adhoc (s : LServing) (t rq rs a : Nat) (h : 3 ≤ a) :
    (s.load t rq rs).getattr t a = s.getattr t a := by
  have h0 : a ≠ 0 := by omega
  have h1 : a ≠ 1 := by omega
  have h2 : a ≠ 2 := by omega
  simp [LServing.load, LServing.getattr, aget_aset_ne _ _ _ _ h1, aget_aset_ne _ _ _ _ h0, aget_aerase_ne _ _ _ h2]

/-- After `clear` the thread sees the class-level defaults (the default request / response objects) and owns
    no attribute at all. -/
theorem C10_local_clear (s : LServing) (t a : Nat) :
    (s.clear t).getattr t a = s.dflt a ∧ (s.clear t).names t = [] := by
  simp [LServing.clear, LServing.getattr, LServing.names, aget]

/-- Internal redirect on the container (`release_serving`, then `get_serving` on the same thread): the thread
    owns exactly the sub-request's request and response; no attribute of the parent - ad hoc or not - is left. -/
theorem C10_local_redirect (s : LServing) (t rq rs : Nat) :
    ((s.clear t).load t rq rs).names t = [1, 0] ∧
    ((s.clear t).load t rq rs).getattr t 0 = some rq ∧ ((s.clear t).load t rq rs).getattr t 1 = some rs ∧
    ∀ a, 2 ≤ a → ((s.clear t).load t rq rs).getattr t a = s.dflt a := by
  refine ⟨?_, ?_, ?_, ?_⟩
  · simp [LServing.clear, LServing.load, LServing.names, aset, aerase]
  · exact (C10_local_load _ t rq rs).1
  · exact (C10_local_load _ t rq rs).2.1
  · intro a ha
    have h0 : ¬ (0 = a) := by omega
    have h1 : ¬ (1 = a) := by omega
    simp [LServing.clear, LServing.load, LServing.getattr, aset, aerase, aget, h0, h1]

/-- What a thread set is what it reads back. -/
theorem C10_local_setattr (s : LServing) (t a v : Nat) : (s.setattr t a v).getattr t a = some v := by
  simp [LServing.setattr, LServing.getattr, aget_aset_self]

/-! ### internal redirect: release, then a new request on the same thread -/

/-- `InternalRedirect`: the parent is released and the sub-request is built and loaded on the same thread.  Under a
    good table every attribute of the sub-request denotes a cell of the sub-request (a different request number
    than the parent's), whatever the parent did before; its initial observation is a function of site and URL
    (`C10_history_independent` applies to the prefix `… ++ [done t]`). -/
theorem C10_redirect_fresh {p : Params} (g : Good p) (h0 : Heap) (es : List Ev) (t u' : Nat) (s : Slot) :
    let st := run p (State.init h0) (es ++ [.done t])
    let st' := step p st (.begin t u')
    st'.serving (key p.lc t) = some st.next ∧
    target p st' t s = some (.obj st.next (root p.tbl s)) := by
  intro st st'
  have hs : st'.serving (key p.lc t) = some st.next := by
    simp [st', step, upd]
  refine ⟨hs, ?_⟩
  simp only [target, hs]
  rw [(cellOf_root g.tbl st.next s).1]

end CpProofs.C10
