import CpProofs.C03Split
/-!
  C03, query string: every per-character percent/plus encoding of every text is undone by urllib's
  `unquote_plus(…, errors='strict')` as transcribed in `CpModel.UrlEnc` (ASCII runs decoded
  separately, non-ASCII characters passed through), for every ASCII-compatible codec with a
  round-trip law.
-/
namespace CpProofs.C03
open CpModel.UrlEnc

/-- A charset usable in a query string: the round-trip law, plus compatibility with the way
    `unquote` cuts the string into ASCII runs (concatenation, ASCII is itself). -/
structure AsciiCodec extends Codec where
  enc_nil : enc [] = []
  enc_append : ∀ a b, enc (a ++ b) = enc a ++ enc b
  enc_ascii : ∀ c, isAscii c = true → enc [c] = [charByte c]

/-! ### hex digits as characters -/

def hexDigitC (u : Bool) (n : Nat) : Char := Char.ofNat (hexDigitB u n).toNat

theorem hexDigitC_fin : ∀ (u : Bool) (n : Fin 16),
    charByte (hexDigitC u n.val) = hexDigitB u n.val ∧ isAscii (hexDigitC u n.val) = true ∧
    hexDigitC u n.val ≠ '+' ∧ hexDigitC u n.val ≠ '%' ∧ hexDigitC u n.val ≠ '&' ∧
    hexDigitC u n.val ≠ ';' ∧ hexDigitC u n.val ≠ '=' := by
  decide

theorem hexDigitC_facts (u : Bool) (n : Nat) (h : n < 16) :
    charByte (hexDigitC u n) = hexDigitB u n ∧ isAscii (hexDigitC u n) = true ∧
    hexDigitC u n ≠ '+' ∧ hexDigitC u n ≠ '%' ∧ hexDigitC u n ≠ '&' ∧
    hexDigitC u n ≠ ';' ∧ hexDigitC u n ≠ '=' :=
  hexDigitC_fin u ⟨n, h⟩

theorem charByte_ne_pct (c : Char) (h : isAscii c = true) (hc : c ≠ '%') : charByte c ≠ 0x25 := by
  intro e
  apply hc
  have h1 : c.toNat < 128 := by simpa [isAscii] using h
  have h2 : c.toNat = 37 := by
    have := congrArg UInt8.toNat e
    simp [charByte] at this
    omega
  rw [← Char.ofNat_toNat c, h2]

/-! ### encoding styles for one character of a query string -/

/-- How a client may write one character: literally (raw UTF-8 for a non-ASCII one), as `+`
    (a space only), or as `%XY` for every byte of its encoding, with any case for every hex digit
    (`up i` = digit `i` is upper case). -/
inductive CStyle where
  | lit
  | plus
  | pct (up : Nat → Bool)

/-- `%XY%XY…` for the bytes `bs`; `i` counts the bytes already written (for the case function). -/
def pctText (up : Nat → Bool) : Nat → Bytes → Text
  | _, [] => []
  | i, b :: bs =>
    '%' :: hexDigitC (up (2 * i)) (b.toNat / 16) :: hexDigitC (up (2 * i + 1)) (b.toNat % 16)
      :: pctText up (i + 1) bs

def encChar (C : Codec) : Char × CStyle → Text
  | (c, .lit) => [c]
  | (_, .plus) => ['+']
  | (c, .pct up) => pctText up 0 (C.enc [c])

/-- Admissible: the five reserved characters `% + & ; =` are never literal; `+` means space. -/
def CStyleOk : Char × CStyle → Prop
  | (c, .lit) => c ≠ '%' ∧ c ≠ '+' ∧ c ≠ '&' ∧ c ≠ ';' ∧ c ≠ '='
  | (c, .plus) => c = ' '
  | (_, .pct _) => True

def encText (C : Codec) (l : List (Char × CStyle)) : Text := l.flatMap (encChar C)

def plainText (l : List (Char × CStyle)) : Text := l.map (·.1)

theorem encText_cons (C : Codec) (x : Char × CStyle) (l : List (Char × CStyle)) :
    encText C (x :: l) = encChar C x ++ encText C l := by
  simp [encText]

theorem encText_append (C : Codec) (a b : List (Char × CStyle)) :
    encText C (a ++ b) = encText C a ++ encText C b := by
  simp [encText]

/-! ### facts about `%XY…` pieces -/

theorem pctText_ascii (up : Nat → Bool) (i : Nat) (bs : Bytes) : ∀ c ∈ pctText up i bs, isAscii c = true := by
  induction bs generalizing i with
  | nil => simp [pctText]
  | cons b bs ih =>
    have hn := nibble_lt b
    intro c hc
    simp only [pctText, List.mem_cons] at hc
    rcases hc with rfl | rfl | rfl | hc
    · decide
    · exact (hexDigitC_facts _ _ hn.1).2.1
    · exact (hexDigitC_facts _ _ hn.2).2.1
    · exact ih _ c hc

/-- A `%XY…` piece contains none of `+ & ; =`. -/
theorem pctText_safe (up : Nat → Bool) (i : Nat) (bs : Bytes) :
    ∀ c ∈ pctText up i bs, c ≠ '+' ∧ c ≠ '&' ∧ c ≠ ';' ∧ c ≠ '=' := by
  induction bs generalizing i with
  | nil => simp [pctText]
  | cons b bs ih =>
    have hn := nibble_lt b
    intro c hc
    simp only [pctText, List.mem_cons] at hc
    rcases hc with rfl | rfl | rfl | hc
    · decide
    · have := hexDigitC_facts (up (2 * i)) _ hn.1
      exact ⟨this.2.2.1, this.2.2.2.2.1, this.2.2.2.2.2.1, this.2.2.2.2.2.2⟩
    · have := hexDigitC_facts (up (2 * i + 1)) _ hn.2
      exact ⟨this.2.2.1, this.2.2.2.2.1, this.2.2.2.2.2.1, this.2.2.2.2.2.2⟩
    · exact ih _ c hc

/-- `_unquote_impl` turns `%XY%XY…` (any hex case) back into the bytes, whatever follows. -/
theorem unquote_pctText (up : Nat → Bool) (i : Nat) (bs rest : Bytes) :
    pctJoin fixItemT ((pctText up i bs).map charByte ++ rest) = bs ++ pctJoin fixItemT rest := by
  induction bs generalizing i with
  | nil => simp [pctText]
  | cons b bs ih =>
    have hn := nibble_lt b
    have f1 := hexDigitC_facts (up (2 * i)) _ hn.1
    have f2 := hexDigitC_facts (up (2 * i + 1)) _ hn.2
    have s1 := hexDigitB_safe (up (2 * i)) _ hn.1
    have s2 := hexDigitB_safe (up (2 * i + 1)) _ hn.2
    have e0 : charByte '%' = 0x25 := by decide
    simp only [pctText, List.map_cons, List.cons_append, f1.1, f2.1, e0]
    rw [pctJoin_escape _ _ _ b _ s1.1 s2.1 (fixItemT_hex b _ _), ih]

/-! ### the ASCII runs -/

/-- The pieces that end up inside an ASCII run: `%XY…` and literal ASCII characters. -/
def RunPiece : Char × CStyle → Prop
  | (c, .lit) => isAscii c = true ∧ c ≠ '%'
  | (_, .plus) => False
  | (_, .pct _) => True

/-- Unquoting the bytes of an ASCII run gives the codec's encoding of the characters it stands for. -/
theorem unquoteImpl_run (C : AsciiCodec) (pre : List (Char × CStyle)) (h : ∀ x ∈ pre, RunPiece x) :
    unquoteImpl ((encText C.toCodec pre).map charByte) = C.enc (plainText pre) := by
  rw [unquoteImpl_eq]
  induction pre with
  | nil => simp [encText, plainText, pctJoin_nil, C.enc_nil]
  | cons x pre ih =>
    obtain ⟨c, st⟩ := x
    have hx := h (c, st) (by simp)
    have ih := ih (fun y hy => h y (by simp [hy]))
    have hsplit : C.enc (plainText ((c, st) :: pre)) = C.enc [c] ++ C.enc (plainText pre) := by
      have : plainText ((c, st) :: pre) = [c] ++ plainText pre := by simp [plainText]
      rw [this, C.enc_append]
    rw [encText_cons, List.map_append, hsplit]
    cases st with
    | lit =>
      simp only [RunPiece] at hx
      simp only [encChar, List.map_cons, List.map_nil, List.cons_append, List.nil_append]
      rw [pctJoin_cons_ne _ _ _ (charByte_ne_pct c hx.1 hx.2), ih, C.enc_ascii c hx.1]
      rfl
    | plus => exact absurd hx (by simp [RunPiece])
    | pct up =>
      simp only [encChar]
      rw [unquote_pctText, ih]

/-- Reading a stretch of ASCII characters only extends the current run. -/
theorem unquoteGo_ascii (dec : Bytes → Option Text) (a run s : Text) (h : ∀ c ∈ a, isAscii c = true) :
    unquoteGo dec run (a ++ s) = unquoteGo dec (a.reverse ++ run) s := by
  induction a generalizing run with
  | nil => simp
  | cons c a ih =>
    have hc := h c (by simp)
    have ha := ih (c :: run) (fun d hd => h d (by simp [hd]))
    simp only [List.cons_append, unquoteGo, hc, if_true, ha, List.reverse_cons, List.append_assoc,
      List.nil_append]

theorem dec_nil (C : AsciiCodec) : C.dec [] = some [] := by
  have := C.rt [] (by simp)
  rwa [C.enc_nil] at this

/-- At the end of a run the decoded run is exactly the characters it stands for. -/
theorem flushRun_run (C : AsciiCodec) (pre : List (Char × CStyle)) (h : ∀ x ∈ pre, RunPiece x)
    (hok : ∀ x ∈ pre, C.ok x.1) :
    flushRun C.dec (encText C.toCodec pre).reverse = some (plainText pre) := by
  have hq := unquoteImpl_run C pre h
  have hrt := C.rt (plainText pre) (by
    intro c hc
    simp only [plainText, List.mem_map] at hc
    obtain ⟨x, hx, rfl⟩ := hc
    exact hok x hx)
  unfold flushRun
  by_cases he : encText C.toCodec pre = []
  · simp only [he, List.reverse_nil, List.isEmpty_nil, if_true]
    rw [he] at hq
    simp only [List.map_nil] at hq
    have h0 : unquoteImpl [] = [] := by simp [unquoteImpl_eq, pctJoin_nil]
    rw [h0] at hq
    rw [← hq, dec_nil C] at hrt
    exact hrt
  · have : (encText C.toCodec pre).reverse.isEmpty = false := by
      cases hr : (encText C.toCodec pre).reverse with
      | nil => simp at hr; exact absurd hr he
      | cons _ _ => rfl
    simp only [this, Bool.false_eq_true, if_false, List.reverse_reverse, hq, hrt]

/-- No `+` style left (after the `+` → space replacement). -/
def NoPlus : Char × CStyle → Prop
  | (_, .plus) => False
  | _ => True

theorem runPiece_of (x : Char × CStyle) (hok : CStyleOk x) (hnp : NoPlus x)
    (hasc : ∀ c, x = (c, CStyle.lit) → isAscii c = true) : RunPiece x := by
  obtain ⟨c, st⟩ := x
  cases st with
  | lit => exact ⟨hasc c rfl, hok.1⟩
  | plus => exact absurd hnp (by simp [NoPlus])
  | pct up => trivial

/-- The scan of `_generate_unquoted_parts`, started inside a run that stands for `pre`. -/
theorem unquoteGo_styled (C : AsciiCodec) (l pre : List (Char × CStyle))
    (hl : ∀ x ∈ l, CStyleOk x ∧ NoPlus x ∧ C.ok x.1)
    (hpre : ∀ x ∈ pre, RunPiece x ∧ C.ok x.1) :
    unquoteGo C.dec (encText C.toCodec pre).reverse (encText C.toCodec l) =
      some (plainText pre ++ plainText l) := by
  induction l generalizing pre with
  | nil =>
    simp only [encText, List.flatMap_nil, unquoteGo, plainText, List.map_nil, List.append_nil]
    exact flushRun_run C pre (fun x hx => (hpre x hx).1) (fun x hx => (hpre x hx).2)
  | cons x l ih =>
    obtain ⟨c, st⟩ := x
    have hx := hl (c, st) (by simp)
    have hl' : ∀ y ∈ l, CStyleOk y ∧ NoPlus y ∧ C.ok y.1 := fun y hy => hl y (by simp [hy])
    rw [encText_cons]
    cases st with
    | plus => exact absurd hx.2.1 (by simp [NoPlus])
    | lit =>
      simp only [encChar, List.cons_append, List.nil_append, unquoteGo]
      by_cases hc : isAscii c = true
      · simp only [hc, if_true]
        have hpre' : ∀ y ∈ pre ++ [(c, CStyle.lit)], RunPiece y ∧ C.ok y.1 := by
          intro y hy
          simp only [List.mem_append, List.mem_singleton] at hy
          rcases hy with hy | rfl
          · exact hpre y hy
          · exact ⟨⟨hc, hx.1.1⟩, hx.2.2⟩
        have := ih (pre ++ [(c, CStyle.lit)]) hl' hpre'
        rw [encText_append] at this
        simp only [encText, List.flatMap_cons, List.flatMap_nil, encChar, List.append_nil,
          List.reverse_append, List.reverse_cons, List.reverse_nil, List.nil_append,
          List.singleton_append] at this
        simp only [encText]
        rw [this]
        simp [plainText]
      · simp only [hc, Bool.false_eq_true, if_false]
        rw [flushRun_run C pre (fun x hx => (hpre x hx).1) (fun x hx => (hpre x hx).2)]
        have := ih [] hl' (by simp)
        simp only [encText, List.flatMap_nil, List.reverse_nil, plainText, List.map_nil,
          List.nil_append] at this
        simp only [encText]
        rw [this]
        simp [plainText]
    | pct up =>
      simp only [encChar]
      rw [unquoteGo_ascii _ _ _ _ (pctText_ascii up 0 _)]
      have hpre' : ∀ y ∈ pre ++ [(c, CStyle.pct up)], RunPiece y ∧ C.ok y.1 := by
        intro y hy
        simp only [List.mem_append, List.mem_singleton] at hy
        rcases hy with hy | rfl
        · exact hpre y hy
        · exact ⟨trivial, hx.2.2⟩
      have := ih (pre ++ [(c, CStyle.pct up)]) hl' hpre'
      rw [encText_append] at this
      simp only [encText, List.flatMap_cons, List.flatMap_nil, encChar, List.append_nil,
        List.reverse_append] at this
      simp only [encText]
      rw [this]
      simp [plainText]

theorem enc_singleton_ne_nil (C : AsciiCodec) (c : Char) (hc : C.ok c) : C.enc [c] ≠ [] := by
  intro e
  have h1 := C.rt [c] (by simpa using hc)
  rw [e, dec_nil C] at h1
  simp at h1

theorem pctText_mem_pct (up : Nat → Bool) (i : Nat) (bs : Bytes) (h : bs ≠ []) : '%' ∈ pctText up i bs := by
  match bs, h with
  | b :: bs, _ => simp [pctText]

/-- Without any `%` in the encoded text nothing was escaped: the text is the plain text. -/
theorem encText_of_no_pct (C : AsciiCodec) (l : List (Char × CStyle))
    (hl : ∀ x ∈ l, CStyleOk x ∧ NoPlus x ∧ C.ok x.1) (h : '%' ∉ encText C.toCodec l) :
    encText C.toCodec l = plainText l := by
  induction l with
  | nil => rfl
  | cons x l ih =>
    obtain ⟨c, st⟩ := x
    have hx := hl (c, st) (by simp)
    rw [encText_cons, List.mem_append, not_or] at h
    have ih := ih (fun y hy => hl y (by simp [hy])) h.2
    rw [encText_cons, ih]
    cases st with
    | lit => simp [encChar, plainText]
    | plus => exact absurd hx.2.1 (by simp [NoPlus])
    | pct up =>
      exfalso
      exact h.1 (pctText_mem_pct up 0 _ (enc_singleton_ne_nil C c hx.2.2))

/-- `unquote(s, enc, 'strict')` on an encoding without `+` styles. -/
theorem unquoteText_styled (C : AsciiCodec) (l : List (Char × CStyle))
    (hl : ∀ x ∈ l, CStyleOk x ∧ NoPlus x ∧ C.ok x.1) :
    unquoteText C.dec (encText C.toCodec l) = some (plainText l) := by
  unfold unquoteText
  by_cases h : '%' ∈ encText C.toCodec l
  · have hc : (encText C.toCodec l).contains '%' = true := List.contains_iff_mem.2 h
    simp only [hc, if_true]
    have := unquoteGo_styled C l [] hl (by simp)
    simpa [encText, plainText] using this
  · have hc : (encText C.toCodec l).contains '%' = false := by
      cases hb : (encText C.toCodec l).contains '%' with
      | false => rfl
      | true => exact absurd (List.contains_iff_mem.1 hb) h
    rw [hc]
    simp only [Bool.false_eq_true, if_false]
    rw [encText_of_no_pct C l hl h]

/-! ### the `+` → space replacement -/

def normStyle : Char × CStyle → Char × CStyle
  | (_, .plus) => (' ', .lit)
  | x => x

theorem map_plus_pctText (up : Nat → Bool) (i : Nat) (bs : Bytes) :
    (pctText up i bs).map (fun c => if c = '+' then ' ' else c) = pctText up i bs := by
  have h := pctText_safe up i bs
  generalize pctText up i bs = t at h
  induction t with
  | nil => rfl
  | cons c t ih =>
    have hc := (h c (by simp)).1
    simp only [List.map_cons, hc, if_false]
    rw [ih (fun d hd => h d (by simp [hd]))]

theorem map_plus_encChar (C : Codec) (x : Char × CStyle) (hx : CStyleOk x) :
    (encChar C x).map (fun c => if c = '+' then ' ' else c) = encChar C (normStyle x) := by
  obtain ⟨c, st⟩ := x
  cases st with
  | lit => simp [encChar, normStyle, hx.2.1]
  | plus => simp [encChar, normStyle]
  | pct up => simp only [encChar, normStyle, map_plus_pctText]

theorem map_plus_encText (C : Codec) (l : List (Char × CStyle)) (hl : ∀ x ∈ l, CStyleOk x) :
    (encText C l).map (fun c => if c = '+' then ' ' else c) = encText C (l.map normStyle) := by
  induction l with
  | nil => rfl
  | cons x l ih =>
    rw [encText_cons, List.map_append, map_plus_encChar C x (hl x (by simp)),
      ih (fun y hy => hl y (by simp [hy]))]
    simp [encText]

theorem normStyle_facts (x : Char × CStyle) (hx : CStyleOk x) :
    CStyleOk (normStyle x) ∧ NoPlus (normStyle x) ∧ (normStyle x).1 = x.1 := by
  obtain ⟨c, st⟩ := x
  cases st with
  | lit => exact ⟨hx, trivial, rfl⟩
  | plus =>
    simp only [CStyleOk] at hx
    subst hx
    exact ⟨by simp [normStyle, CStyleOk], trivial, rfl⟩
  | pct up => exact ⟨trivial, trivial, rfl⟩

/-- **Character-level round trip**: for every text, every admissible per-character style and every
    ASCII-compatible round-tripping codec, `unquote_plus(…, 'strict')` returns exactly the text. -/
theorem query_unquote_styled (C : AsciiCodec) (l : List (Char × CStyle))
    (hl : ∀ x ∈ l, CStyleOk x ∧ C.ok x.1) :
    unquotePlusText C.dec (encText C.toCodec l) = some (plainText l) := by
  unfold unquotePlusText
  rw [map_plus_encText C.toCodec l (fun x hx => (hl x hx).1)]
  have hl' : ∀ y ∈ l.map normStyle, CStyleOk y ∧ NoPlus y ∧ C.ok y.1 := by
    intro y hy
    simp only [List.mem_map] at hy
    obtain ⟨x, hx, rfl⟩ := hy
    have := normStyle_facts x (hl x hx).1
    exact ⟨this.1, this.2.1, by rw [this.2.2]; exact (hl x hx).2⟩
  rw [unquoteText_styled C _ hl']
  congr 1
  simp only [plainText, List.map_map]
  apply List.map_congr_left
  intro x hx
  exact (normStyle_facts x (hl x hx).1).2.2

/-- The encoded text of a key or value contains none of the separators `& ; =`. -/
theorem encText_safe (C : Codec) (l : List (Char × CStyle)) (hl : ∀ x ∈ l, CStyleOk x) :
    '&' ∉ encText C l ∧ ';' ∉ encText C l ∧ '=' ∉ encText C l := by
  induction l with
  | nil => simp [encText]
  | cons x l ih =>
    have ih := ih (fun y hy => hl y (by simp [hy]))
    have hx := hl x (by simp)
    rw [encText_cons]
    simp only [List.mem_append, not_or]
    obtain ⟨c, st⟩ := x
    cases st with
    | lit =>
      simp only [encChar, List.mem_singleton]
      exact ⟨⟨fun e => hx.2.2.1 e.symm, ih.1⟩, ⟨fun e => hx.2.2.2.1 e.symm, ih.2.1⟩,
        ⟨fun e => hx.2.2.2.2 e.symm, ih.2.2⟩⟩
    | plus => simp [encChar, ih]
    | pct up =>
      have hs := pctText_safe up 0 (C.enc [c])
      simp only [encChar]
      exact ⟨⟨fun hm => (hs _ hm).2.1 rfl, ih.1⟩, ⟨fun hm => (hs _ hm).2.2.1 rfl, ih.2.1⟩,
        ⟨fun hm => (hs _ hm).2.2.2 rfl, ih.2.2⟩⟩

theorem encChar_ne_nil (C : AsciiCodec) (x : Char × CStyle) (hx : C.ok x.1) : encChar C.toCodec x ≠ [] := by
  obtain ⟨c, st⟩ := x
  cases st with
  | lit => simp [encChar]
  | plus => simp [encChar]
  | pct up =>
    simp only [encChar]
    have := enc_singleton_ne_nil C c hx
    match hb : C.enc [c], this with
    | b :: bs, _ => simp [pctText]

theorem encText_ne_nil (C : AsciiCodec) (l : List (Char × CStyle)) (hl : ∀ x ∈ l, C.ok x.1) (h : l ≠ []) :
    encText C.toCodec l ≠ [] := by
  match l, h with
  | x :: l, _ =>
    rw [encText_cons]
    intro e
    exact encChar_ne_nil C x (hl x (by simp)) (List.append_eq_nil_iff.1 e).1

end CpProofs.C03
