import CpProofs.C05Lemmas
/-!
  C05 — the request-body stream is exact, ordered and bounded.

  `CpModel.Reader` transcribes `SizedReader` (buffer, bytes_read, push-back, socket fragmentation,
  maxbytes, MaxSizeExceeded event).  `CpModel.Cursor` is the specification: a cursor over the
  declared body.  The theorems below hold for EVERY body, declared length (exact, shorter, longer,
  absent), buffer size ≥ 1, fragmentation plan, failure event and operation history.

  * `C05_step_refines`  one operation from any reachable state (invariant `Inv`) either raises 413
    or returns exactly the cursor's answer and advances the abstract rest by what it returned;
  * `C05_refines_cursor`  whole histories: the results up to the first 413 are a prefix of the
    cursor's results; error-free histories agree completely, and what they delivered followed by the
    undelivered rest is the declared body (each byte once, in order);
  * `C05_never_overreads`  the underlying stream offset never exceeds the declared length — after
    any history, errors included;
  * `C05_exhaustive`  `read()` after any error-free history returns the whole undelivered rest;
  * `C05_maxbytes_*`  with `maxbytes = m > 0`: never more than m bytes delivered; a body within
    the limit is never refused; a longer body read to the end is refused with 413;
  * `C05_readlines_nolength`, `C05_regression_F5`  the two repaired defects, now positive statements;
  * `C05_frag_independent`, `C05_never_fuel`, `C05_readline_n_quirk`.
-/
namespace CpProofs.C05
open CpModel.Reader CpModel.Cursor

/-- the declared body: what the application is entitled to -/
def avail (cfg : Cfg) (body : Bytes) : Bytes :=
  match cfg.length with
  | some L => body.take L
  | none => body

def outBytes : Out → Bytes
  | .bytes b => b
  | .lines ls => ls.flatten
  | _ => []

/-- everything a list of results handed to the application, in order -/
def delivered (rs : List Out) : Bytes := (rs.map outBytes).flatten

/-- results up to (not including) the first 413 -/
def okPrefix (rs : List Out) : List Out := rs.takeWhile (fun o => !(o == Out.err413))

theorem init_inv (cfg : Cfg) (body : Bytes) (frag : List Nat) (fa : Option Nat) :
    Inv cfg (init body frag fa) := ⟨rfl, fun _ _ => Nat.zero_le _⟩

theorem rest_init (cfg : Cfg) (body : Bytes) (frag : List Nat) (fa : Option Nat) :
    rest cfg (init body frag fa) = avail cfg body := by
  simp only [rest, tailOf, cap, init, avail, List.nil_append]
  cases cfg.length <;> simp

theorem total_init (cfg : Cfg) (body : Bytes) (frag : List Nat) (fa : Option Nat) :
    total cfg (init body frag fa) = (avail cfg body).length := by
  simp only [total, rest_init]; simp [init]

/-! ### one operation -/

theorem loopK_remaining (cfg : Cfg) (s : St) (size : Option Nat) (hi : Inv cfg s) :
    loopK (remainingOf cfg s size) (rest cfg s).length
      = readCount cfg.length.isSome size (rest cfg s).length := by
  have eR := rest_length cfg s
  cases hl : cfg.length with
  | none =>
    rw [remainingOf_none _ _ _ hl]
    cases size with
    | none => rfl
    | some k => cases k <;> simp [loopK, readCount]
  | some L =>
    have hc : cap cfg s = L - s.off := by simp [cap, hl]
    have := hi.acct
    have := hi.bound L hl
    have hle : (rest cfg s).length ≤ L - s.bytesRead := by omega
    unfold remainingOf
    rw [hl]
    cases size with
    | none => simp only [loopK, readCount]; omega
    | some k =>
      cases k with
      | zero => simp [loopK, readCount]; omega
      | succ k =>
        by_cases hk : k + 1 < L - s.bytesRead
        · have : (k + 1 ≠ 0 ∧ k + 1 < L - s.bytesRead) := ⟨by omega, hk⟩
          simp only
          rw [if_pos this]
          simp only [loopK, readCount]
        · have : ¬ (k + 1 ≠ 0 ∧ k + 1 < L - s.bytesRead) := fun h => hk h.2
          simp only
          rw [if_neg this]
          simp only [loopK, readCount]
          omega

theorem specStep_readline (hasLen : Bool) (R : Bytes) (n : Option Nat) (h : n ≠ some 0) :
    specStep hasLen R (.readline n) = (.bytes (takeLine R), (takeLine R).length) := by
  cases n with
  | none => rfl
  | some k => cases k with
    | zero => exact absurd rfl h
    | succ k => rfl

def StepPost (cfg : Cfg) (s : St) (op : Op) (p : Out × St) : Prop :=
  Inv cfg p.2 ∧ p.2.failAt.isSome = s.failAt.isSome ∧ total cfg p.2 = total cfg s ∧ p.1 ≠ .fuel ∧
  (Enough cfg s → Enough cfg p.2) ∧
  (p.1 = .err413 → over cfg p.2.bytesRead = true ∨ s.failAt.isSome = true) ∧
  (p.1 ≠ .err413 →
    p.1 = (specStep cfg.length.isSome (rest cfg s) op).1 ∧
    rest cfg p.2 = (rest cfg s).drop (specStep cfg.length.isSome (rest cfg s) op).2 ∧
    p.2.bytesRead = s.bytesRead + (specStep cfg.length.isSome (rest cfg s) op).2 ∧
    (over cfg s.bytesRead = false → over cfg p.2.bytesRead = false))

/-- **Refinement, one step.**  From any state satisfying the accounting invariant, every operation
    either raises 413 or returns exactly what the cursor returns and advances by exactly that much. -/
theorem C05_step_refines (cfg : Cfg) (hb : 1 ≤ cfg.bufsize) (s : St) (hi : Inv cfg s) (op : Op) :
    StepPost cfg s op (step cfg s op) := by
  unfold StepPost
  cases op with
  | read n =>
    have hp := read_post cfg hb s n hi
    simp only [step]
    generalize CpModel.Reader.read cfg s n = p at *
    obtain ⟨r, s1⟩ := p
    obtain ⟨i1, f1, t1, nf1, en1, er1, ok1⟩ := hp
    cases r with
    | fuel => exact absurd rfl nf1
    | err413 => exact ⟨i1, f1, t1, by simp, en1, fun _ => er1 rfl, by simp⟩
    | ok b =>
      obtain ⟨e1, e2, e3, _, e5⟩ := ok1 b rfl
      rw [loopK_remaining cfg s n hi] at e1 e2
      refine ⟨i1, f1, t1, by simp, en1, by simp, fun _ => ⟨?_, ?_, ?_, e5⟩⟩
      · simp only [specStep]; rw [e1]
      · simpa [specStep] using e2
      · simp only [specStep]; rw [e3, e1]; simp
        unfold readCount; split <;> (try split) <;> omega
  | readline n =>
    by_cases h0 : n = some 0
    · subst h0
      simp only [step, readline_zero]
      refine ⟨hi, by simp, by simp, by simp, fun h => h, by simp, fun _ => ⟨rfl, ?_, ?_, fun h => h⟩⟩
      · simp [specStep]
      · simp [specStep]
    · have hp := readline_post cfg hb s n hi h0
      simp only [step]
      generalize readline cfg s n = p at *
      obtain ⟨r, s1⟩ := p
      obtain ⟨i1, f1, t1, nf1, en1, er1, ok1⟩ := hp
      cases r with
      | fuel => exact absurd rfl nf1
      | err413 => exact ⟨i1, f1, t1, by simp, en1, fun _ => er1 rfl, by simp⟩
      | ok b =>
        obtain ⟨e1, e2, e3, _, e5, _⟩ := ok1 b rfl
        rw [specStep_readline _ _ _ h0]
        exact ⟨i1, f1, t1, by simp, en1, by simp, fun _ => ⟨by simpa using e1, e2, e3, e5⟩⟩
  | readlines h =>
    have hp := readlines_post cfg hb s h hi
    simp only [step]
    generalize readlines cfg s h = p at *
    obtain ⟨r, s1⟩ := p
    obtain ⟨i1, f1, t1, nf1, en1, er1, ok1⟩ := hp
    cases r with
    | fuel => exact absurd rfl nf1
    | err413 => exact ⟨i1, f1, t1, by simp, en1, fun _ => er1 rfl, by simp⟩
    | ok ls =>
      obtain ⟨ls', e1, e2, e3, e4, e5⟩ := ok1 ls rfl
      have := e2 ((rest cfg s).length + 1) (by omega)
      simp only [List.nil_append] at e1
      subst e1
      refine ⟨i1, f1, t1, by simp, en1, by simp, fun _ => ⟨?_, ?_, ?_, e5⟩⟩
      · simp only [specStep]; rw [← this]
      · simp only [specStep]; rw [← this]; exact e3
      · simp only [specStep]; rw [← this]; exact e4
  | next =>
    have hp := readline_post cfg hb s none hi (by simp)
    simp only [step]
    generalize readline cfg s none = p at *
    obtain ⟨r, s1⟩ := p
    obtain ⟨i1, f1, t1, nf1, en1, er1, ok1⟩ := hp
    cases r with
    | fuel => exact absurd rfl nf1
    | err413 => exact ⟨i1, f1, t1, by simp, en1, fun _ => er1 rfl, by simp⟩
    | ok b =>
      obtain ⟨e1, e2, e3, _, e5, _⟩ := ok1 b rfl
      simp only [List.nil_append] at e1
      simp only
      by_cases hbe : b.isEmpty = true
      · simp only [hbe, if_true]
        have hb0 : b = [] := by simpa using hbe
        have hR : rest cfg s = [] := (takeLine_eq_nil _).mp (by rw [← e1, hb0])
        refine ⟨i1, f1, t1, by simp, en1, by simp, fun _ => ⟨?_, ?_, ?_, e5⟩⟩
        · simp [specStep, hR]
        · rw [e2, hR]; simp [specStep]
        · rw [e3, hR]; simp [specStep, takeLine]
      · simp only [hbe, Bool.false_eq_true, if_false]
        have hRne : (rest cfg s).isEmpty = false := by
          cases hR : rest cfg s with
          | nil => rw [hR] at e1; simp [takeLine] at e1; simp [e1] at hbe
          | cons _ _ => rfl
        refine ⟨i1, f1, t1, by simp, en1, by simp, fun _ => ⟨?_, ?_, ?_, e5⟩⟩
        · simp [specStep, hRne, e1]
        · simpa [specStep, hRne] using e2
        · simpa [specStep, hRne] using e3


/-! ### whole histories -/

theorem takeLines_flatten : ∀ sf hint seen (R : Bytes),
    (takeLines sf hint seen R).flatten = R.take (takeLines sf hint seen R).flatten.length := by
  intro sf
  induction sf with
  | zero => intro hint seen R; simp [takeLines]
  | succ sf ih =>
    intro hint seen R
    simp only [takeLines]
    split
    · simp
    · split
      · simp [takeLine_prefix]
      · have := ih hint (seen + (takeLine R).length) (R.drop (takeLine R).length)
        simp only [List.flatten_cons, List.length_append]
        rw [List.take_add, takeLine_prefix, ← this]

theorem specStep_bytes (hasLen : Bool) (R : Bytes) (op : Op) :
    outBytes (specStep hasLen R op).1 = R.take (specStep hasLen R op).2 := by
  cases op with
  | read n => rfl
  | readline n =>
    by_cases h0 : n = some 0
    · subst h0; simp [specStep, outBytes]
    · rw [specStep_readline _ _ _ h0]; simp [outBytes, takeLine_prefix]
  | readlines h => simp only [specStep, outBytes]; exact takeLines_flatten _ _ _ _
  | next =>
    simp only [specStep]
    split
    · simp [outBytes]
    · simp [outBytes, takeLine_prefix]

theorem run_cons (cfg : Cfg) (s : St) (op : Op) (ops : List Op) :
    run cfg s (op :: ops) =
      ((step cfg s op).1 :: (run cfg (step cfg s op).2 ops).1, (run cfg (step cfg s op).2 ops).2) := rfl

theorem run_snoc (cfg : Cfg) (s : St) (ops : List Op) (op : Op) :
    run cfg s (ops ++ [op]) =
      ((run cfg s ops).1 ++ [(step cfg (run cfg s ops).2 op).1], (step cfg (run cfg s ops).2 op).2) := by
  induction ops generalizing s with
  | nil => rfl
  | cons o os ih => rw [List.cons_append, run_cons, run_cons, ih]; rfl

theorem specRun_cons (hasLen : Bool) (R : Bytes) (op : Op) (ops : List Op) :
    specRun hasLen R (op :: ops) =
      (specStep hasLen R op).1 :: specRun hasLen (R.drop (specStep hasLen R op).2) ops := rfl

theorem over_mono' (cfg : Cfg) (a b : Nat) (h : over cfg a = true) (hab : a ≤ b) : over cfg b = true := by
  cases hb : over cfg b with
  | true => rfl
  | false => have := over_mono cfg b a hb hab; rw [this] at h; cases h

theorem run_refines (cfg : Cfg) (hb : 1 ≤ cfg.bufsize) : ∀ ops s, Inv cfg s →
    Inv cfg (run cfg s ops).2 ∧ Out.fuel ∉ (run cfg s ops).1 ∧
    (run cfg s ops).2.failAt.isSome = s.failAt.isSome ∧
    total cfg (run cfg s ops).2 = total cfg s ∧
    okPrefix (run cfg s ops).1 <+: specRun cfg.length.isSome (rest cfg s) ops ∧
    ((∀ o ∈ (run cfg s ops).1, o ≠ Out.err413) →
        (run cfg s ops).1 = specRun cfg.length.isSome (rest cfg s) ops ∧
        delivered (run cfg s ops).1 ++ rest cfg (run cfg s ops).2 = rest cfg s ∧
        (run cfg s ops).2.bytesRead = s.bytesRead + (delivered (run cfg s ops).1).length ∧
        (over cfg s.bytesRead = false → over cfg (run cfg s ops).2.bytesRead = false)) ∧
    (s.failAt = none → over cfg (total cfg s) = false → ∀ o ∈ (run cfg s ops).1, o ≠ Out.err413) := by
  intro ops
  induction ops with
  | nil =>
    intro s hi
    refine ⟨hi, by simp [run], rfl, rfl, by simp [run, okPrefix, specRun], ?_, by simp [run]⟩
    intro _
    simp [run, specRun, delivered]
  | cons op ops ih =>
    intro s hi
    rw [run_cons, specRun_cons]
    obtain ⟨i1, f1, t1, nf1, _, er1, ok1⟩ := C05_step_refines cfg hb s hi op
    obtain ⟨j1, j2, j3, j4, j5, j6, j7⟩ := ih (step cfg s op).2 i1
    generalize step cfg s op = p at *
    obtain ⟨o, s1⟩ := p
    simp only at i1 f1 t1 nf1 er1 ok1 j1 j2 j3 j4 j5 j6 j7 ⊢
    refine ⟨j1, ?_, by rw [j3, f1], by rw [j4, t1], ?_, ?_, ?_⟩
    · simp only [List.mem_cons, not_or]; exact ⟨fun h => nf1 h.symm, j2⟩
    · by_cases he : o = Out.err413
      · subst he; simp [okPrefix]
      · obtain ⟨e1, e2, _, _⟩ := ok1 he
        have : okPrefix (o :: (run cfg s1 ops).1) = o :: okPrefix (run cfg s1 ops).1 := by
          simp [okPrefix, he]
        rw [this, List.cons_prefix_cons]
        rw [e2] at j5
        exact ⟨e1, j5⟩
    · intro hall
      have he : o ≠ Out.err413 := hall o (by simp)
      obtain ⟨e1, e2, e3, e4⟩ := ok1 he
      obtain ⟨k1, k2, k3, k4⟩ := j6 (fun o' ho' => hall o' (by simp [ho']))
      refine ⟨?_, ?_, ?_, fun hs => k4 (e4 hs)⟩
      · rw [k1, e2, ← e1]
      · have hbytes := specStep_bytes cfg.length.isSome (rest cfg s) op
        rw [← e1] at hbytes
        simp only [delivered, List.map_cons, List.flatten_cons] at k2 ⊢
        rw [List.append_assoc, k2, e2, hbytes, List.take_append_drop]
      · have hbytes := specStep_bytes cfg.length.isSome (rest cfg s) op
        rw [← e1] at hbytes
        simp only [delivered, List.map_cons, List.flatten_cons, List.length_append] at k3 ⊢
        have hlen : (outBytes o).length = (specStep cfg.length.isSome (rest cfg s) op).2 := by
          rw [hbytes, List.length_take]
          have : rest cfg s1 = _ := e2
          have hl := congrArg List.length this
          have hT : total cfg s1 = total cfg s := t1
          simp only [total] at hT
          simp only [List.length_drop] at hl
          omega
        rw [k3, e3, hlen]; omega
    · intro hfa hov o' ho'
      simp only [List.mem_cons] at ho'
      rcases ho' with rfl | ho'
      · intro he
        rcases er1 he with h | h
        · have hle : s1.bytesRead ≤ total cfg s := by rw [← t1]; simp [total]
          have := over_mono' cfg _ _ h hle
          rw [this] at hov; cases hov
        · rw [hfa] at h; cases h
      · have hfa1 : s1.failAt = none := by
          rw [hfa] at f1; cases h : s1.failAt with
          | none => rfl
          | some _ => rw [h] at f1; cases f1
        exact j7 hfa1 (by rw [t1]; exact hov) o' ho'


/-! ### the property theorems (initial state = fresh reader over `body`) -/

/-- **C05, refinement.**  For every configuration with `bufsize ≥ 1`, body, fragmentation plan,
    MaxSizeExceeded event and operation history: the results up to the first 413 are exactly the
    cursor's results over `body[:length]`; an error-free history agrees completely, and what it
    delivered followed by the undelivered rest is the declared body (every byte once, in order). -/
theorem C05_refines_cursor (cfg : Cfg) (hb : 1 ≤ cfg.bufsize) (body : Bytes) (frag : List Nat)
    (fa : Option Nat) (ops : List Op) :
    okPrefix (run cfg (init body frag fa) ops).1 <+: specRun cfg.length.isSome (avail cfg body) ops ∧
    ((∀ o ∈ (run cfg (init body frag fa) ops).1, o ≠ Out.err413) →
      (run cfg (init body frag fa) ops).1 = specRun cfg.length.isSome (avail cfg body) ops ∧
      delivered (run cfg (init body frag fa) ops).1 ++ rest cfg (run cfg (init body frag fa) ops).2
        = avail cfg body) := by
  obtain ⟨_, _, _, _, h5, h6, _⟩ := run_refines cfg hb ops _ (init_inv cfg body frag fa)
  rw [rest_init] at h5 h6
  exact ⟨h5, fun h => ⟨(h6 h).1, (h6 h).2.1⟩⟩

/-- **C05, bounded.**  After ANY history (errors included) the underlying stream has handed out at
    most the declared number of bytes: a pipelined following request is left intact.  (`off` is the
    ghost counter incremented by `fpRead` by exactly the number of bytes it removes from `src`.) -/
theorem C05_never_overreads (cfg : Cfg) (hb : 1 ≤ cfg.bufsize) (body : Bytes) (frag : List Nat)
    (fa : Option Nat) (ops : List Op) (L : Nat) (hL : cfg.length = some L) :
    (run cfg (init body frag fa) ops).2.off ≤ L :=
  (run_refines cfg hb ops _ (init_inv cfg body frag fa)).1.bound L hL

/-- **C05, exhaustive.**  After any error-free history, `read()` either raises 413 or returns the
    whole undelivered rest, so that everything delivered is exactly the declared body. -/
theorem C05_exhaustive (cfg : Cfg) (hb : 1 ≤ cfg.bufsize) (body : Bytes) (frag : List Nat)
    (fa : Option Nat) (ops : List Op)
    (hok : ∀ o ∈ (run cfg (init body frag fa) ops).1, o ≠ Out.err413) :
    (step cfg (run cfg (init body frag fa) ops).2 (.read none)).1 = Out.err413 ∨
    ((step cfg (run cfg (init body frag fa) ops).2 (.read none)).1
        = Out.bytes (rest cfg (run cfg (init body frag fa) ops).2) ∧
     delivered (run cfg (init body frag fa) ops).1 ++ rest cfg (run cfg (init body frag fa) ops).2
        = avail cfg body) := by
  obtain ⟨i, _, _, _, _, h6, _⟩ := run_refines cfg hb ops _ (init_inv cfg body frag fa)
  obtain ⟨_, k2, _, _⟩ := h6 hok
  rw [rest_init] at k2
  obtain ⟨_, _, _, _, _, _, ok1⟩ := C05_step_refines cfg hb _ i (.read none)
  by_cases he : (step cfg (run cfg (init body frag fa) ops).2 (.read none)).1 = Out.err413
  · left; exact he
  · right
    obtain ⟨e1, _, _, _⟩ := ok1 he
    refine ⟨?_, k2⟩
    rw [e1]; simp [specStep, readCount]

/-- **C05, maxbytes (1).**  With `maxbytes = m > 0` an error-free history delivers at most `m` bytes. -/
theorem C05_maxbytes_delivered_le (cfg : Cfg) (hb : 1 ≤ cfg.bufsize) (body : Bytes) (frag : List Nat)
    (fa : Option Nat) (ops : List Op) (m : Nat) (hm : cfg.maxbytes = some m) (hm0 : m ≠ 0)
    (hok : ∀ o ∈ (run cfg (init body frag fa) ops).1, o ≠ Out.err413) :
    (delivered (run cfg (init body frag fa) ops).1).length ≤ m := by
  obtain ⟨_, _, _, _, _, h6, _⟩ := run_refines cfg hb ops _ (init_inv cfg body frag fa)
  obtain ⟨_, _, k3, k4⟩ := h6 hok
  have hbr : (init body frag fa).bytesRead = 0 := rfl
  have h0 : over cfg (init body frag fa).bytesRead = false := by simp [over, hm, hbr]
  have := k4 h0
  rw [k3, hbr] at this
  simp only [over, hm, Nat.zero_add, Bool.and_eq_false_iff, decide_eq_false_iff_not] at this
  rcases this with h | h
  · simp at h; exact absurd h hm0
  · omega

/-- **C05, maxbytes (2).**  A body within the limit (or no limit) is never refused, whatever the
    history, as long as the server-wide limit event does not fire. -/
theorem C05_maxbytes_no_spurious_413 (cfg : Cfg) (hb : 1 ≤ cfg.bufsize) (body : Bytes) (frag : List Nat)
    (ops : List Op) (hfit : over cfg (avail cfg body).length = false) :
    ∀ o ∈ (run cfg (init body frag none) ops).1, o ≠ Out.err413 := by
  obtain ⟨_, _, _, _, _, _, h7⟩ := run_refines cfg hb ops _ (init_inv cfg body frag none)
  exact h7 rfl (by rw [total_init]; exact hfit)

/-- **C05, maxbytes (3).**  With `maxbytes = m > 0` and a declared body longer than `m`, a history
    that tries to read to the end is refused: after any error-free history `read()` raises 413. -/
theorem C05_maxbytes_refused (cfg : Cfg) (hb : 1 ≤ cfg.bufsize) (body : Bytes) (frag : List Nat)
    (fa : Option Nat) (ops : List Op) (m : Nat) (hm : cfg.maxbytes = some m) (hm0 : m ≠ 0)
    (hlong : m < (avail cfg body).length)
    (hok : ∀ o ∈ (run cfg (init body frag fa) ops).1, o ≠ Out.err413) :
    (step cfg (run cfg (init body frag fa) ops).2 (.read none)).1 = Out.err413 := by
  -- otherwise the history extended by `read()` is error-free and delivered the whole body
  have hrun := run_snoc cfg (init body frag fa) ops (.read none)
  cases hres : (step cfg (run cfg (init body frag fa) ops).2 (.read none)).1 with
  | err413 => rfl
  | fuel =>
    have := (run_refines cfg hb (ops ++ [.read none]) _ (init_inv cfg body frag fa)).2.1
    rw [hrun] at this
    simp [hres] at this
  | bytes b =>
    exfalso
    have hok' : ∀ o ∈ (run cfg (init body frag fa) (ops ++ [.read none])).1, o ≠ Out.err413 := by
      rw [hrun]; intro o ho
      simp only [List.mem_append, List.mem_singleton] at ho
      rcases ho with ho | ho
      · exact hok o ho
      · rw [ho, hres]; simp
    have hle := C05_maxbytes_delivered_le cfg hb body frag fa (ops ++ [.read none]) m hm hm0 hok'
    rcases C05_exhaustive cfg hb body frag fa ops hok with h | ⟨h1, h2⟩
    · rw [hres] at h; cases h
    · rw [hrun] at hle
      simp only [delivered, List.map_append, List.flatten_append, List.map_cons, List.map_nil,
        List.flatten_cons, List.flatten_nil, List.append_nil, h1, outBytes] at hle h2
      rw [h2] at hle; omega
  | lines ls =>
    rcases C05_exhaustive cfg hb body frag fa ops hok with h | ⟨h1, _⟩
    · rw [hres] at h; cases h
    · rw [hres] at h1; cases h1
  | stop =>
    rcases C05_exhaustive cfg hb body frag fa ops hok with h | ⟨h1, _⟩
    · rw [hres] at h; cases h
    · rw [hres] at h1; cases h1

/-- **F6 (repaired), now a positive statement.**  Without a declared length and without a limit,
    `readlines()` returns all lines of the body. -/
theorem C05_readlines_nolength (cfg : Cfg) (hb : 1 ≤ cfg.bufsize) (hl : cfg.length = none)
    (hm : cfg.maxbytes = none) (body : Bytes) (frag : List Nat) :
    (step cfg (init body frag none) (.readlines none)).1
      = Out.lines (takeLines (body.length + 1) none 0 body) := by
  obtain ⟨_, _, _, _, _, er1, ok1⟩ := C05_step_refines cfg hb _ (init_inv cfg body frag none) (.readlines none)
  have hne : (step cfg (init body frag none) (.readlines none)).1 ≠ Out.err413 := by
    intro he
    rcases er1 he with h | h
    · simp [over, hm] at h
    · simp [init] at h
  obtain ⟨e1, _, _, _⟩ := ok1 hne
  rw [e1, rest_init]
  simp [specStep, avail, hl]

/-- Results never depend on how the connection fragments the bytes (no limit configured). -/
theorem C05_frag_independent (cfg : Cfg) (hb : 1 ≤ cfg.bufsize) (hm : cfg.maxbytes = none)
    (body : Bytes) (frag₁ frag₂ : List Nat) (ops : List Op) :
    (run cfg (init body frag₁ none) ops).1 = (run cfg (init body frag₂ none) ops).1 := by
  have hfit : over cfg (avail cfg body).length = false := by simp [over, hm]
  have h1 := (C05_refines_cursor cfg hb body frag₁ none ops).2
    (C05_maxbytes_no_spurious_413 cfg hb body frag₁ ops hfit)
  have h2 := (C05_refines_cursor cfg hb body frag₂ none ops).2
    (C05_maxbytes_no_spurious_413 cfg hb body frag₂ ops hfit)
  rw [h1.1, h2.1]

/-- The fuel handed to the model's loops always suffices: `fuel` is never a result. -/
theorem C05_never_fuel (cfg : Cfg) (hb : 1 ≤ cfg.bufsize) (body : Bytes) (frag : List Nat)
    (fa : Option Nat) (ops : List Op) : Out.fuel ∉ (run cfg (init body frag fa) ops).1 :=
  (run_refines cfg hb ops _ (init_inv cfg body frag fa)).2.1

/-! ### concrete witnesses (non-vacuity, quirks, regression) -/

/-- **F5 (repaired), regression witness**: `readline(); readline(5); readline(); read()` on
    `abc\ndef\nghi\njkl\nmno\n` now returns the bytes in order (before the repair the third call
    returned `hi\n`). -/
theorem C05_regression_F5 :
    (run { length := some 20, maxbytes := none, bufsize := 8192 }
        (init [97,98,99,10,100,101,102,10,103,104,105,10,106,107,108,10,109,110,111,10] [] none)
        [.readline none, .readline (some 5), .readline none, .read none]).1
      = [.bytes [97,98,99,10], .bytes [100,101,102,10], .bytes [103,104,105,10],
         .bytes [106,107,108,10,109,110,111,10]] := by decide

/-- Quirk kept by the model (and allowed by the cursor spec): `readline(n)` never decrements `n`, so
    it returns a whole line even when that is longer than `n`. -/
theorem C05_readline_n_quirk :
    (run { length := some 8, maxbytes := none, bufsize := 4 }
        (init [97,98,99,100,101,102,10,103] [0, 1] none) [.readline (some 2)]).1
      = [.bytes [97,98,99,100,101,102,10]] := by decide

/-- non-vacuity of the maxbytes hypotheses: a 413 really occurs on a longer body … -/
example : (run { length := some 6, maxbytes := some 3, bufsize := 2 }
    (init [97,98,99,100,101,102] [] none) [.read (some 2), .read none]).1
      = [.bytes [97,98], .err413] := by decide

/-- … a shorter declared length really cuts the stream and leaves the rest on the connection … -/
example : (run { length := some 3, maxbytes := none, bufsize := 8 }
    (init [97,10,98,99,100] [] none) [.readlines none, .read none]) =
      ([.lines [[97,10],[98]], .bytes []],
       { src := [99,100], frag := [], failAt := none, off := 3, buffer := [], bytesRead := 3, done := true, fins := 2 }) := by
  decide

/-- … and the server-wide limit event is mapped to 413. -/
example : (run { length := none, maxbytes := none, bufsize := 2 }
    (init [97,98,99,100] [] (some 1)) [.read none]).1 = [.err413] := by decide

end CpProofs.C05
