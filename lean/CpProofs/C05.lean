import CpModel.Reader
namespace CpProofs.C05
open CpModel.Reader
theorem stub : True := trivial
end CpProofs.C05
