import CpProofs.C13NLemmas
/-!
  C13 — the inductive invariant of the repaired lock-table protocol (`ReqV.recheck` requests,
  `SwV.recheck` sweepers): ANY number of session ids, request threads and concurrent sweepers, any
  handler scripts (read-modify-write, delete, clear, regenerate), the clock, every schedule.
  Proved by cases on the program counter of the actor that moves; every case is closed by `grind`
  after the state projections have been simplified.
-/
namespace CpProofs.C13N
open CpModel.SessionLockN

/-- program points at which a sweeper owns the lock object `lk` -/
def swHolds (p : SPc) : Bool :=
  match p with
  | .vfy | .pop | .rel => true
  | _ => false

structure Inv (s : St) : Prop where
  i1 : ∀ i, holds (s.thr i).pc = true → s.heap (s.thr i).my = ⟨some (.req i), 1⟩
  i2 : ∀ i, inCS (s.thr i).pc = true → s.table (s.thr i).sid = some (s.thr i).my
  i3 : ∀ i, ((s.thr i).pc = .rel ∨ (s.thr i).pc = .rrel) → (s.thr i).r = (s.thr i).my
  i4 : ∀ l i, (s.heap l).owner = some (.req i) → holds (s.thr i).pc = true ∧ (s.thr i).my = l
  s2 : ∀ k, (s.sw k).pc = .pop → s.table (s.sw k).cur = some (s.sw k).lk
  s3 : ∀ k, swHolds (s.sw k).pc = true → s.heap (s.sw k).lk = ⟨some (.sweep k), 1⟩
  s4 : ∀ l k, (s.heap l).owner = some (.sweep k) → swHolds (s.sw k).pc = true ∧ (s.sw k).lk = l
  s7 : ∀ l d, (s.heap l).owner ≠ some (.tick d)
  c1 : ∀ i, (s.thr i).pc ≠ .crashed
  c2 : ∀ k, (s.sw k).pc ≠ .crashed
  l1 : s.lost = false
  l2 : ∀ i, (s.thr i).pc = .write → (s.thr i).seen = s.version (s.thr i).sid

macro "invn_simp" : tactic =>
  `(tactic| simp only [setThr_thr, setThr_heap, setThr_table, setThr_cache, setThr_sw, setThr_version,
      setThr_lost, setLock_heap, setLock_thr, setLock_table, setLock_cache, setLock_sw, setLock_version,
      setLock_lost, setSw_sw, setSw_thr, setSw_heap, setSw_table, setSw_cache, setSw_version, setSw_lost,
      setCache_cache, setCache_thr, setCache_heap, setCache_table, setCache_sw, setCache_version,
      setCache_lost, setTable_table, setTable_thr, setTable_heap, setTable_cache, setTable_sw,
      setTable_version, setTable_lost, bump_version, bump_thr, bump_heap, bump_table, bump_cache,
      bump_sw, bump_lost, allocDict_thr, allocDict_heap, allocDict_table, allocDict_cache, allocDict_sw,
      allocDict_version, allocDict_lost, setDict_thr, setDict_heap, setDict_table, setDict_cache,
      setDict_sw, setDict_version, setDict_lost, allocId_thr, allocId_heap, allocId_table, allocId_cache,
      allocId_sw, allocId_version, allocId_lost, setLost_thr, setLost_heap, setLost_table, setLost_cache,
      setLost_sw, setLost_version, setLost_lost])

macro "invn_close" : tactic =>
  `(tactic| (refine ⟨?_, ?_, ?_, ?_, ?_, ?_, ?_, ?_, ?_, ?_, ?_, ?_⟩ <;> invn_simp <;>
      grind [holds, inCS, swHolds, inCS_holds]))

/-- for the steps that end with the thread-local dispatch `next` -/
macro "invn_next" : tactic =>
  `(tactic| (refine ⟨?_, ?_, ?_, ?_, ?_, ?_, ?_, ?_, ?_, ?_, ?_, ?_⟩ <;> invn_simp <;>
      grind [holds, inCS, swHolds, inCS_holds, next_facts, allocDict_version, setDict_version,
        setLost_version, bump_version, setCache_version, allocId_version]))

section Req
variable (c : Cfg) (hr : c.rv = .recheck)

theorem inv_req_init (s : St) (i : Nat) (h : Inv s) (hpc : (s.thr i).pc = .init) :
    Inv (stepReq c s i) := by
  obtain ⟨i1, i2, i3, i4, s2, s3, s4, s7, c1, c2, l1, l2⟩ := h
  unfold stepReq
  simp only [hpc]
  split <;> invn_close

theorem inv_req_gex (s : St) (i : Nat) (h : Inv s) (hpc : (s.thr i).pc = .gex) :
    Inv (stepReq c s i) := by
  obtain ⟨i1, i2, i3, i4, s2, s3, s4, s7, c1, c2, l1, l2⟩ := h
  unfold stepReq
  simp only [hpc]
  split <;> invn_close

theorem inv_req_setdef (s : St) (i : Nat) (h : Inv s) (hpc : (s.thr i).pc = .setdef) :
    Inv (stepReq c s i) := by
  obtain ⟨i1, i2, i3, i4, s2, s3, s4, s7, c1, c2, l1, l2⟩ := h
  unfold stepReq
  simp only [hpc]
  split <;> invn_close

include hr in
theorem inv_req_acq (s : St) (i : Nat) (h : Inv s) (hpc : (s.thr i).pc = .acq) :
    Inv (stepReq c s i) := by
  obtain ⟨i1, i2, i3, i4, s2, s3, s4, s7, c1, c2, l1, l2⟩ := h
  unfold stepReq
  simp only [hpc, hr]
  cases htry : tryAcquire s (s.thr i).my (.req i) with
  | none => exact ⟨i1, i2, i3, i4, s2, s3, s4, s7, c1, c2, l1, l2⟩
  | some s' =>
    simp only []
    rcases tryAcquire_some htry with ⟨ho, rfl⟩ | ⟨ho, rfl⟩ <;> invn_close

theorem inv_req_chk (s : St) (i : Nat) (h : Inv s) (hpc : (s.thr i).pc = .chk) :
    Inv (stepReq c s i) := by
  obtain ⟨i1, i2, i3, i4, s2, s3, s4, s7, c1, c2, l1, l2⟩ := h
  unfold stepReq
  simp only [hpc]
  obtain ⟨n1, n2, n3, n4, n5, n6, n7⟩ := next_spec s (s.thr i)
  split <;> invn_close

theorem inv_req_rel0 (s : St) (i : Nat) (h : Inv s) (hpc : (s.thr i).pc = .rel0) :
    Inv (stepReq c s i) := by
  obtain ⟨i1, i2, i3, i4, s2, s3, s4, s7, c1, c2, l1, l2⟩ := h
  unfold stepReq
  simp only [hpc]
  cases hrel : release s (s.thr i).my (.req i) with
  | none =>
    have := release_none hrel
    have := i1 i (by simp [hpc, holds])
    simp_all
  | some s' =>
    simp only []
    obtain ⟨ho, rfl⟩ := release_some hrel
    have := i1 i (by simp [hpc, holds])
    invn_close

theorem inv_req_load (s : St) (i : Nat) (h : Inv s) (hpc : (s.thr i).pc = .load) :
    Inv (stepReq c s i) := by
  obtain ⟨i1, i2, i3, i4, s2, s3, s4, s7, c1, c2, l1, l2⟩ := h
  unfold stepReq
  simp only [hpc]
  invn_close

/-- A step of thread `i`, which is inside its critical section, that only touches data (dict objects,
    the cache, versions) and ends with the thread-local dispatch `next`. -/
theorem inv_next (s s1 : St) (i : Nat) (t : Thr) (h : Inv s)
    (eh : s1.heap = s.heap) (et : s1.table = s.table) (ethr : s1.thr = s.thr) (esw : s1.sw = s.sw)
    (el : s1.lost = false) (hmy : t.my = (s.thr i).my) (hsid : t.sid = (s.thr i).sid)
    (hin : inCS (s.thr i).pc = true)
    (hver : ∀ j, j ≠ i → (s.thr j).pc = .write → (s.thr j).seen = s1.version (s.thr j).sid) :
    Inv (setThr s1 i (next s1 t)) := by
  obtain ⟨i1, i2, i3, i4, s2, s3, s4, s7, c1, c2, l1, l2⟩ := h
  have hh := i1 i (inCS_holds _ hin)
  have ht := i2 i hin
  obtain ⟨n1, n2, n3, n4, n5, n6, n7, n8, n9⟩ := next_facts s1 t
  generalize next s1 t = tn at *
  refine ⟨?_, ?_, ?_, ?_, ?_, ?_, ?_, ?_, ?_, ?_, ?_, ?_⟩ <;> invn_simp <;>
    simp only [eh, et, ethr, esw, el] <;> grind [holds, inCS, swHolds, inCS_holds]

/-- versions of other ids are untouched, and nobody else is about to write the same id -/
theorem other_writers (s : St) (i : Nat) (h : Inv s) (hin : inCS (s.thr i).pc = true)
    (v : Nat → Nat) (hv : ∀ y, y ≠ (s.thr i).sid → v y = s.version y) :
    ∀ j, j ≠ i → (s.thr j).pc = .write → (s.thr j).seen = v (s.thr j).sid := by
  obtain ⟨i1, i2, i3, i4, s2, s3, s4, s7, c1, c2, l1, l2⟩ := h
  intro j hj hw
  have hjc : inCS (s.thr j).pc = true := by simp [hw, inCS]
  have a1 := i1 i (inCS_holds _ hin)
  have a2 := i2 i hin
  have b1 := i1 j (inCS_holds _ hjc)
  have b2 := i2 j hjc
  by_cases hs : (s.thr j).sid = (s.thr i).sid
  · rw [hs, a2] at b2
    injection b2 with b2
    rw [b2, b1] at a1
    injection a1 with a1
    injection a1 with a1
    injection a1 with a1
    exact absurd a1 hj
  · rw [hv _ hs]
    exact l2 j hw

theorem inv_req_loadNow (s : St) (i : Nat) (h : Inv s) (hpc : (s.thr i).pc = .loadNow) :
    Inv (stepReq c s i) := by
  have hin : inCS (s.thr i).pc = true := by simp [hpc, inCS]
  have hl := h.l1
  have hw := other_writers s i h hin s.version (fun _ _ => rfl)
  unfold stepReq
  simp only [hpc]
  split
  · split
    · exact inv_next s _ i _ h rfl rfl rfl rfl hl rfl rfl hin hw
    · split
      · exact inv_next s _ i _ h rfl rfl rfl rfl hl rfl rfl hin hw
      · exact inv_next s _ i _ h rfl rfl rfl rfl hl rfl rfl hin hw
  · exact inv_next s _ i _ h rfl rfl rfl rfl hl rfl rfl hin hw

theorem inv_req_write (s : St) (i : Nat) (h : Inv s) (hpc : (s.thr i).pc = .write) :
    Inv (stepReq c s i) := by
  have hin : inCS (s.thr i).pc = true := by simp [hpc, inCS]
  have hl := h.l1
  have hs := h.l2 i hpc
  unfold stepReq
  simp only [hpc]
  refine inv_next s _ i _ h rfl rfl rfl rfl ?_ rfl rfl hin ?_
  · simp [setLost, hl, hs]
  · exact other_writers s i h hin _ (by intro y hy; simp [setLost, setDict, bump, hy])

theorem inv_req_clr (s : St) (i : Nat) (h : Inv s) (hpc : (s.thr i).pc = .clr) :
    Inv (stepReq c s i) := by
  have hin : inCS (s.thr i).pc = true := by simp [hpc, inCS]
  have hl := h.l1
  unfold stepReq
  simp only [hpc]
  refine inv_next s _ i _ h rfl rfl rfl rfl hl rfl rfl hin ?_
  exact other_writers s i h hin _ (by intro y hy; simp [setDict, bump, hy])

theorem inv_req_del (s : St) (i : Nat) (h : Inv s) (hpc : (s.thr i).pc = .del) :
    Inv (stepReq c s i) := by
  have hin : inCS (s.thr i).pc = true := by simp [hpc, inCS]
  have hl := h.l1
  have hw := other_writers s i h hin s.version (fun _ _ => rfl)
  unfold stepReq
  simp only [hpc]
  exact inv_next s _ i _ h rfl rfl rfl rfl hl rfl rfl hin hw

theorem inv_req_rdel (s : St) (i : Nat) (h : Inv s) (hpc : (s.thr i).pc = .rdel) :
    Inv (stepReq c s i) := by
  obtain ⟨i1, i2, i3, i4, s2, s3, s4, s7, c1, c2, l1, l2⟩ := h
  unfold stepReq
  simp only [hpc]
  invn_close

theorem inv_req_rlookup (s : St) (i : Nat) (h : Inv s) (hpc : (s.thr i).pc = .rlookup) :
    Inv (stepReq c s i) := by
  obtain ⟨i1, i2, i3, i4, s2, s3, s4, s7, c1, c2, l1, l2⟩ := h
  have ht := i2 i (by simp [hpc, inCS])
  unfold stepReq
  simp only [hpc]
  split <;> invn_close

theorem inv_req_rrel (s : St) (i : Nat) (h : Inv s) (hpc : (s.thr i).pc = .rrel) :
    Inv (stepReq c s i) := by
  obtain ⟨i1, i2, i3, i4, s2, s3, s4, s7, c1, c2, l1, l2⟩ := h
  have hh := i1 i (by simp [hpc, holds])
  have h3 := i3 i (Or.inr hpc)
  unfold stepReq
  simp only [hpc]
  cases hrel : release s (s.thr i).r (.req i) with
  | none =>
    have := release_none hrel
    simp_all
  | some s' =>
    simp only []
    obtain ⟨ho, rfl⟩ := release_some hrel
    invn_close

theorem inv_req_rex (s : St) (i : Nat) (h : Inv s) (hpc : (s.thr i).pc = .rex) :
    Inv (stepReq c s i) := by
  obtain ⟨i1, i2, i3, i4, s2, s3, s4, s7, c1, c2, l1, l2⟩ := h
  unfold stepReq
  simp only [hpc]
  split <;> invn_close

theorem inv_req_saveNow (s : St) (i : Nat) (h : Inv s) (hpc : (s.thr i).pc = .saveNow) :
    Inv (stepReq c s i) := by
  obtain ⟨i1, i2, i3, i4, s2, s3, s4, s7, c1, c2, l1, l2⟩ := h
  unfold stepReq
  simp only [hpc]
  invn_close

theorem inv_req_save (s : St) (i : Nat) (h : Inv s) (hpc : (s.thr i).pc = .save) :
    Inv (stepReq c s i) := by
  obtain ⟨i1, i2, i3, i4, s2, s3, s4, s7, c1, c2, l1, l2⟩ := h
  unfold stepReq
  simp only [hpc]
  invn_close

theorem inv_req_lookup (s : St) (i : Nat) (h : Inv s) (hpc : (s.thr i).pc = .lookup) :
    Inv (stepReq c s i) := by
  obtain ⟨i1, i2, i3, i4, s2, s3, s4, s7, c1, c2, l1, l2⟩ := h
  have ht := i2 i (by simp [hpc, inCS])
  unfold stepReq
  simp only [hpc]
  split <;> invn_close

theorem inv_req_rel (s : St) (i : Nat) (h : Inv s) (hpc : (s.thr i).pc = .rel) :
    Inv (stepReq c s i) := by
  obtain ⟨i1, i2, i3, i4, s2, s3, s4, s7, c1, c2, l1, l2⟩ := h
  have hh := i1 i (by simp [hpc, holds])
  have h3 := i3 i (Or.inl hpc)
  unfold stepReq
  simp only [hpc]
  cases hrel : release s (s.thr i).r (.req i) with
  | none =>
    have := release_none hrel
    simp_all
  | some s' =>
    simp only []
    obtain ⟨ho, rfl⟩ := release_some hrel
    invn_close

include hr in
theorem inv_stepReq (s : St) (i : Nat) (h : Inv s) : Inv (stepReq c s i) := by
  cases hpc : (s.thr i).pc
  · exact inv_req_init c s i h hpc
  · exact inv_req_gex c s i h hpc
  · exact inv_req_setdef c s i h hpc
  · exact inv_req_acq c hr s i h hpc
  · exact inv_req_chk c s i h hpc
  · exact inv_req_rel0 c s i h hpc
  · exact inv_req_load c s i h hpc
  · exact inv_req_loadNow c s i h hpc
  · exact inv_req_write c s i h hpc
  · exact inv_req_clr c s i h hpc
  · exact inv_req_del c s i h hpc
  · exact inv_req_rdel c s i h hpc
  · exact inv_req_rlookup c s i h hpc
  · exact inv_req_rrel c s i h hpc
  · exact inv_req_rex c s i h hpc
  · exact inv_req_saveNow c s i h hpc
  · exact inv_req_save c s i h hpc
  · exact inv_req_lookup c s i h hpc
  · exact inv_req_rel c s i h hpc
  all_goals (unfold stepReq; simp only [hpc]; exact h)

end Req

/-! ### sweepers -/

theorem adv1_spec (w : Sweeper) : ∀ l : List (Nat × Nat),
    swHolds (adv1 w l).pc = false ∧ (adv1 w l).pc ≠ .crashed := by
  intro l
  induction l with
  | nil => simp [adv1, swHolds]
  | cons a rest ih =>
    obtain ⟨x, e⟩ := a
    unfold adv1
    split
    · simp [swHolds]
    · exact ih

theorem adv2_spec (w : Sweeper) : swHolds (adv2 w).pc = false ∧ (adv2 w).pc ≠ .crashed := by
  unfold adv2
  split <;> simp [swHolds]

theorem adv_spec (w : Sweeper) : swHolds (adv w).pc = false ∧ (adv w).pc ≠ .crashed := by
  unfold adv
  split
  · exact adv2_spec w
  · exact adv1_spec w _

macro "invn_adv" : tactic =>
  `(tactic| (refine ⟨?_, ?_, ?_, ?_, ?_, ?_, ?_, ?_, ?_, ?_, ?_, ?_⟩ <;> invn_simp <;>
      grind [holds, inCS, swHolds, inCS_holds, adv_spec, adv1_spec, adv2_spec]))

section Sweep
variable (c : Cfg) (hs : c.sv = .recheck)

theorem inv_sw_now (s : St) (k : Nat) (h : Inv s) (hpc : (s.sw k).pc = .now) :
    Inv (stepSweep c s k) := by
  obtain ⟨i1, i2, i3, i4, s2, s3, s4, s7, c1, c2, l1, l2⟩ := h
  unfold stepSweep
  simp only [hpc]
  invn_close

theorem inv_sw_copy (s : St) (k : Nat) (h : Inv s) (hpc : (s.sw k).pc = .copy) :
    Inv (stepSweep c s k) := by
  obtain ⟨i1, i2, i3, i4, s2, s3, s4, s7, c1, c2, l1, l2⟩ := h
  unfold stepSweep
  simp only [hpc]
  invn_adv

theorem inv_sw_del (s : St) (k : Nat) (h : Inv s) (hpc : (s.sw k).pc = .del) :
    Inv (stepSweep c s k) := by
  obtain ⟨i1, i2, i3, i4, s2, s3, s4, s7, c1, c2, l1, l2⟩ := h
  unfold stepSweep
  simp only [hpc]
  invn_close

include hs in
theorem inv_sw_get (s : St) (k : Nat) (h : Inv s) (hpc : (s.sw k).pc = .get) :
    Inv (stepSweep c s k) := by
  obtain ⟨i1, i2, i3, i4, s2, s3, s4, s7, c1, c2, l1, l2⟩ := h
  unfold stepSweep
  simp only [hpc, hs]
  split
  · invn_close
  · invn_adv

include hs in
theorem inv_sw_try (s : St) (k : Nat) (h : Inv s) (hpc : (s.sw k).pc = .try_) :
    Inv (stepSweep c s k) := by
  obtain ⟨i1, i2, i3, i4, s2, s3, s4, s7, c1, c2, l1, l2⟩ := h
  unfold stepSweep
  simp only [hpc, hs]
  cases htry : tryAcquire s (s.sw k).lk (.sweep k) with
  | none => simp only []; invn_adv
  | some s' =>
    simp only []
    rcases tryAcquire_some htry with ⟨ho, rfl⟩ | ⟨ho, rfl⟩ <;> invn_close

theorem inv_sw_vfy (s : St) (k : Nat) (h : Inv s) (hpc : (s.sw k).pc = .vfy) :
    Inv (stepSweep c s k) := by
  obtain ⟨i1, i2, i3, i4, s2, s3, s4, s7, c1, c2, l1, l2⟩ := h
  unfold stepSweep
  simp only [hpc]
  invn_close

include hs in
theorem inv_sw_pop (s : St) (k : Nat) (h : Inv s) (hpc : (s.sw k).pc = .pop) :
    Inv (stepSweep c s k) := by
  obtain ⟨i1, i2, i3, i4, s2, s3, s4, s7, c1, c2, l1, l2⟩ := h
  have ht := s2 k hpc
  have hh := s3 k (by simp [hpc, swHolds])
  unfold stepSweep
  simp only [hpc, hs]
  split
  · invn_close
  · simp_all

theorem inv_sw_rel (s : St) (k : Nat) (h : Inv s) (hpc : (s.sw k).pc = .rel) :
    Inv (stepSweep c s k) := by
  obtain ⟨i1, i2, i3, i4, s2, s3, s4, s7, c1, c2, l1, l2⟩ := h
  have hh := s3 k (by simp [hpc, swHolds])
  unfold stepSweep
  simp only [hpc]
  cases hrel : release s (s.sw k).lk (.sweep k) with
  | none =>
    have := release_none hrel
    simp_all
  | some s' =>
    simp only []
    obtain ⟨ho, rfl⟩ := release_some hrel
    invn_adv

theorem inv_sw_list (s : St) (k : Nat) (h : Inv s) (hpc : (s.sw k).pc = .list) :
    Inv (stepSweep c s k) := by
  obtain ⟨i1, i2, i3, i4, s2, s3, s4, s7, c1, c2, l1, l2⟩ := h
  unfold stepSweep
  simp only [hpc]
  invn_adv

theorem inv_sw_chk (s : St) (k : Nat) (h : Inv s) (hpc : (s.sw k).pc = .chk) :
    Inv (stepSweep c s k) := by
  obtain ⟨i1, i2, i3, i4, s2, s3, s4, s7, c1, c2, l1, l2⟩ := h
  unfold stepSweep
  simp only [hpc]
  split
  · invn_adv
  · invn_close

include hs in
theorem inv_stepSweep (s : St) (k : Nat) (h : Inv s) : Inv (stepSweep c s k) := by
  cases hpc : (s.sw k).pc
  · exact inv_sw_now c s k h hpc
  · exact inv_sw_copy c s k h hpc
  · exact inv_sw_del c s k h hpc
  · exact inv_sw_get c hs s k h hpc
  · exact inv_sw_try c hs s k h hpc
  · exact inv_sw_vfy c s k h hpc
  · exact inv_sw_pop c hs s k h hpc
  · exact inv_sw_rel c s k h hpc
  · exact inv_sw_list c s k h hpc
  · exact inv_sw_chk c s k h hpc
  · unfold stepSweep; simp only [hpc]; exact h

end Sweep

theorem inv_step (c : Cfg) (hr : c.rv = .recheck) (hs : c.sv = .recheck) (s : St) (a : Actor) (h : Inv s) :
    Inv (step c s a) := by
  cases a with
  | req i => exact inv_stepReq c hr s i h
  | sweep k => exact inv_stepSweep c hs s k h
  | tick d =>
    obtain ⟨i1, i2, i3, i4, s2, s3, s4, s7, c1, c2, l1, l2⟩ := h
    exact ⟨i1, i2, i3, i4, s2, s3, s4, s7, c1, c2, l1, l2⟩

theorem inv_run (c : Cfg) (hr : c.rv = .recheck) (hs : c.sv = .recheck) (s : St) (sched : List Actor)
    (h : Inv s) : Inv (run c s sched) := by
  induction sched generalizing s with
  | nil => exact h
  | cons a rest ih => exact ih _ (inv_step c hr hs s a h)

/-- Starting conditions: nobody owns a lock object, nobody has crashed, every request is in front of
    `Session.__init__`'s lookup and every sweeper in front of a sweep (or anywhere else outside its
    locked region).  Whatever the tables contain. -/
structure Start (s : St) : Prop where
  free : ∀ l, (s.heap l).owner = none
  thr : ∀ i, (s.thr i).pc = .init
  sw : ∀ k, (s.sw k).pc = .now
  lost : s.lost = false

theorem inv_start (s : St) (h : Start s) : Inv s := by
  obtain ⟨hf, ht, hw, hl⟩ := h
  refine ⟨?_, ?_, ?_, ?_, ?_, ?_, ?_, ?_, ?_, ?_, ?_, ?_⟩ <;> simp_all [holds, inCS, swHolds]

theorem start_init (ids : List (Option (Nat × Nat) × Bool)) (thrs : List (Nat × List Op)) (now : Nat) :
    Start (init ids thrs now) := by
  refine ⟨?_, ?_, ?_, ?_⟩ <;> intros <;> simp [init]
  split <;> rfl

end CpProofs.C13N
