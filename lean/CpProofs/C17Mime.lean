import CpProofs.C17
/-!
  C17, part 4: which responses the gzip tool may touch, what the tools write into the headers, both
  tools on one response, and the shape of the member header.

  * `mimeMatch_yes_sound`, `mimeMatch_no_sound`: the mime_types matching decides exactly the documented
    relation `Eligible` (exact entry, `type/*`, `type/*+suffix` with the SAME top-level type); the third
    outcome is the `ValueError` of a tuple unpacking (`crash`).  `C17_compress_only_eligible` lifts it to
    the tool: a compressed response has an eligible media type.
  * `setVary_keeps`: existing Vary members survive in order; `Accept-Encoding` is appended once.
  * `C17_encode_only_text`, `setP_*`: when the encoder negotiates, and what the Content-Type rewrite
    does to the other parameters (replace in place / append, nothing else moves).
  * `C17_gzip_wraps_encoded`: with both tools on, the gzip member wraps the charset-encoded bytes and
    eligibility is judged on the media type the handler set (the charset parameter does not matter).
  * `C17_gzip_no_optional_fields`, `C17_gzip_roundtrip_full`, `header_table_live`: FLG = 0, no FEXTRA /
    FNAME / FCOMMENT / FHCRC, deflate data from offset 10; a general RFC 1952 reader accepts the member;
    the ten header bytes the live `compress()` produced for every level (regenerated on every run) are
    the ones of the model.
-/
namespace CpProofs.C17

open CpModel.Gzip CpModel.Negotiate

/-! ## `str.split(c)` -/

/-- the fold behind `splitOnChar` -/
def sp (c : Char) (s : Str) : Str × List Str :=
  s.foldr (fun x (st : Str × List Str) => if x = c then ([], st.1 :: st.2) else (x :: st.1, st.2)) ([], [])

theorem splitOnChar_eq (c : Char) (s : Str) : splitOnChar c s = (sp c s).1 :: (sp c s).2 := rfl

theorem sp_cons (c x : Char) (xs : Str) :
    sp c (x :: xs) = if x = c then ([], (sp c xs).1 :: (sp c xs).2) else (x :: (sp c xs).1, (sp c xs).2) := rfl

theorem joinWith_cons_cons (c x : Char) (a : Str) (rest : List Str) :
    joinWith [c] ((x :: a) :: rest) = x :: joinWith [c] (a :: rest) := by
  cases rest <;> simp [joinWith]

theorem joinWith_nil_cons (c : Char) (a : Str) (rest : List Str) :
    joinWith [c] ([] :: a :: rest) = c :: joinWith [c] (a :: rest) := by
  simp [joinWith]

/-- `c.join(s.split(c)) == s` -/
theorem join_split (c : Char) (s : Str) : joinWith [c] (splitOnChar c s) = s := by
  induction s with
  | nil => rfl
  | cons x xs ih =>
    rw [splitOnChar_eq] at ih ⊢
    rw [sp_cons]
    split
    · rename_i h
      subst h
      rw [joinWith_nil_cons, ih]
    · rw [joinWith_cons_cons, ih]

/-- no piece of `s.split(c)` contains `c` -/
theorem split_pieces (c : Char) (s : Str) : ∀ p ∈ splitOnChar c s, c ∉ p := by
  induction s with
  | nil => intro p hp; simp [splitOnChar] at hp; subst hp; simp
  | cons x xs ih =>
    rw [splitOnChar_eq] at ih ⊢
    rw [sp_cons]
    split
    · intro p hp
      rcases List.mem_cons.mp hp with rfl | hm
      · simp
      · exact ih p hm
    · rename_i hne
      intro p hp
      rcases List.mem_cons.mp hp with rfl | hm
      · intro hc
        rcases List.mem_cons.mp hc with h | h
        · exact hne h.symm
        · exact ih _ List.mem_cons_self h
      · exact ih p (List.mem_cons_of_mem _ hm)

/-- `a, b = s.split(c)` succeeds only for `s = a + c + b` with `c` in neither half -/
theorem split_two (c : Char) (s a b : Str) (h : splitOnChar c s = [a, b]) :
    s = a ++ c :: b ∧ c ∉ a ∧ c ∉ b := by
  have hj := join_split c s
  have hp := split_pieces c s
  rw [h] at hj hp
  refine ⟨?_, hp a (by simp), hp b (by simp)⟩
  rw [← hj]
  simp [joinWith]

theorem sp_noChar (c : Char) (s : Str) (h : c ∉ s) : sp c s = (s, []) := by
  induction s with
  | nil => rfl
  | cons x xs ih =>
    have hx : x ≠ c := fun e => h (e ▸ List.mem_cons_self)
    rw [sp_cons, ih (fun hh => h (List.mem_cons_of_mem _ hh))]
    simp [hx]

/-- … and for such an `s` it does succeed -/
theorem split_of_two (c : Char) (a b : Str) (ha : c ∉ a) (hb : c ∉ b) :
    splitOnChar c (a ++ c :: b) = [a, b] := by
  induction a with
  | nil =>
    rw [splitOnChar_eq]
    simp only [List.nil_append, sp_cons, if_true, sp_noChar c b hb]
  | cons x xs ih =>
    have hx : x ≠ c := fun e => ha (e ▸ List.mem_cons_self)
    have ih' := ih (fun hh => ha (List.mem_cons_of_mem _ hh))
    rw [splitOnChar_eq] at ih' ⊢
    simp only [List.cons.injEq] at ih'
    simp only [List.cons_append, sp_cons, hx, if_false, ih'.1, ih'.2]

/-! ## eligibility of the media type -/

/-- the documented pattern forms: `type/*`, `type/*+suffix` (same top-level type) -/
def PatMatch (cm cs m : Str) : Prop :=
  ∃ mt st, m = mt ++ '/' :: st ∧ '/' ∉ mt ∧ '/' ∉ st ∧ cm = mt ∧
    (st = ['*'] ∨ ∃ x r, cs = x ++ '+' :: r ∧ '+' ∉ x ∧ '+' ∉ r ∧ st = '*' :: '+' :: r)

/-- the media type `ct` (parameters cut off) is eligible under `mimes` -/
def Eligible (ct : Str) (mimes : List Str) : Prop :=
  ct ∈ mimes ∨ ∃ cm cs, ct = cm ++ '/' :: cs ∧ '/' ∉ cm ∧ '/' ∉ cs ∧ ∃ m ∈ mimes, PatMatch cm cs m

theorem mimeLoop_yes (cm cs : Str) (ms : List Str) (h : mimeLoop cm cs ms = .yes) :
    ∃ m ∈ ms, PatMatch cm cs m := by
  induction ms with
  | nil => simp [mimeLoop] at h
  | cons m ms ih =>
    have next : mimeLoop cm cs ms = .yes → ∃ m' ∈ m :: ms, PatMatch cm cs m' := fun hh => by
      obtain ⟨m', hm', r⟩ := ih hh
      exact ⟨m', List.mem_cons_of_mem _ hm', r⟩
    simp only [mimeLoop] at h
    split at h
    · split at h
      · rename_i mt st hsp
        obtain ⟨hm, h1, h2⟩ := split_two '/' m mt st hsp
        split at h
        · rename_i hcm
          split at h
          · rename_i hst
            exact ⟨m, List.mem_cons_self, mt, st, hm, h1, h2, hcm, Or.inl hst⟩
          · split at h
            · split at h
              · rename_i x cr l r hcs hst
                split at h
                · rename_i hlr
                  obtain ⟨e1, e2, e3⟩ := split_two '+' cs x cr hcs
                  obtain ⟨f1, f2, f3⟩ := split_two '+' st l r hst
                  refine ⟨m, List.mem_cons_self, mt, st, hm, h1, h2, hcm, Or.inr ⟨x, cr, e1, e2, e3, ?_⟩⟩
                  rw [f1, hlr.1, hlr.2]
                  rfl
                · exact next h
              · simp at h
            · exact next h
        · exact next h
      · simp at h
    · exact next h

theorem mimeLoop_no (cm cs : Str) (ms : List Str) (h : mimeLoop cm cs ms = .no) :
    ∀ m ∈ ms, ¬ PatMatch cm cs m := by
  induction ms with
  | nil => simp
  | cons m ms ih =>
    intro m' hm'
    rcases List.mem_cons.mp hm' with rfl | hmem
    · rintro ⟨mt, st, hm, h1, h2, hcm, hpat⟩
      have hsp : splitOnChar '/' m' = [mt, st] := hm ▸ split_of_two '/' mt st h1 h2
      have hc : m'.contains '/' = true := by
        rw [List.contains_iff_mem, hm]; simp
      simp only [mimeLoop, hc, if_true, hsp, hcm] at h
      rcases hpat with hst | ⟨x, r, hcs, hx, hr, hst⟩
      · simp [hst, sStar] at h
      · have hne : ¬ st = ['*'] := by rw [hst]; simp
        have c1 : '+' ∈ st := by rw [hst]; simp
        have c2 : '+' ∈ cs := by rw [hcs]; simp
        have s1 : splitOnChar '+' cs = [x, r] := hcs ▸ split_of_two '+' x r hx hr
        have s2 : splitOnChar '+' st = [['*'], r] := by
          rw [hst]
          exact split_of_two '+' ['*'] r (by decide) hr
        simp [hne, c1, c2, s1, s2, sStar] at h
    · have : mimeLoop cm cs ms = .no := by
        simp only [mimeLoop] at h
        split at h
        · split at h
          · split at h
            · split at h
              · simp at h
              · split at h
                · split at h
                  · split at h
                    · simp at h
                    · exact h
                  · simp at h
                · exact h
            · exact h
          · simp at h
        · exact h
      exact ih this m' hmem

/-- **only eligible types**: a positive answer of the matching means the documented relation holds -/
theorem mimeMatch_yes_sound (ct : Str) (mimes : List Str) (h : mimeMatch ct mimes = .yes) :
    Eligible ct mimes := by
  simp only [mimeMatch] at h
  split at h
  · rename_i hc
    exact Or.inl (List.contains_iff_mem.mp hc)
  · split at h
    · split at h
      · rename_i cm cs hsp
        obtain ⟨hct, h1, h2⟩ := split_two '/' ct cm cs hsp
        exact Or.inr ⟨cm, cs, hct, h1, h2, mimeLoop_yes cm cs mimes h⟩
      · simp at h
    · simp at h

/-- … and a negative answer means it does not (so the matching decides `Eligible` unless it crashes) -/
theorem mimeMatch_no_sound (ct : Str) (mimes : List Str) (h : mimeMatch ct mimes = .no) :
    ¬ Eligible ct mimes := by
  simp only [mimeMatch] at h
  split at h
  · simp at h
  · rename_i hnc
    have hnm : ct ∉ mimes := fun hh => hnc (List.contains_iff_mem.mpr hh)
    split at h
    · split at h
      · rename_i cm cs hsp
        rintro (hm | ⟨cm', cs', hct, h1, h2, m, hmem, hp⟩)
        · exact hnm hm
        · have hsp' : splitOnChar '/' ct = [cm', cs'] := hct ▸ split_of_two '/' cm' cs' h1 h2
          rw [hsp] at hsp'
          simp only [List.cons.injEq, and_true] at hsp'
          obtain ⟨rfl, rfl⟩ := hsp'
          exact mimeLoop_no cm cs mimes h m hmem hp
      · simp at h
    · rename_i hns
      rintro (hm | ⟨cm', cs', hct, _, _, _⟩)
      · exact hnm hm
      · apply hns
        rw [List.contains_iff_mem, hct]
        simp

/-- the pattern of seeded change C17-3: a `+xml` type under another top-level type is not eligible -/
example : mimeMatch "image/svg+xml".toList ["application/*+xml".toList] = .no := by decide
example : mimeMatch "application/atom+xml".toList ["application/*+xml".toList] = .yes := by decide
example : mimeMatch "text/css".toList ["text/*".toList] = .yes := by decide
example : mimeMatch "a/b/c".toList ["a/*".toList] = .crash := by decide

/-- **Compress only eligible types** (tool level): whenever the tool compresses, the media type it
    looked at (Content-Type cut at the first `;`) is eligible under the configured mime_types. -/
theorem C17_compress_only_eligible (i : GzipIn) (h : gzipDecision i = .compress) :
    Eligible (ctHead i.contentType) i.mimes := by
  unfold gzipDecision at h
  split at h
  · simp at h
  · split at h
    · simp at h
    · split at h
      · simp at h
      · simp at h
      · simp at h
      · obtain ⟨_, _, _, _, _, hm⟩ := C17_compress_only_if_accepted _ _ _ h
        exact mimeMatch_yes_sound _ _ hm

/-! ## Vary -/

/-- the members the response already varies on -/
def varyMembers (vary : Option Str) : List Str :=
  ((splitOnChar ',' (vary.getD [])).map strip).filter (· ≠ [])

/-- **Vary**: every existing member stays, in order; `Accept-Encoding` is appended unless present -/
theorem setVary_keeps (v : Option Str) :
    (sAcceptEncoding ∈ varyMembers v ∧ setVary v = joinWith [',', ' '] (varyMembers v)) ∨
    (sAcceptEncoding ∉ varyMembers v ∧ setVary v = joinWith [',', ' '] (varyMembers v ++ [sAcceptEncoding])) := by
  simp only [setVary, varyMembers]
  split
  · rename_i h
    exact Or.inl ⟨List.contains_iff_mem.mp h, rfl⟩
  · rename_i h
    exact Or.inr ⟨fun hh => h (List.contains_iff_mem.mpr hh), rfl⟩

/-- whatever the decision, the tool leaves a Vary header that names Accept-Encoding -/
theorem C17_vary_always (z : Z) (i : GzipIn) (level mtime : Nat) (h : RespHeaders) (body : List Bytes) :
    ∃ vs, (gzipTool z i level mtime h body).2.1.vary = some (joinWith [',', ' '] vs) ∧ sAcceptEncoding ∈ vs := by
  obtain ⟨vs, h1, h2⟩ := setVary_contains h.vary
  refine ⟨vs, ?_, h2⟩
  simp only [gzipTool, gzipHeaders]
  split <;> simp [h1]

/-! ## the Content-Type rewrite -/

theorem setP_other {β : Type} (ps : List (Str × β)) (k k' : Str) (v : β) (h : k' ≠ k) :
    getP (setP ps k v) k' = getP ps k' := by
  induction ps with
  | nil => simp [setP, getP, List.find?, Ne.symm h]
  | cons p ps ih =>
    obtain ⟨k0, v0⟩ := p
    simp only [setP]
    split
    · rename_i hk
      have : ¬ k0 = k' := fun e => h (e.symm.trans hk)
      simp [getP, List.find?, this]
    · by_cases hk' : k0 = k'
      · simp [getP, List.find?, hk']
      · simp only [getP, List.find?, hk', decide_false] at ih ⊢
        exact ih

/-- the parameter names after the rewrite: unchanged when `charset` was there (replaced in place),
    `charset` appended at the end otherwise -/
theorem setP_keys {β : Type} (ps : List (Str × β)) (k : Str) (v : β) :
    (setP ps k v).map (·.1) = if k ∈ ps.map (·.1) then ps.map (·.1) else ps.map (·.1) ++ [k] := by
  induction ps with
  | nil => simp [setP]
  | cons p ps ih =>
    obtain ⟨k0, v0⟩ := p
    simp only [setP]
    split
    · rename_i hk
      simp [hk]
    · rename_i hk
      have hk' : ¬ k = k0 := fun e => hk e.symm
      simp only [List.map_cons, ih, List.mem_cons, hk', false_or]
      split <;> simp

/-- **when the encoder negotiates**: only with `add_charset`, a Content-Type header, and — under
    `text_only` — a `text/*` media type (case-insensitive) -/
theorem C17_encode_only_text (can : Str → Bool) (i : EncodeIn) (h : encodeCall can i ≠ .noFind) :
    i.addCharset = true ∧ ∃ ct rest, plainElements i.contentType = ct :: rest ∧
      (i.textOnly = true → startsWith sTextSlash (lower ct.value) = true) := by
  unfold encodeCall at h
  split at h
  · exact absurd rfl h
  · rename_i ct rest hp
    split at h
    · exact absurd rfl h
    · rename_i hadd
      split at h
      · exact absurd rfl h
      · rename_i hto
        refine ⟨by simpa using hadd, ct, rest, hp, ?_⟩
        intro ht
        by_cases hs : startsWith sTextSlash (lower ct.value) = true
        · exact hs
        · exact absurd ⟨ht, hs⟩ hto

/-- the media type survives the rewrite: other parameters keep their values, the value is the same -/
theorem C17_charset_rewrite_frame (can : Str → Bool) (i : EncodeIn) (c nct : Str)
    (h : encodeCall can i = .found c nct) :
    ∃ ct rest, plainElements i.contentType = ct :: rest ∧
      nct = ct.value ++ (Elem.str { ct with params := setP ct.params sCharset (.str c) }).drop ct.value.length ∧
      ∀ k, k ≠ sCharset → getP (setP ct.params sCharset (.str c)) k = getP ct.params k := by
  obtain ⟨ct, rest, hp, _, hn, _⟩ := C17_charset_announced can i c nct h
  refine ⟨ct, rest, hp, ?_, fun k hk => setP_other _ _ _ _ hk⟩
  rw [hn]
  simp [Elem.str]

/-! ## both tools: the member wraps the encoded bytes -/

theorem takeWhile_append_stop {α : Type} (p : α → Bool) (a b : List α)
    (hb : b = [] ∨ ∃ x r, b = x :: r ∧ p x = false) : (a ++ b).takeWhile p = a.takeWhile p := by
  induction a with
  | nil =>
    rcases hb with rfl | ⟨x, r, rfl, hx⟩
    · rfl
    · simp [List.takeWhile, hx]
  | cons y ys ih =>
    simp only [List.cons_append, List.takeWhile]
    split
    · rw [ih]
    · rfl

/-- what `ct.split(';')[0]` sees does not depend on the parameters: eligibility is judged on the
    media type the handler set, with or without the charset the encoder added -/
theorem ctHead_str (e : Elem) : ctHead e.str = ctHead e.value := by
  simp only [ctHead, Elem.str]
  apply takeWhile_append_stop
  cases e.params with
  | nil => exact Or.inl rfl
  | cons p ps =>
    refine Or.inr ⟨';', (p.1 ++ ['='] ++ showPVal p.2) ++
      (ps.map fun kv => [';'] ++ kv.1 ++ ['='] ++ showPVal kv.2).flatten, ?_, by simp⟩
    simp

/-- **gzip after encode**: with both tools on a buffered text body, when the gzip tool compresses,
    the member unpacks to bytes that decode, under the announced charset, to the original text; the
    response is labelled gzip, and the eligible media type is the one the handler set. -/
theorem C17_gzip_wraps_encoded (k : Codec) (hk : IncRT k) (z : Z) (hz : z.Lawful) (ei : EncodeIn)
    (ae : Option Str) (cached : Bool) (mimes : List Str) (level mtime : Nat)
    (h : RespHeaders) (chunks : List Str) (o : BothOut)
    (hr : encodeThenGzip k z ei ae cached mimes level mtime h chunks = some o)
    (hd : o.decision = .compress) :
    (∃ data, gunzip z o.body.flatten = some data ∧ k.dec o.charset data = some chunks.flatten) ∧
    o.headers.contentEncoding = some sGzip ∧
    (∃ ct rest, plainElements ei.contentType = ct :: rest ∧ Eligible (ctHead ct.value) mimes) := by
  unfold encodeThenGzip at hr
  split at hr
  · rename_i c nct hfound
    split at hr
    · rename_i bs henc
      simp only [Option.some.injEq] at hr
      subst hr
      simp only at hd ⊢
      have hdec : gzipDecision ⟨bs.isEmpty, cached, ae, nct, mimes⟩ = .compress := by
        simpa [gzipTool] using hd
      obtain ⟨g1, g2, _, _⟩ := C17_gzip_labels z hz ⟨bs.isEmpty, cached, ae, nct, mimes⟩ level mtime h bs hdec
      refine ⟨⟨bs.flatten, g1, C17_charset_sound k hk c chunks bs henc⟩, g2, ?_⟩
      obtain ⟨ct, rest, hp, _, hn, _⟩ := C17_charset_announced _ ei c nct hfound
      refine ⟨ct, rest, hp, ?_⟩
      have he := C17_compress_only_eligible _ hdec
      simp only at he
      rw [hn, ctHead_str] at he
      exact he
    · simp at hr
  · simp at hr

/-- the tools sit where the model puts them: encode wraps the handler (`before_handler`), gzip runs at
    `before_finalize`, and `before_handler` comes first in the request's hook points -/
theorem tools_order :
    CpModel.Gen.C17.encodePoint = "before_handler".toList ∧ CpModel.Gen.C17.encodePriority = 70 ∧
    CpModel.Gen.C17.gzipPoint = "before_finalize".toList ∧ CpModel.Gen.C17.gzipPriority = 80 ∧
    CpModel.Gen.C17.hookpoints.idxOf CpModel.Gen.C17.encodePoint <
      CpModel.Gen.C17.hookpoints.idxOf CpModel.Gen.C17.gzipPoint ∧
    CpModel.Gen.C17.gzipPoint ∈ CpModel.Gen.C17.hookpoints := by decide

/-! ## the member header -/

/-- **No optional fields**: FLG is 0, so a general RFC 1952 reader skips nothing (no FEXTRA, FNAME,
    FCOMMENT, FHCRC), and the deflate data starts at offset 10 and is followed by exactly the trailer. -/
theorem C17_gzip_no_optional_fields (z : Z) (level mtime : Nat) (chunks : List Bytes) :
    (member z level mtime chunks)[3]? = some 0 ∧
    (∀ k, flagBit 0 k = false) ∧
    (∀ rest, skipOptional 0 rest = some rest) ∧
    (member z level mtime chunks).drop 10 =
      (z.deflate level chunks).flatten ++ (trailerChunks (chunks.foldl Acc.feed Acc.init)).flatten ∧
    (trailerChunks (chunks.foldl Acc.feed Acc.init)).flatten.length = 8 := by
  have hb : ∀ k, flagBit 0 k = false := by
    intro k
    simp [flagBit]
  refine ⟨by simp [member, frame, headerChunks, le32], hb, ?_, by simp [member, frame, headerChunks, le32],
    by simp [trailerChunks, le32]⟩
  intro rest
  simp [skipOptional, hb]

/-- the member is accepted by the general reader too (for every lawful deflate, level, MTIME, chunking) -/
theorem C17_gzip_roundtrip_full (z : Z) (hz : z.Lawful) (level mtime : Nat) (chunks : List Bytes) :
    gunzipFull z (member z level mtime chunks) = some chunks.flatten := by
  have h := C17_gzip_roundtrip z hz level mtime chunks
  have hm : member z level mtime chunks =
      0x1f :: 0x8b :: 0x08 :: 0x00 ::
        UInt8.ofNat (mtime % 4294967296 % 256) :: UInt8.ofNat (mtime % 4294967296 / 256 % 256) ::
        UInt8.ofNat (mtime % 4294967296 / 65536 % 256) :: UInt8.ofNat (mtime % 4294967296 / 16777216 % 256) ::
        xfl level :: 0xff ::
        ((z.deflate level chunks).flatten ++
          (trailerChunks (chunks.foldl Acc.feed Acc.init)).flatten) := by
    simp [member, frame, headerChunks, le32]
  rw [hm] at h ⊢
  have hs := (C17_gzip_no_optional_fields z level mtime chunks).2.2.1
  simp only [gunzip] at h
  simp only [gunzipFull, hs]
  simpa using h

/-- a member with FNAME set is read by the general reader and refused by the FLG = 0 reader -/
example : gunzipFull zStored ([0x1f, 0x8b, 8, 8, 0, 0, 0, 0, 0, 255, 0x61, 0] ++ [1, 7, 0] ++
    le32 (crc32 [7]).toNat ++ le32 1) = some [7] := by decide +kernel
example : gunzip zStored ([0x1f, 0x8b, 8, 8, 0, 0, 0, 0, 0, 255, 0x61, 0] ++ [1, 7, 0] ++
    le32 (crc32 [7]).toNat ++ le32 1) = none := by decide +kernel

/-- **Header table**: the ten bytes the live `compress()` emitted for every level 0..9 and two MTIMEs
    (one ≥ 2^32) are the ones the model builds -/
theorem header_table_live :
    ∀ r ∈ CpModel.Gen.C17.headerTable, (headerChunks r.1 r.2.1).flatten = r.2.2 := by decide

example : CpModel.Gen.C17.headerTable.length = 20 := by decide

/-! ## file-like bodies with short reads -/

/-- **Lossless for every read pattern**: whatever sizes the reads have, as long as only end of file
    reads empty, `file_generator` yields all of them (a short read is not the end) -/
theorem fileGen_lossless (reads : List Bytes) (h : ∀ r ∈ reads, r ≠ []) : fileGen reads = reads := by
  induction reads with
  | nil => rfl
  | cons r rs ih =>
    have hr : r ≠ [] := h r List.mem_cons_self
    simp only [fileGen, hr, if_false]
    rw [ih (fun x hx => h x (List.mem_cons_of_mem _ hx))]

/-- … and it stops at end of file -/
theorem fileGen_eof (reads rest : List Bytes) (h : ∀ r ∈ reads, r ≠ []) :
    fileGen (reads ++ [] :: rest) = reads := by
  induction reads with
  | nil => simp [fileGen]
  | cons r rs ih =>
    have hr : r ≠ [] := h r List.mem_cons_self
    simp only [List.cons_append, fileGen, hr, if_false]
    rw [ih (fun x hx => h x (List.mem_cons_of_mem _ hx))]

/-- `file_generator_limited` with `count` = the length of the data: all reads are yielded -/
theorem fileGenLimited_lossless (reads : List Bytes) (h : ∀ r ∈ reads, r ≠ []) :
    fileGenLimited reads.flatten.length reads = reads := by
  induction reads with
  | nil => rfl
  | cons r rs ih =>
    have hr : r ≠ [] := h r List.mem_cons_self
    have hl : 0 < r.length := List.length_pos_iff.mpr hr
    have h0 : ¬ (r ++ rs.flatten).length = 0 := by simp only [List.length_append]; omega
    simp only [fileGenLimited, List.flatten_cons, h0, hr, if_false]
    have : (r ++ rs.flatten).length - r.length = rs.flatten.length := by simp
    rw [this, ih (fun x hx => h x (List.mem_cons_of_mem _ hx))]

/-- a file-like body under the gzip tool: the member unpacks to the whole content, for every read pattern -/
theorem C17_file_body_roundtrip (z : Z) (hz : z.Lawful) (level mtime : Nat) (reads rest : List Bytes)
    (h : ∀ r ∈ reads, r ≠ []) :
    gunzip z (member z level mtime (fileGen (reads ++ [] :: rest))) = some reads.flatten := by
  rw [fileGen_eof reads rest h]
  exact C17_gzip_roundtrip z hz level mtime reads

example : fileGen [[1], [2, 3], [], [4]] = [[1], [2, 3]] := by decide
example : fileGenLimited 2 [[1], [2, 3], [4]] = [[1], [2, 3]] := by decide

end CpProofs.C17
