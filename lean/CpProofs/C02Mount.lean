import CpModel.DispatchFn
/-!
  Mount lookup (`Tree.script_name`, `Tree.__call__`) and the path rewriting of `VirtualHost` /
  `XMLRPCDispatcher` in front of the default dispatcher (`CpModel.DispatchFn`).
-/
namespace CpProofs.C02Mount
open CpModel.Dispatch CpModel.DispatchFn

/-- `q` is `p` or `p` continues after `q` with a slash: `q` ends at a segment boundary of `p`. -/
def SlashPrefix (q p : List Char) : Prop := q = p ∨ ∃ r, p = q ++ '/' :: r

theorem SlashPrefix.trans {a b c : List Char} (h1 : SlashPrefix a b) (h2 : SlashPrefix b c) :
    SlashPrefix a c := by
  rcases h1 with rfl | ⟨r1, rfl⟩
  · exact h2
  · rcases h2 with rfl | ⟨r2, rfl⟩
    · exact .inr ⟨r1, rfl⟩
    · exact .inr ⟨r1 ++ '/' :: r2, by simp⟩

theorem SlashPrefix.length_le {q p : List Char} (h : SlashPrefix q p) : q.length ≤ p.length := by
  rcases h with rfl | ⟨r, rfl⟩
  · exact Nat.le_refl _
  · simp

theorem beforeLastSlash_some : ∀ (p q : List Char), beforeLastSlash p = some q → ∃ r, p = q ++ '/' :: r := by
  intro p
  induction p with
  | nil => intro q h; cases h
  | cons c t ih =>
    intro q h
    simp only [beforeLastSlash] at h
    cases hb : beforeLastSlash t with
    | some q' =>
      rw [hb] at h
      injection h with h; subst h
      obtain ⟨r, hr⟩ := ih q' hb
      exact ⟨r, by rw [hr]; rfl⟩
    | none =>
      rw [hb] at h
      simp only at h
      split at h
      · rename_i hc
        injection h with h; subst h
        exact ⟨t, by rw [hc]; rfl⟩
      · cases h

theorem beforeLastSlash_append : ∀ (a r : List Char),
    beforeLastSlash (a ++ '/' :: r) =
      some (a ++ (match beforeLastSlash r with | some q => '/' :: q | none => [])) := by
  intro a
  induction a with
  | nil =>
    intro r
    simp only [List.nil_append, beforeLastSlash]
    cases beforeLastSlash r <;> simp
  | cons c t ih =>
    intro r
    simp only [List.cons_append, beforeLastSlash, ih r]

theorem cut_prefix (p : List Char) : ∃ r, p = cutLastSlash p ++ r := by
  unfold cutLastSlash
  cases h : beforeLastSlash p with
  | some q =>
    obtain ⟨r, hr⟩ := beforeLastSlash_some p q h
    exact ⟨'/' :: r, hr⟩
  | none =>
    simp only [Option.getD_none]
    exact ⟨p.drop (p.length - 1), by
      rw [List.dropLast_eq_take]; exact (List.take_append_drop _ _).symm⟩

theorem cut_length {p : List Char} (hp : p ≠ []) : (cutLastSlash p).length < p.length := by
  unfold cutLastSlash
  cases h : beforeLastSlash p with
  | some q =>
    obtain ⟨r, hr⟩ := beforeLastSlash_some p q h
    simp only [Option.getD_some]
    rw [hr]; simp only [List.length_append, List.length_cons]; omega
  | none =>
    simp only [Option.getD_none, List.length_dropLast]
    have : p.length ≠ 0 := by intro h0; exact hp (List.eq_nil_of_length_eq_zero h0)
    omega

/-- Cutting after the last slash keeps every shorter segment-boundary prefix. -/
theorem slashPrefix_cut {q p : List Char} (h : SlashPrefix q p) (hne : q ≠ p) :
    SlashPrefix q (cutLastSlash p) := by
  rcases h with rfl | ⟨r, rfl⟩
  · exact absurd rfl hne
  · unfold cutLastSlash
    rw [beforeLastSlash_append]
    simp only [Option.getD_some]
    cases beforeLastSlash r with
    | none => exact .inl (by simp)
    | some q' => exact .inr ⟨q', rfl⟩

theorem scriptNameFuel_spec (apps : List (List Char)) : ∀ (fuel : Nat) (p : List Char), p.length < fuel →
    (∀ sn, scriptNameFuel apps fuel p = some sn →
      sn ∈ apps ∧ (∃ r, p = sn ++ r) ∧ ∀ q ∈ apps, SlashPrefix q p → q.length ≤ sn.length) ∧
    (scriptNameFuel apps fuel p = none → ∀ q ∈ apps, ¬ SlashPrefix q p) := by
  intro fuel
  induction fuel with
  | zero => intro p h; omega
  | succ n ih =>
    intro p hlen
    unfold scriptNameFuel
    by_cases hc : apps.contains p = true
    · simp only [hc, if_true]
      refine ⟨?_, by intro h; cases h⟩
      intro sn h
      injection h with h; subst h
      refine ⟨by simpa using hc, ⟨[], by simp⟩, ?_⟩
      intro q _ hq
      exact hq.length_le
    · simp only [hc, Bool.false_eq_true, if_false]
      by_cases hp : p = []
      · subst hp
        simp only [if_true]
        refine ⟨(by intro sn h; cases h), ?_⟩
        intro _ q hq hs
        rcases hs with hqp | ⟨r, hr⟩
        · subst hqp; exact hc (by simpa using hq)
        · cases q <;> simp at hr
      · simp only [hp, if_false]
        have hlt := cut_length hp
        obtain ⟨ih1, ih2⟩ := ih (cutLastSlash p) (by omega)
        have hnotp : ∀ q ∈ apps, q ≠ p := by
          intro q hq heq; subst heq; exact hc (by simpa using hq)
        refine ⟨?_, ?_⟩
        · intro sn h
          obtain ⟨hm, ⟨r, hr⟩, hbest⟩ := ih1 sn h
          obtain ⟨r2, hr2⟩ := cut_prefix p
          refine ⟨hm, ⟨r ++ r2, by rw [← List.append_assoc, ← hr, ← hr2]⟩, ?_⟩
          intro q hq hs
          exact hbest q hq (slashPrefix_cut hs (hnotp q hq))
        · intro h q hq hs
          exact ih2 h q hq (slashPrefix_cut hs (hnotp q hq))

/-- **The most specific mount wins.**  `Tree.script_name(path)` returns a mounted script name that is a prefix
    of the path, and no mounted script name that ends at a segment boundary of the path (the path itself, or
    followed by `/`) is longer; it returns `None` only if no mounted script name ends at a segment boundary of
    the path (in particular never when `''` is mounted and the path starts with a slash). -/
theorem C02_most_specific_mount (apps : List (List Char)) (p : List Char) :
    (∀ sn, scriptName apps p = some sn →
      sn ∈ apps ∧ (∃ r, p = sn ++ r) ∧ ∀ q ∈ apps, SlashPrefix q p → q.length ≤ sn.length) ∧
    (scriptName apps p = none → ∀ q ∈ apps, ¬ SlashPrefix q p) :=
  scriptNameFuel_spec apps (p.length + 1) p (Nat.lt_succ_self _)

theorem scriptNameFuel_slashPrefix (apps : List (List Char)) : ∀ (fuel : Nat) (p : List Char),
    (p = [] ∨ p.head? = some '/') → ∀ sn, scriptNameFuel apps fuel p = some sn → SlashPrefix sn p := by
  intro fuel
  induction fuel with
  | zero => intro p _ sn h; cases h
  | succ n ih =>
    intro p hp sn h
    unfold scriptNameFuel at h
    split at h
    · injection h with h; exact .inl h.symm
    · split at h
      · cases h
      · rename_i hne
        have hhead : p.head? = some '/' := by
          rcases hp with h0 | h0
          · exact absurd h0 hne
          · exact h0
        -- the path contains a slash: the cut is `beforeLastSlash`
        obtain ⟨t, ht⟩ : ∃ t, p = '/' :: t := by
          cases p with
          | nil => cases hhead
          | cons c t => simp at hhead; exact ⟨t, by rw [hhead]⟩
        have hb : ∃ q, beforeLastSlash p = some q := by
          rw [ht]
          have := beforeLastSlash_append [] t
          simp only [List.nil_append] at this
          exact ⟨_, this⟩
        obtain ⟨q, hq⟩ := hb
        obtain ⟨r, hr⟩ := beforeLastSlash_some p q hq
        have hcut : cutLastSlash p = q := by unfold cutLastSlash; rw [hq]; rfl
        rw [hcut] at h
        have hq' : q = [] ∨ q.head? = some '/' := by
          cases q with
          | nil => exact .inl rfl
          | cons c q' =>
            right
            rw [hr] at hhead
            simpa using hhead
        exact (ih q hq' sn h).trans (.inr ⟨r, hr⟩)

/-- For a path that starts with a slash the chosen script name ends at a segment boundary of the path. -/
theorem C02_mount_segment_boundary (apps : List (List Char)) (p : List Char) (hp : p.head? = some '/')
    (sn : List Char) (h : scriptName apps p = some sn) : SlashPrefix sn p :=
  scriptNameFuel_slashPrefix apps _ p (.inr hp) sn h

/-- With `''` mounted every path that starts with a slash is served. -/
theorem C02_root_mount_serves_all (apps : List (List Char)) (hroot : [] ∈ apps) (t : List Char) :
    scriptName apps ('/' :: t) ≠ none := by
  intro h
  exact (C02_most_specific_mount apps ('/' :: t)).2 h [] hroot (.inr ⟨t, rfl⟩)

/-! ### examples: longest mount, trailing slash, `''` mount -/

def exApps : List (List Char) := ["".toList, "/app".toList, "/app/sub".toList]

example : treeRoute exApps [] "/app/sub/x/y".toList = some ("/app/sub".toList, "/x/y".toList) := by decide
example : treeRoute exApps [] "/app/subx/y".toList = some ("/app".toList, "/subx/y".toList) := by decide
example : treeRoute exApps [] "/app/".toList = some ("/app".toList, "/".toList) := by decide
example : treeRoute exApps [] "/app".toList = some ("/app".toList, []) := by decide
example : treeRoute exApps [] "/other".toList = some ([], "/other".toList) := by decide
example : treeRoute ["/app".toList] [] "/other".toList = none := by decide
example : treeRoute exApps "/app".toList "/sub//x".toList = some ("/app/sub".toList, "/x".toList) := by decide

/-! ### `VirtualHost` / `XMLRPCDispatcher`: the default dispatcher on a rewritten path -/

/-- `VirtualHost` without a prefix for the domain leaves the path alone. -/
theorem vhostPath_unknown (domains : List (List Char × List Char)) (domain pi : List Char)
    (h : lookup domains domain = none) : vhostPath domains domain pi = pi := by
  unfold vhostPath; rw [h]

example : vhostPath [("www.b.example".toList, "/b".toList)] "www.b.example".toList "/x/y".toList
    = "/b/x/y".toList := by decide
example : vhostPath [("www.b.example".toList, "/b".toList)] "www.a.example".toList "/x/y".toList
    = "/x/y".toList := by decide
example : patchedPath "/RPC2/a/b".toList = "/a/b/".toList := by decide
example : patchedPath "/a".toList = "/a/".toList := by decide
example : patchedPath "/RPC2".toList = "/".toList := by decide

end CpProofs.C02Mount
