import CpModel.Bus
import CpModel.Gen.C18Tables
import CpProofs.C18
/-!
  C18, second generation (`publishX` …): re-entrant listeners at full strength.
-/
namespace CpProofs.C18X
open CpModel.Bus

/-! ### frames: publish nesting is well bracketed -/

/-- `w'` continues `w`: same publish depth, the journal only grew, and everything journalled in
    between happened strictly deeper (inside publish frames opened and closed in between). -/
def Frame (w w' : XW) : Prop :=
  w'.depth = w.depth ∧ ∃ es, w'.j = w.j ++ es ∧ ∀ e ∈ es, w.depth < e.depth

theorem Frame.refl (w : XW) : Frame w w := ⟨rfl, [], by simp, by simp⟩

theorem Frame.of_eq {w w' : XW} (hd : w'.depth = w.depth) (hj : w'.j = w.j) : Frame w w' :=
  ⟨hd, [], by simp [hj], by simp⟩

theorem Frame.trans {a b c : XW} (h1 : Frame a b) (h2 : Frame b c) : Frame a c := by
  obtain ⟨d1, e1, j1, m1⟩ := h1
  obtain ⟨d2, e2, j2, m2⟩ := h2
  refine ⟨d2.trans d1, e1 ++ e2, by rw [j2, j1, List.append_assoc], ?_⟩
  intro e he
  rcases List.mem_append.mp he with h | h
  · exact m1 e h
  · rw [← d1]; exact m2 e h

def PubFrame (pub : XPub) : Prop := ∀ w c, Frame w (pub w c).1

def ReFrame (re : Re) : Prop := PubFrame re.pub ∧ ∀ w m, Frame w (re.call w m).1

theorem xbind_frame {w : XW} {r : XW × XO} {k : XW → XW × XO}
    (h1 : Frame w r.1) (h2 : ∀ w1, Frame w1 (k w1).1) : Frame w (xbind r k).1 := by
  obtain ⟨w1, o⟩ := r
  cases o with
  | none => exact h1.trans (h2 w1)
  | some e => exact h1

theorem setSt_frame (w : XW) (s : St) : Frame w (setSt w s) := Frame.of_eq rfl rfl

theorem stopW_frame (pub : XPub) (hp : PubFrame pub) (w : XW) : Frame w (stopW pub w).1 := by
  unfold stopW
  refine xbind_frame ((setSt_frame w _).trans (hp _ _)) fun w1 => ?_
  refine xbind_frame (hp _ _) fun w2 => ?_
  exact (setSt_frame w2 _).trans (hp _ _)

theorem exitW_frame (pub : XPub) (hp : PubFrame pub) (w : XW) : Frame w (exitW pub w).1 := by
  have hb : Frame w (xbind (stopW pub w) fun w1 =>
         xbind (pub (setSt w1 .exiting) .log) fun w2 =>
         xbind (pub w2 .exit) fun w3 => pub w3 .log).1 := by
    refine xbind_frame (stopW_frame pub hp w) fun w1 => ?_
    refine xbind_frame ((setSt_frame w1 _).trans (hp _ _)) fun w2 => ?_
    exact xbind_frame (hp _ _) fun w3 => hp _ _
  unfold exitW
  generalize (xbind (stopW pub w) fun w1 =>
         xbind (pub (setSt w1 .exiting) .log) fun w2 =>
         xbind (pub w2 .exit) fun w3 => pub w3 .log) = r at hb
  obtain ⟨w', o⟩ := r
  cases o with
  | none => dsimp only; split <;> exact hb
  | some e => dsimp only; split <;> exact hb

theorem startFailW_frame (pub : XPub) (hp : PubFrame pub) (w3 : XW) (e : XExc) :
    Frame w3 (startFailW pub w3 e).1 := by
  unfold startFailW
  split
  · exact Frame.refl w3
  · refine xbind_frame (hp _ _) fun w4 => ?_
    have hx := exitW_frame pub hp w4
    generalize exitW pub w4 = rx at hx
    obtain ⟨w5, ox⟩ := rx
    cases ox with
    | none => exact hx
    | some e' => dsimp only; split <;> exact hx

theorem startW_frame (pub : XPub) (hp : PubFrame pub) (w : XW) : Frame w (startW pub w).1 := by
  unfold startW
  refine xbind_frame ?_ fun w1 => ?_
  · exact (Frame.of_eq (w' := setSt { w with atexit := w.atexit + 1 } .starting) rfl rfl).trans (hp _ _)
  · have hb : Frame w1 (xbind (pub w1 .start) fun w2 => pub (setSt w2 .started) .log).1 :=
      xbind_frame (hp _ _) fun w2 => (setSt_frame w2 _).trans (hp _ _)
    generalize (xbind (pub w1 .start) fun w2 => pub (setSt w2 .started) .log) = r at hb
    obtain ⟨w3, o⟩ := r
    cases o with
    | none => exact hb
    | some e => exact hb.trans (startFailW_frame pub hp w3 e)

theorem callWith_frame (pub : XPub) (hp : PubFrame pub) (w : XW) (m : Meth) :
    Frame w (callWith pub w m).1 := by
  cases m with
  | start => exact startW_frame pub hp w
  | stop => exact stopW_frame pub hp w
  | exit => exact exitW_frame pub hp w
  | restart =>
    exact (Frame.of_eq (w' := { w with bus := { w.bus with execv := true } }) rfl rfl).trans
      (exitW_frame pub hp _)
  | graceful =>
    exact xbind_frame (hp _ _) fun w1 => hp _ _

theorem runActsX_frame (re : Re) (h : ReFrame re) (acts : List Act) (w : XW) :
    Frame w (runActsX re w acts).1 := by
  induction acts generalizing w with
  | nil => exact Frame.refl w
  | cons a rest ih =>
    cases a with
    | sub ch id prio out =>
      simp only [runActsX]
      exact (Frame.of_eq (w' := { w with bus := subscribe w.bus ch ⟨id, prio, [], out⟩ }) rfl rfl).trans (ih _)
    | unsub ch id =>
      simp only [runActsX]
      exact (Frame.of_eq (w' := { w with bus := unsubscribe w.bus ch id }) rfl rfl).trans (ih _)
    | pub ch =>
      simp only [runActsX]
      have hp := h.1 w ch
      generalize re.pub w ch = r at hp
      obtain ⟨w', o⟩ := r
      cases o with
      | none => exact hp.trans (ih w')
      | some e => exact hp
    | call m =>
      simp only [runActsX]
      have hp := h.2 w m
      generalize re.call w m = r at hp
      obtain ⟨w', o⟩ := r
      cases o with
      | none => exact hp.trans (ih w')
      | some e => exact hp

/-! ### the publish loop: what runs directly is a prefix of the snapshot -/

/-- entries journalled at publish depth `d` (the listeners one particular publish invoked itself) -/
def directAt (d : Nat) (es : List XEntry) : List XEntry := es.filter (fun e => e.depth = d)

def esig (e : XEntry) : Chan × Nat × Nat := (e.ch, e.id, e.prio)
def lsig (ch : Chan) (l : Listener) : Chan × Nat × Nat := (ch, l.id, l.prio)

theorem directAt_append (d : Nat) (a b : List XEntry) :
    directAt d (a ++ b) = directAt d a ++ directAt d b := by simp [directAt]

theorem directAt_deeper {d : Nat} {es : List XEntry} (h : ∀ e ∈ es, d < e.depth) :
    directAt d es = [] := by
  simp only [directAt, List.filter_eq_nil_iff]
  intro e he
  have := h e he
  simp; omega

/-- What the loop over `items` does to the world, whatever the listeners re-enter.
    `PB` is an optional invariant of the subscription table (e.g. "log listeners never raise"):
    with it, a loop that ends in `ChannelFailures` has run every item. -/
def LoopSpec (PB : XW → Prop) (lok : Prop) (ch : Chan) (items : List Listener) (w : XW) (r : XW × XO) : Prop :=
  ∃ es inv rest, r.1.depth = w.depth ∧ r.1.j = w.j ++ es ∧ (∀ e ∈ es, w.depth ≤ e.depth) ∧
    items = inv ++ rest ∧ (directAt w.depth es).map esig = inv.map (lsig ch) ∧
    (r.2 = none → rest = []) ∧
    (PB w → PB r.1 ∧ (lok → ch ≠ .log → ∀ ids, r.2 = some (.chanFail ids) → rest = []))

theorem LoopSpec.cont {PB : XW → Prop} {lok : Prop} {ch : Chan} {l : Listener} {rest : List Listener}
    {w wm : XW} {mid : List XEntry} {st : St} {r : XW × XO}
    (hd : wm.depth = w.depth) (hj : wm.j = w.j ++ ⟨ch, l.id, st, l.prio, w.depth⟩ :: mid)
    (hmid : ∀ x ∈ mid, w.depth < x.depth) (hP : PB w → PB wm)
    (ih : LoopSpec PB lok ch rest wm r) : LoopSpec PB lok ch (l :: rest) w r := by
  obtain ⟨es', inv', rest', h1, h2, h3, h4, h5, h6, h7⟩ := ih
  refine ⟨⟨ch, l.id, st, l.prio, w.depth⟩ :: mid ++ es', l :: inv', rest', h1.trans hd, ?_, ?_, ?_, ?_, h6, ?_⟩
  · rw [h2, hj]; simp
  · intro e he
    simp only [List.cons_append, List.mem_cons, List.mem_append] at he
    rcases he with rfl | he | he
    · exact Nat.le_refl _
    · exact Nat.le_of_lt (hmid e he)
    · rw [← hd]; exact h3 e he
  · rw [h4]; rfl
  · rw [show (⟨ch, l.id, st, l.prio, w.depth⟩ :: mid ++ es' : List XEntry) =
        [⟨ch, l.id, st, l.prio, w.depth⟩] ++ (mid ++ es') from rfl,
      directAt_append, directAt_append, directAt_deeper hmid, ← hd, List.map_append, List.nil_append, h5]
    simp [directAt, esig, lsig]
  · intro hw
    exact h7 (hP hw)

theorem LoopSpec.early {PB : XW → Prop} {lok : Prop} {ch : Chan} {l : Listener} {rest : List Listener}
    {w w2 : XW} {mid : List XEntry} {st : St} {e : XExc}
    (hd : w2.depth = w.depth) (hj : w2.j = w.j ++ ⟨ch, l.id, st, l.prio, w.depth⟩ :: mid)
    (hmid : ∀ x ∈ mid, w.depth < x.depth) (hP : PB w → PB w2)
    (hne : PB w → lok → ∀ ids, e ≠ .chanFail ids) : LoopSpec PB lok ch (l :: rest) w (w2, some e) := by
  refine ⟨⟨ch, l.id, st, l.prio, w.depth⟩ :: mid, [l], rest, hd, hj, ?_, rfl, ?_, by simp, ?_⟩
  · intro x hx
    rcases List.mem_cons.mp hx with rfl | hx
    · exact Nat.le_refl _
    · exact Nat.le_of_lt (hmid x hx)
  · rw [show (⟨ch, l.id, st, l.prio, w.depth⟩ :: mid : List XEntry) =
        [⟨ch, l.id, st, l.prio, w.depth⟩] ++ mid from rfl, directAt_append, directAt_deeper hmid]
    simp [directAt, esig, lsig]
  · intro hw
    refine ⟨hP hw, fun hk _ ids h => ?_⟩
    exact absurd (Option.some.inj h) (hne hw hk ids)

theorem ended_prop_ne {l : Listener} {r : XO} {e : XExc} (h : ended l r = .prop e) :
    ∀ ids, e ≠ .chanFail ids := by
  intro ids
  cases r with
  | none => simp [ended] at h
  | some x => cases x <;> simp [ended] at h <;> subst h <;> simp

structure LoopHyp (re : Re) (PB : XW → Prop) : Prop where
  frame : ReFrame re
  logP : ∀ w, PB w → PB (re.pub w .log).1
  jd : ∀ (w : XW) j d, PB w → PB { w with j := j, depth := d }

theorem pubLoopX_spec (re : Re) (PB : XW → Prop) (H : LoopHyp re PB) (lok : Prop)
    (hlok : lok → ∀ w, PB w → (re.pub w .log).2 = none ∨ (re.pub w .log).2 = some .outOfFuel)
    (ch : Chan) (items : List Listener)
    (hacts : ∀ l ∈ items, ∀ w, PB w → PB (runActsX re w l.acts).1)
    (w : XW) (fails : List Nat) : LoopSpec PB lok ch items w (pubLoopX re ch items w fails) := by
  induction items generalizing w fails with
  | nil =>
    refine ⟨[], [], [], rfl, by simp [pubLoopX], by simp, rfl, by simp [directAt], fun _ => rfl, ?_⟩
    intro hw
    exact ⟨by simpa [pubLoopX] using hw, fun _ _ _ _ => rfl⟩
  | cons l rest ih =>
    have hrest : ∀ x ∈ rest, ∀ w, PB w → PB (runActsX re w x.acts).1 :=
      fun x hx => hacts x (by simp [hx])
    have hf := runActsX_frame re H.frame l.acts
      { w with j := w.j ++ [⟨ch, l.id, w.bus.state, l.prio, w.depth⟩] }
    have hpa := hacts l (by simp) { w with j := w.j ++ [⟨ch, l.id, w.bus.state, l.prio, w.depth⟩] }
    simp only [pubLoopX]
    generalize runActsX re { w with j := w.j ++ [⟨ch, l.id, w.bus.state, l.prio, w.depth⟩] } l.acts = ra at hf hpa
    obtain ⟨w2, r⟩ := ra
    obtain ⟨hd, mid, hj, hmid⟩ := hf
    have hd : w2.depth = w.depth := hd
    have hj : w2.j = w.j ++ ⟨ch, l.id, w.bus.state, l.prio, w.depth⟩ :: mid := by
      rw [hj]; simp
    have hmid : ∀ x ∈ mid, w.depth < x.depth := hmid
    have hP : PB w → PB w2 := fun hw => hpa (H.jd w _ w.depth hw)
    dsimp only
    generalize hE : ended l r = E
    cases E with
    | prop e =>
      dsimp only
      exact LoopSpec.early hd hj hmid hP (fun _ _ => ended_prop_ne hE)
    | out o =>
      cases o with
      | ok => dsimp only; exact LoopSpec.cont hd hj hmid hP (ih hrest w2 fails)
      | kbdInt => dsimp only; exact LoopSpec.early hd hj hmid hP (fun _ _ ids => by simp)
      | sysExit c => dsimp only; exact LoopSpec.early hd hj hmid hP (fun _ _ ids => by simp)
      | raise =>
        dsimp only
        by_cases hlog : ch = .log
        · rw [if_pos hlog]
          exact LoopSpec.cont hd hj hmid hP (ih hrest w2 _)
        · rw [if_neg hlog]
          have hl1 := H.frame.1 w2 .log
          have hl2 := H.logP w2
          have hl3 := fun hk => hlok hk w2
          generalize re.pub w2 .log = rl at hl1 hl2 hl3
          obtain ⟨w3, ol⟩ := rl
          obtain ⟨hd3, mid3, hj3, hmid3⟩ := hl1
          have hd3' : w3.depth = w.depth := hd3.trans hd
          have hj3' : w3.j = w.j ++ ⟨ch, l.id, w.bus.state, l.prio, w.depth⟩ :: (mid ++ mid3) := by
            rw [hj3, hj]; simp
          have hmid3' : ∀ x ∈ mid ++ mid3, w.depth < x.depth := by
            intro x hx
            rcases List.mem_append.mp hx with h | h
            · exact hmid x h
            · rw [← hd]; exact hmid3 x h
          have hP3 : PB w → PB w3 := fun hw => hl2 (hP hw)
          cases ol with
          | none => dsimp only; exact LoopSpec.cont hd3' hj3' hmid3' hP3 (ih hrest w3 _)
          | some e =>
            dsimp only
            refine LoopSpec.early hd3' hj3' hmid3' hP3 ?_
            intro hw hk ids
            rcases hl3 hk (hP hw) with h | h
            · simp at h
            · simp only [Option.some.injEq] at h; subst h; simp

/-! ### `publish`: snapshot semantics, whatever the listeners re-enter -/

/-- What `publish ch` does when `ch` has the listeners `ls` at entry. -/
def PubSpec (PB : XW → Prop) (lok : Prop) (ch : Chan) (ls : List Listener) (w : XW)
    (r : XW × XO) : Prop :=
  ∃ es inv rest, r.1.depth = w.depth ∧ r.1.j = w.j ++ es ∧ (∀ e ∈ es, w.depth + 1 ≤ e.depth) ∧
    sortByPrio ls = inv ++ rest ∧ (directAt (w.depth + 1) es).map esig = inv.map (lsig ch) ∧
    (r.2 = none → rest = []) ∧
    (PB w → PB r.1 ∧ (lok → ch ≠ .log → ∀ ids, r.2 = some (.chanFail ids) → rest = []))

theorem publishWith_spec (re : Re) (PB : XW → Prop) (H : LoopHyp re PB) (lok : Prop)
    (hlok : lok → ∀ w, PB w → (re.pub w .log).2 = none ∨ (re.pub w .log).2 = some .outOfFuel)
    (w : XW) (ch : Chan) (ls : List Listener) (hl : lookup w.bus.chans ch = some ls)
    (hacts : ∀ l ∈ ls, ∀ w', PB w' → PB (runActsX re w' l.acts).1) :
    PubSpec PB lok ch ls w (publishWith re w ch) := by
  have hacts' : ∀ l ∈ sortByPrio ls, ∀ w', PB w' → PB (runActsX re w' l.acts).1 :=
    fun l hm => hacts l ((CpProofs.C18.sortByPrio_perm ls).mem_iff.mp hm)
  have sp := pubLoopX_spec re PB H lok hlok ch (sortByPrio ls) hacts' { w with depth := w.depth + 1 } []
  unfold publishWith
  rw [hl]
  dsimp only
  generalize pubLoopX re ch (sortByPrio ls) { w with depth := w.depth + 1 } [] = r at sp
  obtain ⟨w', o⟩ := r
  obtain ⟨es, inv, rest, h1, h2, h3, h4, h5, h6, h7⟩ := sp
  refine ⟨es, inv, rest, rfl, h2, h3, h4, h5, h6, fun hw => ?_⟩
  have := h7 (H.jd w w.j (w.depth + 1) hw)
  exact ⟨H.jd w' w'.j w.depth this.1, this.2⟩

theorem publishWith_none (re : Re) (w : XW) (ch : Chan) (hl : lookup w.bus.chans ch = none) :
    publishWith re w ch = (w, none) := by
  unfold publishWith; rw [hl]

theorem LoopHyp.trivial (re : Re) (h : ReFrame re) : LoopHyp re (fun _ => False) :=
  ⟨h, fun _ f => f.elim, fun _ _ _ f => f.elim⟩

theorem publishWith_frame (re : Re) (h : ReFrame re) : PubFrame (publishWith re) := by
  intro w ch
  cases hl : lookup w.bus.chans ch with
  | none => rw [publishWith_none re w ch hl]; exact Frame.refl w
  | some ls =>
    obtain ⟨es, inv, rest, h1, h2, h3, _⟩ :=
      publishWith_spec re (fun _ => False) (LoopHyp.trivial re h) False (fun f => f.elim) w ch ls hl
        (fun _ _ _ f => f.elim)
    exact ⟨h1, es, h2, fun e he => Nat.lt_of_succ_le (h3 e he)⟩

theorem reAt_frame (n : Nat) : ReFrame (reAt n) := by
  induction n with
  | zero => exact ⟨fun w c => Frame.refl w, fun w m => Frame.refl w⟩
  | succ n ih =>
    exact ⟨publishWith_frame _ ih, callWith_frame _ (publishWith_frame _ ih)⟩

/-- **C18 (re-entrant listeners) — nested publishes are well bracketed.**  Whatever the listeners
    do (subscribe, unsubscribe, publish, call start/stop/exit/restart/graceful, raise, exit; any
    fuel): when `publish` is left — normally or by an exception — the publish depth is what it
    was at entry, the journal only grew, and everything journalled meanwhile lies strictly deeper. -/
theorem publishX_frame (fuel : Nat) (w : XW) (ch : Chan) : Frame w (publishX fuel w ch).1 :=
  publishWith_frame _ (reAt_frame fuel) w ch

/-- the same for the lifecycle methods -/
theorem callX_frame (fuel : Nat) (w : XW) (m : Meth) : Frame w (callX fuel w m).1 :=
  callWith_frame _ (publishWith_frame _ (reAt_frame fuel)) w m

/-- **C18 (re-entrant listeners) — publish iterates over a snapshot.**  For ARBITRARY listener
    scripts: the listeners a publish invokes itself (journal entries at its own depth) are, in
    this order, a prefix `inv` of the priority-sorted list of the listeners subscribed to the
    channel *when the publish began* — each at most once, with the priority it had then; a
    listener unsubscribed meanwhile still runs, one subscribed meanwhile does not, a priority
    changed meanwhile does not reorder.  When the publish returns normally the prefix is the
    whole snapshot. -/
theorem publishX_snapshot (fuel : Nat) (w : XW) (ch : Chan) (ls : List Listener)
    (hl : lookup w.bus.chans ch = some ls) :
    ∃ es inv rest, (publishX fuel w ch).1.j = w.j ++ es ∧
      sortByPrio ls = inv ++ rest ∧
      (directAt (w.depth + 1) es).map esig = inv.map (lsig ch) ∧
      (∀ e ∈ es, w.depth + 1 ≤ e.depth) ∧
      ((publishX fuel w ch).2 = none → rest = []) := by
  obtain ⟨es, inv, rest, _, h2, h3, h4, h5, h6, _⟩ :=
    publishWith_spec (reAt fuel) (fun _ => False) (LoopHyp.trivial _ (reAt_frame fuel)) False
      (fun f => f.elim) w ch ls hl (fun _ _ _ f => f.elim)
  exact ⟨es, inv, rest, h2, h4, h5, h3, h6⟩

/-! ### invariants of the subscription table that survive every re-entrant operation -/

/-- A predicate on (channel, listener script) that is blind to the priority and holds for the
    listeners a script subscribes itself (those have no actions of their own). -/
structure ScriptInv where
  LP : Chan → Listener → Prop
  prio : ∀ c l p, LP c l → LP c { l with prio := p }
  closed : ∀ c l, LP c l → ∀ ch id prio out, Act.sub ch id prio out ∈ l.acts → LP ch ⟨id, prio, [], out⟩

def BusInv (I : ScriptInv) (b : Bus) : Prop :=
  ∀ c ls, lookup b.chans c = some ls → ∀ l ∈ ls, I.LP c l

theorem lookup_setChan (chans : List (Chan × List Listener)) (ch : Chan) (ls : List Listener) (c : Chan) :
    lookup (setChan chans ch ls) c = if ch = c then some ls else lookup chans c := by
  induction chans with
  | nil => simp [setChan, lookup]
  | cons x rest ih =>
    obtain ⟨k, v⟩ := x
    simp only [setChan]
    by_cases hk : k = ch
    · subst hk
      simp only [if_true, lookup]
      by_cases hkc : k = c <;> simp [hkc]
    · simp only [hk, if_false, lookup, ih]
      by_cases hkc : k = c
      · subst hkc
        simp [Ne.symm hk]
      · simp [hkc]

theorem subscribe_inv (I : ScriptInv) (b : Bus) (ch : Chan) (l : Listener)
    (hb : BusInv I b) (hl : I.LP ch l) : BusInv I (subscribe b ch l) := by
  intro c ls' hlk l' hl'
  simp only [subscribe, lookup_setChan] at hlk
  by_cases hc : ch = c
  · subst hc
    simp only [if_true, Option.some.injEq] at hlk
    have hold : ∀ x ∈ (lookup b.chans ch).getD [], I.LP ch x := by
      intro x hx
      cases hlo : lookup b.chans ch with
      | none => simp [hlo] at hx
      | some ls => simp only [hlo, Option.getD_some] at hx; exact hb ch ls hlo x hx
    subst hlk
    split at hl'
    · simp only [List.mem_map] at hl'
      obtain ⟨x, hx, rfl⟩ := hl'
      split
      · exact I.prio ch x _ (hold x hx)
      · exact hold x hx
    · rcases List.mem_append.mp hl' with h | h
      · exact hold l' h
      · simp only [List.mem_singleton] at h; subst h; exact hl
  · simp only [hc, if_false] at hlk
    exact hb c ls' hlk l' hl'

theorem unsubscribe_inv (I : ScriptInv) (b : Bus) (ch : Chan) (id : Nat)
    (hb : BusInv I b) : BusInv I (unsubscribe b ch id) := by
  unfold unsubscribe
  cases hlo : lookup b.chans ch with
  | none => exact hb
  | some ls =>
    dsimp only
    split
    · intro c ls' hlk l' hl'
      simp only [lookup_setChan] at hlk
      by_cases hc : ch = c
      · subst hc
        simp only [if_true, Option.some.injEq] at hlk
        subst hlk
        exact hb ch ls hlo l' (List.mem_filter.mp hl').1
      · simp only [hc, if_false] at hlk
        exact hb c ls' hlk l' hl'
    · exact hb

/-- the handlers preserve the invariant -/
def RePres (I : ScriptInv) (re : Re) : Prop :=
  (∀ w c, BusInv I w.bus → BusInv I (re.pub w c).1.bus) ∧
  (∀ w m, BusInv I w.bus → BusInv I (re.call w m).1.bus)

def PubPres (I : ScriptInv) (pub : XPub) : Prop := ∀ w c, BusInv I w.bus → BusInv I (pub w c).1.bus

theorem runActsX_pres (I : ScriptInv) (re : Re) (hre : RePres I re) (acts : List Act)
    (ha : ∀ ch id prio out, Act.sub ch id prio out ∈ acts → I.LP ch ⟨id, prio, [], out⟩)
    (w : XW) (hw : BusInv I w.bus) : BusInv I (runActsX re w acts).1.bus := by
  induction acts generalizing w with
  | nil => exact hw
  | cons a rest ih =>
    have har : ∀ ch id prio out, Act.sub ch id prio out ∈ rest → I.LP ch ⟨id, prio, [], out⟩ :=
      fun ch id prio out h => ha ch id prio out (List.mem_cons_of_mem _ h)
    cases a with
    | sub ch id prio out =>
      simp only [runActsX]
      exact ih har _ (subscribe_inv I w.bus ch _ hw (ha ch id prio out (by simp)))
    | unsub ch id =>
      simp only [runActsX]
      exact ih har _ (unsubscribe_inv I w.bus ch id hw)
    | pub ch =>
      simp only [runActsX]
      have hp := hre.1 w ch hw
      generalize re.pub w ch = r at hp
      obtain ⟨w', o⟩ := r
      cases o with
      | none => exact ih har w' hp
      | some e => exact hp
    | call m =>
      simp only [runActsX]
      have hp := hre.2 w m hw
      generalize re.call w m = r at hp
      obtain ⟨w', o⟩ := r
      cases o with
      | none => exact ih har w' hp
      | some e => exact hp

theorem publishWith_pres (I : ScriptInv) (re : Re) (hf : ReFrame re) (hre : RePres I re) :
    PubPres I (publishWith re) := by
  intro w ch hw
  cases hl : lookup w.bus.chans ch with
  | none => rw [publishWith_none re w ch hl]; exact hw
  | some ls =>
    obtain ⟨_, _, _, _, _, _, _, _, _, h7⟩ :=
      publishWith_spec re (fun w => BusInv I w.bus) ⟨hf, fun w h => hre.1 w .log h, fun _ _ _ h => h⟩ False (fun f => f.elim) w ch ls hl
        (fun l hm w' hw' => runActsX_pres I re hre l.acts (I.closed ch l (hw ch ls hl l hm)) w' hw')
    exact (h7 hw).1

theorem xbind_pres {I : ScriptInv} {r : XW × XO} {k : XW → XW × XO}
    (h1 : BusInv I r.1.bus) (h2 : ∀ w1, BusInv I w1.bus → BusInv I (k w1).1.bus) :
    BusInv I (xbind r k).1.bus := by
  obtain ⟨w1, o⟩ := r
  cases o with
  | none => exact h2 w1 h1
  | some e => exact h1

theorem stopW_pres (I : ScriptInv) (pub : XPub) (hp : PubPres I pub) (w : XW) (hw : BusInv I w.bus) :
    BusInv I (stopW pub w).1.bus := by
  unfold stopW
  refine xbind_pres (hp _ _ hw) fun w1 h1 => ?_
  refine xbind_pres (hp _ _ h1) fun w2 h2 => ?_
  exact hp _ _ h2

theorem exitW_pres (I : ScriptInv) (pub : XPub) (hp : PubPres I pub) (w : XW) (hw : BusInv I w.bus) :
    BusInv I (exitW pub w).1.bus := by
  have hb : BusInv I (xbind (stopW pub w) fun w1 =>
         xbind (pub (setSt w1 .exiting) .log) fun w2 =>
         xbind (pub w2 .exit) fun w3 => pub w3 .log).1.bus := by
    refine xbind_pres (stopW_pres I pub hp w hw) fun w1 h1 => ?_
    refine xbind_pres (hp _ _ h1) fun w2 h2 => ?_
    exact xbind_pres (hp _ _ h2) fun w3 h3 => hp _ _ h3
  unfold exitW
  generalize (xbind (stopW pub w) fun w1 =>
         xbind (pub (setSt w1 .exiting) .log) fun w2 =>
         xbind (pub w2 .exit) fun w3 => pub w3 .log) = r at hb
  obtain ⟨w', o⟩ := r
  cases o with
  | none => dsimp only; split <;> exact hb
  | some e => dsimp only; split <;> exact hb

theorem startFailW_pres (I : ScriptInv) (pub : XPub) (hp : PubPres I pub) (w3 : XW) (e : XExc)
    (hw : BusInv I w3.bus) : BusInv I (startFailW pub w3 e).1.bus := by
  unfold startFailW
  split
  · exact hw
  · refine xbind_pres (hp _ _ hw) fun w4 h4 => ?_
    have hx := exitW_pres I pub hp w4 h4
    generalize exitW pub w4 = rx at hx
    obtain ⟨w5, ox⟩ := rx
    cases ox with
    | none => exact hx
    | some e' => dsimp only; split <;> exact hx

theorem startW_pres (I : ScriptInv) (pub : XPub) (hp : PubPres I pub) (w : XW) (hw : BusInv I w.bus) :
    BusInv I (startW pub w).1.bus := by
  unfold startW
  refine xbind_pres (hp _ _ hw) fun w1 h1 => ?_
  have hb : BusInv I (xbind (pub w1 .start) fun w2 => pub (setSt w2 .started) .log).1.bus :=
    xbind_pres (hp _ _ h1) fun w2 h2 => hp _ _ h2
  generalize (xbind (pub w1 .start) fun w2 => pub (setSt w2 .started) .log) = r at hb
  obtain ⟨w3, o⟩ := r
  cases o with
  | none => exact hb
  | some e => exact startFailW_pres I pub hp w3 e hb

theorem callWith_pres (I : ScriptInv) (pub : XPub) (hp : PubPres I pub) (w : XW) (m : Meth)
    (hw : BusInv I w.bus) : BusInv I (callWith pub w m).1.bus := by
  cases m with
  | start => exact startW_pres I pub hp w hw
  | stop => exact stopW_pres I pub hp w hw
  | exit => exact exitW_pres I pub hp w hw
  | restart => exact exitW_pres I pub hp _ hw
  | graceful => exact xbind_pres (hp _ _ hw) fun w1 h1 => hp _ _ h1

theorem reAt_pres (I : ScriptInv) (n : Nat) : RePres I (reAt n) := by
  induction n with
  | zero => exact ⟨fun w c h => h, fun w m h => h⟩
  | succ n ih =>
    have hp := publishWith_pres I (reAt n) (reAt_frame n) ih
    exact ⟨hp, fun w m h => callWith_pres I _ hp w m h⟩

/-- Every `ScriptInv` invariant of the subscription table survives `publish` and the lifecycle
    methods, whatever the listeners re-enter. -/
theorem publishX_pres (I : ScriptInv) (fuel : Nat) : PubPres I (publishX fuel) :=
  publishWith_pres I _ (reAt_frame fuel) (reAt_pres I fuel)

theorem callX_pres (I : ScriptInv) (fuel : Nat) (w : XW) (m : Meth) (hw : BusInv I w.bus) :
    BusInv I (callX fuel w m).1.bus :=
  callWith_pres I _ (publishX_pres I fuel) w m hw

/-! ### listeners that re-enter through subscribe / unsubscribe / publish only (`NoCalls`) -/

/-- no script in the table calls a lifecycle method -/
def ncInv : ScriptInv where
  LP := fun _ l => ∀ a ∈ l.acts, ∀ m, a ≠ .call m
  prio := fun _ _ _ h => h
  closed := fun _ _ _ _ _ _ _ _ => by intro a ha; simp at ha

/-- decidable form, for concrete buses -/
def noCallsB (b : Bus) : Bool :=
  b.chans.all fun cl => cl.2.all fun l => l.acts.all fun a => match a with | .call _ => false | _ => true

def NoCalls (b : Bus) : Prop := BusInv ncInv b

theorem lookup_mem {chans : List (Chan × List Listener)} {c : Chan} {ls : List Listener}
    (h : lookup chans c = some ls) : (c, ls) ∈ chans := by
  induction chans with
  | nil => simp [lookup] at h
  | cons x rest ih =>
    obtain ⟨k, v⟩ := x
    simp only [lookup] at h
    split at h
    · rename_i hk; subst hk; simp only [Option.some.injEq] at h; subst h; simp
    · exact List.mem_cons_of_mem _ (ih h)

theorem noCalls_of_bool {b : Bus} (h : noCallsB b = true) : NoCalls b := by
  intro c ls hl l hm a ha m hcall
  simp only [noCallsB, List.all_eq_true] at h
  have := h (c, ls) (lookup_mem hl) l hm a ha
  subst hcall
  simp at this

/-- the control part of the world: everything but journal, depth and subscription table -/
def ctl (w : XW) : St × Bool × List St × Nat × Nat :=
  (w.bus.state, w.bus.execv, w.tr, w.atexit, w.warns)

def NCW (c : St × Bool × List St × Nat × Nat) (w : XW) : Prop := NoCalls w.bus ∧ ctl w = c

def PubNC (pub : XPub) : Prop := ∀ c w ch, NCW c w → NCW c (pub w ch).1

theorem unsubscribe_execv (b : Bus) (ch : Chan) (id : Nat) : (unsubscribe b ch id).execv = b.execv := by
  unfold unsubscribe; split
  · rfl
  · split <;> rfl

theorem runActsX_nc (re : Re) (hp : PubNC re.pub) (acts : List Act)
    (hno : ∀ a ∈ acts, ∀ m, a ≠ .call m)
    (c : St × Bool × List St × Nat × Nat) (w : XW) (hw : NCW c w) : NCW c (runActsX re w acts).1 := by
  induction acts generalizing w with
  | nil => exact hw
  | cons a rest ih =>
    have hr : ∀ a ∈ rest, ∀ m, a ≠ .call m := fun a h => hno a (List.mem_cons_of_mem _ h)
    cases a with
    | sub ch id prio out =>
      simp only [runActsX]
      refine ih hr _ ⟨subscribe_inv ncInv w.bus ch _ hw.1 (by intro a ha; simp at ha), ?_⟩
      rw [← hw.2]; rfl
    | unsub ch id =>
      simp only [runActsX]
      refine ih hr _ ⟨unsubscribe_inv ncInv w.bus ch id hw.1, ?_⟩
      rw [← hw.2]
      simp only [ctl, CpProofs.C18.unsubscribe_state, unsubscribe_execv]
    | pub ch =>
      simp only [runActsX]
      have h := hp c w ch hw
      generalize re.pub w ch = r at h
      obtain ⟨w', o⟩ := r
      cases o with
      | none => exact ih hr w' h
      | some e => exact h
    | call m => exact absurd rfl (hno (.call m) (by simp) m)

theorem publishWith_nc (re : Re) (hf : ReFrame re) (hp : PubNC re.pub) : PubNC (publishWith re) := by
  intro c w ch hw
  cases hl : lookup w.bus.chans ch with
  | none => rw [publishWith_none re w ch hl]; exact hw
  | some ls =>
    obtain ⟨_, _, _, _, _, _, _, _, _, h7⟩ :=
      publishWith_spec re (NCW c) ⟨hf, fun w h => hp c w .log h, fun _ _ _ h => h⟩ False
        (fun f => f.elim) w ch ls hl
        (fun l hm w' hw' => runActsX_nc re hp l.acts (hw.1 ch ls hl l hm) c w' hw')
    exact (h7 hw).1

theorem reAt_nc (n : Nat) : PubNC (reAt n).pub := by
  induction n with
  | zero => intro c w ch h; exact h
  | succ n ih => exact publishWith_nc _ (reAt_frame n) ih

/-- **C18 (re-entrant listeners)** — for ARBITRARY scripts without lifecycle calls (re-entrant
    subscribe / unsubscribe / publish at any depth, failing log listeners, any outcome):
    `publish` changes neither the state, nor `execv`, nor the state trace, nor the atexit table. -/
theorem publishX_nc (fuel : Nat) : PubNC (publishX fuel) :=
  publishWith_nc _ (reAt_frame fuel) (reAt_nc fuel)

theorem PubNC.keep {pub : XPub} (hp : PubNC pub) (w : XW) (ch : Chan) (hi : NoCalls w.bus) :
    NoCalls (pub w ch).1.bus ∧ (pub w ch).1.bus.state = w.bus.state ∧
    (pub w ch).1.bus.execv = w.bus.execv ∧ (pub w ch).1.tr = w.tr := by
  have h := hp (ctl w) w ch ⟨hi, rfl⟩
  obtain ⟨h1, h2⟩ := h
  simp only [ctl, Prod.mk.injEq] at h2
  exact ⟨h1, h2.1, h2.2.1, h2.2.2.1⟩

/-- `r` continues `w` with exactly the state assignments `p`, ending in state `s` -/
def TrSt (w r : XW) (p : List St) (s : St) : Prop :=
  r.tr = w.tr ++ p ∧ r.bus.state = s ∧ r.bus.execv = w.bus.execv ∧ NoCalls r.bus

theorem TrSt.pub {pub : XPub} (hp : PubNC pub) {w r : XW} {p : List St} {s : St} (h : TrSt w r p s)
    (ch : Chan) : TrSt w (pub r ch).1 p s := by
  obtain ⟨k1, k2, k3, k4⟩ := hp.keep r ch h.2.2.2
  exact ⟨k4.trans h.1, k2.trans h.2.1, k3.trans h.2.2.1, k1⟩

theorem TrSt.set {w r : XW} {p : List St} {s : St} (h : TrSt w r p s) (s' : St) :
    TrSt w (setSt r s') (p ++ [s']) s' :=
  ⟨by simp [setSt, h.1], rfl, h.2.2.1, h.2.2.2⟩

theorem stopW_trace (pub : XPub) (hp : PubNC pub) (w0 w : XW) (p : List St) (s : St)
    (h : TrSt w0 w p s) :
    (TrSt w0 (stopW pub w).1 (p ++ [.stopping]) .stopping ∧ (stopW pub w).2 ≠ none) ∨
    TrSt w0 (stopW pub w).1 (p ++ [.stopping, .stopped]) .stopped := by
  unfold stopW
  have h1 := (h.set .stopping).pub hp .log
  generalize pub (setSt w .stopping) .log = r1 at h1
  obtain ⟨w1, o1⟩ := r1
  cases o1 with
  | some e => exact Or.inl ⟨h1, by simp [xbind]⟩
  | none =>
    simp only [xbind]
    have h2 := h1.pub hp .stop
    generalize pub w1 .stop = r2 at h2
    obtain ⟨w2, o2⟩ := r2
    cases o2 with
    | some e => exact Or.inl ⟨h2, by simp⟩
    | none =>
      dsimp only
      have h3 := (h2.set .stopped).pub hp .log
      simp only [List.append_assoc, List.cons_append, List.nil_append] at h3
      exact Or.inr h3

theorem exitW_trace (pub : XPub) (hp : PubNC pub) (w0 w : XW) (p : List St) (s : St)
    (h : TrSt w0 w p s) :
    ((exitW pub w).2 ≠ none ∧
      (TrSt w0 (exitW pub w).1 (p ++ [.stopping]) .stopping ∨
       TrSt w0 (exitW pub w).1 (p ++ [.stopping, .stopped]) .stopped)) ∨
    TrSt w0 (exitW pub w).1 (p ++ [.stopping, .stopped, .exiting]) .exiting := by
  have hs := stopW_trace pub hp w0 w p s h
  have key : ∀ r : XW × XO,
      r = (xbind (stopW pub w) fun w1 => xbind (pub (setSt w1 .exiting) .log) fun w2 =>
            xbind (pub w2 .exit) fun w3 => pub w3 .log) →
      (r.2 ≠ none ∧ (TrSt w0 r.1 (p ++ [.stopping]) .stopping ∨
        TrSt w0 r.1 (p ++ [.stopping, .stopped]) .stopped)) ∨
      TrSt w0 r.1 (p ++ [.stopping, .stopped, .exiting]) .exiting := by
    intro r hr
    generalize stopW pub w = rs at hs hr
    obtain ⟨w1, o1⟩ := rs
    cases o1 with
    | some e =>
      simp only [xbind] at hr; subst hr
      rcases hs with ⟨a, _⟩ | a
      · exact Or.inl ⟨by simp, Or.inl a⟩
      · exact Or.inl ⟨by simp, Or.inr a⟩
    | none =>
      rcases hs with ⟨_, b⟩ | a
      · exact absurd rfl b
      · simp only [xbind] at hr
        have h2 := (a.set .exiting).pub hp .log
        simp only [List.append_assoc, List.cons_append, List.nil_append] at h2
        generalize pub (setSt w1 .exiting) .log = r2 at h2 hr
        obtain ⟨w2, o2⟩ := r2
        cases o2 with
        | some e => dsimp only at hr; subst hr; exact Or.inr h2
        | none =>
          dsimp only at hr
          have h3 := h2.pub hp .exit
          generalize pub w2 .exit = r3 at h3 hr
          obtain ⟨w3, o3⟩ := r3
          cases o3 with
          | some e => dsimp only at hr; subst hr; exact Or.inr h3
          | none => dsimp only at hr; subst hr; exact Or.inr (h3.pub hp .log)
  unfold exitW
  have k := key _ rfl
  generalize (xbind (stopW pub w) fun w1 => xbind (pub (setSt w1 .exiting) .log) fun w2 =>
            xbind (pub w2 .exit) fun w3 => pub w3 .log) = r at k
  obtain ⟨w', o⟩ := r
  cases o with
  | none =>
    dsimp only
    rcases k with ⟨a, _⟩ | a
    · exact absurd rfl a
    · split
      · exact Or.inr a
      · exact Or.inr a
  | some e =>
    dsimp only
    rcases k with ⟨_, a⟩ | a
    · split
      · exact Or.inl ⟨by simp, a⟩
      · exact Or.inl ⟨by simp, a⟩
    · split
      · exact Or.inr a
      · exact Or.inr a

/-- where the shutdown after a failed `start()` can leave the bus -/
def exitTails : List (List St) := [[], [.stopping], [.stopping, .stopped], [.stopping, .stopped, .exiting]]

def pathEnd (p : List St) (d : St) : St := p.getLast?.getD d

theorem startFailW_trace (pub : XPub) (hp : PubNC pub) (w0 w3 : XW) (q : List St) (s : St)
    (h : TrSt w0 w3 q s) (e : XExc) :
    (startFailW pub w3 e).2 ≠ none ∧
    ∃ x ∈ exitTails, TrSt w0 (startFailW pub w3 e).1 (q ++ x) (pathEnd x s) := by
  unfold startFailW
  split
  · exact ⟨by simp, [], by simp [exitTails], by simpa [pathEnd] using h⟩
  · have h4 := h.pub hp .log
    generalize pub w3 .log = r4 at h4
    obtain ⟨w4, o4⟩ := r4
    cases o4 with
    | some e4 => exact ⟨by simp [xbind], [], by simp [exitTails], by simpa [pathEnd, xbind] using h4⟩
    | none =>
      simp only [xbind]
      have hx := exitW_trace pub hp w0 w4 q s h4
      generalize exitW pub w4 = rx at hx
      obtain ⟨w5, ox⟩ := rx
      have hpaths : ∃ x ∈ exitTails, TrSt w0 w5 (q ++ x) (pathEnd x s) := by
        rcases hx with ⟨_, a | a⟩ | a
        · exact ⟨[.stopping], by simp [exitTails], by simpa [pathEnd] using a⟩
        · exact ⟨[.stopping, .stopped], by simp [exitTails], by simpa [pathEnd] using a⟩
        · exact ⟨[.stopping, .stopped, .exiting], by simp [exitTails], by simpa [pathEnd] using a⟩
      cases ox with
      | none => exact ⟨by simp, hpaths⟩
      | some e' => dsimp only; split <;> exact ⟨by simp, hpaths⟩

theorem startW_trace (pub : XPub) (hp : PubNC pub) (w : XW) (hn : NoCalls w.bus) :
    ((startW pub w).2 = none ∧ TrSt w (startW pub w).1 [.starting, .started] .started) ∨
    ((startW pub w).2 ≠ none ∧ ∃ q ∈ [[St.starting], [.starting, .started]], ∃ x ∈ exitTails,
        TrSt w (startW pub w).1 (q ++ x) (pathEnd x (pathEnd q .starting))) := by
  unfold startW
  have h0 : TrSt w (setSt { w with atexit := w.atexit + 1 } .starting) [.starting] .starting :=
    ⟨by simp [setSt], rfl, rfl, hn⟩
  have h1 := h0.pub hp .log
  generalize pub (setSt { w with atexit := w.atexit + 1 } .starting) .log = r1 at h1
  obtain ⟨w1, o1⟩ := r1
  cases o1 with
  | some e =>
    exact Or.inr ⟨by simp [xbind], [.starting], by simp, [], by simp [exitTails],
      by simpa [xbind, pathEnd] using h1⟩
  | none =>
    simp only [xbind]
    have h2 := h1.pub hp .start
    generalize pub w1 .start = r2 at h2
    obtain ⟨w2, o2⟩ := r2
    cases o2 with
    | some e =>
      dsimp only
      obtain ⟨hne, x, hx, ht⟩ := startFailW_trace pub hp w w2 _ _ h2 e
      exact Or.inr ⟨hne, [.starting], by simp, x, hx, by simpa [pathEnd] using ht⟩
    | none =>
      dsimp only
      have h3 := (h2.set .started).pub hp .log
      simp only [List.cons_append, List.nil_append] at h3
      generalize pub (setSt w2 .started) .log = r3 at h3
      obtain ⟨w3, o3⟩ := r3
      cases o3 with
      | none => exact Or.inl ⟨rfl, h3⟩
      | some e =>
        dsimp only
        obtain ⟨hne, x, hx, ht⟩ := startFailW_trace pub hp w w3 _ _ h3 e
        exact Or.inr ⟨hne, [.starting, .started], by simp, x, hx, by simpa [pathEnd] using ht⟩

/-- the state-assignment paths each lifecycle method can take when no listener calls a lifecycle
    method itself; the last one is the path of a call that returns -/
def paths : Meth → List (List St)
  | .stop => [[.stopping], [.stopping, .stopped]]
  | .exit => [[.stopping], [.stopping, .stopped], [.stopping, .stopped, .exiting]]
  | .restart => [[.stopping], [.stopping, .stopped], [.stopping, .stopped, .exiting]]
  | .graceful => [[]]
  | .start => [[.starting],
               [.starting, .stopping], [.starting, .stopping, .stopped],
               [.starting, .stopping, .stopped, .exiting],
               [.starting, .started, .stopping], [.starting, .started, .stopping, .stopped],
               [.starting, .started, .stopping, .stopped, .exiting],
               [.starting, .started]]

/-- the edges of the state graph in the module docstring of `wspbus` -/
def documentedEdge : St → St → Bool
  | .stopped, .starting => true
  | .starting, .started => true
  | .started, .stopping => true
  | .starting, .stopping => true
  | .stopping, .stopped => true
  | .stopped, .exiting => true
  | _, _ => false

def chainOK : List St → Bool
  | a :: b :: rest => documentedEdge a b && chainOK (b :: rest)
  | _ => true

/-- every step inside such a path is an edge of the documented state graph -/
theorem paths_follow_documented_graph : ∀ m, ∀ p ∈ paths m, chainOK p = true := by
  intro m; cases m <;> decide

/-- **C18 (re-entrant listeners) — the state follows the lifecycle.**  For ARBITRARY listener
    scripts that do not call lifecycle methods themselves (re-entrant subscribe / unsubscribe /
    publish at any depth, raising / exiting listeners, failing log listeners — F19 and F22
    included), every lifecycle call assigns the states of one of the paths `paths m` (each a
    chain of documented edges), leaves the bus in the last state of that path, and a call that
    returns took the full path: start → STARTED, stop → STOPPED, exit/restart → EXITING,
    graceful → unchanged. -/
theorem lifecycle_trace_nocalls (fuel : Nat) (w : XW) (hn : NoCalls w.bus) (m : Meth) :
    ∃ p ∈ paths m, (callX fuel w m).1.tr = w.tr ++ p ∧
      (callX fuel w m).1.bus.state = pathEnd p w.bus.state ∧
      NoCalls (callX fuel w m).1.bus ∧
      ((callX fuel w m).2 = none → p = (paths m).getLast?.getD []) := by
  have hp := publishX_nc fuel
  have hw : TrSt w w [] w.bus.state := ⟨by simp, rfl, rfl, hn⟩
  unfold callX
  cases m with
  | stop =>
    simp only [callWith]
    rcases stopW_trace _ hp w w [] _ hw with ⟨a, b⟩ | a
    · exact ⟨[.stopping], by simp [paths], by simpa using a.1, by simpa [pathEnd] using a.2.1, a.2.2.2,
        fun h => absurd h b⟩
    · exact ⟨[.stopping, .stopped], by simp [paths], by simpa using a.1, by simpa [pathEnd] using a.2.1,
        a.2.2.2, fun _ => by simp [paths]⟩
  | exit =>
    simp only [callWith]
    rcases exitW_trace _ hp w w [] _ hw with ⟨b, a | a⟩ | a
    · exact ⟨[.stopping], by simp [paths], by simpa using a.1, by simpa [pathEnd] using a.2.1, a.2.2.2,
        fun h => absurd h b⟩
    · exact ⟨[.stopping, .stopped], by simp [paths], by simpa using a.1, by simpa [pathEnd] using a.2.1,
        a.2.2.2, fun h => absurd h b⟩
    · exact ⟨[.stopping, .stopped, .exiting], by simp [paths], by simpa using a.1,
        by simpa [pathEnd] using a.2.1, a.2.2.2, fun _ => by simp [paths]⟩
  | restart =>
    simp only [callWith, restartW]
    have key := exitW_trace _ hp { w with bus := { w.bus with execv := true } }
      { w with bus := { w.bus with execv := true } } [] w.bus.state ⟨by simp, rfl, rfl, hn⟩
    rcases key with ⟨b, a | a⟩ | a
    · exact ⟨[.stopping], by simp [paths], by simpa using a.1, by simpa [pathEnd] using a.2.1, a.2.2.2,
        fun h => absurd h b⟩
    · exact ⟨[.stopping, .stopped], by simp [paths], by simpa using a.1, by simpa [pathEnd] using a.2.1,
        a.2.2.2, fun h => absurd h b⟩
    · exact ⟨[.stopping, .stopped, .exiting], by simp [paths], by simpa using a.1,
        by simpa [pathEnd] using a.2.1, a.2.2.2, fun _ => by simp [paths]⟩
  | graceful =>
    simp only [callWith, gracefulW]
    have h1 := hw.pub hp .log
    generalize publishX fuel w .log = r1 at h1
    obtain ⟨w1, o1⟩ := r1
    cases o1 with
    | some e => exact ⟨[], by simp [paths], by simpa [xbind] using h1.1, by simpa [xbind, pathEnd] using h1.2.1,
        by simpa [xbind] using h1.2.2.2, fun _ => by simp [paths]⟩
    | none =>
      have h2 := h1.pub hp .graceful
      exact ⟨[], by simp [paths], by simpa [xbind] using h2.1, by simpa [xbind, pathEnd] using h2.2.1,
        by simpa [xbind] using h2.2.2.2, fun _ => by simp [paths]⟩
  | start =>
    simp only [callWith]
    rcases startW_trace _ hp w hn with ⟨b, a⟩ | ⟨b, q, hq, x, hx, a⟩
    · exact ⟨[.starting, .started], by simp [paths], a.1, by simpa [pathEnd] using a.2.1, a.2.2.2,
        fun _ => by simp [paths]⟩
    · refine ⟨q ++ x, ?_, a.1, ?_, a.2.2.2, fun h => absurd h b⟩
      · simp only [List.mem_cons, List.not_mem_nil, or_false] at hq
        simp only [exitTails, List.mem_cons, List.not_mem_nil, or_false] at hx
        rcases hq with rfl | rfl <;> rcases hx with rfl | rfl | rfl | rfl <;> simp [paths]
      · rw [a.2.1]
        simp only [List.mem_cons, List.not_mem_nil, or_false] at hq
        simp only [exitTails, List.mem_cons, List.not_mem_nil, or_false] at hx
        rcases hq with rfl | rfl <;> rcases hx with rfl | rfl | rfl | rfl <;> simp [pathEnd]

/-! ### log listeners that never raise (`Quiet`), invariantly -/

/-- log listeners are simple and return, and no script subscribes a log listener that does not -/
def qInv : ScriptInv where
  LP := fun c l => (c = .log → l.acts = [] ∧ l.out = .ok) ∧
    ∀ id prio out, Act.sub .log id prio out ∈ l.acts → out = .ok
  prio := fun _ _ _ h => h
  closed := fun _ l h ch id prio out hm =>
    ⟨fun hc => by subst hc; exact ⟨rfl, h.2 id prio out hm⟩, by intro _ _ _ hx; simp at hx⟩

def Quiet (b : Bus) : Prop := BusInv qInv b

/-- decidable form, for concrete buses -/
def quietB (b : Bus) : Bool :=
  b.chans.all fun cl => cl.2.all fun l =>
    (cl.1 != .log || (l.acts.isEmpty && l.out == .ok)) &&
    l.acts.all fun a => match a with | .sub .log _ _ out => out == .ok | _ => true

theorem quiet_of_bool {b : Bus} (h : quietB b = true) : Quiet b := by
  intro c ls hl l hm
  simp only [quietB, List.all_eq_true, Bool.and_eq_true, Bool.or_eq_true] at h
  obtain ⟨h1, h2⟩ := h (c, ls) (lookup_mem hl) l hm
  refine ⟨fun hc => ?_, fun id prio out ha => ?_⟩
  · subst hc
    rcases h1 with h1 | h1
    · simp at h1
    · simp only [List.isEmpty_iff, beq_iff_eq] at h1; exact h1
  · have := h2 _ ha
    simpa using this

theorem pubLoopX_quiet (re : Re) (ch : Chan) (items : List Listener)
    (h : ∀ l ∈ items, l.acts = [] ∧ l.out = .ok) (w : XW) (fails : List Nat) :
    pubLoopX re ch items w fails =
      ({ w with j := w.j ++ items.map fun l => ⟨ch, l.id, w.bus.state, l.prio, w.depth⟩ },
       if fails.isEmpty then none else some (.chanFail fails)) := by
  induction items generalizing w with
  | nil => simp [pubLoopX]
  | cons l rest ih =>
    have hl := h l (by simp)
    have hr : ∀ x ∈ rest, x.acts = [] ∧ x.out = .ok := fun x hx => h x (by simp [hx])
    simp only [pubLoopX, hl.1, hl.2, runActsX, ended]
    rw [ih hr]
    simp

/-- with `Quiet`, `self.log(...)` returns and touches nothing but the journal -/
theorem log_harmless (re : Re) (w : XW) (hq : Quiet w.bus) :
    ∃ es, publishWith re w .log = ({ w with j := w.j ++ es }, none) := by
  cases hl : lookup w.bus.chans .log with
  | none => exact ⟨[], by rw [publishWith_none re w .log hl]; simp⟩
  | some ls =>
    have hqs : ∀ l ∈ sortByPrio ls, l.acts = [] ∧ l.out = .ok :=
      fun l hm => (hq .log ls hl l ((CpProofs.C18.sortByPrio_perm ls).mem_iff.mp hm)).1 rfl
    refine ⟨(sortByPrio ls).map fun l => ⟨.log, l.id, w.bus.state, l.prio, w.depth + 1⟩, ?_⟩
    unfold publishWith
    rw [hl]
    simp only [pubLoopX_quiet re .log _ hqs]
    rfl

theorem reAt_logOK (n : Nat) (w : XW) (hq : Quiet w.bus) :
    ((reAt n).pub w .log).2 = none ∨ ((reAt n).pub w .log).2 = some .outOfFuel := by
  cases n with
  | zero => exact Or.inr rfl
  | succ n =>
    obtain ⟨es, h⟩ := log_harmless (reAt n) w hq
    exact Or.inl (by simp only [reAt]; rw [h])

/-- **C18 (re-entrant listeners) — every listener subscribed when the publish began runs exactly
    once, in priority order, even when listeners re-enter.**  For ARBITRARY scripts (re-entrant
    subscribe / unsubscribe / publish / lifecycle calls, raising listeners) on a bus whose log
    listeners never raise (`Quiet`, an invariant of all operations): a publish to a channel other
    than `log` that returns or raises `ChannelFailures` has itself invoked exactly the
    priority-sorted snapshot taken at entry (`sortByPrio_perm/_sorted/_stable` say what that is),
    each listener once; `Quiet` still holds afterwards. -/
theorem publishX_all_run_reentrant (fuel : Nat) (w : XW) (ch : Chan) (ls : List Listener)
    (hch : ch ≠ .log) (hq : Quiet w.bus) (hl : lookup w.bus.chans ch = some ls) :
    ∃ es, (publishX fuel w ch).1.j = w.j ++ es ∧ (∀ e ∈ es, w.depth + 1 ≤ e.depth) ∧
      Quiet (publishX fuel w ch).1.bus ∧
      (((publishX fuel w ch).2 = none ∨ ∃ ids, (publishX fuel w ch).2 = some (.chanFail ids)) →
        (directAt (w.depth + 1) es).map esig = (sortByPrio ls).map (lsig ch)) := by
  have hre := reAt_pres qInv fuel
  obtain ⟨es, inv, rest, _, h2, h3, h4, h5, h6, h7⟩ :=
    publishWith_spec (reAt fuel) (fun w => Quiet w.bus)
      ⟨reAt_frame fuel, fun w h => hre.1 w .log h, fun _ _ _ h => h⟩ True
      (fun _ w h => reAt_logOK fuel w h) w ch ls hl
      (fun l hm w' hw' => runActsX_pres qInv _ hre l.acts (qInv.closed ch l (hq ch ls hl l hm)) w' hw')
  refine ⟨es, h2, h3, (h7 hq).1, fun hr => ?_⟩
  have hrest : rest = [] := by
    rcases hr with h | ⟨ids, h⟩
    · exact h6 h
    · exact (h7 hq).2 trivial hch ids h
  rw [h5, h4, hrest, List.append_nil]

theorem startFailW_ne_none (pub : XPub) (w : XW) (e : XExc) : (startFailW pub w e).2 ≠ none := by
  unfold startFailW
  split
  · simp
  · generalize pub w .log = r
    obtain ⟨w4, o⟩ := r
    cases o with
    | some e' => simp [xbind]
    | none =>
      simp only [xbind]
      generalize exitW pub w4 = rx
      obtain ⟨w5, ox⟩ := rx
      cases ox with
      | none => simp
      | some e' => dsimp only; split <;> simp

/-- **C18 (re-entrant listeners incl. lifecycle calls)** — on a `Quiet` bus, whatever the
    listeners re-enter (including `start()/stop()/exit()` from inside listeners): a `start()`
    that returns leaves the bus STARTED and a `stop()` that returns leaves it STOPPED.
    (The analogous claim for `exit()` is false: `exit_returns_not_EXITING`.) -/
theorem final_state_reentrant_calls (fuel : Nat) (w : XW) (hq : Quiet w.bus) :
    ((callX fuel w .start).2 = none → (callX fuel w .start).1.bus.state = .started) ∧
    ((callX fuel w .stop).2 = none → (callX fuel w .stop).1.bus.state = .stopped) := by
  have hp := publishX_pres qInv fuel
  constructor
  · simp only [callX, callWith, startW]
    have h1 := hp (setSt { w with atexit := w.atexit + 1 } .starting) .log hq
    generalize publishX fuel (setSt { w with atexit := w.atexit + 1 } .starting) .log = r1 at h1
    obtain ⟨w1, o1⟩ := r1
    cases o1 with
    | some e => simp [xbind]
    | none =>
      simp only [xbind]
      have h2 := hp w1 .start h1
      generalize publishX fuel w1 .start = r2 at h2
      obtain ⟨w2, o2⟩ := r2
      cases o2 with
      | some e => dsimp only; intro h; exact absurd h (startFailW_ne_none _ _ _)
      | none =>
        dsimp only
        obtain ⟨es, h3⟩ := log_harmless (reAt fuel) (setSt w2 .started) h2
        unfold publishX
        rw [h3]
        intro _; rfl
  · simp only [callX, callWith, stopW]
    have h1 := hp (setSt w .stopping) .log hq
    generalize publishX fuel (setSt w .stopping) .log = r1 at h1
    obtain ⟨w1, o1⟩ := r1
    cases o1 with
    | some e => simp [xbind]
    | none =>
      simp only [xbind]
      have h2 := hp w1 .stop h1
      generalize publishX fuel w1 .stop = r2 at h2
      obtain ⟨w2, o2⟩ := r2
      cases o2 with
      | some e => simp
      | none =>
        dsimp only
        obtain ⟨es, h3⟩ := log_harmless (reAt fuel) (setSt w2 .stopped) h2
        unfold publishX
        rw [h3]
        intro _; rfl

/-! ### witnesses: what re-entrant listeners observe (all replayed on the real Bus, corpus/C18) -/

def c1 : Chan := .custom 1

/-- listener 1 (priority 10) unsubscribes listener 2 (priority 50) of the same channel -/
def wUnsub : XW :=
  { bus := subscribe (subscribe Bus.init c1 ⟨1, 10, [.unsub c1 2], .ok⟩) c1 ⟨2, 50, [], .ok⟩ }

/-- a listener unsubscribed during a publish still runs in that publish (it is in the snapshot),
    and not in the next one -/
theorem unsubscribed_during_publish_still_runs :
    (publishX 4 wUnsub c1).1.j.map (·.id) = [1, 2] ∧
    (publishX 4 (publishX 4 wUnsub c1).1 c1).1.j.map (·.id) = [1, 2, 1] := by decide

/-- listener 1 (priority 10) subscribes listener 3 with priority 5 -/
def wSub : XW :=
  { bus := subscribe (subscribe Bus.init c1 ⟨1, 10, [.sub c1 3 5 .ok], .ok⟩) c1 ⟨2, 50, [], .ok⟩ }

/-- a listener subscribed during a publish does not run in that publish; in the next one it runs
    at its priority -/
theorem subscribed_during_publish_waits :
    (publishX 4 wSub c1).1.j.map (·.id) = [1, 2] ∧
    (publishX 4 (publishX 4 wSub c1).1 c1).1.j.map (·.id) = [1, 2, 3, 1, 2] := by decide

/-- listener 1 (priority 10) re-subscribes listener 2 (priority 50) with priority 1 -/
def wReprio : XW :=
  { bus := subscribe (subscribe Bus.init c1 ⟨1, 10, [.sub c1 2 1 .ok], .ok⟩) c1 ⟨2, 50, [], .ok⟩ }

/-- a priority changed during a publish takes effect from the next publish on -/
theorem reprioritised_during_publish_keeps_order :
    (publishX 4 wReprio c1).1.j.map (fun e => (e.id, e.prio)) = [(1, 10), (2, 50)] ∧
    (publishX 4 (publishX 4 wReprio c1).1 c1).1.j.map (fun e => (e.id, e.prio)) =
      [(1, 10), (2, 50), (2, 1), (1, 10)] := by decide

/-- start listener 1 (priority 10) calls `stop()`; start listener 2 (priority 50) is plain -/
def wStartStop : XW :=
  { bus := subscribe (subscribe Bus.init .start ⟨1, 10, [.call .stop], .ok⟩) .start ⟨2, 50, [], .ok⟩ }

/-- "start listeners observe STARTING" does not extend to listeners that call lifecycle methods
    themselves: after listener 1 called `stop()`, listener 2 observes STOPPED (and `start()` still
    ends STARTED, as `final_state_reentrant_calls` says). -/
theorem start_listeners_see_STARTING_reentrant_false :
    ¬ (∀ (fuel : Nat) (w : XW), Quiet w.bus →
        ∀ e ∈ (callX fuel w .start).1.j, e.ch = .start → e.st = .starting) := by
  intro h
  have := h 4 wStartStop (quiet_of_bool (by decide))
  revert this
  decide

/-- exit listener 1 unsubscribes itself and calls `start()` -/
def wExitStart : XW :=
  { bus := subscribe Bus.init .exit ⟨1, 50, [.unsub .exit 1, .call .start], .ok⟩ }

/-- "`exit()` that returns leaves the bus EXITING" does not extend to listeners that call lifecycle
    methods themselves: an exit listener calling `start()` makes `exit()` return with the bus
    STARTED. -/
theorem exit_returns_not_EXITING :
    ¬ (∀ (fuel : Nat) (w : XW), Quiet w.bus →
        (callX fuel w .exit).2 = none → (callX fuel w .exit).1.bus.state = .exiting) := by
  intro h
  have := h 6 wExitStart (quiet_of_bool (by decide))
  revert this
  decide

/-- a `main` listener calling `exit()` from inside a publish: the well-known way out of `block()` -/
def wMainExit : XW :=
  { bus := subscribe (subscribe (subscribe Bus.init .main ⟨1, 50, [.call .exit], .ok⟩)
      .stop ⟨2, 50, [.pub c1], .raise⟩) c1 ⟨3, 50, [.unsub c1 3], .ok⟩ }

/-! non-vacuity: the hypotheses hold on buses with genuinely re-entrant listeners -/
example : Quiet wMainExit.bus := quiet_of_bool (by decide)
example : Quiet wUnsub.bus ∧ NoCalls wUnsub.bus := ⟨quiet_of_bool (by decide), noCalls_of_bool (by decide)⟩
example : NoCalls wSub.bus ∧ NoCalls wReprio.bus := ⟨noCalls_of_bool (by decide), noCalls_of_bool (by decide)⟩
example : lookup wUnsub.bus.chans c1 = some [⟨1, 10, [.unsub c1 2], .ok⟩, ⟨2, 50, [], .ok⟩] := by decide
/-- nesting really happens: publish(main) → exit() → publish(stop) → publish(c1), depths 1, 2, 3;
    the failing stop listener makes `exit()` end the process with code 70 -/
example : (publishX 6 wMainExit .main).1.j.map (fun e => (e.id, e.depth)) = [(1, 1), (2, 2), (3, 3)] ∧
    (publishX 6 wMainExit .main).2 = some (.procExit 70) := by decide

/-! ### small state logic: priorities, atexit, wait -/

/-- the priority argument wins — also `0` — over the callable's `priority` attribute, which wins
    over the default -/
theorem effPrio_spec (a b : Nat) (x : Option Nat) :
    effPrio (some a) x = a ∧ effPrio none (some b) = b ∧ effPrio none none = defaultPriority := by
  simp [effPrio]

/-- `_clean_exit` does nothing once the bus is EXITING; otherwise it warns and calls `exit()` -/
theorem cleanExit_spec (pub : XPub) (w : XW) :
    (w.bus.state = .exiting → cleanExitW pub w = (w, none)) ∧
    (w.bus.state ≠ .exiting → cleanExitW pub w = exitW pub { w with warns := w.warns + 1 }) := by
  unfold cleanExitW
  constructor <;> intro h <;> simp [h]

/-- `wait` returns only when the bus is in one of the awaited states -/
theorem waitW_returns_in_target (pub : XPub) (ts : List St) (ch : Option Chan) (n : Nat)
    (plan : List Sleep) (w : XW) :
    (waitW pub ts ch n plan w).2 = none → ts.contains (waitW pub ts ch n plan w).1.bus.state = true := by
  induction n generalizing plan w with
  | zero =>
    simp only [waitW]
    split
    · intro _; assumption
    · simp
  | succ n ih =>
    simp only [waitW]
    split
    · intro _; assumption
    · split
      · simp
      · simp
      · simp
      · cases ch with
        | none => simp only [xbind]; exact ih _ _
        | some c =>
          dsimp only
          generalize pub w c = r
          obtain ⟨w', o⟩ := r
          cases o with
          | some e => simp [xbind]
          | none => simp only [xbind]; exact ih _ _

/-- `ChannelFailures.__bool__`: truthy iff at least one exception was recorded — the publish loop
    raises iff the list of failures is non-empty -/
theorem pubLoopX_result_nil (re : Re) (ch : Chan) (w : XW) (fails : List Nat) :
    (pubLoopX re ch [] w fails).2 = none ↔ fails = [] := by
  simp only [pubLoopX]
  cases fails <;> simp

/-! ### tables regenerated from the live module -/

def stOfCode : Nat → Option St
  | 0 => some .stopped | 1 => some .starting | 2 => some .started | 3 => some .stopping
  | 4 => some .exiting | _ => none

def stCode : St → Nat
  | .stopped => 0 | .starting => 1 | .started => 2 | .stopping => 3 | .exiting => 4

def methOfCode : Nat → Option Meth
  | 0 => some .start | 1 => some .stop | 2 => some .exit | 3 => some .restart | 4 => some .graceful
  | _ => none

def resCode : XO → Nat
  | none => 0
  | some (.procExit c) => 1000 + c
  | _ => 2000

def dedupSt : List St → List St
  | a :: b :: rest => if a = b then dedupSt (b :: rest) else a :: dedupSt (b :: rest)
  | l => l

/-- a row of the live transition table agrees with the model -/
def rowOK (row : Nat × Nat × List Nat × Nat × Bool) : Bool :=
  match stOfCode row.1, methOfCode row.2.1 with
  | some s, some m =>
    let r := callX 2 { bus := { Bus.init with state := s } } m
    (dedupSt r.1.tr).map stCode == row.2.2.1 && resCode r.2 == row.2.2.2.1 &&
      r.1.bus.execv == row.2.2.2.2
  | _, _ => false

/-- the live module defines exactly the five states of the model, in this order -/
theorem gen_states : CpModel.Gen.C18.stateCodes = [0, 1, 2, 3, 4] := by decide

/-- a fresh `Bus()` has exactly the six built-in channels of `Bus.init` -/
theorem gen_builtin_channels :
    CpModel.Gen.C18.builtinChannelCodes = [0, 1, 2, 3, 4, 5] ∧
    Bus.init.chans.map (·.1) = [.start, .stop, .exit, .graceful, .log, .main] := by decide

theorem gen_default_priority : CpModel.Gen.C18.defaultPriority = defaultPriority := by decide

/-- `os._exit` is only ever called with EX_SOFTWARE = 70 -/
theorem gen_exit_code : CpModel.Gen.C18.exitCodes = [70] := by decide

/-- **every transition of the listener-free bus** — each of the five states × each of the five
    lifecycle methods (so also repeated `exit()`, `start()` when started, `exit()` while
    STARTING = `os._exit(70)`) — as measured on the live module, is what the model computes:
    states assigned, result, `execv` flag. -/
theorem gen_transitions_match :
    CpModel.Gen.C18.transitions.length = 25 ∧
    ∀ row ∈ CpModel.Gen.C18.transitions, rowOK row = true := by decide

/-- argument / attribute / default priority as measured on the live module = `effPrio` -/
theorem gen_priority_rows :
    CpModel.Gen.C18.prioRows.length = 9 ∧
    ∀ row ∈ CpModel.Gen.C18.prioRows, effPrio row.1 row.2.1 = row.2.2 := by decide

/-! ### the first generation (`publish`) is the call-free fragment of the second (`publishX`) -/

def eraseE (e : XEntry) : Entry := ⟨e.ch, e.id, e.st, e.prio⟩
def eraseW (w : XW) : W := { bus := w.bus, j := w.j.map eraseE }

inductive RelO : XO → Option Exc → Prop
  | none : RelO none none
  | chanFail (ids : List Nat) : RelO (some (.chanFail ids)) (some (.chanFail ids))
  | sysExit (c : Nat) : RelO (some (.sysExit c)) (some (.sysExit c))
  | kbdInt : RelO (some .kbdInt) (some .kbdInt)
  | outOfFuel : RelO (some .outOfFuel) (some .outOfFuel)

def Sim (r : XW × XO) (r' : W × Option Exc) : Prop := eraseW r.1 = r'.1 ∧ RelO r.2 r'.2

def SimPub (px : XPub) (p : Pub) : Prop :=
  (∀ w ch, NoCalls w.bus → Sim (px w ch) (p (eraseW w) ch)) ∧ PubPres ncInv px

theorem runActs_sim (re : Re) (p : Pub) (hs : SimPub re.pub p)
    (acts : List Act) (hno : ∀ a ∈ acts, ∀ m, a ≠ .call m) (w : XW) (hw : NoCalls w.bus) :
    Sim (runActsX re w acts) (runActs p (eraseW w) acts) ∧ NoCalls (runActsX re w acts).1.bus := by
  induction acts generalizing w with
  | nil => exact ⟨⟨rfl, .none⟩, hw⟩
  | cons a rest ih =>
    have hr : ∀ a ∈ rest, ∀ m, a ≠ .call m := fun a h => hno a (List.mem_cons_of_mem _ h)
    cases a with
    | sub ch id prio out =>
      simp only [runActsX, runActs]
      exact ih hr _ (subscribe_inv ncInv w.bus ch _ hw (by intro a ha; simp at ha))
    | unsub ch id =>
      simp only [runActsX, runActs]
      exact ih hr _ (unsubscribe_inv ncInv w.bus ch id hw)
    | pub ch =>
      simp only [runActsX, runActs]
      have h1 := hs.1 w ch hw
      have h2 := hs.2 w ch hw
      generalize re.pub w ch = rx at h1 h2
      generalize p (eraseW w) ch = ro at h1
      obtain ⟨wx, ox⟩ := rx
      obtain ⟨wo, oo⟩ := ro
      obtain ⟨he, hrel⟩ := h1
      dsimp only at he hrel h2
      subst he
      cases hrel with
      | none => exact ih hr wx h2
      | chanFail ids => exact ⟨⟨rfl, .chanFail ids⟩, h2⟩
      | sysExit c => exact ⟨⟨rfl, .sysExit c⟩, h2⟩
      | kbdInt => exact ⟨⟨rfl, .kbdInt⟩, h2⟩
      | outOfFuel => exact ⟨⟨rfl, .outOfFuel⟩, h2⟩
    | call m => exact absurd rfl (hno (.call m) (by simp) m)

theorem pubLoop_sim (re : Re) (p : Pub) (hs : SimPub re.pub p) (ch : Chan) (items : List Listener)
    (hno : ∀ l ∈ items, ∀ a ∈ l.acts, ∀ m, a ≠ .call m) (w : XW) (hw : NoCalls w.bus) (fails : List Nat) :
    Sim (pubLoopX re ch items w fails) (pubLoop p ch items (eraseW w) fails) := by
  induction items generalizing w fails with
  | nil =>
    simp only [pubLoopX, pubLoop]
    refine ⟨rfl, ?_⟩
    cases fails with
    | nil => exact .none
    | cons a b => exact .chanFail _
  | cons l rest ih =>
    have hr : ∀ x ∈ rest, ∀ a ∈ x.acts, ∀ m, a ≠ .call m := fun x hx => hno x (by simp [hx])
    have hra := runActs_sim re p hs l.acts (hno l (by simp))
      { w with j := w.j ++ [⟨ch, l.id, w.bus.state, l.prio, w.depth⟩] } hw
    have he : eraseW { w with j := w.j ++ [⟨ch, l.id, w.bus.state, l.prio, w.depth⟩] } =
        { eraseW w with j := (eraseW w).j ++ [⟨ch, l.id, (eraseW w).bus.state, l.prio⟩] } := by
      simp [eraseW, eraseE]
    rw [he] at hra
    simp only [pubLoopX, pubLoop]
    generalize runActsX re { w with j := w.j ++ [⟨ch, l.id, w.bus.state, l.prio, w.depth⟩] } l.acts = rx at hra
    generalize runActs p { eraseW w with j := (eraseW w).j ++ [⟨ch, l.id, (eraseW w).bus.state, l.prio⟩] } l.acts = ro at hra
    obtain ⟨w2, ox⟩ := rx
    obtain ⟨wo, oo⟩ := ro
    obtain ⟨⟨he2, hrel⟩, hn2⟩ := hra
    dsimp only at he2 hrel hn2
    subst he2
    have hraise : Sim
        (if ch = .log then pubLoopX re ch rest w2 (fails ++ [l.id]) else
          match re.pub w2 .log with
          | (w3, none) => pubLoopX re ch rest w3 (fails ++ [l.id])
          | (w3, some e) => (w3, some e))
        (raised p ch (eraseW w2) fun w3 => pubLoop p ch rest w3 (fails ++ [l.id])) := by
      unfold raised logFailure
      by_cases hlog : ch = .log
      · simp only [hlog, if_true]
        have := ih hr w2 hn2 (fails ++ [l.id])
        rw [hlog] at this
        exact this
      · simp only [hlog, if_false]
        have h1 := hs.1 w2 .log hn2
        have h2 := hs.2 w2 .log hn2
        generalize re.pub w2 .log = r3 at h1 h2
        generalize p (eraseW w2) .log = r3o at h1
        obtain ⟨w3, o3⟩ := r3
        obtain ⟨w3o, o3o⟩ := r3o
        obtain ⟨he3, hrel3⟩ := h1
        dsimp only at he3 hrel3 h2
        subst he3
        cases hrel3 with
        | none => exact ih hr w3 h2 _
        | chanFail ids => exact ⟨rfl, .chanFail ids⟩
        | sysExit c => exact ⟨rfl, .sysExit c⟩
        | kbdInt => exact ⟨rfl, .kbdInt⟩
        | outOfFuel => exact ⟨rfl, .outOfFuel⟩
    cases hrel with
    | none =>
      cases hout : l.out with
      | ok => simp only [ended, hout]; exact ih hr w2 hn2 fails
      | raise => simp only [ended, hout]; exact hraise
      | kbdInt => simp only [ended, hout]; exact ⟨rfl, .kbdInt⟩
      | sysExit c => simp only [ended, hout]; exact ⟨rfl, .sysExit _⟩
    | chanFail ids => simp only [ended]; exact hraise
    | sysExit c => simp only [ended]; exact ⟨rfl, .sysExit _⟩
    | kbdInt => simp only [ended]; exact ⟨rfl, .kbdInt⟩
    | outOfFuel => simp only [ended]; exact ⟨rfl, .outOfFuel⟩

theorem publishWith_sim (re : Re) (p : Pub) (hf : ReFrame re) (hs : SimPub re.pub p)
    (hc : ∀ w m, NoCalls w.bus → NoCalls (re.call w m).1.bus) :
    SimPub (publishWith re) (fun w ch => match lookup w.bus.chans ch with
      | none => (w, none)
      | some ls => pubLoop p ch (sortByPrio ls) w []) := by
  refine ⟨fun w ch hw => ?_, publishWith_pres ncInv re hf ⟨hs.2, hc⟩⟩
  unfold publishWith
  show Sim _ (match lookup w.bus.chans ch with
      | none => (eraseW w, none)
      | some ls => pubLoop p ch (sortByPrio ls) (eraseW w) [])
  cases hl : lookup w.bus.chans ch with
  | none => exact ⟨rfl, .none⟩
  | some ls =>
    dsimp only
    have hno : ∀ l ∈ sortByPrio ls, ∀ a ∈ l.acts, ∀ m, a ≠ .call m :=
      fun l hm => hw ch ls hl l ((CpProofs.C18.sortByPrio_perm ls).mem_iff.mp hm)
    have := pubLoop_sim re p hs ch (sortByPrio ls) hno { w with depth := w.depth + 1 } hw []
    generalize pubLoopX re ch (sortByPrio ls) { w with depth := w.depth + 1 } [] = rx at this
    obtain ⟨w', o⟩ := rx
    exact ⟨this.1, this.2⟩

/-- **The first generation is the call-free fragment of the second.**  On a bus whose scripts do
    not call lifecycle methods, `publishX fuel` (forgetting the depth annotation) is `publish (fuel + 1)`: same
    journal, same subscription table, same state, same result — for every fuel.  So every theorem of
    `CpProofs.C18` about `publish` is a theorem about the model the driver runs. -/
theorem conservative (fuel : Nat) (w : XW) (ch : Chan) (hw : NoCalls w.bus) :
    eraseW (publishX fuel w ch).1 = (publish (fuel + 1) (eraseW w) ch).1 ∧
    RelO (publishX fuel w ch).2 (publish (fuel + 1) (eraseW w) ch).2 := by
  have key : ∀ n, SimPub (reAt n).pub (publish n) := by
    intro n
    induction n with
    | zero => exact ⟨fun w ch _ => ⟨rfl, .outOfFuel⟩, fun w c h => h⟩
    | succ n ih =>
      exact publishWith_sim (reAt n) (publish n) (reAt_frame n) ih (fun w m h => (reAt_pres ncInv n).2 w m h)
  exact (key (fuel + 1)).1 w ch hw

/-! ### `exit()` runs the stop listeners before the exit listeners, whatever the listeners re-enter -/

/-- `w'` continues `w` at the same depth, and every listener invoked meanwhile *directly* (one
    publish frame above `w`) belongs to one of the channels `chs` -/
def Seg (chs : List Chan) (w w' : XW) : Prop :=
  w'.depth = w.depth ∧ ∃ es, w'.j = w.j ++ es ∧ ∀ e ∈ directAt (w.depth + 1) es, e.ch ∈ chs

theorem Seg.refl (chs : List Chan) (w : XW) : Seg chs w w := ⟨rfl, [], by simp, by simp [directAt]⟩

theorem Seg.of_eq {chs : List Chan} {w w' : XW} (hd : w'.depth = w.depth) (hj : w'.j = w.j) :
    Seg chs w w' := ⟨hd, [], by simp [hj], by simp [directAt]⟩

theorem Seg.trans {chs : List Chan} {a b c : XW} (h1 : Seg chs a b) (h2 : Seg chs b c) : Seg chs a c := by
  obtain ⟨d1, e1, j1, m1⟩ := h1
  obtain ⟨d2, e2, j2, m2⟩ := h2
  refine ⟨d2.trans d1, e1 ++ e2, by rw [j2, j1, List.append_assoc], ?_⟩
  intro e he
  rw [directAt_append] at he
  rcases List.mem_append.mp he with h | h
  · exact m1 e h
  · exact m2 e (by rw [d1]; exact h)

theorem Seg.mono {c1 c2 : List Chan} {a b : XW} (hs : ∀ x ∈ c1, x ∈ c2) (h : Seg c1 a b) : Seg c2 a b := by
  obtain ⟨d, es, j, m⟩ := h
  exact ⟨d, es, j, fun e he => hs _ (m e he)⟩

theorem publishX_seg (fuel : Nat) (w : XW) (ch : Chan) : Seg [ch] w (publishX fuel w ch).1 := by
  cases hl : lookup w.bus.chans ch with
  | none =>
    unfold publishX
    rw [publishWith_none _ w ch hl]; exact Seg.refl _ w
  | some ls =>
    obtain ⟨es, inv, rest, h1, h2, _, _, h5, _, _⟩ :=
      publishWith_spec (reAt fuel) (fun _ => False) (LoopHyp.trivial _ (reAt_frame fuel)) False
        (fun f => f.elim) w ch ls hl (fun _ _ _ f => f.elim)
    refine ⟨h1, es, h2, fun e he => ?_⟩
    have hm : esig e ∈ (directAt (w.depth + 1) es).map esig := List.mem_map_of_mem he
    rw [h5] at hm
    obtain ⟨l, _, hl⟩ := List.mem_map.mp hm
    have : e.ch = ch := by
      have := congrArg Prod.fst hl
      simpa [esig, lsig] using this.symm
    simp [this]

theorem xbind_seg {chs : List Chan} {w : XW} {r : XW × XO} {k : XW → XW × XO}
    (h1 : Seg chs w r.1) (h2 : ∀ w1, Seg chs w1 (k w1).1) : Seg chs w (xbind r k).1 := by
  obtain ⟨w1, o⟩ := r
  cases o with
  | none => exact h1.trans (h2 w1)
  | some e => exact h1

theorem stopX_seg (fuel : Nat) (w : XW) : Seg [.log, .stop] w (stopW (publishX fuel) w).1 := by
  have hlog : ∀ w, Seg [.log, .stop] w (publishX fuel w .log).1 :=
    fun w => (publishX_seg fuel w .log).mono (by simp)
  unfold stopW
  refine xbind_seg ((Seg.of_eq (w' := setSt w .stopping) rfl rfl).trans (hlog _)) fun w1 => ?_
  refine xbind_seg ((publishX_seg fuel w1 .stop).mono (by simp)) fun w2 => ?_
  exact (Seg.of_eq (w' := setSt w2 .stopped) rfl rfl).trans (hlog _)

/-- **C18 (re-entrant listeners) — exit runs the stop listeners before the exit listeners.**  For
    ARBITRARY listener scripts: the journal of `exit()` splits at a world `wm` such that every
    listener `exit()` invoked directly before `wm` is a stop (or log) listener and every one after
    it an exit (or log) listener. -/
theorem exitX_stop_before_exit (fuel : Nat) (w : XW) :
    ∃ wm, Seg [.log, .stop] w wm ∧ Seg [.log, .exit] wm (callX fuel w .exit).1 := by
  have hlog : ∀ w, Seg [.log, .exit] w (publishX fuel w .log).1 :=
    fun w => (publishX_seg fuel w .log).mono (by simp)
  have hs := stopX_seg fuel w
  have key : ∀ r : XW × XO,
      r = (xbind (stopW (publishX fuel) w) fun w1 =>
            xbind (publishX fuel (setSt w1 .exiting) .log) fun w2 =>
            xbind (publishX fuel w2 .exit) fun w3 => publishX fuel w3 .log) →
      ∃ wm, Seg [.log, .stop] w wm ∧ Seg [.log, .exit] wm r.1 := by
    intro r hr
    generalize stopW (publishX fuel) w = rs at hs hr
    obtain ⟨w1, o1⟩ := rs
    cases o1 with
    | some e => simp only [xbind] at hr; subst hr; exact ⟨w1, hs, Seg.refl _ _⟩
    | none =>
      simp only [xbind] at hr
      refine ⟨w1, hs, ?_⟩
      subst hr
      refine xbind_seg ((Seg.of_eq (w' := setSt w1 .exiting) rfl rfl).trans (hlog _)) fun w2 => ?_
      exact xbind_seg ((publishX_seg fuel w2 .exit).mono (by simp)) fun w3 => hlog w3
  simp only [callX, callWith]
  unfold exitW
  have k := key _ rfl
  generalize (xbind (stopW (publishX fuel) w) fun w1 =>
            xbind (publishX fuel (setSt w1 .exiting) .log) fun w2 =>
            xbind (publishX fuel w2 .exit) fun w3 => publishX fuel w3 .log) = r at k
  obtain ⟨w', o⟩ := r
  cases o with
  | none => dsimp only; split <;> exact k
  | some e => dsimp only; split <;> exact k

end CpProofs.C18X
