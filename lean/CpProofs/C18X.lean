import CpModel.Bus
import CpProofs.C18
/-!
  C18, second generation (`publishX` …): re-entrant listeners at full strength.
-/
namespace CpProofs.C18X
open CpModel.Bus

end CpProofs.C18X
