import CpModel.ConfigNs
import CpProofs.C08
/-!
  C08, config namespaces: which entries of a config reach which handler, in which order, and what the
  registered handlers do with them.
-/
namespace CpProofs.C08
open CpModel.Dispatch CpModel.Config CpModel.ConfigNs

/-- `<ns>.<name>` -/
def nsKey (ns name : Name) : Name := ns ++ '.' :: name

/-- **What a namespace handler is handed.**  Under the name `k` the handler of namespace `ns` gets the
    config's entry `ns.k` (its final value), and nothing under a name the config has no such entry for. -/
theorem C08_ns_delivers (c : Conf) (ns k : Name) (hns : '.' ∉ ns) :
    cget (bucket c ns) k = cget c (nsKey ns k) := by
  rw [bucket_eq, cget_nsFilter ns hns, cget_toDict]
  rfl

theorem callLoop_noraise (h : Handler) (hr : h.raisesOn = []) : ∀ (b : Conf),
    callLoop h b = (b.map fun (k, v) => Ev.call h.name k v, false) := by
  intro b
  induction b with
  | nil => rfl
  | cons x xs ih =>
    obtain ⟨k, v⟩ := x
    simp [callLoop, hr, ih]

def evNs : Ev → Name
  | .enter ns => ns
  | .call ns _ _ => ns
  | .exit ns _ => ns

theorem callLoop_ns (h : Handler) : ∀ (b : Conf), ∀ e ∈ (callLoop h b).1, evNs e = h.name := by
  intro b
  induction b with
  | nil => intro e he; simp [callLoop] at he
  | cons x xs ih =>
    obtain ⟨k, v⟩ := x
    intro e he
    simp only [callLoop] at he
    split at he
    · simp at he; subst he; rfl
    · simp only [List.mem_cons] at he
      rcases he with he | he
      · subst he; rfl
      · exact ih e he

theorem runHandler_ns (h : Handler) (b : Conf) : ∀ e ∈ (runHandler h b).1, evNs e = h.name := by
  intro e he
  unfold runHandler at he
  cases hk : h.kind with
  | plain => simp only [hk] at he; exact callLoop_ns h b e he
  | ctx sw =>
    simp only [hk] at he
    rw [List.mem_append] at he
    rcases he with he | he
    · rw [List.mem_cons] at he
      rcases he with he | he
      · subst he; rfl
      · exact callLoop_ns h b e he
    · rw [List.mem_singleton] at he
      subst he; rfl

/-- **Only registered namespaces are served.**  Every handler call of `NamespaceSet.__call__` belongs to a
    namespace of the set: an entry without a dot, or of a namespace nobody registered, reaches no handler. -/
theorem C08_ns_only_registered (c : Conf) : ∀ (hs : List Handler),
    ∀ e ∈ (nsCall c hs).1, evNs e ∈ hs.map (·.name) := by
  intro hs
  induction hs with
  | nil => intro e he; simp [nsCall] at he
  | cons h rest ih =>
    intro e he
    simp only [nsCall] at he
    split at he
    · have := runHandler_ns h (bucket c h.name) e he
      simp [this]
    · simp only [List.mem_append] at he
      rcases he with he | he
      · have := runHandler_ns h (bucket c h.name) e he
        simp [this]
      · have := ih e he
        simp only [List.map_cons, List.mem_cons]
        exact .inr this

/-- **Routing and order.**  When no callable raises and the handlers are plain callables, the trace is: for
    each handler in registration order, one call per entry of ITS namespace in the config's dict order, with
    the namespace removed from the key; no exception leaves the call. -/
theorem C08_ns_routing (c : Conf) : ∀ (hs : List Handler),
    (∀ h ∈ hs, h.raisesOn = [] ∧ h.kind = .plain) →
    nsCall c hs = (hs.flatMap fun h => (bucket c h.name).map fun (k, v) => Ev.call h.name k v, false) := by
  intro hs
  induction hs with
  | nil => intro _; rfl
  | cons h rest ih =>
    intro hh
    have h1 := hh h (List.mem_cons_self ..)
    have ih' := ih (fun x hx => hh x (List.mem_cons_of_mem _ hx))
    simp [nsCall, runHandler, h1.2, callLoop_noraise h h1.1, ih']

/-- **Context-manager namespaces.**  A handler with `__exit__` is entered first, then called per entry,
    and `__exit__` is called exactly once, last — with the exception when a call raised (the remaining
    entries are skipped), with `(None, None, None)` otherwise; the exception propagates iff `__exit__`
    answers false. -/
theorem C08_ns_context_manager (h : Handler) (sw : Bool) (hk : h.kind = .ctx sw) (b : Conf) :
    runHandler h b =
      (Ev.enter h.name :: (callLoop h b).1 ++ [Ev.exit h.name (callLoop h b).2], (callLoop h b).2 && !sw) := by
  unfold runHandler
  simp [hk]

/-- the toolbox is such a handler that never refuses: with nothing raising, `enter`, the `tools.*` entries
    in dict order, `exit(None, None, None)` — where `Toolbox.__exit__` sets up the tools that are on
    (`C08_tools`, `C08_tool_args`). -/
theorem C08_ns_toolbox (c : Conf) (sw : Bool) :
    runHandler { name := toolsNs, kind := .ctx sw } (bucket c toolsNs) =
      (Ev.enter toolsNs :: ((bucket c toolsNs).map fun (k, v) => Ev.call toolsNs k v) ++ [Ev.exit toolsNs false],
       false) := by
  rw [C08_ns_context_manager _ sw rfl, callLoop_noraise _ rfl]
  simp

/-- A propagating exception ends the whole call: no later namespace is served. -/
theorem C08_ns_propagate_stops (c : Conf) (h : Handler) (rest : List Handler)
    (hp : (runHandler h (bucket c h.name)).2 = true) :
    nsCall c (h :: rest) = ((runHandler h (bucket c h.name)).1, true) := by
  simp [nsCall, hp]

/-- A swallowed exception (or none) lets the later namespaces be served as if nothing had happened. -/
theorem C08_ns_swallow_continues (c : Conf) (h : Handler) (rest : List Handler)
    (hp : (runHandler h (bucket c h.name)).2 = false) :
    nsCall c (h :: rest) =
      ((runHandler h (bucket c h.name)).1 ++ (nsCall c rest).1, (nsCall c rest).2) := by
  simp [nsCall, hp]

example : (runHandler { name := "n".toList, kind := .ctx true, raisesOn := ["b".toList] }
    [("a".toList, .int 1), ("b".toList, .int 2), ("c".toList, .int 3)]) =
    ([.enter "n".toList, .call "n".toList "a".toList (.int 1), .call "n".toList "b".toList (.int 2),
      .exit "n".toList true], false) := by decide

/-! ### the live sets -/

/-- per request these namespaces are served (the order among them is not part of the statement) -/
theorem C08_request_ns_order :
    ∀ n ∈ ["hooks", "request", "response", "error_page", "tools"].map String.toList, n ∈ requestNamespaces := by
  decide

theorem C08_config_ns_served :
    ∀ n ∈ ["server", "engine", "log", "checker"].map String.toList, n ∈ configNamespaces := by decide

/-- `tools.*`, `request.*`, `response.*`, `hooks.*` entries of the GLOBAL config are not acted upon when the
    global config is updated (they take effect per request, through the merge) -/
theorem C08_config_ns_not_request :
    ∀ n ∈ requestNamespaces, n ∉ configNamespaces := by decide

theorem C08_app_ns : ∀ n ∈ ["log", "wsgi"].map String.toList, n ∈ appNamespaces := by decide

/-! ### the registered handlers -/

theorem startsWith_append (p s : List Char) : startsWith p (p ++ s) = true := by
  induction p with
  | nil => rfl
  | cons a as ih => simp [startsWith, ih]

/-- `request.body.<attr>` sets an attribute of the request BODY … -/
theorem C08_request_ns_body (a : Name) (v : Val) :
    requestNs ("body.".toList ++ a) v = .setattr "request.body".toList a v := by
  unfold requestNs
  rw [if_pos (startsWith_append _ _)]
  rfl

/-- … and every other `request.<attr>` an attribute of the request itself. -/
theorem C08_request_ns_attr (k : Name) (v : Val) (h : startsWith "body.".toList k = false) :
    requestNs k v = .setattr "request".toList k v := by
  unfold requestNs
  rw [h]
  rfl

theorem splitDot_headers (n : Name) : splitDot ("headers.".toList ++ n) = some ("headers".toList, n) :=
  splitDot_of (n := "headers".toList) n (by decide)

/-- `response.headers.<Name>` sets exactly that response header (dots in the header name included). -/
theorem C08_response_ns_header (n : Name) (v : Val) :
    responseNs ("headers.".toList ++ n) v = .setitem "response.headers".toList n v := by
  unfold responseNs
  rw [if_pos (startsWith_append _ _), splitDot_headers]

theorem C08_response_ns_attr (k : Name) (v : Val) (h : startsWith "headers.".toList k = false) :
    responseNs k v = .setattr "response".toList k v := by
  unfold responseNs
  rw [h]
  rfl

/-- `hooks.<point>.<anything>` attaches to `<point>`: several hooks per point and path are told apart by
    the suffix, which is otherwise ignored; an unknown point raises. -/
theorem C08_hooks_ns (points : List Name) (p suffix : Name) (hp : '.' ∉ p) :
    hooksNs points (p ++ '.' :: suffix) = if points.contains p then .hook p else .raises := by
  unfold hooksNs firstAtom
  rw [splitDot_of suffix hp]

theorem C08_hooks_ns_live :
    ∀ p ∈ CpModel.Gen.C08.hookPoints.map String.toList, hooksNs (CpModel.Gen.C08.hookPoints.map String.toList) p = .hook p := by
  decide

theorem C08_error_page_ns (v : Val) :
    errorPageNs "default".toList v = some (.errorPage none v) ∧
    errorPageNs "404".toList v = some (.errorPage (some 404) v) ∧
    errorPageNs "abc".toList v = some .raises := by
  exact ⟨rfl, rfl, rfl⟩

/-- `engine.<plugin>.on` subscribes the plugin when the value is truthy and unsubscribes it otherwise;
    any other `engine.<plugin>.<attr>` is an attribute of the plugin. -/
theorem C08_engine_ns_plugin (plugins : List (Name × Bool)) (p attr : Name) (v : Val) (hp : '.' ∉ p)
    (hsig : p ++ '.' :: attr ≠ "SIGHUP".toList ∧ p ++ '.' :: attr ≠ "SIGTERM".toList)
    (hl : lookup plugins p = some true) :
    engineNs plugins (p ++ '.' :: attr) v =
      if attr = onName then .subscribe ("engine.".toList ++ p) (truthy v)
      else .setattr ("engine.".toList ++ p) attr v := by
  unfold engineNs
  rw [if_neg (not_or.mpr hsig), splitDot_of attr hp]
  simp only [hl]
  by_cases ha : attr = onName
  · rw [if_pos ⟨ha, trivial⟩, if_pos ha]
  · rw [if_neg (fun h => ha h.1), if_neg ha]

/-- `server.<name>.on` / `server.<name>.<attr>` address the extra server `<name>`, `server.<attr>` the
    main one. -/
theorem C08_server_ns (name attr : Name) (v : Val) (hn : '.' ∉ name) :
    serverNs (name ++ '.' :: attr) v =
      if attr = onName then .subscribe ("servers:".toList ++ name) (truthy v)
      else .setattr ("servers:".toList ++ name) attr v := by
  unfold serverNs
  rw [splitDot_of attr hn]

end CpProofs.C08
