import CpModel.Ranges
/-!
  Helper lemmas for C16: laws of the transcribed `str` primitives (`split1`, `splitAll`, `strip`),
  facts read off the generated tables, and `readSlice = drop/take`.
-/
namespace CpProofs.C16
open CpModel.Ranges CpModel.Gen.C16

def AllSpace (w : Text) : Prop := ∀ c ∈ w, isSpace c = true
def NoSpace (d : Text) : Prop := ∀ c ∈ d, isSpace c = false

/-- `1*DIGIT` -/
def IsNum (d : Text) : Prop := d ≠ [] ∧ ∀ c ∈ d, isAsciiDigit c = true

instance (w : Text) : Decidable (AllSpace w) := by unfold AllSpace; exact inferInstance
instance (d : Text) : Decidable (NoSpace d) := by unfold NoSpace; exact inferInstance
instance (d : Text) : Decidable (IsNum d) := by unfold IsNum; exact inferInstance

/-! ### facts from the generated tables (they are proof obligations over the tables) -/

theorem space_codes_not_digit_dash_comma_eq :
    ∀ n ∈ pySpace, ¬ (48 ≤ n ∧ n ≤ 57) ∧ n ≠ 45 ∧ n ≠ 44 ∧ n ≠ 61 := by decide

theorem lower_table_sources :
    ∀ p ∈ lowerToBytes, pySpace.contains p.1 = false ∧ p.1 ≠ 61 := by decide

theorem isSpace_false_of_not_mem {c : Char} (h : c.toNat ∉ pySpace) : isSpace c = false := by
  simp only [isSpace]
  cases hc : pySpace.contains c.toNat with
  | false => rfl
  | true => exact absurd (List.contains_iff_mem.mp hc) h

theorem digit_not_space {c : Char} (h : isAsciiDigit c = true) : isSpace c = false := by
  apply isSpace_false_of_not_mem
  intro hm
  have := (space_codes_not_digit_dash_comma_eq _ hm).1
  simp [isAsciiDigit] at h
  omega

theorem space_ne_of_code {c : Char} (hs : isSpace c = true) :
    c ≠ '-' ∧ c ≠ ',' ∧ c ≠ '=' ∧ isAsciiDigit c = false := by
  simp only [isSpace] at hs
  have hm := List.contains_iff_mem.mp hs
  have h := space_codes_not_digit_dash_comma_eq _ hm
  refine ⟨?_, ?_, ?_, ?_⟩
  · intro e; subst e; exact h.2.1 (by decide)
  · intro e; subst e; exact h.2.2.1 (by decide)
  · intro e; subst e; exact h.2.2.2 (by decide)
  · cases hd : isAsciiDigit c with
    | false => rfl
    | true => simp [isAsciiDigit] at hd; exact absurd hd h.1

theorem digit_ne {c : Char} (h : isAsciiDigit c = true) : c ≠ '-' ∧ c ≠ ',' ∧ c ≠ '=' := by
  simp [isAsciiDigit] at h
  refine ⟨?_, ?_, ?_⟩ <;> (intro e; subst e; revert h; decide)

theorem IsNum.noSpace {d : Text} (h : IsNum d) : NoSpace d := fun c hc => digit_not_space (h.2 c hc)

theorem lowersTo_props {c t : Char} (h : lowersTo c t = true) : isSpace c = false ∧ c ≠ '=' := by
  simp only [lowersTo] at h
  have hm := List.contains_iff_mem.mp h
  have := lower_table_sources _ hm
  refine ⟨?_, ?_⟩
  · simpa [isSpace] using this.1
  · intro e; subst e; exact this.2 rfl

/-! ### split1 -/

theorem split1_append (sep : Char) (a b : Text) (h : sep ∉ a) :
    split1 sep (a ++ sep :: b) = some (a, b) := by
  induction a with
  | nil => simp [split1]
  | cons x xs ih =>
    have hx : x ≠ sep := fun e => h (by simp [e])
    have hxs : sep ∉ xs := fun m => h (List.mem_cons_of_mem _ m)
    simp [split1, hx, ih hxs]

theorem split1_none (sep : Char) (s : Text) : split1 sep s = none ↔ sep ∉ s := by
  induction s with
  | nil => simp [split1]
  | cons x xs ih =>
    simp only [split1]
    by_cases hx : x = sep
    · simp [hx]
    · simp only [hx, if_false]
      cases hr : split1 sep xs with
      | none =>
        have := ih.mp hr
        simp [this, Ne.symm hx]
      | some p =>
        obtain ⟨a, b⟩ := p
        have hn : ¬ (sep ∉ xs) := fun h => by rw [ih.mpr h] at hr; cases hr
        simp only [reduceCtorEq, false_iff, Decidable.not_not]
        exact List.mem_cons_of_mem _ (Decidable.not_not.mp hn)

theorem split1_some (sep : Char) (s a b : Text) (h : split1 sep s = some (a, b)) :
    s = a ++ sep :: b ∧ sep ∉ a := by
  induction s generalizing a with
  | nil => simp [split1] at h
  | cons x xs ih =>
    simp only [split1] at h
    by_cases hx : x = sep
    · simp [hx] at h
      obtain ⟨rfl, rfl⟩ := h
      simp [hx]
    · simp only [hx, if_false] at h
      cases hr : split1 sep xs with
      | none => simp [hr] at h
      | some p =>
        obtain ⟨a', b'⟩ := p
        simp [hr] at h
        obtain ⟨rfl, rfl⟩ := h
        have := ih a' hr
        refine ⟨by rw [this.1]; simp, ?_⟩
        intro m
        cases List.mem_cons.mp m with
        | inl e => exact hx e.symm
        | inr m' => exact this.2 m'

/-! ### splitAll / joinSep -/

/-- `sep.join(items)` -/
def joinSep (sep : Char) : List Text → Text
  | [] => []
  | [a] => a
  | a :: b :: r => a ++ sep :: joinSep sep (b :: r)

theorem splitHT_noSep (sep : Char) (a : Text) (h : sep ∉ a) : splitHT sep a = (a, []) := by
  induction a with
  | nil => rfl
  | cons x xs ih =>
    have hx : x ≠ sep := fun e => h (by simp [e])
    have hxs : sep ∉ xs := fun m => h (List.mem_cons_of_mem _ m)
    simp [splitHT, hx, ih hxs]

theorem splitHT_append (sep : Char) (a rest : Text) (h : sep ∉ a) :
    splitHT sep (a ++ sep :: rest) = (a, (splitHT sep rest).1 :: (splitHT sep rest).2) := by
  induction a with
  | nil => simp [splitHT]
  | cons x xs ih =>
    have hx : x ≠ sep := fun e => h (by simp [e])
    have hxs : sep ∉ xs := fun m => h (List.mem_cons_of_mem _ m)
    simp [splitHT, hx, ih hxs]

theorem splitAll_join (sep : Char) (items : List Text) (hne : items ≠ [])
    (h : ∀ it ∈ items, sep ∉ it) : splitAll sep (joinSep sep items) = items := by
  induction items with
  | nil => exact absurd rfl hne
  | cons a r ih =>
    cases r with
    | nil =>
      simp [joinSep, splitAll, splitHT_noSep sep a (h a (by simp))]
    | cons b r' =>
      have ha : sep ∉ a := h a (by simp)
      have := ih (by simp) (fun it m => h it (List.mem_cons_of_mem _ m))
      simp only [splitAll] at this
      simp only [joinSep, splitAll, splitHT_append sep a _ ha]
      rw [this]

/-- `sep.join(s.split(sep)) == s` -/
theorem join_splitAll (sep : Char) (s : Text) : joinSep sep (splitAll sep s) = s := by
  induction s with
  | nil => rfl
  | cons x xs ih =>
    simp only [splitAll, splitHT] at ih ⊢
    by_cases hx : x = sep
    · simp only [hx, if_true]
      simp only [joinSep, List.nil_append]
      rw [ih]
    · simp only [hx, if_false]
      cases hr : (splitHT sep xs).2 with
      | nil => simp only [hr, joinSep] at ih ⊢; rw [ih]
      | cons b r => simp only [hr, joinSep, List.cons_append] at ih ⊢; rw [ih]

theorem splitHT_fst_noSep (sep : Char) (s : Text) : sep ∉ (splitHT sep s).1 := by
  induction s with
  | nil => simp [splitHT]
  | cons x xs ih =>
    simp only [splitHT]
    by_cases hx : x = sep
    · simp [hx]
    · simp only [hx, if_false]
      intro m
      cases List.mem_cons.mp m with
      | inl e => exact hx e.symm
      | inr m' => exact ih m'

theorem splitHT_snd_noSep (sep : Char) (s : Text) : ∀ it ∈ (splitHT sep s).2, sep ∉ it := by
  induction s with
  | nil => simp [splitHT]
  | cons x xs ih =>
    simp only [splitHT]
    by_cases hx : x = sep
    · simp only [hx, if_true]
      intro it m
      cases List.mem_cons.mp m with
      | inl e => rw [e]; exact splitHT_fst_noSep sep xs
      | inr m' => exact ih it m'
    · simp only [hx, if_false]
      exact ih

theorem splitAll_noSep (sep : Char) (s : Text) : ∀ it ∈ splitAll sep s, sep ∉ it := by
  intro it m
  simp only [splitAll] at m
  cases List.mem_cons.mp m with
  | inl e => rw [e]; exact splitHT_fst_noSep sep s
  | inr m' => exact splitHT_snd_noSep sep s it m'

/-! ### strip -/

theorem lstrip_ws_append (w r : Text) (hw : AllSpace w) : lstrip (w ++ r) = lstrip r := by
  induction w with
  | nil => rfl
  | cons x xs ih =>
    have hx : isSpace x = true := hw x (by simp)
    simp [lstrip, hx, ih (fun c m => hw c (List.mem_cons_of_mem _ m))]

theorem lstrip_allSpace (w : Text) (hw : AllSpace w) : lstrip w = [] := by
  have := lstrip_ws_append w [] hw
  simpa [lstrip] using this

theorem lstrip_cons_nonspace (c : Char) (r : Text) (h : isSpace c = false) :
    lstrip (c :: r) = c :: r := by simp [lstrip, h]

theorem rstrip_allSpace (w : Text) (hw : AllSpace w) : rstrip w = [] := by
  induction w with
  | nil => rfl
  | cons x xs ih =>
    have hx : isSpace x = true := hw x (by simp)
    simp [rstrip, ih (fun c m => hw c (List.mem_cons_of_mem _ m)), hx]

theorem rstrip_append_ws (d w : Text) (hd : NoSpace d) (hw : AllSpace w) : rstrip (d ++ w) = d := by
  induction d with
  | nil => simpa using rstrip_allSpace w hw
  | cons x xs ih =>
    have hx : isSpace x = false := hd x (by simp)
    have := ih (fun c m => hd c (List.mem_cons_of_mem _ m))
    simp only [List.cons_append, rstrip, this]
    cases xs with
    | nil => simp [hx]
    | cons y ys => rfl

/-- `(w1 + d + w2).strip() == d` when `d` has no whitespace -/
theorem strip_padded (w1 d w2 : Text) (h1 : AllSpace w1) (hd : NoSpace d) (h2 : AllSpace w2) :
    strip (w1 ++ d ++ w2) = d := by
  simp only [strip, List.append_assoc]
  rw [lstrip_ws_append w1 _ h1]
  cases d with
  | nil =>
    simp only [List.nil_append]
    rw [lstrip_allSpace w2 h2]; rfl
  | cons x xs =>
    rw [List.cons_append, lstrip_cons_nonspace x _ (hd x (by simp))]
    exact rstrip_append_ws (x :: xs) w2 hd h2

theorem lstrip_decomp (s : Text) : ∃ w, AllSpace w ∧ s = w ++ lstrip s ∧
    (∀ c r, lstrip s = c :: r → isSpace c = false) := by
  induction s with
  | nil => exact ⟨[], by simp [AllSpace], rfl, by simp [lstrip]⟩
  | cons x xs ih =>
    by_cases hx : isSpace x = true
    · obtain ⟨w, hw, he, hf⟩ := ih
      refine ⟨x :: w, ?_, ?_, ?_⟩
      · intro c m
        cases List.mem_cons.mp m with
        | inl e => rw [e]; exact hx
        | inr m' => exact hw c m'
      · simp only [lstrip, hx, if_true, List.cons_append]; rw [← he]
      · simpa [lstrip, hx] using hf
    · have hx' : isSpace x = false := by simpa using hx
      refine ⟨[], by simp [AllSpace], by simp [lstrip, hx'], ?_⟩
      intro c r h
      simp [lstrip, hx'] at h
      rw [← h.1]; exact hx'

theorem rstrip_decomp (s : Text) : ∃ w, AllSpace w ∧ s = rstrip s ++ w := by
  induction s with
  | nil => exact ⟨[], by simp [AllSpace], rfl⟩
  | cons x xs ih =>
    obtain ⟨w, hw, he⟩ := ih
    simp only [rstrip]
    cases hr : rstrip xs with
    | nil =>
      rw [hr] at he
      by_cases hx : isSpace x = true
      · refine ⟨x :: w, ?_, by simp [hx, he]⟩
        intro c m
        cases List.mem_cons.mp m with
        | inl e => rw [e]; exact hx
        | inr m' => exact hw c m'
      · have hx' : isSpace x = false := by simpa using hx
        exact ⟨w, hw, by simp [hx', he]⟩
    | cons y ys =>
      rw [hr] at he
      exact ⟨w, hw, by simp [he]⟩

/-- every string is `w1 + s.strip() + w2` with `w1`, `w2` whitespace -/
theorem strip_decomp (s : Text) : ∃ w1 w2, AllSpace w1 ∧ AllSpace w2 ∧ s = w1 ++ strip s ++ w2 := by
  obtain ⟨w1, h1, e1, _⟩ := lstrip_decomp s
  obtain ⟨w2, h2, e2⟩ := rstrip_decomp (lstrip s)
  refine ⟨w1, w2, h1, h2, ?_⟩
  simp only [strip, List.append_assoc]
  rw [← e2]; exact e1

/-! ### numbers -/

theorem rangePos_num (d : Text) (h : IsNum d) : rangePos d = some (decVal d) := by
  obtain ⟨hne, hd⟩ := h
  simp only [rangePos]
  cases d with
  | nil => exact absurd rfl hne
  | cons x xs =>
    simp only [List.isEmpty_cons, Bool.false_eq_true, if_false]
    have : (x :: xs).all isAsciiDigit = true := List.all_eq_true.mpr hd
    simp [this]

theorem rangePos_some (d : Text) (n : Nat) (h : rangePos d = some n) : IsNum d ∧ n = decVal d := by
  simp only [rangePos] at h
  cases d with
  | nil => simp at h
  | cons x xs =>
    simp only [List.isEmpty_cons, Bool.false_eq_true, if_false] at h
    by_cases ha : (x :: xs).all isAsciiDigit = true
    · simp only [ha, if_true, Option.some.injEq] at h
      exact ⟨⟨by simp, List.all_eq_true.mp ha⟩, h.symm⟩
    · simp [ha] at h

/-! ### file reads -/

theorem readLimited_flatten (chunk : Nat) (hc : 0 < chunk) (content : Bytes) :
    ∀ fuel pos remaining, remaining ≤ fuel →
      (readLimited chunk content fuel pos remaining).flatten = (content.drop pos).take remaining := by
  intro fuel
  induction fuel with
  | zero =>
    intro pos remaining h
    have : remaining = 0 := by omega
    simp [readLimited, this]
  | succ fuel ih =>
    intro pos remaining h
    simp only [readLimited]
    by_cases hr : remaining = 0
    · simp [hr]
    · simp only [hr, if_false]
      by_cases hl : ((content.drop pos).take (min chunk remaining)).length = 0
      · simp only [hl, if_true, List.flatten_nil]
        have hm : 0 < min chunk remaining := by omega
        have : (content.drop pos).length = 0 := by
          simp only [List.length_take] at hl; omega
        have : content.drop pos = [] := List.eq_nil_of_length_eq_zero this
        simp [this]
      · simp only [hl, if_false, List.flatten_cons]
        have hpos : 0 < ((content.drop pos).take (min chunk remaining)).length := by omega
        rw [ih _ _ (by omega)]
        generalize hL : content.drop pos = L at *
        have hd : content.drop (pos + (L.take (min chunk remaining)).length) =
            L.drop (L.take (min chunk remaining)).length := by
          rw [← hL, List.drop_drop]
        rw [hd]
        simp only [List.length_take]
        by_cases hlen : min chunk remaining ≤ L.length
        · have e : min (min chunk remaining) L.length = min chunk remaining := by omega
          rw [e]
          have : remaining = min chunk remaining + (remaining - min chunk remaining) := by omega
          conv => rhs; rw [this, List.take_add]
        · have e : min (min chunk remaining) L.length = L.length := by omega
          rw [e]
          have h1 : L.take (min chunk remaining) = L := List.take_of_length_le (by omega)
          have h2 : L.take remaining = L := List.take_of_length_le (by omega)
          simp [h1, h2]

/-- `seek(start)` + `file_generator_limited(f, count)` delivers `content[start:start+count]` -/
theorem readSlice_eq (content : Bytes) (start count : Nat) :
    readSlice content start count = (content.drop start).take count := by
  simp only [readSlice]
  exact readLimited_flatten 65536 (by decide) content (count + 1) start count (by omega)

end CpProofs.C16
