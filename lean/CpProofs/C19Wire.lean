import CpProofs.C19
import CpProofs.C19Md5
import CpProofs.C19Sound
/-!
  C19 — the two ends of the wire that the tool theorems did not cover.

  **Outgoing: "401 with a well-formed challenge".**  `www_authenticate` / `basic_auth` write the realm and the charset
  name as quoted-strings (`\` and `"` as quoted-pairs; fix for finding F26), so the result is literally `<Scheme> `
  followed by a `name="value"` list — the same grammar the Authorization theorems use — for **every** realm and
  charset name, and parsing it back (with the transcribed `parse_http_list` / `parse_keqv_list`, i.e. what a Python
  client does) gives exactly realm, nonce, algorithm, qop, [stale], [charset].  The only condition left is on the
  nonce's hash part, discharged for the concrete MD5 (`md5Hex` yields hexadecimal digits, `'%s' % int` yields digits
  and `-`).  The code before the fix pasted the realm as it is (`digestChallengeUnescaped`, `basicChallengeUnescaped`):
  for those the statement is false (`…Unescaped_wellformed_false`), and they coincide with the repaired challenges on
  every realm / charset name free of `"` and `\` (`…_unchanged_for_plain_realms`).

  **Incoming: `Request.process_headers`.**  The tools read `request.headers['Authorization']`, which is the raw value
  after `strip()` and — iff `=?` occurs in it — RFC 2047 decoding.  A standard client header contains no `=?`
  and neither starts nor ends with white space, so it reaches the tool unchanged: the client theorems are lifted
  from `digestAuth` / `basicAuth` to `digestRequest` / `basicRequest` (raw header in, outcome out).
-/
namespace CpProofs.C19
open CpModel.Auth CpModel.AuthPrims CpModel.Gen.C19

/-! ### quote-free text -/

/-- no double quote, no backslash -/
def NoQ (s : Str) : Prop := ∀ c ∈ s, c ≠ '"' ∧ c ≠ '\\'

theorem escQ_id : ∀ (s : Str), NoQ s → escQ s = s
  | [], _ => rfl
  | c :: cs, h => by
    have hc := h c (by simp)
    have ih := escQ_id cs (fun d hd => h d (List.mem_cons_of_mem _ hd))
    simp [escQ, hc.1, hc.2, ih]

theorem NoQ_of_all (s : Str) (h : s.all (fun c => c ≠ '"' && c ≠ '\\') = true) : NoQ s := by
  intro c hc
  have := List.all_eq_true.mp h c hc
  simpa using this

theorem NoQ_append {a b : Str} (ha : NoQ a) (hb : NoQ b) : NoQ (a ++ b) := by
  intro c hc
  rcases List.mem_append.mp hc with h | h
  · exact ha c h
  · exact hb c h

theorem isHexChar_noQ (c : Char) (h : isHexChar c = true) : c ≠ '"' ∧ c ≠ '\\' := by
  constructor
  · rintro rfl; exact absurd h (by decide)
  · rintro rfl; exact absurd h (by decide)

theorem md5Hex_noQ (s : Str) : NoQ (md5Hex s) := fun c hc => isHexChar_noQ c (md5Hex_isHex s c hc)

theorem isDigit_noQ (c : Char) (h : c.isDigit = true) : c ≠ '"' ∧ c ≠ '\\' := by
  constructor
  · rintro rfl; exact absurd h (by decide)
  · rintro rfl; exact absurd h (by decide)

theorem natRepr_noQ (m : Nat) : NoQ (Nat.repr m).toList := by
  intro c hc
  rw [Nat.toList_repr] at hc
  exact isDigit_noQ c (Nat.isDigit_of_mem_toDigits (by decide) (by decide) hc)

/-- `'%s' % n` for an int: digits and possibly a minus sign -/
theorem showInt_noQ (n : Int) : NoQ (showInt n) := by
  unfold showInt
  cases n with
  | ofNat m =>
    have : toString (Int.ofNat m) = Nat.repr m := rfl
    rw [this]
    exact natRepr_noQ m
  | negSucc m =>
    have : toString (Int.negSucc m) = "-" ++ Nat.repr (m + 1) := rfl
    rw [this, String.toList_append]
    exact NoQ_append (NoQ_of_all _ (by decide)) (natRepr_noQ _)

/-! ### the Digest challenge -/

/-- the parameters of the challenge, as a field list -/
def digestChallengeFlds (P : Prims) (cfg : DigestCfg) (now : Int) (stale : Bool) : List Fld :=
  [.quoted (cs! "realm") cfg.realm,
   .quoted (cs! "nonce") (synthesizeNonce P cfg.realm cfg.key (showInt now)),
   .quoted (cs! "algorithm") challengeAlgorithm,
   .quoted (cs! "qop") challengeQop]
  ++ (if stale then [.quoted (cs! "stale") (cs! "true")] else [])
  ++ (if pyUpper cfg.acceptCharset ≠ fallbackCharset then [.quoted (cs! "charset") (pyUpper cfg.acceptCharset)]
      else [])

theorem digestChallengeFlds_good (P : Prims) (cfg : DigestCfg) (now : Int) (stale : Bool) :
    ∀ f ∈ digestChallengeFlds P cfg now stale, f.Good := by
  intro f hf
  unfold digestChallengeFlds at hf
  have g1 : GoodKey (cs! "realm") := ⟨by decide, by decide⟩
  have g2 : GoodKey (cs! "nonce") := ⟨by decide, by decide⟩
  have g3 : GoodKey (cs! "algorithm") := ⟨by decide, by decide⟩
  have g4 : GoodKey (cs! "qop") := ⟨by decide, by decide⟩
  have g5 : GoodKey (cs! "stale") := ⟨by decide, by decide⟩
  have g6 : GoodKey (cs! "charset") := ⟨by decide, by decide⟩
  simp only [List.mem_append, List.mem_cons, List.not_mem_nil, or_false] at hf
  rcases hf with (((rfl | rfl | rfl | rfl) | hf) | hf)
  · exact g1
  · exact g2
  · exact g3
  · exact g4
  · split at hf
    · simp only [List.mem_cons, List.not_mem_nil, or_false] at hf; subst hf; exact g5
    · simp at hf
  · split at hf
    · simp only [List.mem_cons, List.not_mem_nil, or_false] at hf; subst hf; exact g6
    · simp at hf

/-- whatever the realm and the charset name, `www_authenticate` writes exactly `Digest ` + the standard serialisation
    of its parameters (the nonce being free of `"` and `\`, which it is not escaped for) -/
theorem digestChallenge_eq_serialise (P : Prims) (cfg : DigestCfg) (now : Int) (stale : Bool)
    (hn : NoQ (synthesizeNonce P cfg.realm cfg.key (showInt now))) :
    digestChallenge P cfg now stale = cs! "Digest " ++ serialise (digestChallengeFlds P cfg now stale) := by
  have ha : escQ challengeAlgorithm = challengeAlgorithm := by decide
  have hq : escQ challengeQop = challengeQop := by decide
  have ht : escQ (cs! "true") = cs! "true" := by decide
  unfold digestChallenge digestChallengeFlds charsetDecl
  cases stale <;> by_cases hcs : pyUpper cfg.acceptCharset ≠ fallbackCharset <;>
    simp [hcs, serialise, Fld.text, item, escQ_id _ hn, ha, hq, ht]

/-- **Well-formed Digest challenge, for every realm and every charset name.**  For a hash whose values are free of
    `"` and `\`, the `WWW-Authenticate` value is `Digest ` followed by a parameter list that parses back (first-space
    split, `parse_http_list`, `parse_keqv_list`) to exactly: the configured realm, the nonce `now:H(now:realm:key)`
    computed from the **unescaped** realm, the algorithm and qop of `www_authenticate`'s defaults, `stale="true"` iff
    asked for, and the upper-cased charset unless it is the fallback. -/
theorem digestChallenge_wellformed (P : Prims) (cfg : DigestCfg) (now : Int) (stale : Bool)
    (hH : ∀ x, NoQ (P.H x)) :
    ∃ params, split1 ' ' (digestChallenge P cfg now stale) = some (cs! "Digest", params) ∧
      parseKeqvList (parseHttpList params) = .ok
        ([(cs! "realm", cfg.realm), (cs! "nonce", synthesizeNonce P cfg.realm cfg.key (showInt now)),
          (cs! "algorithm", challengeAlgorithm), (cs! "qop", challengeQop)]
         ++ (if stale then [(cs! "stale", cs! "true")] else [])
         ++ (if pyUpper cfg.acceptCharset ≠ fallbackCharset then [(cs! "charset", pyUpper cfg.acceptCharset)]
             else [])) := by
  have hn : NoQ (synthesizeNonce P cfg.realm cfg.key (showInt now)) := by
    unfold synthesizeNonce colon
    exact NoQ_append (showInt_noQ now) (fun c hc => by
      rcases List.mem_cons.mp hc with rfl | h
      · decide
      · exact hH _ c h)
  refine ⟨serialise (digestChallengeFlds P cfg now stale), ?_, ?_⟩
  · rw [digestChallenge_eq_serialise P cfg now stale hn]
    exact split1_of_append (cs! "Digest") _ (by decide)
  · rw [parse_serialise _ (digestChallengeFlds_good P cfg now stale)]
    congr 1
    unfold digestChallengeFlds
    cases stale <;> by_cases hcs : pyUpper cfg.acceptCharset ≠ fallbackCharset
    · simp only [if_pos hcs, Bool.false_eq_true, if_false, List.map_append, List.map_cons, List.map_nil, Fld.pair]
    · simp only [if_neg hcs, Bool.false_eq_true, if_false, List.map_append, List.map_cons, List.map_nil, Fld.pair]
    · simp only [if_pos hcs, if_true, List.map_append, List.map_cons, List.map_nil, Fld.pair]
    · simp only [if_neg hcs, if_true, List.map_append, List.map_cons, List.map_nil, Fld.pair]

/-- … with the concrete MD5 there is no hypothesis at all: every configuration, every second, stale or not -/
theorem digestChallenge_wellformed_md5 (nfc : Str → Str) (cfg : DigestCfg) (now : Int) (stale : Bool) :
    ∃ params, split1 ' ' (digestChallenge (md5P nfc) cfg now stale) = some (cs! "Digest", params) ∧
      parseKeqvList (parseHttpList params) = .ok
        ([(cs! "realm", cfg.realm), (cs! "nonce", synthesizeNonce (md5P nfc) cfg.realm cfg.key (showInt now)),
          (cs! "algorithm", challengeAlgorithm), (cs! "qop", challengeQop)]
         ++ (if stale then [(cs! "stale", cs! "true")] else [])
         ++ (if pyUpper cfg.acceptCharset ≠ fallbackCharset then [(cs! "charset", pyUpper cfg.acceptCharset)]
             else [])) :=
  digestChallenge_wellformed (md5P nfc) cfg now stale (fun x => md5Hex_noQ x)

/-! #### the code before the fix for F26 -/

/-- `www_authenticate` as it was: realm and charset name pasted between the quotes as they are -/
def digestChallengeUnescaped (P : Prims) (cfg : DigestCfg) (now : Int) (stale : Bool) : Str :=
  cs! "Digest realm=\"" ++ cfg.realm ++ cs! "\", nonce=\"" ++ synthesizeNonce P cfg.realm cfg.key (showInt now)
    ++ cs! "\", algorithm=\"" ++ challengeAlgorithm ++ cs! "\", qop=\"" ++ challengeQop ++ ['"']
    ++ (if stale then cs! ", stale=\"true\"" else [])
    ++ (if pyUpper cfg.acceptCharset ≠ fallbackCharset then cs! ", charset=\"" ++ pyUpper cfg.acceptCharset ++ ['"']
        else [])

/-- the repair changes nothing for a realm and charset name free of `"` and `\`: byte for byte the same header -/
theorem digestChallenge_unchanged_for_plain_realms (P : Prims) (cfg : DigestCfg) (now : Int) (stale : Bool)
    (hr : NoQ cfg.realm) (hc : NoQ (pyUpper cfg.acceptCharset)) :
    digestChallenge P cfg now stale = digestChallengeUnescaped P cfg now stale := by
  unfold digestChallenge digestChallengeUnescaped charsetDecl
  simp only [escQ_id _ hr, escQ_id _ hc]

/-- "every challenge is well-formed" for the unescaped paste … -/
def digestChallengeUnescaped_wellformed : Prop :=
  ∀ (P : Prims) (cfg : DigestCfg) (now : Int) (stale : Bool), (∀ x, NoQ (P.H x)) →
    ∃ params rest, split1 ' ' (digestChallengeUnescaped P cfg now stale) = some (cs! "Digest", params) ∧
      parseKeqvList (parseHttpList params) = .ok ((cs! "realm", cfg.realm) :: rest)

/-- … was false (finding F26): the realm `a", x="` came back as `a` followed by a parameter `x` the server never
    meant to send -/
theorem digestChallengeUnescaped_wellformed_false : ¬ digestChallengeUnescaped_wellformed := by
  intro h
  obtain ⟨params, rest, h1, h2⟩ := h ⟨fun _ => cs! "0", fun _ => none, fun _ => none, id⟩
    ⟨cs! "a\", x=\"", cs! "K", .plain [], cs! "utf-8"⟩ 5 false (fun _ => NoQ_of_all (cs! "0") (by decide))
  have e : split1 ' ' (digestChallengeUnescaped ⟨fun _ => cs! "0", fun _ => none, fun _ => none, id⟩
      ⟨cs! "a\", x=\"", cs! "K", .plain [], cs! "utf-8"⟩ 5 false) =
      some (cs! "Digest", cs! "realm=\"a\", x=\"\", nonce=\"5:0\", algorithm=\"MD5\", qop=\"auth\", charset=\"UTF-8\"") := by
    decide +kernel
  rw [e] at h1
  simp only [Option.some.injEq, Prod.mk.injEq, true_and] at h1
  subst h1
  have e2 : parseKeqvList (parseHttpList
      (cs! "realm=\"a\", x=\"\", nonce=\"5:0\", algorithm=\"MD5\", qop=\"auth\", charset=\"UTF-8\"")) =
      .ok [(cs! "realm", cs! "a"), (cs! "x", []), (cs! "nonce", cs! "5:0"), (cs! "algorithm", cs! "MD5"),
        (cs! "qop", cs! "auth"), (cs! "charset", cs! "UTF-8")] := by decide +kernel
  rw [e2] at h2
  simp only [Except.ok.injEq, List.cons.injEq, Prod.mk.injEq] at h2
  exact absurd h2.1.2 (by decide)

/-- the same realm through the repaired `www_authenticate` (non-vacuity of the full-strength theorem on the very
    witness that refuted the old code) -/
example : parseKeqvList (parseHttpList ((digestChallenge ⟨fun _ => cs! "0", fun _ => none, fun _ => none, id⟩
    ⟨cs! "a\", x=\"", cs! "K", .plain [], cs! "utf-8"⟩ 5 false).drop 7)) =
    .ok [(cs! "realm", cs! "a\", x=\""), (cs! "nonce", cs! "5:0"), (cs! "algorithm", cs! "MD5"),
      (cs! "qop", cs! "auth"), (cs! "charset", cs! "UTF-8")] := by decide +kernel

/-- `_respond_401` calls `www_authenticate` with its default algorithm and qop, which are among the valid ones: the
    two `raise ValueError` lines of `www_authenticate` cannot be reached through the tool, and what it returns is
    `digestChallenge` -/
theorem wwwAuthenticate_defaults (P : Prims) (cfg : DigestCfg) (now : Int) (stale : Bool) :
    wwwAuthenticate P cfg challengeAlgorithm challengeQop now stale = .ok (digestChallenge P cfg now stale) := by
  have h1 : validQops.contains challengeQop = true := by decide
  have h2 : validAlgorithms.contains challengeAlgorithm = true := by decide
  unfold wwwAuthenticate digestChallenge
  rw [if_neg (by rw [h1]; simp), if_neg (by rw [h2]; simp)]

/-- the public helper refuses exactly the qop / algorithm names outside `valid_qops` / `valid_algorithms` -/
theorem wwwAuthenticate_error_iff (P : Prims) (cfg : DigestCfg) (alg qop : Str) (now : Int) (stale : Bool) :
    (∃ e, wwwAuthenticate P cfg alg qop now stale = .error e) ↔
      validQops.contains qop = false ∨ validAlgorithms.contains alg = false := by
  unfold wwwAuthenticate
  by_cases h1 : validQops.contains qop = true
  · by_cases h2 : validAlgorithms.contains alg = true
    · rw [if_neg (by rw [h1]; simp), if_neg (by rw [h2]; simp)]
      constructor
      · rintro ⟨e, he⟩; cases he
      · rintro (h | h)
        · rw [h1] at h; cases h
        · rw [h2] at h; cases h
    · rw [if_neg (by rw [h1]; simp), if_pos h2]
      exact ⟨fun _ => Or.inr (Bool.eq_false_iff.mpr h2), fun _ => ⟨_, rfl⟩⟩
  · rw [if_pos h1]
    exact ⟨fun _ => Or.inl (Bool.eq_false_iff.mpr h1), fun _ => ⟨_, rfl⟩⟩

/-- the constructor's own scheme test (`raise ValueError('Authorization scheme is not "Digest"')`) is never reached
    through `digest_auth`, which answers such a header with the challenge before constructing anything -/
theorem parseAuth_not_digest (P : Prims) (h : Str) (hm : digestMatches h = false) :
    parseAuth P h = .error .valueError ∧
      ∀ cfg method now, digestAuth P cfg method now (some h) = respond401 P cfg now false := by
  constructor
  · simp [parseAuth, hm]
  · intro cfg method now
    simp [digestAuth, hm]

/-! ### the Basic challenge -/

def basicChallengeFlds (cfg : BasicCfg) : List Fld :=
  [.quoted (cs! "realm") cfg.realm]
  ++ (if pyUpper cfg.acceptCharset ≠ fallbackCharset then [.quoted (cs! "charset") (pyUpper cfg.acceptCharset)]
      else [])

/-- **Well-formed Basic challenge, for every realm and charset name**: the challenge parses back to exactly the
    configured realm and the charset announcement.  (`basic_auth` additionally refuses a realm containing `"` before it
    gets here; the challenge text itself is well-formed for such a realm too.) -/
theorem basicChallenge_wellformed (cfg : BasicCfg) :
    ∃ params, split1 ' ' (basicChallenge cfg) = some (cs! "Basic", params) ∧
      parseKeqvList (parseHttpList params) = .ok
        ((cs! "realm", cfg.realm) ::
         (if pyUpper cfg.acceptCharset ≠ fallbackCharset then [(cs! "charset", pyUpper cfg.acceptCharset)] else [])) := by
  have g1 : GoodKey (cs! "realm") := ⟨by decide, by decide⟩
  have g6 : GoodKey (cs! "charset") := ⟨by decide, by decide⟩
  have hgood : ∀ f ∈ basicChallengeFlds cfg, f.Good := by
    intro f hf
    unfold basicChallengeFlds at hf
    simp only [List.mem_append, List.mem_cons, List.not_mem_nil, or_false] at hf
    rcases hf with rfl | hf
    · exact g1
    · split at hf
      · simp only [List.mem_cons, List.not_mem_nil, or_false] at hf; subst hf; exact g6
      · simp at hf
  have heq : basicChallenge cfg = cs! "Basic " ++ serialise (basicChallengeFlds cfg) := by
    unfold basicChallenge basicChallengeFlds charsetDecl
    by_cases hcs : pyUpper cfg.acceptCharset ≠ fallbackCharset <;>
      simp [hcs, serialise, Fld.text, item]
  refine ⟨serialise (basicChallengeFlds cfg), ?_, ?_⟩
  · rw [heq]; exact split1_of_append (cs! "Basic") _ (by decide)
  · rw [parse_serialise _ hgood]
    unfold basicChallengeFlds
    by_cases hcs : pyUpper cfg.acceptCharset ≠ fallbackCharset <;> simp [hcs, Fld.pair]

/-- `basic_auth`'s challenge as it was before the fix for F26 -/
def basicChallengeUnescaped (cfg : BasicCfg) : Str :=
  cs! "Basic realm=\"" ++ cfg.realm ++ ['"']
    ++ (if pyUpper cfg.acceptCharset ≠ fallbackCharset then cs! ", charset=\"" ++ pyUpper cfg.acceptCharset ++ ['"']
        else [])

theorem basicChallenge_unchanged_for_plain_realms (cfg : BasicCfg)
    (hr : NoQ cfg.realm) (hc : NoQ (pyUpper cfg.acceptCharset)) :
    basicChallenge cfg = basicChallengeUnescaped cfg := by
  unfold basicChallenge basicChallengeUnescaped charsetDecl
  simp only [escQ_id _ hr, escQ_id _ hc]

/-- "every Basic challenge is well-formed" over all realms `basic_auth` accepts (no double quote), for the unescaped
    paste … -/
def basicChallengeUnescaped_wellformed : Prop :=
  ∀ (cfg : BasicCfg), cfg.realm.contains '"' = false →
    ∃ params rest, split1 ' ' (basicChallengeUnescaped cfg) = some (cs! "Basic", params) ∧
      parseKeqvList (parseHttpList params) = .ok ((cs! "realm", cfg.realm) :: rest)

/-- … was false as well (finding F26): a backslash in the realm was pasted unescaped, so a reader resolving
    quoted-pair got another realm (`a\b` came back as `ab`) -/
theorem basicChallengeUnescaped_wellformed_false : ¬ basicChallengeUnescaped_wellformed := by
  intro h
  obtain ⟨params, rest, h1, h2⟩ := h ⟨cs! "a\\b", [], cs! "utf-8"⟩ (by decide)
  have e : split1 ' ' (basicChallengeUnescaped ⟨cs! "a\\b", [], cs! "utf-8"⟩) =
      some (cs! "Basic", cs! "realm=\"a\\b\", charset=\"UTF-8\"") := by decide +kernel
  rw [e] at h1
  simp only [Option.some.injEq, Prod.mk.injEq, true_and] at h1
  subst h1
  have e2 : parseKeqvList (parseHttpList (cs! "realm=\"a\\b\", charset=\"UTF-8\"")) =
      .ok [(cs! "realm", cs! "ab"), (cs! "charset", cs! "UTF-8")] := by decide +kernel
  rw [e2] at h2
  simp only [Except.ok.injEq, List.cons.injEq, Prod.mk.injEq] at h2
  exact absurd h2.1.2 (by decide)

/-! ### incoming: `process_headers` -/

theorem processHeader_plain (dec : Str → Option Str) (raw : Str) (h : hasEncMarker (pyStrip raw) = false) :
    processHeader dec raw = some (pyStrip raw) := by
  simp [processHeader, h]

/-- `=?` needs a question mark -/
theorem hasEncMarker_false_of_no_qmark : ∀ (s : Str), '?' ∉ s → hasEncMarker s = false
  | [], _ => rfl
  | [_], _ => rfl
  | c :: d :: rest, h => by
    have hd : d ≠ '?' := fun e => h (by simp [e])
    have ih := hasEncMarker_false_of_no_qmark (d :: rest) (fun hm => h (List.mem_cons_of_mem _ hm))
    show ((decide (c = '=') && decide (d = '?')) || hasEncMarker (d :: rest)) = false
    simp [hd, ih]

/-- the undecodable case: 400 before any tool runs, whatever the tool would have said -/
theorem digestRequest_undecodable (P : Prims) (dec : Str → Option Str) (cfg : DigestCfg) (method : Str) (now : Int)
    (raw : Str) (hm : hasEncMarker (pyStrip raw) = true) (hd : dec (pyStrip raw) = none) :
    digestRequest P dec cfg method now (some raw) = .badRequest := by
  simp [digestRequest, processHeader, hm, hd]

/-- the request never reaches the handler unless the *tool* grants on the processed header — in particular an
    encoded word can only be admitted as what it decodes to -/
theorem digestRequest_grant_iff (P : Prims) (dec : Str → Option Str) (cfg : DigestCfg) (method : Str) (now : Int)
    (raw : Option Str) (u : Str) :
    digestRequest P dec cfg method now raw = .grant u ↔
      ∃ r h, raw = some r ∧ processHeader dec r = some h ∧ digestAuth P cfg method now (some h) = .grant u := by
  cases raw with
  | none =>
    simp only [digestRequest, reduceCtorEq, false_and, exists_false, iff_false]
    intro hg
    obtain ⟨h, a, he, _⟩ := (digest_grant_iff P cfg method now none u).mp hg
    simp at he
  | some r =>
    simp only [digestRequest, Option.some.injEq]
    cases hp : processHeader dec r with
    | none => simp [hp]
    | some h => simp [hp]

theorem basicRequest_grant_iff (P : Prims) (dec : Str → Option Str) (cfg : BasicCfg)
    (hq : cfg.realm.contains '"' = false) (raw : Option Str) (u : Str) :
    basicRequest P dec cfg raw = .grant u ↔
      ∃ r h, raw = some r ∧ processHeader dec r = some h ∧ basicAuth P cfg (some h) = .grant u := by
  cases raw with
  | none =>
    simp only [basicRequest, reduceCtorEq, false_and, exists_false, iff_false]
    rw [(basic_other_scheme_401 P cfg hq).1]
    simp
  | some r =>
    simp only [basicRequest, Option.some.injEq]
    cases hp : processHeader dec r with
    | none => simp [hp]
    | some h => simp [hp]

/-! #### a standard client header passes `process_headers` unchanged -/

theorem text_last (f : Fld) (hf : f.Good) : ∃ d rs, f.text.reverse = d :: rs ∧ isSpace d = false := by
  cases f with
  | quoted k v =>
    refine ⟨'"', (k ++ '=' :: '"' :: escQ v).reverse, ?_, by decide⟩
    simp [Fld.text, item]
  | token k v =>
    obtain ⟨_, hv⟩ := hf
    have hne : v.reverse ≠ [] := by simpa using hv.ne
    cases hr : v.reverse with
    | nil => exact absurd hr hne
    | cons d rs =>
      have hd : d ∈ v := by
        have : d ∈ v.reverse := by rw [hr]; simp
        simpa using this
      refine ⟨d, rs ++ ('=' :: k.reverse), ?_, (hv.chars d hd).2.2⟩
      simp [Fld.text, hr]

theorem serialise_last : ∀ (fs : List Fld), (∀ f ∈ fs, f.Good) → fs ≠ [] →
    ∃ d rs, (serialise fs).reverse = d :: rs ∧ isSpace d = false
  | [], _, hne => absurd rfl hne
  | [f], hk, _ => by simpa [serialise] using text_last f (hk f (by simp))
  | f :: f2 :: rest, hk, _ => by
    obtain ⟨d, rs, h1, h2⟩ := serialise_last (f2 :: rest) (fun g hg => hk g (List.mem_cons_of_mem _ hg)) (by simp)
    refine ⟨d, rs ++ (' ' :: ',' :: f.text.reverse), ?_, h2⟩
    simp [serialise, h1]

/-- `strip()` leaves `Digest f₁, f₂, …` alone -/
theorem strip_digest_serialise (fs : List Fld) (hk : ∀ f ∈ fs, f.Good) (hne : fs ≠ []) :
    pyStrip (cs! "Digest " ++ serialise fs) = cs! "Digest " ++ serialise fs := by
  obtain ⟨d, rs, h1, h2⟩ := serialise_last fs hk hne
  exact strip_id _ 'D' (cs! "igest " ++ serialise fs) d (rs ++ (cs! "Digest ").reverse) rfl (by decide)
    (by simp [h1]) h2

/-- **An RFC 2617 client from the raw header value, through `process_headers`** (ISO-8859-1 wire): the header
    `Digest ` + serialised fields, containing no `=?`, is admitted exactly as `digest_rfc2617_client_latin1` says —
    whatever the RFC 2047 decoder would do (it is not consulted). -/
theorem digestRequest_rfc2617_client_latin1 (P : Prims) (dec : Str → Option Str) (cfg : DigestCfg) (method : Str)
    (now : Int) (fs : List Fld) (u ha1 ts : Str) (t : Int)
    (hk : ∀ f ∈ fs, f.Good) (hne : fs ≠ [])
    (hmark : hasEncMarker (cs! "Digest " ++ serialise fs) = false)
    (hl : ∀ c ∈ serialise fs, c.toNat < 256)
    (hP : ∀ b, P.decode b = none ∨ P.decode b = some (latin1Decode b))
    (hv : Valid (fieldsOf (fs.map Fld.pair))) (hu : (fieldsOf (fs.map Fld.pair)).username = some u)
    (hq : (fieldsOf (fs.map Fld.pair)).qop = none ∨ (fieldsOf (fs.map Fld.pair)).qop = some (cs! "auth"))
    (hget : getHa1 P cfg u = some ha1)
    (hnonce : (fieldsOf (fs.map Fld.pair)).nonce = some (synthesizeNonce P cfg.realm cfg.key ts)) (hts : ':' ∉ ts)
    (hint : pyInt ts = some t) (hfresh : t + 600 > now)
    (hresp : (fieldsOf (fs.map Fld.pair)).response = some (rfcDigest P (fieldsOf (fs.map Fld.pair)) method ha1)) :
    digestRequest P dec cfg method now (some (cs! "Digest " ++ serialise fs)) = .grant u := by
  have hs := strip_digest_serialise fs hk hne
  have hp : processHeader dec (cs! "Digest " ++ serialise fs) = some (cs! "Digest " ++ serialise fs) := by
    rw [processHeader_plain dec _ (by rw [hs]; exact hmark), hs]
  simp only [digestRequest, hp]
  exact digest_rfc2617_client_latin1 P cfg method now fs u ha1 ts t hk hl hP hv hu hq hget hnonce hts hint hfresh hresp

/-- the same over the UTF-8 wire with the concrete codec; the two facts about the *bytes* that `process_headers`
    depends on are hypotheses: no `=?` in the Latin-1 view, and `strip()` leaves it alone (it would not if the last
    byte of an unquoted trailing token were 0x85 or 0xA0 — NEL / NBSP in the Latin-1 view) -/
theorem digestRequest_rfc2617_client_utf8 (H : Str → Str) (b64 : Str → Option Bytes) (nfc : Str → Str)
    (dec : Str → Option Str) (cfg : DigestCfg) (method : Str) (now : Int) (fs : List Fld) (u ha1 ts : Str) (t : Int)
    (hk : ∀ f ∈ fs, f.Good)
    (hstrip : pyStrip (latin1Decode (utf8Encode (cs! "Digest " ++ serialise fs))) =
      latin1Decode (utf8Encode (cs! "Digest " ++ serialise fs)))
    (hmark : hasEncMarker (latin1Decode (utf8Encode (cs! "Digest " ++ serialise fs))) = false)
    (hv : Valid (fieldsOf (fs.map Fld.pair))) (hu : (fieldsOf (fs.map Fld.pair)).username = some u)
    (hq : (fieldsOf (fs.map Fld.pair)).qop = none ∨ (fieldsOf (fs.map Fld.pair)).qop = some (cs! "auth"))
    (hget : getHa1 ⟨H, b64, utf8Decode, nfc⟩ cfg u = some ha1)
    (hnonce : (fieldsOf (fs.map Fld.pair)).nonce =
      some (synthesizeNonce ⟨H, b64, utf8Decode, nfc⟩ cfg.realm cfg.key ts))
    (hts : ':' ∉ ts) (hint : pyInt ts = some t) (hfresh : t + 600 > now)
    (hresp : (fieldsOf (fs.map Fld.pair)).response =
      some (rfcDigest ⟨H, b64, utf8Decode, nfc⟩ (fieldsOf (fs.map Fld.pair)) method ha1)) :
    digestRequest ⟨H, b64, utf8Decode, nfc⟩ dec cfg method now
      (some (latin1Decode (utf8Encode (cs! "Digest " ++ serialise fs)))) = .grant u := by
  have hp : processHeader dec (latin1Decode (utf8Encode (cs! "Digest " ++ serialise fs))) =
      some (latin1Decode (utf8Encode (cs! "Digest " ++ serialise fs))) := by
    rw [processHeader_plain dec _ (by rw [hstrip]; exact hmark), hstrip]
  simp only [digestRequest, hp]
  exact digest_rfc2617_client_utf8 H b64 nfc cfg method now fs u ha1 ts t hk hv hu hq hget hnonce hts hint hfresh hresp

/-! #### Basic: base64 text never contains `?` or white space -/

theorem b64Char_plain : ∀ v : Fin 64, (b64Char v.val ≠ '?') ∧ isSpace (b64Char v.val) = false := by decide

theorem b64encode_plain : ∀ (bs : Bytes), ∀ c ∈ b64encode bs, c ≠ '?' ∧ isSpace c = false
  | [], c, hc => by simp [b64encode] at hc
  | [a], c, hc => by
    have ha := a.toNat_lt
    have h1 := b64Char_plain ⟨a.toNat / 4, by omega⟩
    have h2 := b64Char_plain ⟨a.toNat % 4 * 16, by omega⟩
    have hp : ('=' ≠ '?') ∧ isSpace '=' = false := by decide
    simp only [b64encode, List.mem_cons, List.not_mem_nil, or_false] at hc
    rcases hc with rfl | rfl | rfl | rfl
    · exact h1
    · exact h2
    · exact hp
    · exact hp
  | [a, b], c, hc => by
    have ha := a.toNat_lt
    have hb := b.toNat_lt
    have h1 := b64Char_plain ⟨a.toNat / 4, by omega⟩
    have h2 := b64Char_plain ⟨a.toNat % 4 * 16 + b.toNat / 16, by omega⟩
    have h3 := b64Char_plain ⟨b.toNat % 16 * 4, by omega⟩
    have hp : ('=' ≠ '?') ∧ isSpace '=' = false := by decide
    simp only [b64encode, List.mem_cons, List.not_mem_nil, or_false] at hc
    rcases hc with rfl | rfl | rfl | rfl
    · exact h1
    · exact h2
    · exact h3
    · exact hp
  | a :: b :: c' :: rest, c, hc => by
    have ha := a.toNat_lt
    have hb := b.toNat_lt
    have hc' := c'.toNat_lt
    have h1 := b64Char_plain ⟨a.toNat / 4, by omega⟩
    have h2 := b64Char_plain ⟨a.toNat % 4 * 16 + b.toNat / 16, by omega⟩
    have h3 := b64Char_plain ⟨b.toNat % 16 * 4 + c'.toNat / 64, by omega⟩
    have h4 := b64Char_plain ⟨c'.toNat % 64, by omega⟩
    simp only [b64encode, List.mem_cons] at hc
    rcases hc with rfl | rfl | rfl | rfl | hc
    · exact h1
    · exact h2
    · exact h3
    · exact h4
    · exact b64encode_plain rest c hc

/-- `Basic <base64>` passes `process_headers` unchanged, whatever bytes are encoded -/
theorem b64encode_ne_nil : ∀ (bs : Bytes), bs ≠ [] → b64encode bs ≠ []
  | [], h => absurd rfl h
  | [_], _ => by simp [b64encode]
  | [_, _], _ => by simp [b64encode]
  | _ :: _ :: _ :: _, _ => by simp [b64encode]

theorem processHeader_basic (dec : Str → Option Str) (bs : Bytes) (hne : bs ≠ []) :
    processHeader dec (cs! "Basic " ++ b64encode bs) = some (cs! "Basic " ++ b64encode bs) := by
  have hstrip : pyStrip (cs! "Basic " ++ b64encode bs) = cs! "Basic " ++ b64encode bs := by
    cases hr : (b64encode bs).reverse with
    | nil =>
      have : b64encode bs = [] := by simpa using hr
      exact absurd this (b64encode_ne_nil bs hne)
    | cons d rs =>
      have hd : d ∈ b64encode bs := by
        have : d ∈ (b64encode bs).reverse := by rw [hr]; simp
        simpa using this
      exact strip_id _ 'B' (cs! "asic " ++ b64encode bs) d (rs ++ (cs! "Basic ").reverse) rfl (by decide)
        (by simp [hr]) (b64encode_plain bs d hd).2
  have hmark : hasEncMarker (cs! "Basic " ++ b64encode bs) = false := by
    apply hasEncMarker_false_of_no_qmark
    intro hm
    rcases List.mem_append.mp hm with h | h
    · revert h; decide
    · exact (b64encode_plain bs '?' h).1 rfl
  rw [processHeader_plain dec _ (by rw [hstrip]; exact hmark), hstrip]

/-- **An RFC 7617 client from the raw header value, through `process_headers`**, concrete base64 and UTF-8, any
    hash, any RFC 2047 decoder (never consulted): admitted iff `store[u] = p ≠ ""`, else the Basic challenge. -/
theorem basicRequest_rfc7617_client_utf8 (H : Str → Str) (nfc : Str → Str) (dec : Str → Option Str) (cfg : BasicCfg)
    (hq : cfg.realm.contains '"' = false) (u p : Str) (hu : ':' ∉ u)
    (hnfc : nfc (u ++ ':' :: p) = u ++ ':' :: p) :
    basicRequest ⟨H, b64decode, utf8Decode, nfc⟩ dec cfg
        (some (cs! "Basic " ++ b64encode (utf8Encode (u ++ ':' :: p)))) =
      if dictGet u cfg.store = some p ∧ p ≠ [] then .grant u else .unauthorized (basicChallenge cfg) := by
  have hne : utf8Encode (u ++ ':' :: p) ≠ [] := by
    have h1 : utf8Encode [':'] = [58] := by decide +kernel
    have : u ++ ':' :: p = u ++ ([':'] ++ p) := rfl
    rw [this, utf8Encode_append, utf8Encode_append, h1]
    simp
  simp only [basicRequest, processHeader_basic dec _ hne]
  exact basic_rfc7617_client_utf8 H nfc cfg hq u p hu hnfc

/-- a user id containing a colon can never be the login of a Basic request (RFC 7617: the first colon separates) -/
theorem basic_colon_user_never (P : Prims) (cfg : BasicCfg) (hdr : Option Str) (u : Str) (hu : ':' ∈ u) :
    basicAuth P cfg hdr ≠ .grant u := by
  intro h
  by_cases hq : cfg.realm.contains '"' = false
  · obtain ⟨_, _, _, _, _, _, _, _, _, _, _, e4, _, _⟩ := (basic_sound_complete P cfg hq hdr u).mp h
    exact e4 hu
  · unfold basicAuth at h
    simp only [Bool.not_eq_false] at hq
    rw [if_pos hq] at h
    simp at h

/-- non-vacuity: the RFC client's header of `digest_md5_concrete` goes through `process_headers` unchanged and a
    header that is one RFC 2047 encoded word is admitted as what it decodes to, refused (400) when undecodable -/
example : processHeader (fun _ => none) rfcHdr = some rfcHdr := by decide +kernel
example : digestRequest (md5P id) (fun _ => some rfcHdr) rfcCfg (cs! "GET") 1700000000
    (some (cs! " =?utf-8?q?whatever?= ")) = .grant (cs! "Mufasa") := by decide +kernel
example : digestRequest (md5P id) (fun _ => none) rfcCfg (cs! "GET") 1700000000
    (some (cs! "Digest =?x-unknown?q?a?=")) = .badRequest := by decide +kernel

end CpProofs.C19
