/-
  C11 — lexical facts about the `posixpath.normpath` model of `CpModel.PathContain`:
  idempotence, shape of the result (no "." / ".." after an absolute root, ".." only as a
  leading block of a relative result), and preservation of `isAbs`.
-/
import CpModel.PathContain
namespace CpProofs.C11
open CpModel.PathContain

/-! ### `splitSlash` / `joinSlash` -/

theorem nrm_split_free_cons (a b : Str) (h : '/' ∉ a) :
    splitSlash (a ++ '/' :: b) = a :: splitSlash b := by
  induction a with
  | nil => simp [splitSlash]
  | cons c a ih =>
    have hc : c ≠ '/' := by intro e; apply h; simp [e]
    have ha : '/' ∉ a := by intro e; apply h; simp [e]
    simp [splitSlash, hc, ih ha]

theorem nrm_split_free (a : Str) (h : '/' ∉ a) : splitSlash a = [a] := by
  induction a with
  | nil => rfl
  | cons c a ih =>
    have hc : c ≠ '/' := by intro e; apply h; simp [e]
    have ha : '/' ∉ a := by intro e; apply h; simp [e]
    simp [splitSlash, hc, ih ha]

theorem nrm_split_mem_free (s : Str) : ∀ c ∈ splitSlash s, '/' ∉ c := by
  induction s with
  | nil => simp [splitSlash]
  | cons c s ih =>
    simp only [splitSlash]
    split
    · intro x hx
      simp at hx
      rcases hx with rfl | hx
      · simp
      · exact ih x hx
    · next hc =>
      split
      · intro x hx
        simp at hx
        subst hx
        simp
        exact fun e => hc e.symm
      · next y ys hy =>
        rw [hy] at ih
        intro x hx
        simp at hx
        rcases hx with rfl | hx
        · have := ih y (by simp)
          simp
          exact ⟨fun e => hc e.symm, this⟩
        · exact ih x (by simp [hx])

theorem nrm_split_join (cs : List Str) (hne : cs ≠ []) (hf : ∀ c ∈ cs, '/' ∉ c) :
    splitSlash (joinSlash cs) = cs := by
  induction cs with
  | nil => exact absurd rfl hne
  | cons c cs ih =>
    cases cs with
    | nil => simpa [joinSlash] using nrm_split_free c (hf c (by simp))
    | cons d cs =>
      simp only [joinSlash]
      rw [nrm_split_free_cons _ _ (hf c (by simp))]
      rw [ih (by simp) (fun x hx => hf x (by simp [hx]))]

/-! ### components of a normalised path -/

/-- An ordinary name: non-empty, no separator, neither "." nor "..". -/
def nrm_Plain (c : Str) : Prop := c ≠ [] ∧ '/' ∉ c ∧ c ≠ dot ∧ c ≠ dotdot

/-- Shape of `new_comps` (in order) at the end of `normpath`. -/
def nrm_Shape (abs : Bool) (cs : List Str) : Prop :=
  ∃ k pl, cs = List.replicate k dotdot ++ pl ∧ (∀ c ∈ pl, nrm_Plain c) ∧ (abs = true → k = 0)

/-- The same for the reversed stack. -/
def nrm_Inv (abs : Bool) (st : List Str) : Prop :=
  ∃ k pl, st = pl ++ List.replicate k dotdot ∧ (∀ c ∈ pl, nrm_Plain c) ∧ (abs = true → k = 0)

theorem nrm_dotdot_ok : dotdot ≠ [] ∧ '/' ∉ dotdot ∧ dotdot ≠ dot := by
  refine ⟨by simp [dotdot], by simp [dotdot], by simp [dotdot, dot]⟩

theorem nrm_dot_ok : dot ≠ [] ∧ '/' ∉ dot ∧ dot ≠ dotdot := by
  refine ⟨by simp [dot], by simp [dot], by simp [dotdot, dot]⟩

theorem nrm_shape_mem {abs : Bool} {cs : List Str} (h : nrm_Shape abs cs) :
    ∀ c ∈ cs, c ≠ [] ∧ '/' ∉ c := by
  obtain ⟨k, pl, rfl, hpl, _⟩ := h
  intro c hc
  rcases List.mem_append.1 hc with hc | hc
  · have := (List.mem_replicate.1 hc).2
    subst this
    exact ⟨nrm_dotdot_ok.1, nrm_dotdot_ok.2.1⟩
  · exact ⟨(hpl c hc).1, (hpl c hc).2.1⟩

theorem nrm_inv_reverse {abs : Bool} {st : List Str} (h : nrm_Inv abs st) :
    nrm_Shape abs st.reverse := by
  obtain ⟨k, pl, rfl, hpl, hk⟩ := h
  refine ⟨k, pl.reverse, by simp, ?_, hk⟩
  intro c hc
  exact hpl c (by simpa using hc)

theorem nrm_inv_step (abs : Bool) (st : List Str) (comp : Str)
    (hI : nrm_Inv abs st) (hc : '/' ∉ comp) : nrm_Inv abs (normStep abs st comp) := by
  obtain ⟨k, pl, rfl, hpl, hk⟩ := hI
  unfold normStep
  split
  · exact ⟨k, pl, rfl, hpl, hk⟩
  · next h1 =>
    have h1' : comp ≠ [] ∧ comp ≠ dot := by
      constructor
      · intro e; exact h1 (Or.inl e)
      · intro e; exact h1 (Or.inr e)
    split
    · next h2 =>
      refine ⟨k, comp :: pl, by simp, ?_, hk⟩
      intro c hc'
      simp at hc'
      rcases hc' with rfl | hc'
      · exact ⟨h1'.1, hc, h1'.2, h2⟩
      · exact hpl c hc'
    · next h2 =>
      cases pl with
      | nil =>
        cases k with
        | zero =>
          cases abs
          · exact ⟨1, [], by simp, by simp, by simp⟩
          · exact ⟨0, [], by simp, by simp, by simp⟩
        | succ k =>
          cases abs
          · refine ⟨k + 2, [], ?_, by simp, by simp⟩
            simp [List.replicate_succ]
          · exact absurd (hk rfl) (by simp)
      | cons t pl =>
        have ht : t ≠ dotdot := (hpl t (by simp)).2.2.2
        simp only [List.cons_append, ht, if_false]
        exact ⟨k, pl, rfl, fun c hc' => hpl c (by simp [hc']), hk⟩

theorem nrm_inv_foldl (abs : Bool) (comps : List Str) :
    ∀ st, nrm_Inv abs st → (∀ c ∈ comps, '/' ∉ c) →
      nrm_Inv abs (comps.foldl (normStep abs) st) := by
  induction comps with
  | nil => intro st h _; simpa using h
  | cons c comps ih =>
    intro st h hf
    simp only [List.foldl_cons]
    exact ih _ (nrm_inv_step abs st c h (hf c (by simp))) (fun x hx => hf x (by simp [hx]))

theorem nrm_inv_normStack (abs : Bool) (s : Str) : nrm_Inv abs (normStack abs (splitSlash s)) :=
  nrm_inv_foldl abs _ [] ⟨0, [], by simp, by simp, by simp⟩ (nrm_split_mem_free s)

/-! ### folding over an already normal list -/

theorem nrm_foldl_dotdots (k : Nat) : ∀ j,
    (List.replicate k dotdot).foldl (normStep false) (List.replicate j dotdot)
      = List.replicate (j + k) dotdot := by
  induction k with
  | zero => intro j; simp
  | succ k ih =>
    intro j
    simp only [List.replicate_succ, List.foldl_cons]
    have hs : normStep false (List.replicate j dotdot) dotdot = List.replicate (j + 1) dotdot := by
      cases j with
      | zero => simp [normStep, nrm_dotdot_ok.1, nrm_dotdot_ok.2.2]
      | succ j => simp [normStep, nrm_dotdot_ok.1, nrm_dotdot_ok.2.2, List.replicate_succ]
    rw [hs, ih (j + 1)]
    congr 1
    omega

theorem nrm_foldl_plain (abs : Bool) (pl : List Str) (hpl : ∀ c ∈ pl, nrm_Plain c) :
    ∀ st, pl.foldl (normStep abs) st = pl.reverse ++ st := by
  induction pl with
  | nil => intro st; simp
  | cons c pl ih =>
    intro st
    obtain ⟨h1, _, h3, h4⟩ := hpl c (by simp)
    simp only [List.foldl_cons]
    have : normStep abs st c = c :: st := by simp [normStep, h1, h3, h4]
    rw [this, ih (fun x hx => hpl x (by simp [hx]))]
    simp

theorem nrm_normStack_shape {abs : Bool} {cs : List Str} (h : nrm_Shape abs cs) :
    normStack abs cs = cs.reverse := by
  obtain ⟨k, pl, rfl, hpl, hk⟩ := h
  unfold normStack
  rw [List.foldl_append]
  cases abs with
  | true =>
    have := hk rfl
    subst this
    simp [nrm_foldl_plain true pl hpl]
  | false =>
    have := nrm_foldl_dotdots k 0
    simp only [List.replicate_zero] at this
    rw [this, nrm_foldl_plain false pl hpl]
    simp

/-! ### roots -/

/-- The three possible roots together with the `abs` flag `normpath` derives from them. -/
def nrm_Root (root : Str) (abs : Bool) : Prop :=
  (root = [] ∧ abs = false) ∨ (root = ['/'] ∧ abs = true) ∨ (root = ['/', '/'] ∧ abs = true)

theorem nrm_splitroot_root (p : Str) :
    nrm_Root (splitroot p).1 (isAbs p) ∧ decide ((splitroot p).1 ≠ []) = isAbs p := by
  unfold splitroot
  cases p with
  | nil => simp [nrm_Root, isAbs]
  | cons c1 r1 =>
    by_cases h1 : c1 = '/'
    · subst h1
      cases r1 with
      | nil => simp [nrm_Root, isAbs]
      | cons c2 r2 =>
        by_cases h2 : c2 = '/'
        · subst h2
          cases r2 with
          | nil => simp [nrm_Root, isAbs]
          | cons c3 r3 =>
            by_cases h3 : c3 = '/'
            · simp [nrm_Root, isAbs, h3]
            · simp [nrm_Root, isAbs, h3]
        · simp [nrm_Root, isAbs, h2]
    · simp [nrm_Root, isAbs, h1]

theorem nrm_splitroot_join {root : Str} {abs : Bool} (hr : nrm_Root root abs) (x : Str)
    (hx : isAbs x = false) : splitroot (root ++ x) = (root, x) := by
  rcases hr with ⟨rfl, _⟩ | ⟨rfl, _⟩ | ⟨rfl, _⟩
  · cases x with
    | nil => rfl
    | cons c r =>
      have : c ≠ '/' := by simpa [isAbs] using hx
      simp [splitroot, this]
  · cases x with
    | nil => rfl
    | cons c r =>
      have : c ≠ '/' := by simpa [isAbs] using hx
      simp [splitroot, this]
  · cases x with
    | nil => rfl
    | cons c r =>
      have : c ≠ '/' := by simpa [isAbs] using hx
      simp [splitroot, this]

theorem nrm_isAbs_join {cs : List Str} (h : ∀ c ∈ cs, c ≠ [] ∧ '/' ∉ c) :
    isAbs (joinSlash cs) = false := by
  cases cs with
  | nil => rfl
  | cons c cs =>
    obtain ⟨hne, hf⟩ := h c (by simp)
    cases c with
    | nil => exact absurd rfl hne
    | cons a c =>
      have ha : a ≠ '/' := by intro e; apply hf; simp [e]
      cases cs with
      | nil => simp [joinSlash, isAbs, ha]
      | cons d cs => simp [joinSlash, isAbs, ha]

/-! ### the result of `normpath` -/

/-- `normpath p` is a root followed by the join of a list of the normal shape
    (or "." when both are empty). -/
theorem nrm_normpath_shape (p : Str) :
    ∃ root cs, nrm_Root root (isAbs p) ∧ nrm_Shape (isAbs p) cs ∧
      normpath p = (if root ++ joinSlash cs = [] then dot else root ++ joinSlash cs) := by
  by_cases hp : p = []
  · subst hp
    exact ⟨[], [], Or.inl ⟨rfl, rfl⟩, ⟨0, [], by simp, by simp, by simp⟩, by simp [normpath, joinSlash]⟩
  · obtain ⟨hroot, habs⟩ := nrm_splitroot_root p
    refine ⟨(splitroot p).1, (normStack (isAbs p) (splitSlash (splitroot p).2)).reverse, hroot,
      nrm_inv_reverse (nrm_inv_normStack _ _), ?_⟩
    simp only [normpath, hp, if_false, habs]

/-- A root plus a normal list is a fixed point (when non-empty). -/
theorem nrm_normpath_fix {root : Str} {abs : Bool} {cs : List Str} (hr : nrm_Root root abs)
    (hs : nrm_Shape abs cs) (hne : root ++ joinSlash cs ≠ []) :
    normpath (root ++ joinSlash cs) = root ++ joinSlash cs := by
  have hmem := nrm_shape_mem hs
  have hj := nrm_isAbs_join hmem
  have hsr := nrm_splitroot_join hr _ hj
  have hd : decide (root ≠ []) = abs := by
    rcases hr with ⟨rfl, rfl⟩ | ⟨rfl, rfl⟩ | ⟨rfl, rfl⟩ <;> simp
  simp only [normpath, hne, if_false, hsr, hd]
  by_cases hcs : cs = []
  · subst hcs
    have : normStack abs (splitSlash (joinSlash [])) = [] := by
      simp [joinSlash, splitSlash, normStack, normStep]
    rw [this]
    simp
    intro h1 h2
    exact absurd (by simp [h1, h2]) hne
  · rw [nrm_split_join cs hcs (fun c hc => (hmem c hc).2), nrm_normStack_shape hs]
    simp
    intro h1 h2
    exact absurd (by simp [h1, h2]) hne

theorem nrm_normpath_dot : normpath dot = dot := by
  simp [normpath, dot, splitroot, splitSlash, normStack, normStep, joinSlash]

theorem nrm_components {root : Str} {abs : Bool} {cs : List Str} (hr : nrm_Root root abs)
    (hs : nrm_Shape abs cs) : components (root ++ joinSlash cs) = cs := by
  have hmem := nrm_shape_mem hs
  have hfilter : ∀ l : List Str, (∀ c ∈ l, c ≠ [] ∧ '/' ∉ c) →
      l.filter (fun c => decide (c ≠ [])) = l := by
    intro l hl
    apply List.filter_eq_self.2
    intro c hc
    simpa using (hl c hc).1
  have hbase : (splitSlash (joinSlash cs)).filter (fun c => decide (c ≠ [])) = cs := by
    by_cases hcs : cs = []
    · subst hcs
      simp [joinSlash, splitSlash]
    · rw [nrm_split_join cs hcs (fun c hc => (hmem c hc).2)]
      exact hfilter cs hmem
  unfold components
  rcases hr with ⟨rfl, _⟩ | ⟨rfl, _⟩ | ⟨rfl, _⟩
  · simpa using hbase
  · simpa [splitSlash] using hbase
  · simpa [splitSlash] using hbase

/-! ### goal theorems -/

theorem normpath_idem (p : Str) : normpath (normpath p) = normpath p := by
  obtain ⟨root, cs, hr, hs, he⟩ := nrm_normpath_shape p
  rw [he]
  split
  · exact nrm_normpath_dot
  · next hne => exact nrm_normpath_fix hr hs hne

theorem normpath_abs_components_plain (p : Str) (h : isAbs p = true) :
    ∀ c ∈ components (normpath p), c ≠ dotdot ∧ c ≠ dot ∧ c ≠ [] ∧ '/' ∉ c := by
  obtain ⟨root, cs, hr, hs, he⟩ := nrm_normpath_shape p
  rw [h] at hr hs
  have hroot : root ≠ [] := by
    rcases hr with ⟨_, h0⟩ | ⟨rfl, _⟩ | ⟨rfl, _⟩ <;> simp at *
  have hne : root ++ joinSlash cs ≠ [] := by simp [hroot]
  rw [he, if_neg hne, nrm_components hr hs]
  obtain ⟨k, pl, rfl, hpl, hk⟩ := hs
  have := hk rfl
  subst this
  intro c hc
  obtain ⟨h1, h2, h3, h4⟩ := hpl c (by simpa using hc)
  exact ⟨h4, h3, h1, h2⟩

theorem normpath_rel_dotdot_only_leading (p : Str) (h : isAbs p = false) :
    ∃ k plain, components (normpath p) = List.replicate k dotdot ++ plain ∧
      (∀ c ∈ plain, c ≠ dotdot ∧ c ≠ [] ∧ '/' ∉ c) := by
  obtain ⟨root, cs, hr, hs, he⟩ := nrm_normpath_shape p
  rw [he]
  split
  · refine ⟨0, [dot], by simp [components, dot, splitSlash], ?_⟩
    intro c hc
    simp at hc
    subst hc
    exact ⟨nrm_dot_ok.2.2, nrm_dot_ok.1, nrm_dot_ok.2.1⟩
  · rw [nrm_components hr hs]
    obtain ⟨k, pl, rfl, hpl, _⟩ := hs
    refine ⟨k, pl, rfl, ?_⟩
    intro c hc
    obtain ⟨h1, h2, _, h4⟩ := hpl c hc
    exact ⟨h4, h1, h2⟩

theorem normpath_isAbs (p : Str) : isAbs (normpath p) = isAbs p := by
  obtain ⟨root, cs, hr, hs, he⟩ := nrm_normpath_shape p
  have hj := nrm_isAbs_join (nrm_shape_mem hs)
  rw [he]
  rcases hr with ⟨rfl, h0⟩ | ⟨rfl, h0⟩ | ⟨rfl, h0⟩
  · rw [h0]
    split
    · simp [isAbs, dot]
    · simpa using hj
  · rw [h0]; simp [isAbs]
  · rw [h0]; simp [isAbs]

end CpProofs.C11
