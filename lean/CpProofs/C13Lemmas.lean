import CpModel.SessionLock
/-!
  C13 — helper lemmas: projections of the state updates, characterisation of `tryAcquire` /
  `release`, and the invariant for schedules without sweeper steps.
-/
namespace CpProofs.C13
open CpModel.SessionLock

@[simp] theorem setThr_thr (s : St) (i : Nat) (t : Thr) (j : Nat) :
    (setThr s i t).thr j = if j = i then t else s.thr j := rfl
@[simp] theorem setThr_heap (s : St) (i : Nat) (t : Thr) : (setThr s i t).heap = s.heap := rfl
@[simp] theorem setThr_table (s : St) (i : Nat) (t : Thr) : (setThr s i t).table = s.table := rfl
@[simp] theorem setThr_cache (s : St) (i : Nat) (t : Thr) : (setThr s i t).cache = s.cache := rfl
@[simp] theorem setThr_sw (s : St) (i : Nat) (t : Thr) : (setThr s i t).sw = s.sw := rfl
@[simp] theorem setThr_version (s : St) (i : Nat) (t : Thr) : (setThr s i t).version = s.version := rfl
@[simp] theorem setThr_lost (s : St) (i : Nat) (t : Thr) : (setThr s i t).lost = s.lost := rfl
@[simp] theorem setThr_now (s : St) (i : Nat) (t : Thr) : (setThr s i t).now = s.now := rfl
@[simp] theorem setThr_dicts (s : St) (i : Nat) (t : Thr) : (setThr s i t).dicts = s.dicts := rfl

@[simp] theorem setLock_heap (s : St) (l : Nat) (o : LockObj) (k : Nat) :
    (setLock s l o).heap k = if k = l then o else s.heap k := rfl
@[simp] theorem setLock_thr (s : St) (l : Nat) (o : LockObj) : (setLock s l o).thr = s.thr := rfl
@[simp] theorem setLock_table (s : St) (l : Nat) (o : LockObj) : (setLock s l o).table = s.table := rfl
@[simp] theorem setLock_cache (s : St) (l : Nat) (o : LockObj) : (setLock s l o).cache = s.cache := rfl
@[simp] theorem setLock_sw (s : St) (l : Nat) (o : LockObj) : (setLock s l o).sw = s.sw := rfl
@[simp] theorem setLock_version (s : St) (l : Nat) (o : LockObj) : (setLock s l o).version = s.version := rfl
@[simp] theorem setLock_lost (s : St) (l : Nat) (o : LockObj) : (setLock s l o).lost = s.lost := rfl
@[simp] theorem setLock_now (s : St) (l : Nat) (o : LockObj) : (setLock s l o).now = s.now := rfl
@[simp] theorem setLock_dicts (s : St) (l : Nat) (o : LockObj) : (setLock s l o).dicts = s.dicts := rfl

@[simp] theorem setSw_sw (s : St) (w : Sweeper) : (setSw s w).sw = w := rfl
@[simp] theorem setSw_thr (s : St) (w : Sweeper) : (setSw s w).thr = s.thr := rfl
@[simp] theorem setSw_heap (s : St) (w : Sweeper) : (setSw s w).heap = s.heap := rfl
@[simp] theorem setSw_table (s : St) (w : Sweeper) : (setSw s w).table = s.table := rfl
@[simp] theorem setSw_cache (s : St) (w : Sweeper) : (setSw s w).cache = s.cache := rfl
@[simp] theorem setSw_version (s : St) (w : Sweeper) : (setSw s w).version = s.version := rfl
@[simp] theorem setSw_lost (s : St) (w : Sweeper) : (setSw s w).lost = s.lost := rfl

/-- `RLock.acquire` succeeds exactly when the lock is free or already ours. -/
theorem tryAcquire_some {s s' : St} {l : Nat} {a : Actor} (h : tryAcquire s l a = some s') :
    ((s.heap l).owner = none ∧ s' = setLock s l ⟨some a, 1⟩) ∨
    ((s.heap l).owner = some a ∧ s' = setLock s l ⟨some a, (s.heap l).count + 1⟩) := by
  unfold tryAcquire at h
  simp only at h
  split at h
  · left; exact ⟨by assumption, by simpa using h.symm⟩
  · split at h
    · right; exact ⟨by assumption, by simpa using h.symm⟩
    · simp at h

theorem tryAcquire_none {s : St} {l : Nat} {a : Actor} (h : tryAcquire s l a = none) :
    (s.heap l).owner ≠ none ∧ (s.heap l).owner ≠ some a := by
  unfold tryAcquire at h
  simp only at h
  split at h
  · simp at h
  · split at h
    · simp at h
    · exact ⟨by assumption, by assumption⟩

theorem release_some {s s' : St} {l : Nat} {a : Actor} (h : release s l a = some s') :
    (s.heap l).owner = some a ∧
    s' = setLock s l (if (s.heap l).count ≤ 1 then ⟨none, 0⟩ else ⟨some a, (s.heap l).count - 1⟩) := by
  unfold release at h
  simp only at h
  split at h
  · exact ⟨by assumption, by simpa using h.symm⟩
  · simp at h

theorem release_none {s : St} {l : Nat} {a : Actor} (h : release s l a = none) :
    (s.heap l).owner ≠ some a := by
  unfold release at h
  simp only at h
  split at h
  · simp at h
  · assumption

end CpProofs.C13
