import CpModel.MultipartR
import CpProofs.C04
/-!
  C04, composition with the real reader: the parser over the concrete `SizedReader` model
  (`CpModel.MultipartR`, what the driver runs) returns whatever the parser over the cursor
  (`CpModel.Multipart`, what the framing theorems are about) returns — for every buffer size ≥ 1 and
  every fragmentation plan, for a request with a declared length that the connection delivers and no
  body limit.  Forward simulation, loop by loop (induction on the fuel), on top of the C05 lemmas.
-/
namespace CpProofs.C04
open CpModel.Reader CpModel.Cursor CpModel.Multipart CpModel.MultipartR

structure CfgOK (cfg : Cfg) : Prop where
  buf : 1 ≤ cfg.bufsize
  nolimit : cfg.maxbytes = none
  len : cfg.length.isSome = true

/-- the concrete reader state `s` is represented by the cursor state `a` -/
structure Rel (cfg : Cfg) (s : St) (a : Src) : Prop where
  rest : a.rest = C05.rest cfg s
  done : a.done = s.done
  inv : C05.Inv cfg s
  enough : C05.Enough cfg s
  nofail : s.failAt = none

/-- states in which the parser still reads: not finished, or nothing left -/
def Good (a : Src) : Prop := a.done = false ∨ a.rest = []

theorem good_readline (a : Src) (h : Good a) : Good (a.readline).2 := by
  unfold Good Src.readline at *
  simp only
  cases hlf : hasLF a.rest with
  | true =>
    rcases h with h | h
    · left; simp [h]
    · rw [h] at hlf; simp [hasLF] at hlf
  | false =>
    right
    have := C05.takeLine_append_noLF a.rest [] hlf
    simp only [List.append_nil, takeLine] at this
    rw [this]; simp

theorem sim_rl (cfg : Cfg) (hc : CfgOK cfg) (s : St) (a : Src) (hr : Rel cfg s a) (hg : Good a)
    (size : Option Nat) (h0 : size ≠ some 0) :
    ∃ s1, rl cfg s size = .ok ((a.readline).1, s1) ∧ Rel cfg s1 (a.readline).2 := by
  obtain ⟨hrest, hdone, hinv, hen, hnf⟩ := hr
  obtain ⟨i1, f1, _, nf1, en1, er1, ok1⟩ := C05.readline_post cfg hc.buf s size hinv h0
  unfold rl
  generalize readline cfg s size = p at *
  obtain ⟨r, s1⟩ := p
  have hfa : s1.failAt = none := by
    simp only [hnf] at f1
    cases h : s1.failAt with
    | none => rfl
    | some _ => rw [h] at f1; cases f1
  cases r with
  | fuel => exact absurd rfl nf1
  | err413 =>
    rcases er1 rfl with h | h
    · simp [over, hc.nolimit] at h
    · simp [hnf] at h
  | ok x =>
    obtain ⟨e1, e2, _, e4, _, e6⟩ := ok1 x rfl
    refine ⟨s1, ?_, ?_, ?_, i1, en1 hen, hfa⟩
    · simp only [Src.readline, hrest]; rw [e1]; simp
    · simp only [Src.readline, hrest]; exact e2.symm
    · simp only [Src.readline, hrest, hdone]
      rcases hg with hg | hg
      · rw [hdone] at hg
        rw [e4 hen hc.len hg, hg]; simp
      · rw [hrest] at hg
        rw [e6 hen hc.len hg, hg]; simp [hasLF]

theorem rel_finish (cfg : Cfg) (s : St) (a : Src) (h : Rel cfg s a) : Rel cfg (finish s) a.finish :=
  ⟨h.rest, rfl, ⟨h.inv.acct, h.inv.bound⟩, h.enough, h.nofail⟩

theorem sim_readLines (cfg : Cfg) (hc : CfgOK cfg) (bnd : Bytes) (m : Nat) :
    ∀ (f : Nat) (a : Src) (delim : Bytes) (pl : Bool) (acc : Bytes) (sp : Bool) (c : Bytes) (sp' : Bool)
      (a' : Src), readLines bnd m f a delim pl acc sp = .ok (c, sp', a') →
      ∀ (f' : Nat), f ≤ f' → ∀ (s : St), Rel cfg s a → Good a →
      ∃ s', readLinesR cfg bnd m f' s delim pl acc sp = .ok (c, sp', s') ∧ Rel cfg s' a' := by
  intro f
  induction f with
  | zero => intro a delim pl acc sp c sp' a' h; simp [readLines] at h
  | succ f ih =>
    intro a delim pl acc sp c sp' a' h f' hf' s hr hg
    obtain ⟨g, rfl⟩ : ∃ g, f' = g + 1 := ⟨f' - 1, by omega⟩
    obtain ⟨s1, h1, hr1⟩ := sim_rl cfg hc s a hr hg SIZE16 (by simp [SIZE16])
    have hg1 := good_readline a hg
    simp only [readLines] at h
    simp only [readLinesR, h1]
    generalize a.readline = q at *
    obtain ⟨line, a1⟩ := q
    simp only at h hr1 hg1 ⊢
    by_cases hle : line.isEmpty = true
    · simp [hle] at h
    · simp only [hle, Bool.false_eq_true, if_false] at h ⊢
      cases hk : delimKind bnd line pl with
      | some b =>
        cases b with
        | false =>
          simp only [hk, Except.ok.injEq, Prod.mk.injEq] at h ⊢
          obtain ⟨rfl, rfl, rfl⟩ := h
          exact ⟨s1, ⟨rfl, rfl, rfl⟩, hr1⟩
        | true =>
          simp only [hk, Except.ok.injEq, Prod.mk.injEq] at h ⊢
          obtain ⟨rfl, rfl, rfl⟩ := h
          exact ⟨finish s1, ⟨rfl, rfl, rfl⟩, rel_finish cfg s1 a1 hr1⟩
      | none =>
        simp only [hk] at h ⊢
        exact ih a1 _ _ _ _ c sp' a' h g (by omega) s1 hr1 hg1

theorem sim_readHeaders (cfg : Cfg) (hc : CfgOK cfg) :
    ∀ (f : Nat) (a : Src) (lk : Option Bytes) (hs r : List (Bytes × Bytes)) (a' : Src),
      readHeaders f a lk hs = .ok (r, a') →
      ∀ (f' : Nat), f ≤ f' → ∀ (s : St), Rel cfg s a → Good a →
      ∃ s', readHeadersR cfg f' s lk hs = .ok (r, s') ∧ Rel cfg s' a' ∧ Good a' := by
  intro f
  induction f with
  | zero => intro a lk hs r a' h; simp [readHeaders] at h
  | succ f ih =>
    intro a lk hs r a' h f' hf' s hr hg
    obtain ⟨g, rfl⟩ : ∃ g, f' = g + 1 := ⟨f' - 1, by omega⟩
    obtain ⟨s1, h1, hr1⟩ := sim_rl cfg hc s a hr hg none (by simp)
    have hg1 := good_readline a hg
    simp only [readHeaders] at h
    simp only [readHeadersR, h1]
    generalize a.readline = q at *
    obtain ⟨line, a1⟩ := q
    simp only at h hr1 hg1 ⊢
    by_cases hle : line.isEmpty = true
    · simp [hle] at h
    · simp only [hle, Bool.false_eq_true, if_false] at h ⊢
      by_cases hcr : line = CRLF
      · simp only [hcr, if_true, Except.ok.injEq, Prod.mk.injEq] at h ⊢
        obtain ⟨rfl, rfl⟩ := h
        exact ⟨s1, ⟨rfl, rfl⟩, hr1, hg1⟩
      · simp only [hcr, if_false] at h ⊢
        by_cases hend : (!endsWith line CRLF) = true
        · simp [hend] at h
        · simp only [hend, Bool.false_eq_true, if_false] at h ⊢
          cases hst : hdrStep line lk hs with
          | error e => simp [hst] at h
          | ok q =>
            obtain ⟨lk', hs'⟩ := q
            simp only [hst] at h ⊢
            exact ih a1 lk' hs' r a' h g (by omega) s1 hr1 hg1

theorem sim_findFirst (cfg : Cfg) (hc : CfgOK cfg) (bnd : Bytes) :
    ∀ (f : Nat) (a a' : Src), findFirst bnd f a = some a' →
      ∀ (f' : Nat), f ≤ f' → ∀ (s : St), Rel cfg s a → Good a →
      ∃ s', findFirstR cfg bnd f' s = .ok (some s') ∧ Rel cfg s' a' ∧ Good a' := by
  intro f
  induction f with
  | zero => intro a a' h; simp [findFirst] at h
  | succ f ih =>
    intro a a' h f' hf' s hr hg
    obtain ⟨g, rfl⟩ : ∃ g, f' = g + 1 := ⟨f' - 1, by omega⟩
    obtain ⟨s1, h1, hr1⟩ := sim_rl cfg hc s a hr hg none (by simp)
    have hg1 := good_readline a hg
    simp only [findFirst] at h
    simp only [findFirstR, h1]
    generalize a.readline = q at *
    obtain ⟨line, a1⟩ := q
    simp only at h hr1 hg1 ⊢
    by_cases hle : line.isEmpty = true
    · simp [hle] at h
    · simp only [hle, Bool.false_eq_true, if_false] at h ⊢
      by_cases hb : strip line = bnd
      · simp only [hb, if_true, Option.some.injEq] at h ⊢
        subst h
        exact ⟨s1, rfl, hr1, hg1⟩
      · simp only [hb, if_false] at h ⊢
        exact ih a1 a' h g (by omega) s1 hr1 hg1

theorem readline_rest_le (a : Src) : (a.readline).2.rest.length ≤ a.rest.length := by
  simp [Src.readline]

theorem readHeaders_rest_le : ∀ (f : Nat) (a : Src) (lk : Option Bytes) (hs r : List (Bytes × Bytes)) (a' : Src),
    readHeaders f a lk hs = .ok (r, a') → a'.rest.length ≤ a.rest.length := by
  intro f
  induction f with
  | zero => intro a lk hs r a' h; simp [readHeaders] at h
  | succ f ih =>
    intro a lk hs r a' h
    have hle1 := readline_rest_le a
    simp only [readHeaders] at h
    generalize a.readline = q at *
    obtain ⟨line, a1⟩ := q
    simp only at h hle1
    by_cases hle : line.isEmpty = true
    · simp [hle] at h
    · simp only [hle, Bool.false_eq_true, if_false] at h
      by_cases hcr : line = CRLF
      · simp only [hcr, if_true, Except.ok.injEq, Prod.mk.injEq] at h
        obtain ⟨_, rfl⟩ := h
        exact hle1
      · simp only [hcr, if_false] at h
        by_cases hend : (!endsWith line CRLF) = true
        · simp [hend] at h
        · simp only [hend, Bool.false_eq_true, if_false] at h
          cases hst : hdrStep line lk hs with
          | error e => simp [hst] at h
          | ok q =>
            obtain ⟨lk', hs'⟩ := q
            simp only [hst] at h
            exact Nat.le_trans (ih a1 lk' hs' r a' h) hle1

theorem readLines_rest_le (bnd : Bytes) (m : Nat) : ∀ (f : Nat) (a : Src) (delim : Bytes) (pl : Bool)
    (acc : Bytes) (sp : Bool) (c : Bytes) (sp' : Bool) (a' : Src),
    readLines bnd m f a delim pl acc sp = .ok (c, sp', a') → a'.rest.length ≤ a.rest.length := by
  intro f
  induction f with
  | zero => intro a delim pl acc sp c sp' a' h; simp [readLines] at h
  | succ f ih =>
    intro a delim pl acc sp c sp' a' h
    have hle1 := readline_rest_le a
    simp only [readLines] at h
    generalize a.readline = q at *
    obtain ⟨line, a1⟩ := q
    simp only at h hle1
    by_cases hle : line.isEmpty = true
    · simp [hle] at h
    · simp only [hle, Bool.false_eq_true, if_false] at h
      cases hk : delimKind bnd line pl with
      | some b =>
        cases b with
        | false =>
          simp only [hk, Except.ok.injEq, Prod.mk.injEq] at h
          obtain ⟨_, _, rfl⟩ := h
          exact hle1
        | true =>
          simp only [hk, Except.ok.injEq, Prod.mk.injEq] at h
          obtain ⟨_, _, rfl⟩ := h
          exact hle1
      | none =>
        simp only [hk] at h
        exact Nat.le_trans (ih a1 _ _ _ _ c sp' a' h) hle1

theorem rest_le_conn (cfg : Cfg) (s : St) : (C05.rest cfg s).length ≤ s.buffer.length + s.src.length :=
  C05.rest_length_le cfg s

theorem sim_partsLoop (cfg : Cfg) (hc : CfgOK cfg) (bnd : Bytes) (m inner : Nat) :
    ∀ (f : Nat) (a : Src) (acc r : List RawPart) (a' : Src),
      partsLoop bnd m f a acc = .ok (r, a') →
      ∀ (f' : Nat), f ≤ f' → ∀ (s : St), Rel cfg s a → Good a →
      (∀ (a₁ : Src), a₁.rest.length ≤ a.rest.length → a₁.rest.length + 2 ≤ inner) →
      ∃ s', partsLoopR cfg bnd m inner f' s acc = .ok (r, s') ∧ Rel cfg s' a' := by
  intro f
  induction f with
  | zero => intro a acc r a' h; simp [partsLoop] at h
  | succ f ih =>
    intro a acc r a' h f' hf' s hr hg hin
    obtain ⟨g, rfl⟩ : ∃ g, f' = g + 1 := ⟨f' - 1, by omega⟩
    simp only [partsLoop] at h
    simp only [partsLoopR]
    cases hh : readHeaders (a.rest.length + 2) a none [] with
    | error e => simp [hh] at h
    | ok q =>
      obtain ⟨hs, a1⟩ := q
      simp only [hh] at h
      obtain ⟨s1, e1, hr1, hg1⟩ := sim_readHeaders cfg hc _ a none [] hs a1 hh inner (hin a (Nat.le_refl _)) s hr hg
      simp only [e1]
      have hlen1 : a1.rest.length ≤ a.rest.length := readHeaders_rest_le _ _ _ _ _ _ hh
      cases hl : readLines bnd m (a1.rest.length + 2) a1 [] true [] false with
      | error e => simp [hl] at h
      | ok q2 =>
        obtain ⟨content, spilled, a2⟩ := q2
        simp only [hl] at h
        obtain ⟨s2, e2, hr2⟩ := sim_readLines cfg hc bnd m _ a1 [] true [] false content spilled a2 hl inner
          (hin a1 hlen1) s1 hr1 hg1
        simp only [e2]
        have hlen2 : a2.rest.length ≤ a1.rest.length := readLines_rest_le bnd m _ _ _ _ _ _ _ _ _ hl
        have hd : s2.done = a2.done := hr2.done.symm
        by_cases hdone : a2.done = true
        · simp only [hdone, if_true, Except.ok.injEq, Prod.mk.injEq] at h
          obtain ⟨rfl, rfl⟩ := h
          simp only [hd, hdone, if_true]
          exact ⟨s2, rfl, hr2⟩
        · simp only [hdone, Bool.false_eq_true, if_false] at h
          simp only [hd, hdone, Bool.false_eq_true, if_false]
          exact ih a2 _ r a' h g (by omega) s2 hr2 (Or.inl (by simpa using hdone))
            (fun a₁ h₁ => hin a₁ (by omega))

theorem findFirst_rest_le (bnd : Bytes) : ∀ (f : Nat) (a a' : Src), findFirst bnd f a = some a' →
    a'.rest.length ≤ a.rest.length := by
  intro f
  induction f with
  | zero => intro a a' h; simp [findFirst] at h
  | succ f ih =>
    intro a a' h
    have hle1 := readline_rest_le a
    simp only [findFirst] at h
    generalize a.readline = q at *
    obtain ⟨line, a1⟩ := q
    simp only at h hle1
    by_cases hle : line.isEmpty = true
    · simp [hle] at h
    · simp only [hle, Bool.false_eq_true, if_false] at h
      by_cases hb : strip line = bnd
      · simp only [hb, if_true, Option.some.injEq] at h
        subst h; exact hle1
      · simp only [hb, if_false] at h
        exact Nat.le_trans (ih a1 a' h) hle1

theorem rel_init (cfg : Cfg) (conn : Bytes) (frag : List Nat) (L : Nat) (hL : cfg.length = some L)
    (hlen : L ≤ conn.length) : Rel cfg (init conn frag) ⟨conn.take L, false⟩ := by
  refine ⟨?_, rfl, C05.init_inv cfg conn frag none, C04_init_enough cfg conn frag L hL hlen, rfl⟩
  rw [C05.rest_init]; simp [C05.avail, hL]

/-- **C04, the real reader underneath.**  Whenever the parser over the cursor returns parts for the
    declared body `conn[:L]`, the parser over the concrete `SizedReader` model — reading the connection
    data `conn` (which may continue with a following request) through any fragmentation plan and any
    buffer size ≥ 1 — returns the same parts, ends in a reader state that abstracts to the cursor's final
    state, and has taken at most `L` bytes off the connection. -/
theorem C04_concrete_refines (cfg : Cfg) (hc : CfgOK cfg) (boundary : Bytes) (m : Nat) (conn : Bytes)
    (frag : List Nat) (L : Nat) (hL : cfg.length = some L) (hlen : L ≤ conn.length)
    (r : List RawPart) (a' : Src) (hne : r ≠ [])
    (h : processMultipart boundary m (conn.take L) = .ok (r, a')) :
    ∃ s', processMultipartR cfg boundary m conn frag = .ok (r, some s') ∧ Rel cfg s' a' ∧ s'.off ≤ L := by
  unfold processMultipart at h
  simp only at h
  unfold processMultipartR
  simp only
  have hbl : (conn.take L).length = L := by simp; omega
  cases hff : findFirst ([DASH, DASH] ++ boundary) ((conn.take L).length + 2) ⟨conn.take L, false⟩ with
  | none =>
    rw [hff] at h
    simp only [Except.ok.injEq, Prod.mk.injEq] at h
    exact absurd h.1.symm hne
  | some a0 =>
    rw [hff] at h
    simp only at h
    have hr0 := rel_init cfg conn frag L hL hlen
    obtain ⟨s0, e0, hr0', hg0⟩ := sim_findFirst cfg hc _ _ _ a0 hff (conn.length + 2) (by omega)
      (init conn frag) hr0 (Or.inl rfl)
    rw [e0]
    simp only
    have hle0 : a0.rest.length ≤ L := by
      have := findFirst_rest_le _ _ _ _ hff
      simp only [hbl] at this; exact this
    obtain ⟨s', e1, hr1⟩ := sim_partsLoop cfg hc _ m (conn.length + 2) _ a0 [] r a' h (conn.length + 2)
      (by omega) s0 hr0' hg0 (fun a₁ h₁ => by omega)
    rw [e1]
    exact ⟨s', rfl, hr1, hr1.inv.bound L hL⟩

/-- **C04, framing for every fragmentation and buffer size.**  Under the hypotheses of
    `C04_framing_partial`, with `Content-Length` = length of the serialised body, any bytes `beyond` it
    on the connection, any buffer size ≥ 1 and any fragmentation plan: the parser over the concrete
    reader returns every part in order with byte-identical content, the reader's undelivered rest is
    exactly what follows the close-delimiter line, and nothing beyond Content-Length was taken. -/
theorem C04_framing_concrete (cfg : Cfg) (hc : CfgOK cfg) (boundary : Bytes) (hB : BoundaryOK boundary)
    (maxram : Nat) (pre : List Bytes) (parts : List PartSpec) (closing after beyond : Bytes)
    (frag : List Nat)
    (hL : cfg.length = some (serialize boundary pre parts closing).length)
    (hpre : ∀ l ∈ pre, IsLine l ∧ strip l ≠ bndOf boundary)
    (hne : parts ≠ []) (hparts : ∀ p ∈ parts, PartOK boundary p) (hcl : Closing closing after) :
    ∃ s', processMultipartR cfg boundary maxram (serialize boundary pre parts closing ++ beyond) frag
        = .ok (parts.map (rawOf maxram), some s') ∧
      C05.rest cfg s' = after ∧ s'.done = true ∧
      s'.off ≤ (serialize boundary pre parts closing).length := by
  have habs := C04_framing_partial boundary hB maxram pre parts closing after hpre hne hparts hcl
  have htake : (serialize boundary pre parts closing ++ beyond).take (serialize boundary pre parts closing).length
      = serialize boundary pre parts closing := by simp
  rw [← htake] at habs
  have hne' : parts.map (rawOf maxram) ≠ [] := by
    cases parts with
    | nil => exact absurd rfl hne
    | cons _ _ => simp
  obtain ⟨s', e, hr, hoff⟩ := C04_concrete_refines cfg hc boundary maxram
    (serialize boundary pre parts closing ++ beyond) frag _ hL (by simp) _ _ hne' habs
  exact ⟨s', e, hr.rest.symm, hr.done.symm, hoff⟩

end CpProofs.C04
