import CpModel.SessionAdmit
/-!
  C13: soundness of the admission test of `CpModel/SessionAdmit.lean` (trace inclusion modulo
  stuttering), generic over the transition system.

  `follow_sound`   — every state the subset construction `follow` ends with is reached by a genuine
                     model run from one of the start states, and along that run the observation
                     changes exactly as in the recorded trace (`changes`), whatever `prune` drops.
  `followT_sound`  — the same for the deterministic fast path.
  `run_sched`      — such a run is a schedule (a list of actors).
  `run_inv`        — so every inductive invariant of the model holds in the state the admitted trace
                     ends in.
-/
namespace CpProofs.C13Admit
open CpModel.SessionAdmit

variable {σ τ ο : Type}

theorem run_trans {step : σ → τ → σ} {obs : σ → ο} {a b c : σ} {l1 l2 : List ο}
    (h1 : Run step obs a l1 b) (h2 : Run step obs b l2 c) : Run step obs a (l1 ++ l2) c := by
  induction h1 with
  | refl c => simpa using h2
  | tau t ho _ ih => exact .tau t ho (ih h2)
  | vis t n ho _ ih => exact .vis t n ho (ih h2)

theorem iter_eq_foldl (step : σ → τ → σ) (t : τ) : ∀ (n : Nat) (c : σ),
    iter step t n c = (List.replicate n t).foldl step c := by
  intro n
  induction n with
  | zero => intro c; rfl
  | succ k ih => intro c; simp [iter, ih, List.replicate_succ]

theorem iter_inv {step : σ → τ → σ} {P : σ → Prop} (hstep : ∀ c t, P c → P (step c t)) (t : τ) :
    ∀ (n : Nat) (c : σ), P c → P (iter step t n c) := by
  intro n
  induction n with
  | zero => intro c h; exact h
  | succ k ih => intro c h; exact ih _ (hstep c t h)

theorem run_sched {step : σ → τ → σ} {obs : σ → ο} {a b : σ} {l : List ο}
    (h : Run step obs a l b) : ∃ sched : List τ, b = sched.foldl step a := by
  induction h with
  | refl c => exact ⟨[], rfl⟩
  | tau t _ _ ih => obtain ⟨s, hs⟩ := ih; exact ⟨t :: s, by simpa using hs⟩
  | vis t n _ _ ih =>
    obtain ⟨s, hs⟩ := ih
    refine ⟨List.replicate n t ++ s, ?_⟩
    rw [List.foldl_append, ← iter_eq_foldl]
    exact hs

theorem run_inv {step : σ → τ → σ} {obs : σ → ο} {P : σ → Prop} (hstep : ∀ c t, P c → P (step c t))
    {a b : σ} {l : List ο} (h : Run step obs a l b) (ha : P a) : P b := by
  induction h with
  | refl c => exact ha
  | tau t _ _ ih => exact ih (hstep _ t ha)
  | vis t n _ _ ih => exact ih (iter_inv hstep t n _ ha)

section
variable [DecidableEq ο] (step : σ → τ → σ) (en : σ → τ → Bool) (obs : σ → ο)

theorem mem_tauChain (t : τ) (p : ο) : ∀ (fuel : Nat) (c x : σ), obs c = p →
    x ∈ tauChain step en obs t p fuel c → Run step obs c [] x ∧ obs x = p := by
  intro fuel
  induction fuel with
  | zero =>
    intro c x hc hx
    simp only [tauChain, List.mem_singleton] at hx
    subst hx
    exact ⟨.refl _, hc⟩
  | succ n ih =>
    intro c x hc hx
    unfold tauChain at hx
    split at hx
    · rename_i hcond
      simp only [Bool.and_eq_true, decide_eq_true_eq] at hcond
      rcases List.mem_cons.mp hx with h | h
      · subst h; exact ⟨.refl _, hc⟩
      · obtain ⟨hr, ho⟩ := ih _ _ hcond.2 h
        exact ⟨.tau t (by rw [hcond.2, hc]) hr, ho⟩
    · simp only [List.mem_singleton] at hx
      subst hx
      exact ⟨.refl _, hc⟩

theorem mem_visChain (t : τ) (o : ο) : ∀ (fuel : Nat) (c x : σ),
    x ∈ visChain step en obs t o fuel c → ∃ n, x = iter step t n c ∧ obs x = o := by
  intro fuel
  induction fuel with
  | zero => intro c x hx; simp [visChain] at hx
  | succ k ih =>
    intro c x hx
    unfold visChain at hx
    split at hx
    · split at hx
      · rename_i ho
        simp only [List.mem_singleton] at hx
        subst hx
        exact ⟨1, rfl, ho⟩
      · obtain ⟨n, hn, ho⟩ := ih _ _ hx
        exact ⟨n + 1, by simp [hn, iter], ho⟩
    · simp at hx

/-- a block found by `visChain` from a state that shows `p ≠ o` is one `vis` link of a run -/
theorem visChain_run (t : τ) (p o : ο) (hne : o ≠ p) (fuel : Nat) (c x : σ) (hc : obs c = p)
    (hx : x ∈ visChain step en obs t o fuel c) : Run step obs c [o] x ∧ obs x = o := by
  obtain ⟨n, hn, ho⟩ := mem_visChain step en obs t o fuel c x hx
  subst hn
  refine ⟨?_, ho⟩
  have hv : obs (iter step t n c) ≠ obs c := by rw [ho, hc]; exact hne
  have := Run.vis (step := step) (obs := obs) (c := c) (c' := iter step t n c) (l := []) t n hv (.refl _)
  rw [ho] at this
  exact this

variable (prune : List σ → List σ) (hprune : ∀ l x, x ∈ prune l → x ∈ l) (fuel : Nat)

include hprune in
theorem mem_closure (p : ο) : ∀ (ts : List τ) (S : List σ) (x : σ), (∀ c ∈ S, obs c = p) →
    x ∈ closure step en obs prune fuel p ts S → ∃ c ∈ S, Run step obs c [] x ∧ obs x = p := by
  intro ts
  induction ts with
  | nil => intro S x hS hx; exact ⟨x, by simpa [closure] using hx, .refl _, hS x (by simpa [closure] using hx)⟩
  | cons t ts ih =>
    intro S x hS hx
    simp only [closure] at hx
    have hS' : ∀ c ∈ prune (S.flatMap (tauChain step en obs t p fuel)), obs c = p := by
      intro c hc
      have hc := hprune _ _ hc
      simp only [List.mem_flatMap] at hc
      obtain ⟨c0, hc0, hcc⟩ := hc
      exact (mem_tauChain step en obs t p fuel c0 c (hS c0 hc0) hcc).2
    obtain ⟨y, hy, hr, ho⟩ := ih _ x hS' hx
    have hy := hprune _ _ hy
    simp only [List.mem_flatMap] at hy
    obtain ⟨c0, hc0, hyc⟩ := hy
    have h1 := (mem_tauChain step en obs t p fuel c0 y (hS c0 hc0) hyc).1
    exact ⟨c0, hc0, by simpa using run_trans h1 hr, ho⟩

include hprune in
/-- Every state `follow` ends with is reached from a start state by a model run along which the
    observation changes exactly as recorded. -/
theorem follow_sound [DecidableEq τ] : ∀ (tr : List (Turn τ ο)) (S : List σ) (p : ο) (act : List τ) (x : σ),
    (∀ c ∈ S, obs c = p) → x ∈ follow step en obs prune fuel S p act tr →
    ∃ c ∈ S, Run step obs c (changes p tr) x := by
  intro tr
  induction tr with
  | nil =>
    intro S p act x hS hx
    simp only [follow] at hx
    obtain ⟨c, hc, hr, _⟩ := mem_closure step en obs prune hprune fuel p act S x hS hx
    exact ⟨c, hc, by simpa [changes] using hr⟩
  | cons a r ih =>
    intro S p act x hS hx
    cases a with
    | free t o =>
      simp only [follow] at hx
      by_cases hop : o = p
      · simp only [hop, if_true] at hx
        obtain ⟨c, hc, hr⟩ := ih S p _ x hS hx
        exact ⟨c, hc, by simpa [changes, Turn.obs, hop] using hr⟩
      · simp only [hop, if_false] at hx
        have hS2 : ∀ c ∈ prune ((closure step en obs prune fuel p (act.erase t) S).flatMap
            (visChain step en obs t o fuel)), obs c = o := by
          intro c hc
          have hc := hprune _ _ hc
          simp only [List.mem_flatMap] at hc
          obtain ⟨c1, hc1, hcc⟩ := hc
          obtain ⟨_, _, _, ho1⟩ := mem_closure step en obs prune hprune fuel p _ S c1 hS hc1
          exact (visChain_run step en obs t p o hop fuel c1 c ho1 hcc).2
        obtain ⟨y, hy, hr⟩ := ih _ o _ x hS2 hx
        have hy := hprune _ _ hy
        simp only [List.mem_flatMap] at hy
        obtain ⟨c1, hc1, hyc⟩ := hy
        obtain ⟨c0, hc0, hr0, ho1⟩ := mem_closure step en obs prune hprune fuel p _ S c1 hS hc1
        have hv := (visChain_run step en obs t p o hop fuel c1 y ho1 hyc).1
        refine ⟨c0, hc0, ?_⟩
        have := run_trans (run_trans hr0 hv) hr
        simpa [changes, Turn.obs, hop] using this
    | exact t o =>
      simp only [follow] at hx
      have hS2 : ∀ c ∈ prune (((closure step en obs prune fuel p act S).map fun c => step c t).filter
          fun c => decide (obs c = o)), obs c = o := by
        intro c hc
        have hc := hprune _ _ hc
        simp only [List.mem_filter, decide_eq_true_eq] at hc
        exact hc.2
      obtain ⟨y, hy, hr⟩ := ih _ o _ x hS2 hx
      have hy := hprune _ _ hy
      simp only [List.mem_filter, List.mem_map, decide_eq_true_eq] at hy
      obtain ⟨⟨c1, hc1, rfl⟩, hoy⟩ := hy
      obtain ⟨c0, hc0, hr0, ho1⟩ := mem_closure step en obs prune hprune fuel p _ S c1 hS hc1
      refine ⟨c0, hc0, ?_⟩
      by_cases hop : o = p
      · have h1 : Run step obs c1 [] (step c1 t) := .tau t (by rw [hoy, hop, ho1]) (.refl _)
        have := run_trans (run_trans hr0 h1) hr
        simpa [changes, Turn.obs, hop] using this
      · have hv : obs (step c1 t) ≠ obs c1 := by rw [hoy, ho1]; exact hop
        have h1 := Run.vis (step := step) (obs := obs) (c := c1) (c' := step c1 t) (l := []) t 1 hv (.refl _)
        simp only [iter] at h1
        rw [hoy] at h1
        have := run_trans (run_trans hr0 h1) hr
        simpa [changes, Turn.obs, hop] using this

end

/-! ### the deterministic fast path -/
section
variable {κ : Type} [DecidableEq ο] [DecidableEq κ] (step : σ → τ → σ) (en : σ → τ → Bool) (obs : σ → ο)
  (lab : σ → τ → Option κ) (isLocal : σ → τ → Bool)

theorem drain_run (t : τ) (p : ο) : ∀ (fuel : Nat) (c : σ), obs c = p →
    Run step obs c [] (drain step en obs isLocal t p fuel c) ∧
    obs (drain step en obs isLocal t p fuel c) = p := by
  intro fuel
  induction fuel with
  | zero => intro c hc; exact ⟨.refl _, hc⟩
  | succ n ih =>
    intro c hc
    unfold drain
    split
    · rename_i hcond
      simp only [Bool.and_eq_true, decide_eq_true_eq] at hcond
      obtain ⟨hr, ho⟩ := ih _ hcond.2
      exact ⟨.tau t (by rw [hcond.2, hc]) hr, ho⟩
    · exact ⟨.refl _, hc⟩

theorem matchStep_run (t : τ) (p : ο) (h : Option κ) (c : σ) (hc : obs c = p) :
    Run step obs c [] (matchStep step en obs lab t p h c) ∧
    obs (matchStep step en obs lab t p h c) = p := by
  unfold matchStep
  cases h with
  | none => exact ⟨.refl _, hc⟩
  | some l =>
    simp only []
    split
    · rename_i hcond
      simp only [Bool.and_eq_true, decide_eq_true_eq] at hcond
      exact ⟨.tau t (by rw [hcond.2, hc]) (.refl _), hcond.2⟩
    · exact ⟨.refl _, hc⟩

/-- the list of turns without the labels -/
def turns (tr : List (Turn τ ο × Option κ)) : List (Turn τ ο) := tr.map (·.1)

theorem followT_sound (fuel : Nat) : ∀ (tr : List (Turn τ ο × Option κ)) (c : σ) (p : ο) (x : σ),
    obs c = p → followT step en obs lab isLocal fuel c p tr = some x →
    Run step obs c (changes p (turns tr)) x := by
  intro tr
  induction tr with
  | nil =>
    intro c p x _ hx
    simp only [followT, Option.some.injEq] at hx
    subst hx
    exact .refl _
  | cons a r ih =>
    intro c p x hc hx
    obtain ⟨a, h⟩ := a
    simp only [followT] at hx
    cases htt : tightTurn step en obs lab isLocal fuel c p (a, h) with
    | none => simp [htt] at hx
    | some c' =>
      simp only [htt] at hx
      cases a with
      | free t o =>
        simp only [tightTurn] at htt
        by_cases hop : o = p
        · simp only [hop, if_true, Option.some.injEq] at htt
          obtain ⟨h1, ho1⟩ := matchStep_run step en obs lab t p h c hc
          obtain ⟨h2, ho2⟩ := drain_run step en obs isLocal t p fuel _ ho1
          rw [htt] at h2 ho2
          have hr := ih c' o x (by rw [hop]; exact ho2) hx
          have := run_trans (run_trans h1 h2) hr
          simpa [changes, turns, Turn.obs, hop] using this
        · simp only [hop, if_false] at htt
          cases hv : visChain step en obs t o fuel c with
          | nil => simp [hv] at htt
          | cons y ys =>
            cases ys with
            | cons _ _ => simp [hv] at htt
            | nil =>
              simp only [hv, Option.some.injEq] at htt
              obtain ⟨h0, ho0⟩ := visChain_run step en obs t p o hop fuel c y hc (by simp [hv])
              obtain ⟨h1, ho1⟩ := matchStep_run step en obs lab t o h y ho0
              obtain ⟨h2, ho2⟩ := drain_run step en obs isLocal t o fuel _ ho1
              rw [htt] at h2 ho2
              have hr := ih c' o x ho2 hx
              have := run_trans (run_trans (run_trans h0 h1) h2) hr
              simpa [changes, turns, Turn.obs, hop] using this
      | exact t o =>
        simp only [tightTurn] at htt
        split at htt
        · rename_i hoo
          simp only [Option.some.injEq] at htt
          subst htt
          have hr := ih (step c t) o x hoo hx
          by_cases hop : o = p
          · have h1 : Run step obs c [] (step c t) := .tau t (by rw [hoo, hop, hc]) (.refl _)
            have := run_trans h1 hr
            simpa [changes, turns, Turn.obs, hop] using this
          · have hv : obs (step c t) ≠ obs c := by rw [hoo, hc]; exact hop
            have h1 := Run.vis (step := step) (obs := obs) (c := c) (c' := step c t) (l := []) t 1 hv (.refl _)
            simp only [iter] at h1
            rw [hoo] at h1
            have := run_trans h1 hr
            simpa [changes, turns, Turn.obs, hop] using this
        · simp at htt

end

/-- keep-first pruning only drops states -/
theorem mem_pruneGo {κ : Type} [BEq κ] [Hashable κ] (key : σ → κ) :
    ∀ (l : List σ) (seen : Std.HashSet κ) (x : σ), x ∈ pruneGo key l seen → x ∈ l := by
  intro l
  induction l with
  | nil => intro seen x hx; simp [pruneGo] at hx
  | cons a as ih =>
    intro seen x hx
    simp only [pruneGo] at hx
    split at hx
    · exact List.mem_cons_of_mem _ (ih _ _ hx)
    · rcases List.mem_cons.mp hx with h | h
      · simp [h]
      · exact List.mem_cons_of_mem _ (ih _ _ h)

theorem mem_pruneBy {κ : Type} [BEq κ] [Hashable κ] (key : σ → κ) (l : List σ) (x : σ)
    (h : x ∈ pruneBy key l) : x ∈ l := mem_pruneGo key l _ x h

/-- What a positive answer of the slow path means. -/
theorem admits_sound [DecidableEq τ] [DecidableEq ο] {φ κ : Type} [DecidableEq φ] [BEq κ] [Hashable κ]
    (step : σ → τ → σ) (en : σ → τ → Bool) (obs : σ → ο) (fin : σ → φ) (key : σ → κ) (fuel : Nat)
    (c0 : σ) (o0 : ο) (tr : List (Turn τ ο)) (f : φ)
    (h : admits step en obs fin (pruneBy key) fuel c0 o0 tr f = true) :
    obs c0 = o0 ∧ ∃ x, Run step obs c0 (changes o0 tr) x ∧ fin x = f := by
  unfold admits at h
  simp only [List.any_eq_true, decide_eq_true_eq] at h
  obtain ⟨x, hx, hf⟩ := h
  by_cases h0 : obs c0 = o0
  · simp only [h0, if_true] at hx
    obtain ⟨c, hc, hr⟩ := follow_sound step en obs (pruneBy key) (mem_pruneBy key) fuel tr [c0] o0 [] x
      (by intro c hc; simp only [List.mem_singleton] at hc; rw [hc]; exact h0) hx
    simp only [List.mem_singleton] at hc
    subst hc
    exact ⟨h0, x, hr, hf⟩
  · simp only [h0, if_false] at hx
    have : ∀ (tr : List (Turn τ ο)) (p : ο) (act : List τ),
        follow step en obs (pruneBy key) fuel [] p act tr = [] := by
      intro tr
      induction tr with
      | nil =>
        intro p act
        simp only [follow]
        induction act with
        | nil => rfl
        | cons t ts ih => simp [closure, pruneBy, pruneGo, ih]
      | cons a r ih =>
        intro p act
        have hcl : ∀ (ts : List τ), closure step en obs (pruneBy key) fuel p ts [] = [] := by
          intro ts
          induction ts with
          | nil => rfl
          | cons t ts ih2 => simp [closure, pruneBy, pruneGo, ih2]
        cases a with
        | free t o =>
          simp only [follow]
          split
          · exact ih _ _
          · simp [hcl, pruneBy, pruneGo, ih]
        | exact t o => simp [follow, hcl, pruneBy, pruneGo, ih]
    rw [this] at hx
    simp at hx

/-- What a positive answer of the fast path means. -/
theorem admitsT_sound {κ φ : Type} [DecidableEq ο] [DecidableEq κ] [DecidableEq φ] (step : σ → τ → σ)
    (en : σ → τ → Bool) (obs : σ → ο) (fin : σ → φ) (lab : σ → τ → Option κ) (isLocal : σ → τ → Bool)
    (fuel : Nat) (c0 : σ) (o0 : ο) (tr : List (Turn τ ο × Option κ)) (f : φ)
    (h : admitsT step en obs fin lab isLocal fuel c0 o0 tr f = true) :
    obs c0 = o0 ∧ ∃ x, Run step obs c0 (changes o0 (turns tr)) x ∧ fin x = f := by
  unfold admitsT at h
  simp only [Bool.and_eq_true, decide_eq_true_eq] at h
  obtain ⟨h0, h1⟩ := h
  cases hf : followT step en obs lab isLocal fuel c0 o0 tr with
  | none => simp [hf] at h1
  | some x =>
    simp only [hf, decide_eq_true_eq] at h1
    exact ⟨h0, x, followT_sound step en obs lab isLocal fuel tr c0 o0 x h0 hf, h1⟩

end CpProofs.C13Admit
