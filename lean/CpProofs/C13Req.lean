import CpModel.SessionReq
/-!
  C13 — request level: however a request ends, its session lock is released.

  `Cons` is the invariant kept by every session operation of the request: the request holds
  exactly the lock of its current session id, exactly once, iff `Session.locked`; and it can only
  be locked once `sessions.init` has created the session object.  `sessions.close` is fail-safe and
  sits in the on_end_request list, so it runs whatever the other hooks of that point do
  (`runHooks_close` — the local instance of C09's "fail-safe hooks always run"), and it releases
  the lock if `Cons` holds.
-/
namespace CpProofs.C13
open CpModel.SessionReq

def Cons (s : S) : Prop :=
  (∀ k, s.held k = if s.locked = true ∧ k = s.cur then 1 else 0) ∧ (s.locked = true → s.hasSess = true)

theorem cons_init : Cons {} := by
  constructor <;> simp

theorem cons_obs {s : S} (c : Char) (h : Cons s) : Cons (s.obs c) := h

theorem cons_acquire {s : S} (h : Cons s) (hl : s.locked = false) (hs : s.hasSess = true) :
    Cons (acquireLock s) := by
  obtain ⟨h1, h2⟩ := h
  constructor
  · intro k
    have := h1 k
    simp only [acquireLock]
    split <;> simp_all
  · intro _; exact hs

theorem cons_release {s : S} (h : Cons s) (hl : s.locked = true) :
    ∃ s1, releaseLock s = some s1 ∧ Cons s1 ∧ s1.locked = false ∧ s1.cur = s.cur ∧
      s1.hasSess = s.hasSess ∧ s1.loaded = s.loaded ∧ s1.deferred = s.deferred := by
  obtain ⟨h1, h2⟩ := h
  have hc := h1 s.cur
  simp only [hl, and_self, if_true] at hc
  refine ⟨{ s with locked := false, held := fun k => if k = s.cur then s.held k - 1 else s.held k }, ?_, ?_, rfl, rfl, rfl, rfl, rfl⟩
  · simp [releaseLock, hc]
  · constructor
    · intro k
      have := h1 k
      simp only []
      split <;> simp_all
    · intro hf; simp at hf

theorem cons_touch (p : Plan) {s : S} (h : Cons s) :
    Cons (touch p s).1 ∧ (touch p s).1.locked = s.locked ∧ (touch p s).1.hasSess = s.hasSess := by
  unfold touch
  split
  · exact ⟨h, rfl, rfl⟩
  · split
    · exact ⟨h, rfl, rfl⟩
    · exact ⟨h, rfl, rfl⟩

theorem cons_regen (p : Plan) {s : S} (h : Cons s) :
    Cons (regen p s).1 ∧ (regen p s).1.locked = s.locked ∧ (regen p s).1.hasSess = s.hasSess := by
  unfold regen
  split
  · exact ⟨h, rfl, rfl⟩
  · split
    · rename_i hl
      obtain ⟨s1, hr, hc1, hl1, hcur, hhs, _, _⟩ := cons_release h hl
      simp only [hr]
      have hc2 : Cons { s1 with cur := s1.cur + 1 } := by
        obtain ⟨a1, a2⟩ := hc1
        constructor
        · intro k; have := a1 k; simp_all
        · intro hf; simp [hl1] at hf
      have := cons_acquire hc2 hl1 (by simpa [hhs] using h.2 hl)
      refine ⟨this, ?_, ?_⟩
      · simp [acquireLock, hl]
      · simp [acquireLock, hhs]
    · rename_i hl
      have hl' : s.locked = false := by simpa using hl
      refine ⟨?_, rfl, rfl⟩
      obtain ⟨a1, a2⟩ := h
      constructor
      · intro k; have := a1 k; simp_all
      · intro hf; simp [hl'] at hf

theorem cons_runActs (p : Plan) (acts : List Act) {s : S} (h : Cons s)
    (hw : wellBehavedFrom s.locked acts = true) : Cons (runActs p acts s).1 := by
  induction acts generalizing s with
  | nil => exact h
  | cons a rest ih =>
    unfold runActs
    split
    · exact h
    · rename_i hs
      have hs' : s.hasSess = true := by simpa using hs
      cases a with
      | touch =>
        obtain ⟨c1, c2, c3⟩ := cons_touch p h
        simp only []
        generalize hq : touch p s = q at c1 c2 c3
        obtain ⟨s1, o⟩ := q
        cases o <;> simp only [] <;> first | exact c1 | skip
        apply ih c1
        have c2' : s1.locked = s.locked := c2
        rw [c2']; simpa [wellBehavedFrom] using hw
      | acquire =>
        simp only [wellBehavedFrom, Bool.and_eq_true, Bool.not_eq_true'] at hw
        have c1 := cons_acquire h hw.1 hs'
        have h0 : s.held s.cur = 0 := by
          have := h.1 s.cur
          simpa [hw.1] using this
        simp only [h0, Nat.lt_irrefl, decide_false, Bool.and_false, Bool.false_eq_true, if_false]
        apply ih c1
        simpa [acquireLock] using hw.2
      | release =>
        simp only [wellBehavedFrom, Bool.and_eq_true] at hw
        obtain ⟨s1, hr, hc1, hl1, _⟩ := cons_release h hw.1
        simp only [hr]
        apply ih hc1
        simpa [hl1] using hw.2
      | regen =>
        obtain ⟨c1, c2, c3⟩ := cons_regen p h
        simp only []
        generalize hq : regen p s = q at c1 c2 c3
        obtain ⟨s1, o⟩ := q
        cases o <;> simp only [] <;> first | exact c1 | skip
        apply ih c1
        have c2' : s1.locked = s.locked := c2
        rw [c2']; simpa [wellBehavedFrom] using hw

theorem cons_sessionSave (p : Plan) {s : S} (h : Cons s) :
    Cons (sessionSave p s).1 ∧ (sessionSave p s).1.locked = false := by
  unfold sessionSave
  simp only []
  split
  · rename_i hl
    obtain ⟨s1, hr, hc1, hl1, _⟩ := cons_release h hl
    simp only [hr]
    exact ⟨hc1, hl1⟩
  · rename_i hl
    exact ⟨h, by simpa using hl⟩

theorem cons_runGen (p : Plan) {s : S} (h : Cons s) : Cons (runGen p s).1 := by
  unfold runGen
  split
  · exact h
  · by_cases hg : p.genTouch = true
    · simp only [hg, if_true]
      obtain ⟨c1, _, _⟩ := cons_touch p h
      generalize touch p s = q at c1
      obtain ⟨s1, o⟩ := q
      cases o <;> exact c1
    · simp only [hg]
      exact h

theorem cons_saveHook (p : Plan) {s : S} (h : Cons s) : Cons (saveHook p s).1 := by
  unfold saveHook
  split
  · exact h
  · split
    · exact h
    · simp only []
      have h' : Cons { s with saved := true } := h
      split
      · exact h'
      · have c1 := cons_runGen p h'
        generalize runGen p { s with saved := true } = q at c1
        obtain ⟨s1, o⟩ := q
        cases o <;> simp only [] <;> first | exact c1 | exact (cons_sessionSave p c1).1

theorem cons_closeHook {s : S} (h : Cons s) : Cons (closeHook s).1 ∧ (closeHook s).1.locked = false := by
  unfold closeHook
  split
  · rename_i hc
    simp only [Bool.and_eq_true] at hc
    obtain ⟨s1, hr, hc1, hl1, _⟩ := cons_release h hc.2
    simp only [hr]
    exact ⟨hc1, hl1⟩
  · rename_i hc
    refine ⟨h, ?_⟩
    cases hl : s.locked with
    | false => rfl
    | true => exact absurd (by simp [h.2 hl, hl]) hc


/-! ### the hook runner -/

theorem cons_runAct (p : Plan) (h : Hook) (hne : h.act ≠ .lock) {s : S} (hc : Cons s) :
    Cons (runAct p h s).1 := by
  unfold runAct
  cases ha : h.act <;> simp only []
  · exact hc
  · exact ⟨hc.1, fun _ => rfl⟩
  · exact absurd ha hne
  · exact cons_saveHook p hc
  · exact (cons_closeHook hc).1
  · exact (cons_sessionSave p hc).1

/-- Lemma A: a hook list without `_lock_session` keeps `Cons`. -/
theorem cons_runSafe (p : Plan) (l : List Hook) (hn : ∀ h ∈ l, h.act ≠ .lock) {s : S} (hc : Cons s) :
    Cons (runSafe p l s).1 := by
  induction l generalizing s with
  | nil => exact hc
  | cons h rest ih =>
    have hrest : ∀ x ∈ rest, x.act ≠ .lock := fun x hx => hn x (List.mem_cons_of_mem h hx)
    unfold runSafe
    split
    · exact ih hrest (cons_runAct p h (hn h List.mem_cons_self) hc)
    · exact ih hrest hc

theorem cons_runHooks (p : Plan) (l : List Hook) (hn : ∀ h ∈ l, h.act ≠ .lock) {s : S} (hc : Cons s) :
    Cons (runHooks p l s).1 := by
  induction l generalizing s with
  | nil => exact hc
  | cons h rest ih =>
    have hrest : ∀ x ∈ rest, x.act ≠ .lock := fun x hx => hn x (List.mem_cons_of_mem h hx)
    have c1 := cons_runAct p h (hn h List.mem_cons_self) hc
    unfold runHooks
    generalize runAct p h s = q at c1
    obtain ⟨s1, o⟩ := q
    cases o <;> simp only []
    · exact ih hrest c1
    all_goals exact cons_runSafe p rest hrest c1

/-- hooks that are user hooks or `sessions.init` -/
def plain (h : Hook) : Prop := h.act = .user ∨ h.act = .init

theorem plain_runAct (p : Plan) (h : Hook) (hp : plain h) (s : S) :
    (runAct p h s).1.locked = s.locked := by
  unfold runAct
  rcases hp with ha | ha <;> simp [ha]

/-- Lemma U: user hooks and `init` neither lock nor unlock. -/
theorem plain_runSafe (p : Plan) (l : List Hook) (hp : ∀ h ∈ l, plain h) (s : S) :
    (runSafe p l s).1.locked = s.locked := by
  induction l generalizing s with
  | nil => rfl
  | cons h rest ih =>
    have hrest : ∀ x ∈ rest, plain x := fun x hx => hp x (List.mem_cons_of_mem h hx)
    unfold runSafe
    split
    · simp only []
      rw [ih hrest]; exact plain_runAct p h (hp h List.mem_cons_self) s
    · exact ih hrest s

theorem plain_runHooks (p : Plan) (l : List Hook) (hp : ∀ h ∈ l, plain h) (s : S) :
    (runHooks p l s).1.locked = s.locked := by
  induction l generalizing s with
  | nil => rfl
  | cons h rest ih =>
    have hrest : ∀ x ∈ rest, plain x := fun x hx => hp x (List.mem_cons_of_mem h hx)
    have c1 := plain_runAct p h (hp h List.mem_cons_self) s
    unfold runHooks
    generalize runAct p h s = q at c1
    obtain ⟨s1, o⟩ := q
    cases o <;> simp only []
    · rw [ih hrest]; exact c1
    all_goals (rw [plain_runSafe p rest hrest]; exact c1)

theorem plain_ne_lock {h : Hook} (hp : plain h) : h.act ≠ .lock := by
  rcases hp with ha | ha <;> simp [ha]

/-- Lemma L1: plain hooks plus at most one `_lock_session`, started unlocked, keep `Cons`. -/
theorem one_runSafe (p : Plan) (l : List Hook) (hp : ∀ h ∈ l, plain h ∨ h.act = .lock)
    (h1 : l.countP (fun h => h.act == .lock) ≤ 1) {s : S} (hc : Cons s) (hu : s.locked = false) :
    Cons (runSafe p l s).1 := by
  induction l generalizing s with
  | nil => exact hc
  | cons h rest ih =>
    have hrest : ∀ x ∈ rest, plain x ∨ x.act = .lock := fun x hx => hp x (List.mem_cons_of_mem h hx)
    unfold runSafe
    rcases hp h List.mem_cons_self with hpl | hlk
    · have hcnt : rest.countP (fun h => h.act == .lock) ≤ 1 := by
        have : (h.act == HAct.lock) = false := by simpa using plain_ne_lock hpl
        simpa [List.countP_cons, this] using h1
      split
      · apply ih hrest hcnt (cons_runAct p h (plain_ne_lock hpl) hc)
        rw [plain_runAct p h hpl]; exact hu
      · exact ih hrest hcnt hc hu
    · have hcnt : rest.countP (fun h => h.act == .lock) = 0 := by
        have : (h.act == HAct.lock) = true := by simp [hlk]
        simp only [List.countP_cons, this, if_true] at h1
        omega
      have hplain : ∀ x ∈ rest, plain x := by
        intro x hx
        rcases hrest x hx with h' | h'
        · exact h'
        · exfalso
          have := List.countP_eq_zero.mp hcnt x hx
          simp [h'] at this
      have hnl : ∀ x ∈ rest, x.act ≠ .lock := fun x hx => plain_ne_lock (hplain x hx)
      split
      · apply cons_runSafe p rest hnl
        unfold runAct
        simp only [hlk]
        split
        · exact cons_acquire hc hu (by assumption)
        · exact hc
      · exact cons_runSafe p rest hnl hc

theorem one_runHooks (p : Plan) (l : List Hook) (hp : ∀ h ∈ l, plain h ∨ h.act = .lock)
    (h1 : l.countP (fun h => h.act == .lock) ≤ 1) {s : S} (hc : Cons s) (hu : s.locked = false) :
    Cons (runHooks p l s).1 := by
  induction l generalizing s with
  | nil => exact hc
  | cons h rest ih =>
    have hrest : ∀ x ∈ rest, plain x ∨ x.act = .lock := fun x hx => hp x (List.mem_cons_of_mem h hx)
    unfold runHooks
    rcases hp h List.mem_cons_self with hpl | hlk
    · have hcnt : rest.countP (fun h => h.act == .lock) ≤ 1 := by
        have : (h.act == HAct.lock) = false := by simpa using plain_ne_lock hpl
        simpa [List.countP_cons, this] using h1
      have c1 := cons_runAct p h (plain_ne_lock hpl) hc
      have c2 := plain_runAct p h hpl s
      generalize runAct p h s = q at c1 c2
      obtain ⟨s1, o⟩ := q
      have c2' : s1.locked = false := by rw [← hu]; exact c2
      cases o <;> simp only []
      · exact ih hrest hcnt c1 c2'
      all_goals exact one_runSafe p rest hrest hcnt c1 c2'
    · have hcnt : rest.countP (fun h => h.act == .lock) = 0 := by
        have : (h.act == HAct.lock) = true := by simp [hlk]
        simp only [List.countP_cons, this, if_true] at h1
        omega
      have hplain : ∀ x ∈ rest, plain x := by
        intro x hx
        rcases hrest x hx with h' | h'
        · exact h'
        · exfalso
          have := List.countP_eq_zero.mp hcnt x hx
          simp [h'] at this
      have hnl : ∀ x ∈ rest, x.act ≠ .lock := fun x hx => plain_ne_lock (hplain x hx)
      have c1 : Cons (runAct p h s).1 := by
        unfold runAct
        simp only [hlk]
        split
        · exact cons_acquire hc hu (by assumption)
        · exact hc
      generalize runAct p h s = q at c1
      obtain ⟨s1, o⟩ := q
      cases o <;> simp only []
      · exact cons_runHooks p rest hnl c1
      all_goals exact cons_runSafe p rest hnl c1


/-! ### `sessions.close` is fail-safe: it runs, and releases -/

def endAct (h : Hook) : Prop := h.act = .user ∨ h.act = .close ∨ h.act = .sessSave

theorem endAct_ne_lock {h : Hook} (he : endAct h) : h.act ≠ .lock := by
  rcases he with ha | ha | ha <;> simp [ha]

theorem end_runAct_unlocked (p : Plan) (h : Hook) (he : endAct h) {s : S} (hc : Cons s)
    (hu : s.locked = false) : (runAct p h s).1.locked = false := by
  unfold runAct
  rcases he with ha | ha | ha <;> simp only [ha]
  · exact hu
  · exact (cons_closeHook hc).2
  · exact (cons_sessionSave p hc).2

theorem end_runSafe_unlocked (p : Plan) (l : List Hook) (he : ∀ h ∈ l, endAct h) {s : S} (hc : Cons s)
    (hu : s.locked = false) : (runSafe p l s).1.locked = false := by
  induction l generalizing s with
  | nil => exact hu
  | cons h rest ih =>
    have hrest : ∀ x ∈ rest, endAct x := fun x hx => he x (List.mem_cons_of_mem h hx)
    have hh := he h List.mem_cons_self
    unfold runSafe
    split
    · exact ih hrest (cons_runAct p h (endAct_ne_lock hh) hc) (end_runAct_unlocked p h hh hc hu)
    · exact ih hrest hc hu

theorem end_runHooks_unlocked (p : Plan) (l : List Hook) (he : ∀ h ∈ l, endAct h) {s : S} (hc : Cons s)
    (hu : s.locked = false) : (runHooks p l s).1.locked = false := by
  induction l generalizing s with
  | nil => exact hu
  | cons h rest ih =>
    have hrest : ∀ x ∈ rest, endAct x := fun x hx => he x (List.mem_cons_of_mem h hx)
    have hh := he h List.mem_cons_self
    have c1 := cons_runAct p h (endAct_ne_lock hh) hc
    have c2 := end_runAct_unlocked p h hh hc hu
    unfold runHooks
    generalize runAct p h s = q at c1 c2
    obtain ⟨s1, o⟩ := q
    cases o <;> simp only []
    · exact ih hrest c1 c2
    all_goals exact end_runSafe_unlocked p rest hrest c1 c2

/-- the fail-safe continuation reaches a fail-safe `close` and the lock is free afterwards -/
theorem close_runSafe (p : Plan) (l : List Hook) (he : ∀ h ∈ l, endAct h)
    (hcl : ∃ h ∈ l, h.act = .close ∧ h.failsafe = true) {s : S} (hc : Cons s) :
    (runSafe p l s).1.locked = false := by
  induction l generalizing s with
  | nil => obtain ⟨h, hm, _⟩ := hcl; cases hm
  | cons h rest ih =>
    have hrest : ∀ x ∈ rest, endAct x := fun x hx => he x (List.mem_cons_of_mem h hx)
    have hh := he h List.mem_cons_self
    unfold runSafe
    by_cases hthis : h.act = .close ∧ h.failsafe = true
    · simp only [hthis.2, if_true]
      apply end_runSafe_unlocked p rest hrest (cons_runAct p h (endAct_ne_lock hh) hc)
      unfold runAct
      simp only [hthis.1]
      exact (cons_closeHook hc).2
    · have hin : ∃ x ∈ rest, x.act = .close ∧ x.failsafe = true := by
        obtain ⟨x, hx, hx2⟩ := hcl
        rcases List.mem_cons.mp hx with rfl | hx'
        · exact absurd hx2 hthis
        · exact ⟨x, hx', hx2⟩
      split
      · exact ih hrest hin (cons_runAct p h (endAct_ne_lock hh) hc)
      · exact ih hrest hin hc

theorem close_runHooks (p : Plan) (l : List Hook) (he : ∀ h ∈ l, endAct h)
    (hcl : ∃ h ∈ l, h.act = .close ∧ h.failsafe = true) {s : S} (hc : Cons s) :
    (runHooks p l s).1.locked = false := by
  induction l generalizing s with
  | nil => obtain ⟨h, hm, _⟩ := hcl; cases hm
  | cons h rest ih =>
    have hrest : ∀ x ∈ rest, endAct x := fun x hx => he x (List.mem_cons_of_mem h hx)
    have hh := he h List.mem_cons_self
    have c1 := cons_runAct p h (endAct_ne_lock hh) hc
    unfold runHooks
    by_cases hthis : h.act = .close ∧ h.failsafe = true
    · have c2 : (runAct p h s).1.locked = false := by
        unfold runAct
        simp only [hthis.1]
        exact (cons_closeHook hc).2
      generalize runAct p h s = q at c1 c2
      obtain ⟨s1, o⟩ := q
      cases o <;> simp only []
      · exact end_runHooks_unlocked p rest hrest c1 c2
      all_goals exact end_runSafe_unlocked p rest hrest c1 c2
    · have hin : ∃ x ∈ rest, x.act = .close ∧ x.failsafe = true := by
        obtain ⟨x, hx, hx2⟩ := hcl
        rcases List.mem_cons.mp hx with rfl | hx'
        · exact absurd hx2 hthis
        · exact ⟨x, hx', hx2⟩
      generalize runAct p h s = q at c1
      obtain ⟨s1, o⟩ := q
      cases o <;> simp only []
      · exact ih hrest hin c1
      all_goals exact close_runSafe p rest hrest hin c1

/-! ### sorting is a permutation -/

theorem insertByPrio_perm (a : Hook) (l : List Hook) : (insertByPrio a l).Perm (a :: l) := by
  induction l with
  | nil => exact List.Perm.refl _
  | cons y ys ih =>
    simp only [insertByPrio]
    split
    · exact List.Perm.refl _
    · exact (List.Perm.cons y ih).trans (List.Perm.swap a y ys)

theorem sortByPrio_perm (l : List Hook) : (sortByPrio l).Perm l := by
  induction l with
  | nil => exact List.Perm.refl _
  | cons x xs ih => exact (insertByPrio_perm x _).trans (List.Perm.cons x ih)

theorem mem_sort {l : List Hook} {h : Hook} : h ∈ sortByPrio l ↔ h ∈ l :=
  (sortByPrio_perm l).mem_iff


/-! ### the request -/

/-- the user hook lists of a plan contain user hooks only (the tool's hooks are added by `_setup`) -/
def UserOnly (l : List Hook) : Prop := ∀ h ∈ l, h.act = .user

theorem nolock_runPoint (p : Plan) (l : List Hook) (hn : ∀ h ∈ l, h.act ≠ .lock) {s : S} (hc : Cons s) :
    Cons (runPoint p l s).1 :=
  cons_runHooks p _ (fun h hm => hn h (mem_sort.mp hm)) hc

theorem plain_runPoint (p : Plan) (l : List Hook) (hp : ∀ h ∈ l, plain h) (s : S) :
    (runPoint p l s).1.locked = s.locked :=
  plain_runHooks p _ (fun h hm => hp h (mem_sort.mp hm)) s

theorem one_runPoint (p : Plan) (l : List Hook) (hp : ∀ h ∈ l, plain h ∨ h.act = .lock)
    (h1 : l.countP (fun h => h.act == .lock) ≤ 1) {s : S} (hc : Cons s) (hu : s.locked = false) :
    Cons (runPoint p l s).1 := by
  apply one_runHooks p _ (fun h hm => hp h (mem_sort.mp hm)) _ hc hu
  rw [(sortByPrio_perm l).countP_eq]; exact h1

theorem user_plain {l : List Hook} (hu : UserOnly l) : ∀ h ∈ l, plain h := fun h hm => Or.inl (hu h hm)

theorem user_countP {l : List Hook} (hu : UserOnly l) : l.countP (fun h => h.act == .lock) = 0 := by
  apply List.countP_eq_zero.mpr
  intro h hm
  simp [hu h hm]

theorem cons_preHandler (p : Plan) (hb : UserOnly p.brb) (hh : UserOnly p.bh) :
    Cons (preHandler p {}).1 := by
  unfold preHandler
  cases hm : p.mode
  · -- implicit: init at before_request_body, lock at before_handler
    have hp1 : ∀ h ∈ p.brb ++ toolBRB .implicit, plain h := by
      intro h hmem
      rcases List.mem_append.mp hmem with h' | h'
      · exact user_plain hb h h'
      · simp [toolBRB] at h'; subst h'; exact Or.inr rfl
    have c1 := nolock_runPoint p _ (fun h hmem => plain_ne_lock (hp1 h hmem)) cons_init
    have l1 := plain_runPoint p _ hp1 {}
    generalize runPoint p (p.brb ++ toolBRB .implicit) {} = q at c1 l1
    obtain ⟨s1, o⟩ := q
    simp only []
    split
    · exact c1
    · apply one_runPoint p _ _ _ c1 l1
      · intro h hmem
        rcases List.mem_append.mp hmem with h' | h'
        · exact Or.inl (user_plain hh h h')
        · simp [toolBH] at h'; subst h'; exact Or.inr rfl
      · simp [List.countP_append, user_countP hh, toolBH]
  · -- early: init and lock at before_request_body
    have c1 : Cons (runPoint p (p.brb ++ toolBRB .early) {}).1 := by
      apply one_runPoint p _ _ _ cons_init rfl
      · intro h hmem
        rcases List.mem_append.mp hmem with h' | h'
        · exact Or.inl (user_plain hb h h')
        · simp [toolBRB] at h'
          rcases h' with rfl | rfl
          · exact Or.inl (Or.inr rfl)
          · exact Or.inr rfl
      · simp [List.countP_append, user_countP hb, toolBRB]
    generalize runPoint p (p.brb ++ toolBRB .early) {} = q at c1
    obtain ⟨s1, o⟩ := q
    simp only []
    split
    · exact c1
    · apply nolock_runPoint p _ _ c1
      intro h hmem
      rcases List.mem_append.mp hmem with h' | h'
      · simp [hh h h']
      · simp [toolBH] at h'
  · -- explicit: no lock hook at all
    have c1 : Cons (runPoint p (p.brb ++ toolBRB .explicit) {}).1 := by
      apply nolock_runPoint p _ _ cons_init
      intro h hmem
      rcases List.mem_append.mp hmem with h' | h'
      · simp [hb h h']
      · simp [toolBRB] at h'; subst h'; simp
    generalize runPoint p (p.brb ++ toolBRB .explicit) {} = q at c1
    obtain ⟨s1, o⟩ := q
    simp only []
    split
    · exact c1
    · apply nolock_runPoint p _ _ c1
      intro h hmem
      rcases List.mem_append.mp hmem with h' | h'
      · simp [hh h h']
      · simp [toolBH] at h'

theorem bf_nolock (p : Plan) (hf : UserOnly p.bf) : ∀ h ∈ p.bf ++ toolBF, h.act ≠ .lock := by
  intro h hmem
  rcases List.mem_append.mp hmem with h' | h'
  · simp [hf h h']
  · simp [toolBF] at h'; subst h'; simp

theorem cons_doRespond (p : Plan) (hb : UserOnly p.brb) (hh : UserOnly p.bh) (hf : UserOnly p.bf)
    (hw : wellBehavedRun p = true) : Cons (doRespond p {}).1 := by
  unfold doRespond
  unfold wellBehavedRun at hw
  have c1 := cons_preHandler p hb hh
  generalize preHandler p {} = q at c1 hw
  obtain ⟨s1, o⟩ := q
  simp only []
  split
  · exact c1
  · have c2 := cons_runActs p p.acts (cons_obs 'H' c1) hw
    generalize runActs p p.acts (s1.obs 'H') = q2 at c2
    obtain ⟨s2, o2⟩ := q2
    simp only []
    split
    · exact c2
    · split
      · exact c2
      · exact nolock_runPoint p _ (bf_nolock p hf) (s := { s2 with streaming := p.stream, hasGen := p.gen }) c2

theorem cons_respond (p : Plan) (hb : UserOnly p.brb) (hh : UserOnly p.bh) (hf : UserOnly p.bf)
    (hw : wellBehavedRun p = true) : Cons (respond p {}).1 := by
  unfold respond
  have c1 := cons_doRespond p hb hh hf hw
  generalize doRespond p {} = q at c1
  obtain ⟨s1, o⟩ := q
  simp only []
  split
  · exact nolock_runPoint p _ (bf_nolock p hf) (s := { s1 with hasGen := false }) c1
  · exact c1

/-- **C13_released_at_end.**  For every fault plan — locking mode, backend, handler script and
    outcome (success, HTTPError, HTTPRedirect, unexpected exception), plain / generator / streamed
    body that is completed or abandoned or raises, failing storage, id regenerated mid-request,
    and ANY user hooks (any priority, fail-safe mark and outcome) at before_request_body,
    before_handler, before_finalize and on_end_request — once the WSGI iterable has been closed
    the request's `Session.locked` is false and it holds no lock object of any session id. -/
theorem C13_released_at_end (p : Plan) (hb : UserOnly p.brb) (hh : UserOnly p.bh)
    (hf : UserOnly p.bf) (he : UserOnly p.eer) (hw : wellBehavedRun p = true) :
    (runRequest p).locked = false ∧ ∀ k, (runRequest p).held k = 0 := by
  unfold runRequest
  have c1 := cons_respond p hb hh hf hw
  generalize respond p {} = q at c1
  obtain ⟨s1, b⟩ := q
  simp only []
  have c2 : Cons (if (p.stream && b && decide (p.consume = Consume.full)) = true
      then (runGen p (s1.obs 'B')).1 else s1.obs 'B') := by
    split
    · exact cons_runGen p (cons_obs 'B' c1)
    · exact cons_obs 'B' c1
  generalize (if (p.stream && b && decide (p.consume = Consume.full)) = true
      then (runGen p (s1.obs 'B')).1 else s1.obs 'B') = s2 at c2
  have hend : ∀ h ∈ p.eer ++ toolEnd s2, endAct h := by
    intro h hmem
    rcases List.mem_append.mp hmem with h' | h'
    · exact Or.inl (he h h')
    · unfold toolEnd at h'
      rcases List.mem_append.mp h' with h'' | h''
      · simp at h''; subst h''; exact Or.inr (Or.inl rfl)
      · split at h''
        · simp at h''; subst h''; exact Or.inr (Or.inr rfl)
        · cases h''
  have hcl : ∃ h ∈ sortByPrio (p.eer ++ toolEnd s2), h.act = .close ∧ h.failsafe = true :=
    ⟨⟨90, true, .close, .ok⟩, mem_sort.mpr (List.mem_append.mpr (Or.inr (by simp [toolEnd]))), rfl, rfl⟩
  have hend' : ∀ h ∈ sortByPrio (p.eer ++ toolEnd s2), endAct h := fun h hm => hend h (mem_sort.mp hm)
  have hl := close_runHooks p _ hend' hcl c2
  have hc := cons_runHooks p _ (fun h hm => endAct_ne_lock (hend' h hm)) c2
  unfold runPoint
  generalize runHooks p (sortByPrio (p.eer ++ toolEnd s2)) s2 = q3 at hl hc
  obtain ⟨s3, o3⟩ := q3
  simp only []
  refine ⟨hl, ?_⟩
  intro k
  have := hc.1 k
  simp only [S.obs]
  have hl' : s3.locked = false := hl
  simpa [hl'] using this

end CpProofs.C13
