import CpModel.HookAttach
import CpProofs.C09Hooks
/-!
  C09, attachment side: theorems over `CpModel.HookAttach` — where a hook's hook point, priority and
  fail-safe flag come from (`Hook.__init__`, `HookMap.attach`, `Tool._setup` and its overrides,
  `Toolbox.__exit__`, the order of `request.namespaces`), what `sorted` on `Hook.__lt__` gives, and that a
  request's copy of the class-level `HookMap` shares no list with it.
-/
namespace CpProofs.C09
open CpModel CpModel.Pipeline CpModel.HookAttach

/-! ## precedence of the channels -/

/-- The documented precedence: the first candidate that is given (exists and is not `None`), else the default. -/
def pick : List (Option Val) → Val → Val
  | [], d => d
  | none :: r, d => pick r d
  | some v :: r, d => if v.isNone then pick r d else v

/-- `Hook.__init__`: an explicit argument wins over the callable's attribute, which wins over the class default.
    (Hypothesis: an attribute that exists is not `None` — `getattr` would hand the `None` on.) -/
theorem mkHook_precedence (attrs : Cb → Attrs) (cb : Cb) (fs p : Val) (kw : Conf)
    (hp : (attrs cb).prio ≠ some .none) (hf : (attrs cb).failsafe ≠ some .none) :
    (mkHook attrs cb fs p kw).prio = pick [some p, (attrs cb).prio] hookDefaultPrio
    ∧ (mkHook attrs cb fs p kw).failsafe = pick [some fs, (attrs cb).failsafe] hookDefaultFailsafe
    ∧ (mkHook attrs cb fs p kw).cb = cb ∧ (mkHook attrs cb fs p kw).kwargs = kw := by
  refine ⟨?_, ?_, rfl, rfl⟩
  · simp only [mkHook, pick]
    split
    · cases h : (attrs cb).prio with
      | none => simp [pick]
      | some a => cases a <;> simp_all [pick, Val.isNone]
    · rfl
  · simp only [mkHook, pick]
    split
    · cases h : (attrs cb).failsafe with
      | none => simp [pick]
      | some a => cases a <;> simp_all [pick, Val.isNone]
    · rfl

example : (mkHook (fun _ => { prio := some (.int 40) }) (.user 1) .none (.int 0) []).prio = .int 0 := by decide
example : (mkHook (fun _ => { prio := some (.int 40) }) (.user 1) .none .none []).prio = .int 40 := by decide
example : (mkHook (fun _ => {}) (.user 1) (.bool false) .none []).prio = .int 50 := by decide

/-- a value that is given is stored as it is — in particular `0`, `0.0`, `False`, negative numbers -/
theorem mkHook_explicit (attrs : Cb → Attrs) (cb : Cb) (fs p : Val) (kw : Conf) :
    (p.isNone = false → (mkHook attrs cb fs p kw).prio = p)
    ∧ (fs.isNone = false → (mkHook attrs cb fs p kw).failsafe = fs) := by
  constructor <;> intro h <;> simp [mkHook, h]

/-! ### association-list facts -/

theorem get?_del_ne (c : Conf) (k k' : Key) (h : k ≠ k') : (c.del k').get? k = c.get? k := by
  have hp : (fun a : Key × Val => decide (decide (a.1 ≠ k') = true ∧ decide (a.1 = k) = true))
      = (fun x => decide (x.1 = k)) := by
    funext x
    by_cases hx : x.1 = k
    · have hne : x.1 ≠ k' := fun h' => h (hx.symm.trans h')
      simp only [decide_eq_true hne, decide_eq_true hx, and_self, decide_true]
    · simp only [decide_eq_false hx, Bool.false_eq_true, and_false, decide_false]
  unfold Conf.del Conf.get?
  rw [List.find?_filter, hp]

/-- `Tool._setup`: `tools.<t>.priority` in config wins over the callable's `priority` attribute, which wins over
    the priority given to `Tool(...)`. -/
theorem toolPriority_precedence (attrs : Cb → Attrs) (t : Tool) (bucket : Conf)
    (hp : (attrs (.user t.cb)).prio ≠ some .none) :
    toolPriority attrs t (mergedArgs bucket)
      = pick [bucket.get? .priority, (attrs (.user t.cb)).prio] t.prio := by
  have hg : (mergedArgs bucket).get? .priority = bucket.get? .priority :=
    get?_del_ne bucket .priority .on (by decide)
  have hattr : (attrs (.user t.cb)).prio.getD t.prio = pick [(attrs (.user t.cb)).prio] t.prio := by
    cases h2 : (attrs (.user t.cb)).prio with
    | none => simp [pick]
    | some a => cases a <;> simp_all [pick, Val.isNone]
  simp only [toolPriority, hg]
  cases h : bucket.get? .priority with
  | none => simpa [pick, Val.isNone] using hattr
  | some v =>
    cases hv : v.isNone with
    | true => simpa [pick, hv] using hattr
    | false => simp [pick, hv]

/-- the seeded kind of defect, excluded: a configured priority that is falsy (`0`, `0.0`, `False`) is a priority -/
theorem toolPriority_config_wins (attrs : Cb → Attrs) (t : Tool) (bucket : Conf) (v : Val)
    (h : bucket.get? .priority = some v) (hv : v.isNone = false) :
    toolPriority attrs t (mergedArgs bucket) = v := by
  have hg : (mergedArgs bucket).get? .priority = bucket.get? .priority :=
    get?_del_ne bucket .priority .on (by decide)
  simp [toolPriority, hg, h, hv]

example : toolPriority (fun _ => { prio := some (.int 40) }) ⟨1, .plain, .beforeHandler, 1, .int 30⟩
    (mergedArgs [(.on, .bool true), (.priority, .int 0)]) = .int 0 := by decide

/-! ## what one `tool._setup()` contributes -/

theorem pick_getD (x : Option Val) (r : List (Option Val)) (d : Val) :
    pick (some (x.getD .none) :: r) d = pick (x :: r) d := by
  cases x with
  | none => simp [pick, Val.isNone]
  | some v => simp [pick]

theorem pick_nest (a b : Option Val) (c : Val) (r : List (Option Val)) (d : Val) (hb : b ≠ some .none) :
    pick (some (pick [a, b] c) :: b :: r) d = pick (a :: b :: some c :: r) d := by
  cases a with
  | none =>
    cases b with
    | none => simp only [pick]; split <;> simp_all
    | some w =>
      cases hw : w.isNone with
      | true => cases w <;> simp_all [Val.isNone]
      | false => simp [pick, hw]
  | some v =>
    cases hv : v.isNone with
    | false => simp [pick, hv]
    | true =>
      cases b with
      | none => simp [pick, hv]
      | some w =>
        cases hw : w.isNone with
        | true => cases w <;> simp_all [Val.isNone]
        | false => simp [pick, hv, hw]

/-- the keyword arguments the hook's callable is called with: the tool's config entries except `on`,
    `priority` and `failsafe` (the last one binds `attach`'s own parameter) -/
def hookKwargs (bucket : Conf) : Conf := (((bucket.del .on).del .priority).del .failsafe)

theorem failsafe_of_bucket (bucket : Conf) :
    (((mergedArgs bucket).del .priority).get? .failsafe) = bucket.get? .failsafe := by
  unfold mergedArgs
  rw [get?_del_ne _ _ _ (by decide), get?_del_ne _ _ _ (by decide)]

/-- **`Tool._setup`**: exactly one hook, at the tool's hook point, the tool's callable, with the declared
    priority (config entry > attribute of the callable > `Tool(priority=)` > `Hook`'s default) and the declared
    fail-safe flag (config entry > attribute > default). -/
theorem setupTool_plain (attrs : Cb → Attrs) (t : Tool) (bucket : Conf) (hk : t.kind = .plain)
    (hp : (attrs (.user t.cb)).prio ≠ some .none) (hf : (attrs (.user t.cb)).failsafe ≠ some .none) :
    ∃ h, (setupTool attrs t bucket).hooks = [(t.point, h)] ∧ (setupTool attrs t bucket).errorResponse = none
      ∧ h.cb = .user t.cb
      ∧ h.prio = pick [bucket.get? .priority, (attrs (.user t.cb)).prio, some t.prio] hookDefaultPrio
      ∧ h.failsafe = pick [bucket.get? .failsafe, (attrs (.user t.cb)).failsafe] hookDefaultFailsafe
      ∧ h.kwargs = hookKwargs bucket := by
  refine ⟨attachKw attrs (.user t.cb) (toolPriority attrs t (mergedArgs bucket)) ((mergedArgs bucket).del .priority),
    by simp [setupTool, hk], by simp [setupTool, hk], rfl, ?_, ?_, rfl⟩
  · have := (mkHook_precedence attrs (.user t.cb)
      ((((mergedArgs bucket).del .priority).get? .failsafe).getD .none)
      (toolPriority attrs t (mergedArgs bucket)) (((mergedArgs bucket).del .priority).del .failsafe) hp hf).1
    rw [attachKw, this, toolPriority_precedence attrs t bucket hp, pick_nest _ _ _ _ _ hp]
  · have := (mkHook_precedence attrs (.user t.cb)
      ((((mergedArgs bucket).del .priority).get? .failsafe).getD .none)
      (toolPriority attrs t (mergedArgs bucket)) (((mergedArgs bucket).del .priority).del .failsafe) hp hf).2.1
    rw [attachKw, this, pick_getD, failsafe_of_bucket]

/-- **`HandlerTool._setup`**: exactly one hook at the tool's point; the callback is the tool's `_wrapper`, so the
    fallbacks of `Hook.__init__` read the *wrapper's* attributes. -/
theorem setupTool_handler (attrs : Cb → Attrs) (t : Tool) (bucket : Conf) (hk : t.kind = .handler)
    (hp : (attrs (.user t.cb)).prio ≠ some .none)
    (hwp : (attrs (.wrapper t.cb)).prio ≠ some .none) (hwf : (attrs (.wrapper t.cb)).failsafe ≠ some .none) :
    ∃ h, (setupTool attrs t bucket).hooks = [(t.point, h)] ∧ (setupTool attrs t bucket).errorResponse = none
      ∧ h.cb = .wrapper t.cb
      ∧ h.prio = pick [some (pick [bucket.get? .priority, (attrs (.user t.cb)).prio] t.prio),
                       (attrs (.wrapper t.cb)).prio] hookDefaultPrio
      ∧ h.failsafe = pick [bucket.get? .failsafe, (attrs (.wrapper t.cb)).failsafe] hookDefaultFailsafe
      ∧ h.kwargs = hookKwargs bucket := by
  refine ⟨attachKw attrs (.wrapper t.cb) (toolPriority attrs t (mergedArgs bucket)) ((mergedArgs bucket).del .priority),
    by simp [setupTool, hk], by simp [setupTool, hk], rfl, ?_, ?_, rfl⟩
  · have := (mkHook_precedence attrs (.wrapper t.cb)
      ((((mergedArgs bucket).del .priority).get? .failsafe).getD .none)
      (toolPriority attrs t (mergedArgs bucket)) (((mergedArgs bucket).del .priority).del .failsafe) hwp hwf).1
    rw [attachKw, this, toolPriority_precedence attrs t bucket hp]
  · have := (mkHook_precedence attrs (.wrapper t.cb)
      ((((mergedArgs bucket).del .priority).get? .failsafe).getD .none)
      (toolPriority attrs t (mergedArgs bucket)) (((mergedArgs bucket).del .priority).del .failsafe) hwp hwf).2.1
    rw [attachKw, this, pick_getD, failsafe_of_bucket]

/-- **`CachingTool._setup`**: exactly one hook, at `before_handler` whatever the tool's own point, the tool's
    `_wrapper`; priority: config entry > the wrapper's attribute > `Hook`'s default (neither the callable's
    attribute nor `Tool(priority=)` are consulted). -/
theorem setupTool_caching (attrs : Cb → Attrs) (t : Tool) (bucket : Conf) (hk : t.kind = .caching)
    (hwp : (attrs (.wrapper t.cb)).prio ≠ some .none) (hwf : (attrs (.wrapper t.cb)).failsafe ≠ some .none) :
    ∃ h, (setupTool attrs t bucket).hooks = [(.beforeHandler, h)] ∧ (setupTool attrs t bucket).errorResponse = none
      ∧ h.cb = .wrapper t.cb
      ∧ h.prio = pick [bucket.get? .priority, (attrs (.wrapper t.cb)).prio] hookDefaultPrio
      ∧ h.failsafe = pick [bucket.get? .failsafe, (attrs (.wrapper t.cb)).failsafe] hookDefaultFailsafe
      ∧ h.kwargs = hookKwargs bucket := by
  refine ⟨attachKw attrs (.wrapper t.cb) (((mergedArgs bucket).get? .priority).getD .none) ((mergedArgs bucket).del .priority),
    by simp [setupTool, hk], by simp [setupTool, hk], rfl, ?_, ?_, rfl⟩
  · have := (mkHook_precedence attrs (.wrapper t.cb)
      ((((mergedArgs bucket).del .priority).get? .failsafe).getD .none)
      (((mergedArgs bucket).get? .priority).getD .none) (((mergedArgs bucket).del .priority).del .failsafe) hwp hwf).1
    rw [attachKw, this, pick_getD]
    unfold mergedArgs
    rw [get?_del_ne _ _ _ (by decide)]
  · have := (mkHook_precedence attrs (.wrapper t.cb)
      ((((mergedArgs bucket).del .priority).get? .failsafe).getD .none)
      (((mergedArgs bucket).get? .priority).getD .none) (((mergedArgs bucket).del .priority).del .failsafe) hwp hwf).2.1
    rw [attachKw, this, pick_getD, failsafe_of_bucket]

/-- **`ErrorTool._setup`**: no hook at all; `request.error_response` becomes the tool's wrapper. -/
theorem setupTool_error (attrs : Cb → Attrs) (t : Tool) (bucket : Conf) (hk : t.kind = .error) :
    (setupTool attrs t bucket).hooks = [] ∧ (setupTool attrs t bucket).errorResponse = some t.cb := by
  simp [setupTool, hk]

/-- **`SessionTool._setup`**: the tool's own hook first (as `Tool._setup` would attach it, `locking` among its
    keyword arguments), then the lock hook (if any), `sessions.save` at `before_finalize` and `sessions.close` at
    `on_end_request`. -/
theorem setupTool_session (attrs : Cb → Attrs) (t : Tool) (bucket : Conf) (hk : t.kind = .session)
    (hp : (attrs (.user t.cb)).prio ≠ some .none) (hf : (attrs (.user t.cb)).failsafe ≠ some .none) :
    ∃ h lock, (setupTool attrs t bucket).hooks
        = (t.point, h) :: lock ++ [(.beforeFinalize, mkHook attrs .sessionsSave .none .none []),
                                   (.onEndRequest, mkHook attrs .sessionsClose .none .none [])]
      ∧ lock.length ≤ 1 ∧ (∀ x ∈ lock, x.2.cb = .lock t.cb)
      ∧ (setupTool attrs t bucket).errorResponse = none
      ∧ h.cb = .user t.cb
      ∧ h.prio = pick [bucket.get? .priority, (attrs (.user t.cb)).prio, some t.prio] hookDefaultPrio
      ∧ h.failsafe = pick [bucket.get? .failsafe, (attrs (.user t.cb)).failsafe] hookDefaultFailsafe
      ∧ h.kwargs = hookKwargs bucket := by
  refine ⟨attachKw attrs (.user t.cb) (toolPriority attrs t (mergedArgs bucket)) ((mergedArgs bucket).del .priority),
    _, by simp only [setupTool, hk]; rfl, ?_, ?_, by simp [setupTool, hk], rfl, ?_, ?_, rfl⟩
  · split
    · simp
    · split <;> simp
  · intro x hx
    split at hx
    · simp at hx; subst hx; rfl
    · split at hx
      · simp at hx; subst hx; rfl
      · simp at hx
  · have := (mkHook_precedence attrs (.user t.cb)
      ((((mergedArgs bucket).del .priority).get? .failsafe).getD .none)
      (toolPriority attrs t (mergedArgs bucket)) (((mergedArgs bucket).del .priority).del .failsafe) hp hf).1
    rw [attachKw, this, toolPriority_precedence attrs t bucket hp, pick_nest _ _ _ _ _ hp]
  · have := (mkHook_precedence attrs (.user t.cb)
      ((((mergedArgs bucket).del .priority).get? .failsafe).getD .none)
      (toolPriority attrs t (mergedArgs bucket)) (((mergedArgs bucket).del .priority).del .failsafe) hp hf).2.1
    rw [attachKw, this, pick_getD, failsafe_of_bucket]

/-! ## `Toolbox.__exit__`: who contributes -/

/-- `settings.get('on', False)` is truthy -/
def enabled (settings : Conf) : Bool := ((settings.get? .on).getD (.bool false)).truthy

/-- what the toolmap entry `(name, settings)` adds to `request.hooks` -/
def contribution (attrs : Cb → Attrs) (tools : List Tool) (e : Nat × Conf) : List (Point × AHook) :=
  if enabled e.2 then
    match tools.find? (·.name = e.1) with
    | some t => (setupTool attrs t e.2).hooks
    | none => []
  else []

/-- **Exactly the enabled tools contribute, in toolmap order, each what its `_setup` attaches**; a tool that is
    switched off (`on` missing or falsy) contributes nothing. -/
theorem exitToolbox_hooks (attrs : Cb → Attrs) (tools : List Tool) (m : List (Nat × Conf)) (r r' : Req)
    (h : exitToolbox attrs tools m r = some r') :
    r'.hooks = r.hooks ++ m.flatMap (contribution attrs tools) ∧ r'.toolmaps = r.toolmaps := by
  induction m generalizing r with
  | nil => simp [exitToolbox] at h; subst h; simp
  | cons e es ih =>
    obtain ⟨name, settings⟩ := e
    unfold exitToolbox at h
    by_cases hon : ((settings.get? .on).getD (.bool false)).truthy = true
    · simp only [hon, if_true] at h
      cases hf : tools.find? (·.name = name) with
      | none => simp [hf] at h
      | some t =>
        simp only [hf] at h
        obtain ⟨h1, h2⟩ := ih _ h
        refine ⟨?_, h2⟩
        rw [h1]
        simp [contribution, enabled, hon, hf, List.append_assoc]
    · simp only [hon] at h
      obtain ⟨h1, h2⟩ := ih _ h
      refine ⟨?_, h2⟩
      rw [h1]
      simp [contribution, enabled, hon]

theorem contribution_disabled (attrs : Cb → Attrs) (tools : List Tool) (e : Nat × Conf) (h : enabled e.2 = false) :
    contribution attrs tools e = [] := by simp [contribution, h]

/-- an enabled `Tool` / `HandlerTool` / `CachingTool` contributes exactly one hook -/
theorem contribution_one (attrs : Cb → Attrs) (tools : List Tool) (e : Nat × Conf) (t : Tool)
    (hon : enabled e.2 = true) (hf : tools.find? (·.name = e.1) = some t)
    (hk : t.kind = .plain ∨ t.kind = .handler ∨ t.kind = .caching) :
    (contribution attrs tools e).length = 1 := by
  simp only [contribution, hon, if_true, hf]
  rcases hk with hk | hk | hk <;> simp [setupTool, hk]

/-- `populate` keeps the tool names of a toolmap distinct: one bucket, hence at most one contribution, per tool -/
theorem populate_names (m : List (Nat × Conf)) (name : Nat) (arg : Key) (v : Val) :
    (populate m name arg v).map (·.1) = if m.any (·.1 = name) then m.map (·.1) else m.map (·.1) ++ [name] := by
  unfold populate
  split
  · have : ∀ l : List (Nat × Conf), (l.map (fun e => if e.1 = name then (name, e.2.set arg v) else e)).map (·.1) = l.map (·.1) := by
      intro l
      induction l with
      | nil => rfl
      | cons x xs ih =>
        simp only [List.map] at ih ⊢
        rw [ih]
        by_cases hx : x.1 = name <;> simp [hx]
    exact this m
  · simp

theorem populate_nodup (m : List (Nat × Conf)) (name : Nat) (arg : Key) (v : Val) (h : (m.map (·.1)).Nodup) :
    ((populate m name arg v).map (·.1)).Nodup := by
  rw [populate_names]
  split
  · exact h
  · rename_i hn
    rw [List.nodup_append]
    refine ⟨h, by simp, ?_⟩
    intro a ha b hb
    simp at hb
    subst hb
    intro hab
    subst hab
    apply hn
    simp only [List.any_eq_true, decide_eq_true_eq]
    obtain ⟨x, hx, hx2⟩ := List.mem_map.mp ha
    exact ⟨x, hx, hx2⟩

theorem toolmapOf_nodup (box : Nat) (entries : List Entry) : ((toolmapOf box entries).map (·.1)).Nodup := by
  unfold toolmapOf
  have : ∀ (es : List Entry) (m : List (Nat × Conf)), (m.map (·.1)).Nodup →
      ((es.foldl (fun m e => match e with
        | .tool b name arg v => if b = box then populate m name arg v else m
        | _ => m) m).map (·.1)).Nodup := by
    intro es
    induction es with
    | nil => intro m hm; exact hm
    | cons e es ih =>
      intro m hm
      simp only [List.foldl]
      apply ih
      cases e with
      | tool b name arg v =>
        simp only
        split
        · exact populate_nodup m name arg v hm
        · exact hm
      | _ => exact hm
  exact this entries [] (by simp)

/-! ## `self.namespaces(self.config)`: the attachment order -/

/-- the hooks one namespace handler attaches -/
def nsHooks (env : Env) (config : List Entry) : Ns → List (Point × AHook)
  | .hooks => (config.filter (·.ns = .hooks)).filterMap (hookOfEntry env.attrs)
  | .toolbox b => (toolmapOf b (config.filter (·.ns = .toolbox b))).flatMap (contribution env.attrs (env.toolboxes b))
  | _ => []

theorem foldl_errorResponse_hooks (l : List Entry) (r : Req) :
    (l.foldl setErrorResponse r).hooks = r.hooks := by
  induction l generalizing r with
  | nil => rfl
  | cons e es ih =>
    simp only [List.foldl]
    rw [ih]
    cases e <;> rfl

theorem runNamespace_hooks (env : Env) (config : List Entry) (ns : Ns) (r r' : Req)
    (h : runNamespace env config ns r = some r') : r'.hooks = r.hooks ++ nsHooks env config ns := by
  cases ns with
  | hooks => simp [runNamespace] at h; subst h; simp [nsHooks]
  | request => simp [runNamespace] at h; subst h; simp [nsHooks, foldl_errorResponse_hooks]
  | toolbox b =>
    simp only [runNamespace] at h
    have := (exitToolbox_hooks _ _ _ _ _ h).1
    simpa [nsHooks] using this
  | other => simp [runNamespace] at h; subst h; simp [nsHooks]

theorem runNamespaces_hooks (env : Env) (config : List Entry) (l : List Ns) (r r' : Req)
    (h : runNamespaces env config l r = some r') : r'.hooks = r.hooks ++ l.flatMap (nsHooks env config) := by
  induction l generalizing r with
  | nil => simp [runNamespaces] at h; subst h; simp
  | cons ns rest ih =>
    unfold runNamespaces at h
    cases h1 : runNamespace env config ns r with
    | none => simp [h1] at h
    | some r1 =>
      simp only [h1] at h
      rw [ih r1 h, runNamespace_hooks env config ns r r1 h1]
      simp [List.append_assoc]

/-- **The request's hook list** = the class-level hooks (copied), then what each namespace handler attaches, in
    the order of `request.namespaces`. -/
theorem attachAll_hooks (env : Env) (cls : List (Point × AHook)) (config : List Entry) (r : Req)
    (h : attachAll env cls config = some r) :
    r.hooks = cls ++ env.nsOrder.flatMap (nsHooks env config) :=
  runNamespaces_hooks env config env.nsOrder _ r h

/-- the namespace of a name of `Request.namespaces` (`tools` is toolbox 0) -/
def nsOfName (s : String) : Ns :=
  if s = "hooks" then .hooks else if s = "request" then .request else if s = "tools" then .toolbox 0 else .other

/-- In the live `Request.namespaces` (generated table) the `hooks` namespace comes first and only once. -/
theorem requestNamespaces_hooks_first :
    ∃ rest, Gen.C09.requestNamespaces.map nsOfName = .hooks :: rest ∧ Ns.hooks ∉ rest := by
  refine ⟨(Gen.C09.requestNamespaces.map nsOfName).tail, by decide, by decide⟩

/-- **`hooks.*` config entries and tools**: with the namespace order of the live class — `hooks` first, whatever
    toolboxes and other namespaces an application appends — every hook of a `hooks.<point>` config entry is
    attached after the class-level hooks and *before* every hook attached by a tool.  (Ties between a config hook
    and a tool hook therefore go to the config hook.) -/
theorem attachAll_hooks_then_tools (env : Env) (cls : List (Point × AHook)) (config : List Entry) (r : Req)
    (extra : List Ns) (hx : Ns.hooks ∉ extra)
    (hns : env.nsOrder = Gen.C09.requestNamespaces.map nsOfName ++ extra)
    (h : attachAll env cls config = some r) :
    ∃ tools, r.hooks = cls ++ nsHooks env config .hooks ++ tools
      ∧ ∀ x ∈ tools, ∃ b, x ∈ (toolmapOf b (config.filter (·.ns = .toolbox b))).flatMap
                                  (contribution env.attrs (env.toolboxes b)) := by
  obtain ⟨rest, h1, h2⟩ := requestNamespaces_hooks_first
  refine ⟨(rest ++ extra).flatMap (nsHooks env config), ?_, ?_⟩
  · rw [attachAll_hooks env cls config r h, hns, h1]
    simp [List.append_assoc]
  · intro x hx'
    obtain ⟨ns, hns', hmem⟩ := List.mem_flatMap.mp hx'
    cases ns with
    | hooks => rcases List.mem_append.mp hns' with h3 | h3 <;> contradiction
    | toolbox b => exact ⟨b, hmem⟩
    | request => simp [nsHooks] at hmem
    | other => simp [nsHooks] at hmem

example : (attachAll { attrs := fun _ => {}, toolboxes := fun _ => [⟨1, .plain, .beforeHandler, 7, .int 50⟩],
                       nsOrder := [.hooks, .request, .other, .other, .toolbox 0] } []
            [.tool 0 1 .on (.bool true), .hook .beforeHandler (.callable 9)]).map (·.hooks.map (·.2.cb))
    = some [.user 9, .user 7] := by decide

/-! ## the default toolbox `cherrypy.tools` (generated table `Gen.C09.defaultTools`) -/

abbrev Row := String × Nat × Nat × (Nat × Int) × Option (Nat × Int) × Option (Nat × Int)

def Row.kind (r : Row) : Kind :=
  match r.2.1 with | 1 => .handler | 2 => .error | 3 => .caching | 4 => .session | _ => .plain

def Row.point (r : Row) : Point :=
  match r.2.2.1 with
  | 0 => .onStartResource | 1 => .beforeRequestBody | 2 => .beforeHandler | 3 => .beforeFinalize
  | 4 => .onEndResource | 5 => .onEndRequest | 6 => .beforeErrorResponse | _ => .afterErrorResponse

def Row.attrs (r : Row) : Attrs := { prio := r.2.2.2.2.1.map valOfCode, failsafe := r.2.2.2.2.2.map valOfCode }

/-- the `i`-th default tool as a `Tool` of the model (name and callable identified with its row number) -/
def Row.tool (i : Nat) (r : Row) : Tool :=
  { name := i, kind := r.kind, point := r.point, cb := i, prio := valOfCode r.2.2.2.1 }

def codeAttrs (a : Option (Nat × Int) × Option (Nat × Int)) : Attrs :=
  { prio := a.1.map valOfCode, failsafe := a.2.map valOfCode }

/-- attributes of the callables of the default toolbox -/
def defaultAttrs : Cb → Attrs
  | .user i => match Gen.C09.defaultTools[i]? with | some r => Row.attrs r | none => {}
  | .wrapper i => match Gen.C09.defaultTools[i]? with
    | some r => if r.2.1 = 3 then codeAttrs Gen.C09.cachingWrapperAttrs else {}
    | none => {}
  | .lock _ => {}
  | .sessionsSave => codeAttrs Gen.C09.sessionsSaveAttrs
  | .sessionsClose => codeAttrs Gen.C09.sessionsCloseAttrs

def notNoneCode : Option (Nat × Int) → Bool
  | some (0, _) => false
  | _ => true

/-- a row the model covers: one of the five `_setup` behaviours, a real hook point unless it is an ErrorTool, the
    `priority` / `failsafe` attributes of its callable (if any) not `None`, and its priority a number (so that
    `sorted` cannot raise on default tools with default settings) -/
def Row.ok (r : Row) : Bool :=
  decide (r.2.1 ≤ 4) && (decide (r.2.1 = 2) || decide (r.2.2.1 < 8)) && notNoneCode r.2.2.2.2.1 && notNoneCode r.2.2.2.2.2
  && (valOfCode r.2.2.2.1).num?.isSome

/-- **Every default tool** is covered by the model, has a distinct name and a numeric priority. -/
theorem defaultTools_ok : Gen.C09.defaultTools.all Row.ok = true ∧ (Gen.C09.defaultTools.map (·.1)).Nodup := by
  constructor <;> decide

theorem valOfCode_attr_ne_none (c : Option (Nat × Int)) (h : notNoneCode c = true) : c.map valOfCode ≠ some .none := by
  match c with
  | none => simp
  | some (0, _) => simp [notNoneCode] at h
  | some (1, _) => simp [valOfCode]
  | some (2, _) => simp [valOfCode]
  | some (n + 3, _) => simp [valOfCode]

theorem row_ok_of_get (i : Nat) (r : Row) (h : Gen.C09.defaultTools[i]? = some r) : r.ok = true := by
  have := List.all_eq_true.mp defaultTools_ok.1 r (List.mem_of_getElem? h)
  exact this

/-- **Declared priority / fail-safe flag of every plain default tool** (`Tool._setup`: allow, proxy, etags,
    encode, gzip, …): switched on, it contributes exactly one hook at its table point whose priority is
    `tools.<name>.priority` if configured (also `0`), else the callable's attribute, else the table priority;
    fail-safe: `tools.<name>.failsafe` if configured, else the callable's attribute (`response_headers`), else not. -/
theorem default_plain_tool (i : Nat) (r : Row) (hr : Gen.C09.defaultTools[i]? = some r) (hk : r.2.1 = 0)
    (bucket : Conf) :
    ∃ h, (setupTool defaultAttrs (r.tool i) bucket).hooks = [(r.point, h)]
      ∧ h.cb = .user i
      ∧ h.prio = pick [bucket.get? .priority, r.attrs.prio, some (valOfCode r.2.2.2.1)] hookDefaultPrio
      ∧ h.failsafe = pick [bucket.get? .failsafe, r.attrs.failsafe] hookDefaultFailsafe := by
  have hok := row_ok_of_get i r hr
  simp only [Row.ok, Bool.and_eq_true] at hok
  obtain ⟨⟨⟨⟨_, _⟩, h3⟩, h4⟩, _⟩ := hok
  have hattr : defaultAttrs (.user i) = r.attrs := by simp [defaultAttrs, hr]
  have hkind : (r.tool i).kind = .plain := by simp [Row.tool, Row.kind, hk]
  obtain ⟨h, e1, _, e3, e4, e5, _⟩ := setupTool_plain defaultAttrs (r.tool i) bucket hkind
    (by rw [show (r.tool i).cb = i from rfl, hattr]; exact valOfCode_attr_ne_none _ h3)
    (by rw [show (r.tool i).cb = i from rfl, hattr]; exact valOfCode_attr_ne_none _ h4)
  refine ⟨h, e1, e3, ?_, ?_⟩
  · rw [e4, show (r.tool i).cb = i from rfl, hattr]; rfl
  · rw [e5, show (r.tool i).cb = i from rfl, hattr]

/-- non-vacuity: the table has plain tools, e.g. row 0 -/
example : ∃ r, Gen.C09.defaultTools[0]? = some r ∧ r.2.1 = 0 := ⟨_, rfl, by decide⟩

/-- the documented default order at `before_handler` / `before_finalize` ("the order of encoding, gzip, caching is
    important"): with default settings every default tool's hook has a numeric priority, so `sorted` never raises -/
theorem default_priorities_numeric :
    Gen.C09.defaultTools.all (fun r => (valOfCode r.2.2.2.1).num?.isSome) = true := by decide

/-- **How many hooks a default tool contributes when switched on**, by its (behaviourally measured) kind: `Tool`,
    `HandlerTool`, `CachingTool` exactly one; `ErrorTool` none (it replaces `request.error_response`);
    `SessionTool` its own hook plus `save`, `close` and at most one lock hook. -/
theorem default_tool_hook_count (i : Nat) (r : Row) (bucket : Conf) :
    let n := (setupTool defaultAttrs (r.tool i) bucket).hooks.length
    (r.kind = .plain ∨ r.kind = .handler ∨ r.kind = .caching → n = 1)
    ∧ (r.kind = .error → n = 0 ∧ (setupTool defaultAttrs (r.tool i) bucket).errorResponse = some i)
    ∧ (r.kind = .session → 3 ≤ n ∧ n ≤ 4) := by
  have hk : (r.tool i).kind = r.kind := rfl
  refine ⟨?_, ?_, ?_⟩
  · rintro (h | h | h) <;> simp [setupTool, hk, h]
  · intro h; simp [setupTool, h, Row.tool]
  · intro h
    simp only [setupTool, hk, h]
    split
    · simp
    · split <;> simp

/-! ## `request.error_response`: config entry against `ErrorTool` -/

/-- what the toolmap entry does to `request.error_response` -/
def erStep (attrs : Cb → Attrs) (tools : List Tool) (acc : Option Nat) (e : Nat × Conf) : Option Nat :=
  if enabled e.2 then
    match tools.find? (·.name = e.1) with
    | some t => match (setupTool attrs t e.2).errorResponse with | some c => some c | none => acc
    | none => acc
  else acc

/-- **`request.error_response` after a toolbox**: the wrapper of the *last* enabled ErrorTool of the toolmap, else what
    it was before (the `request.error_response` config entry — the `request` namespace is processed before every
    toolbox — or the default).  The hook points of `handle_error` (`before_error_response`, `after_error_response`)
    are visited whichever callable is in place (`C09_documented_order`). -/
theorem exitToolbox_errorResponse (attrs : Cb → Attrs) (tools : List Tool) (m : List (Nat × Conf)) (r r' : Req)
    (h : exitToolbox attrs tools m r = some r') :
    r'.errorResponse = m.foldl (erStep attrs tools) r.errorResponse := by
  induction m generalizing r with
  | nil => simp [exitToolbox] at h; subst h; rfl
  | cons e es ih =>
    obtain ⟨name, settings⟩ := e
    unfold exitToolbox at h
    by_cases hon : ((settings.get? .on).getD (.bool false)).truthy = true
    · simp only [hon, if_true] at h
      cases hf : tools.find? (·.name = name) with
      | none => simp [hf] at h
      | some t =>
        simp only [hf] at h
        rw [ih _ h]
        simp only [List.foldl, erStep, enabled, hon, if_true, hf]
        cases (setupTool attrs t settings).errorResponse <;> rfl
    · simp only [hon] at h
      rw [ih _ h]
      simp [List.foldl, erStep, enabled, hon]

example : (attachAll { attrs := fun _ => {}, toolboxes := fun _ => [⟨1, .error, .beforeHandler, 7, .int 50⟩],
                       nsOrder := [.hooks, .request, .other, .other, .toolbox 0] } []
            [.tool 0 1 .on (.bool true), .errorResponse 3]).map (·.errorResponse) = some (some 7) := by decide

end CpProofs.C09
