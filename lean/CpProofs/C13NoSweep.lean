import CpProofs.C13Inv
/-!
  C13 — invariant for schedules WITHOUT sweeper steps, for both `acquire_lock` variants
  (in particular the unrepaired one).
-/
namespace CpProofs.C13
open CpModel.SessionLock

/-- program points after `setdefault` returned and before the thread finished -/
def afterSetdef (p : Pc) : Bool :=
  match p with
  | .acq | .chk | .rel0 | .load | .write | .save | .lookup | .rel => true
  | _ => false

/-- Invariant for schedules WITHOUT sweeper steps (both protocol variants): the table entry never
    changes once it exists, so everybody works on the same lock object. -/
structure InvNS (s : St) : Prop where
  k1 : ∀ i, afterSetdef (s.thr i).pc = true → s.table = some (s.thr i).my
  k2 : ∀ i, holds (s.thr i).pc = true → (s.heap (s.thr i).my).owner = some (.req i)
  k3 : ∀ i, (s.thr i).pc = .rel → (s.thr i).r = (s.thr i).my

theorem holds_afterSetdef (p : Pc) (h : holds p = true) : afterSetdef p = true := by
  cases p <;> simp_all [holds, afterSetdef]

macro "ns_close" : tactic =>
  `(tactic| (refine ⟨?_, ?_, ?_⟩ <;>
      simp only [setThr_thr, setThr_heap, setLock_heap, setThr_table, setLock_table, setLock_thr] <;>
      grind [afterSetdef, inCS, holds, inCS_holds, holds_afterSetdef]))

theorem invNS_stepReq (v : Variant) (s : St) (i : Nat) (h : InvNS s) : InvNS (stepReq v s i) := by
  obtain ⟨k1, k2, k3⟩ := h
  unfold stepReq
  cases hpc : (s.thr i).pc <;> simp only [hpc]
  case init => ns_close
  case setdef => split <;> ns_close
  case acq =>
    cases htry : tryAcquire s (s.thr i).my (.req i) with
    | none => exact ⟨k1, k2, k3⟩
    | some s' =>
      simp only []
      rcases tryAcquire_some htry with ⟨ho, rfl⟩ | ⟨ho, rfl⟩ <;> cases v <;> ns_close
  case chk => ns_close
  case rel0 =>
    cases hrel : release s (s.thr i).my (.req i) with
    | none => simp only []; ns_close
    | some s' =>
      simp only []
      obtain ⟨ho, rfl⟩ := release_some hrel
      ns_close
  case load => split <;> (try split) <;> ns_close
  case write => ns_close
  case save => ns_close
  case lookup => split <;> ns_close
  case rel =>
    cases hrel : release s (s.thr i).r (.req i) with
    | none => simp only []; ns_close
    | some s' =>
      simp only []
      obtain ⟨ho, rfl⟩ := release_some hrel
      have := k3 i hpc
      ns_close
  all_goals exact ⟨k1, k2, k3⟩


theorem invNS_init (c : Option (Nat × Nat)) (tbl : Bool) (now : Nat) : InvNS (init c tbl now) := by
  refine ⟨?_, ?_, ?_⟩ <;> simp [init, holds, afterSetdef]

/-- schedules that contain no sweeper step -/
def NoSweep (sched : List Actor) : Prop := ∀ a ∈ sched, a ≠ Actor.sweep

theorem invNS_run (v : Variant) (s : St) (sched : List Actor) (hs : NoSweep sched) (h : InvNS s) :
    InvNS (run v s sched) := by
  induction sched generalizing s with
  | nil => exact h
  | cons a rest ih =>
    have hrest : NoSweep rest := fun b hb => hs b (List.mem_cons_of_mem a hb)
    have ha : a ≠ Actor.sweep := hs a List.mem_cons_self
    apply ih _ hrest
    cases a with
    | req i => exact invNS_stepReq v s i h
    | sweep => exact absurd rfl ha
    | tick d => exact ⟨h.k1, h.k2, h.k3⟩

end CpProofs.C13
