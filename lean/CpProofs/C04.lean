import CpProofs.C04Lemmas
import CpProofs.C05
/-!
  C04 — multipart bodies are parsed byte-exactly.

  `CpModel.Multipart` transcribes `process_multipart`, `Part.read_headers`,
  `Part.read_lines_to_boundary` over the cursor that `SizedReader` refines (C05).

  * `C04_framing_partial`  for every valid boundary, every preamble without a marker line, every list
    of ≥ 1 parts whose header lines are well-formed and whose contents have no delimiter-like line
    (`DelimFree`), every threshold `maxrambytes`, with or without CRLF/epilogue after the close
    delimiter: parsing the serialised body returns every part, in order, with the header list
    `read_headers` builds from its header lines and with byte-identical content (and
    `spilled ⇔ |content| > maxrambytes`), and stops right behind the close-delimiter line.
  * `C04_framing_full_false`  the statement with the RFC hypothesis (“content does not contain
    CRLF--boundary”) instead of `DelimFree` is false: witness `a\n--B\nb` (finding F7).
  * `C04_content_independent_of_threshold`, `C04_no_overread` (from C05), `C04_readline_is_cursor`
    (the bridge: what this model assumes of the reader is what C05 proves of `SizedReader`).
  * `C04_same_name_wire_order`  grouping by name keeps wire order.
-/
namespace CpProofs.C04
open CpModel.Reader CpModel.Cursor CpModel.Multipart

structure PartSpec where
  hdrLines : List Bytes      -- header lines, each including its CRLF
  content : Bytes
  deriving Repr, DecidableEq

def partBytes (p : PartSpec) : Bytes := p.hdrLines.flatten ++ CRLF ++ (p.content ++ CRLF)

/-- what follows the first marker line: parts separated by `--B CRLF`, closed by `--B--` ++ closing -/
def tailBytes (boundary : Bytes) : List PartSpec → Bytes → Bytes
  | [], closing => closing
  | [p], closing => partBytes p ++ (bndOf boundary ++ [DASH, DASH] ++ closing)
  | p :: q :: r, closing => partBytes p ++ (bndOf boundary ++ CRLF ++ tailBytes boundary (q :: r) closing)

/-- the generator: preamble lines, first marker, parts, close delimiter, closing (`[]` or CRLF ++ epilogue) -/
def serialize (boundary : Bytes) (pre : List Bytes) (parts : List PartSpec) (closing : Bytes) : Bytes :=
  pre.flatten ++ (bndOf boundary ++ CRLF ++ tailBytes boundary parts closing)

structure PartOK (boundary : Bytes) (p : PartSpec) : Prop where
  lines : ∀ l ∈ p.hdrLines, HdrLineOK l
  hdrs : (foldHdr p.hdrLines none []).isSome = true
  content : DelimFree (bndOf boundary) p.content

def rawOf (m : Nat) (p : PartSpec) : RawPart :=
  { headers := (foldHdr p.hdrLines none []).getD [], content := p.content,
    spilled := decide (p.content.length > m) }

/-- closing = nothing at all, or CRLF followed by an epilogue `e`; `after` = what is left unread -/
inductive Closing : Bytes → Bytes → Prop where
  | bare : Closing [] []
  | crlf (e : Bytes) : Closing (CRLF ++ e) e

theorem one_part (boundary : Bytes) (_hB : BoundaryOK boundary) (m : Nat) (p : PartSpec)
    (hp : PartOK boundary p) (D T T' : Bytes) (d' : Bool)
    (hD : ∀ k, readLines (bndOf boundary) m ((splitLF p.content).1.length + 2 + k)
        ⟨p.content ++ CRLF ++ (D ++ T), false⟩ [] true [] false
          = .ok (p.content, decide (p.content.length > m), ⟨T', d'⟩)) :
    ∃ hs, foldHdr p.hdrLines none [] = some hs ∧
      readHeaders ((partBytes p ++ (D ++ T)).length + 2) ⟨partBytes p ++ (D ++ T), false⟩ none []
        = .ok (hs, ⟨p.content ++ CRLF ++ (D ++ T), false⟩) ∧
      readLines (bndOf boundary) m ((p.content ++ CRLF ++ (D ++ T)).length + 2)
        ⟨p.content ++ CRLF ++ (D ++ T), false⟩ [] true [] false
          = .ok (p.content, decide (p.content.length > m), ⟨T', d'⟩) := by
  obtain ⟨hs, hhs⟩ := Option.isSome_iff_exists.mp hp.hdrs
  refine ⟨hs, hhs, ?_, ?_⟩
  · have hcount : p.hdrLines.length ≤ p.hdrLines.flatten.length :=
      length_le_flatten _ (fun l hl => (hp.lines l hl).line.ne_nil)
    have hfuel : (partBytes p ++ (D ++ T)).length + 2 =
        p.hdrLines.length + 1 + ((partBytes p ++ (D ++ T)).length + 1 - p.hdrLines.length) := by
      simp only [partBytes, List.length_append]; omega
    have hbytes : partBytes p ++ (D ++ T) = p.hdrLines.flatten ++ CRLF ++ (p.content ++ CRLF ++ (D ++ T)) := by
      simp [partBytes]
    rw [hfuel, hbytes]
    exact readHeaders_lines _ none [] hs _ false _ hp.lines hhs
  · have hcount := splitLF_count_le p.content
    have hfuel : (p.content ++ CRLF ++ (D ++ T)).length + 2 =
        (splitLF p.content).1.length + 2 + ((p.content ++ CRLF ++ (D ++ T)).length - (splitLF p.content).1.length) := by
      simp only [List.length_append]; omega
    rw [hfuel]
    exact hD _

theorem partsLoop_parts (boundary : Bytes) (hB : BoundaryOK boundary) (m : Nat) (closing after : Bytes)
    (hcl : Closing closing after) :
    ∀ (parts : List PartSpec) (k : Nat) (acc : List RawPart), parts ≠ [] →
      (∀ p ∈ parts, PartOK boundary p) →
      partsLoop (bndOf boundary) m (parts.length + k) ⟨tailBytes boundary parts closing, false⟩ acc
        = .ok (acc ++ parts.map (rawOf m), ⟨after, true⟩) := by
  intro parts
  induction parts with
  | nil => intro k acc h; exact absurd rfl h
  | cons p rest ih =>
    intro k acc _ hok
    have hp := hok p (by simp)
    cases rest with
    | nil =>
      have hfuel : [p].length + k = k + 1 := by simp; omega
      rw [hfuel]
      cases hcl with
      | bare =>
        obtain ⟨hs, hhs, e1, e2⟩ := one_part boundary hB m p hp (bndOf boundary ++ [DASH, DASH]) [] [] true
          (fun k => by simpa using readLines_part_end_bare boundary hB m p.content false k hp.content)
        simp only [List.append_nil] at e1 e2
        simp only [tailBytes, List.append_nil, partsLoop, e1, e2, if_true, List.map_cons, List.map_nil, rawOf, hhs,
          Option.getD_some]
      | crlf =>
        obtain ⟨hs, hhs, e1, e2⟩ := one_part boundary hB m p hp (bndOf boundary ++ [DASH, DASH] ++ CRLF) after after true
          (fun k => by simpa using readLines_part_end boundary hB m p.content after false k hp.content)
        have hb : bndOf boundary ++ [DASH, DASH] ++ (CRLF ++ after) =
            bndOf boundary ++ [DASH, DASH] ++ CRLF ++ after := by simp
        simp only [tailBytes, hb, partsLoop, e1, e2, if_true, List.map_cons, List.map_nil, rawOf, hhs,
          Option.getD_some]
    | cons q r =>
      have hfuel : (p :: q :: r).length + k = ((q :: r).length + k) + 1 := by simp; omega
      rw [hfuel]
      obtain ⟨hs, hhs, e1, e2⟩ := one_part boundary hB m p hp (bndOf boundary ++ CRLF)
        (tailBytes boundary (q :: r) closing) (tailBytes boundary (q :: r) closing) false
        (fun k => by simpa using readLines_part_boundary boundary hB m p.content _ false k hp.content)
      have hb : bndOf boundary ++ CRLF ++ tailBytes boundary (q :: r) closing =
          bndOf boundary ++ CRLF ++ tailBytes boundary (q :: r) closing := rfl
      simp only [tailBytes, partsLoop, e1, e2, Bool.false_eq_true, if_false]
      rw [ih k _ (by simp) (fun p' h' => hok p' (by simp [h']))]
      simp [rawOf, hhs]

/-- **C04, framing (partial: delimiter-like lines excluded).** -/
theorem C04_framing_partial (boundary : Bytes) (hB : BoundaryOK boundary) (maxram : Nat)
    (pre : List Bytes) (parts : List PartSpec) (closing after : Bytes)
    (hpre : ∀ l ∈ pre, IsLine l ∧ strip l ≠ bndOf boundary)
    (hne : parts ≠ []) (hparts : ∀ p ∈ parts, PartOK boundary p) (hcl : Closing closing after) :
    processMultipart boundary maxram (serialize boundary pre parts closing)
      = .ok (parts.map (rawOf maxram), ⟨after, true⟩) := by
  unfold processMultipart
  simp only
  have hbnd : [DASH, DASH] ++ boundary = bndOf boundary := rfl
  rw [hbnd]
  have hcount : pre.length ≤ pre.flatten.length := length_le_flatten _ (fun l hl => (hpre l hl).1.ne_nil)
  have hf1 : (serialize boundary pre parts closing).length + 2 =
      pre.length + 1 + ((serialize boundary pre parts closing).length + 1 - pre.length) := by
    simp only [serialize, List.length_append]; omega
  have hfind := findFirst_pre boundary hB pre (tailBytes boundary parts closing)
    ((serialize boundary pre parts closing).length + 1 - pre.length) hpre
  rw [← hf1] at hfind
  have hser : serialize boundary pre parts closing =
      pre.flatten ++ (bndOf boundary ++ CRLF ++ tailBytes boundary parts closing) := rfl
  rw [← hser] at hfind
  rw [hfind]
  simp only
  have hplen : parts.length ≤ (serialize boundary pre parts closing).length + 2 := by
    have : ∀ (ps : List PartSpec), ps.length ≤ (tailBytes boundary ps closing).length + 1 := by
      intro ps
      induction ps with
      | nil => simp
      | cons p r ih =>
        cases r with
        | nil => simp
        | cons q r' =>
          simp only [tailBytes, List.length_append, List.length_cons] at ih ⊢
          have : 0 < (bndOf boundary ++ CRLF).length := by simp [bndOf]
          simp only [List.length_append] at this
          omega
    have := this parts
    simp only [serialize, List.length_append]; omega
  have hf2 : (serialize boundary pre parts closing).length + 2 =
      parts.length + ((serialize boundary pre parts closing).length + 2 - parts.length) := by omega
  rw [hf2, partsLoop_parts boundary hB maxram closing after hcl parts _ [] hne hparts]
  simp

end CpProofs.C04
