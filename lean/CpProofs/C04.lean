import CpProofs.C04Lemmas
import CpProofs.C04Names
import CpProofs.C05
/-!
  C04 — multipart bodies are parsed byte-exactly.

  `CpModel.Multipart` transcribes `process_multipart`, `Part.read_headers`,
  `Part.read_lines_to_boundary` over the cursor that `SizedReader` refines (C05).

  * `C04_framing_partial`  for every valid boundary, every preamble without a marker line, every list
    of ≥ 1 parts whose header lines are well-formed and whose contents have no delimiter-like line
    (`DelimFree`), every threshold `maxrambytes`, with or without CRLF/epilogue after the close
    delimiter: parsing the serialised body returns every part, in order, with the header list
    `read_headers` builds from its header lines and with byte-identical content (and
    `spilled ⇔ |content| > maxrambytes`), and stops right behind the close-delimiter line.
  * `C04_framing_full_false`  the statement with the RFC hypothesis (“content does not contain
    CRLF--boundary”) instead of `DelimFree` is false: witness `a\n--B\nb` (finding F7).
  * `C04_content_independent_of_threshold`, `C04_no_overread` (from C05), `C04_readline_is_cursor`
    (the bridge: what this model assumes of the reader is what C05 proves of `SizedReader`).
  * `C04_same_name_wire_order`  grouping by name keeps wire order; `C04_zero_parts`;
    `C04_names_field`, `C04_names_file` (in `C04Names.lean`): name / filename / content type extraction.
-/
namespace CpProofs.C04
open CpModel.Reader CpModel.Cursor CpModel.Multipart

structure PartSpec where
  hdrLines : List Bytes      -- header lines, each including its CRLF
  content : Bytes
  deriving Repr, DecidableEq

def partBytes (p : PartSpec) : Bytes := p.hdrLines.flatten ++ CRLF ++ (p.content ++ CRLF)

/-- what follows the first marker line: parts separated by `--B CRLF`, closed by `--B--` ++ closing -/
def tailBytes (boundary : Bytes) : List PartSpec → Bytes → Bytes
  | [], closing => closing
  | [p], closing => partBytes p ++ (bndOf boundary ++ [DASH, DASH] ++ closing)
  | p :: q :: r, closing => partBytes p ++ (bndOf boundary ++ CRLF ++ tailBytes boundary (q :: r) closing)

/-- the generator: preamble lines, first marker, parts, close delimiter, closing (`[]` or CRLF ++ epilogue) -/
def serialize (boundary : Bytes) (pre : List Bytes) (parts : List PartSpec) (closing : Bytes) : Bytes :=
  pre.flatten ++ (bndOf boundary ++ CRLF ++ tailBytes boundary parts closing)

structure PartOK (boundary : Bytes) (p : PartSpec) : Prop where
  lines : ∀ l ∈ p.hdrLines, HdrLineOK l
  hdrs : (foldHdr p.hdrLines none []).isSome = true
  content : DelimFree (bndOf boundary) p.content

def rawOf (m : Nat) (p : PartSpec) : RawPart :=
  { headers := (foldHdr p.hdrLines none []).getD [], content := p.content,
    spilled := decide (p.content.length > m) }

/-- closing = nothing at all, or CRLF followed by an epilogue `e`; `after` = what is left unread -/
inductive Closing : Bytes → Bytes → Prop where
  | bare : Closing [] []
  | crlf (e : Bytes) : Closing (CRLF ++ e) e

theorem one_part (boundary : Bytes) (_hB : BoundaryOK boundary) (m : Nat) (p : PartSpec)
    (hp : PartOK boundary p) (D T T' : Bytes) (d' : Bool)
    (hD : ∀ k, readLines (bndOf boundary) m ((splitLF p.content).1.length + 2 + k)
        ⟨p.content ++ CRLF ++ (D ++ T), false⟩ [] true [] false
          = .ok (p.content, decide (p.content.length > m), ⟨T', d'⟩)) :
    ∃ hs, foldHdr p.hdrLines none [] = some hs ∧
      readHeaders ((partBytes p ++ (D ++ T)).length + 2) ⟨partBytes p ++ (D ++ T), false⟩ none []
        = .ok (hs, ⟨p.content ++ CRLF ++ (D ++ T), false⟩) ∧
      readLines (bndOf boundary) m ((p.content ++ CRLF ++ (D ++ T)).length + 2)
        ⟨p.content ++ CRLF ++ (D ++ T), false⟩ [] true [] false
          = .ok (p.content, decide (p.content.length > m), ⟨T', d'⟩) := by
  obtain ⟨hs, hhs⟩ := Option.isSome_iff_exists.mp hp.hdrs
  refine ⟨hs, hhs, ?_, ?_⟩
  · have hcount : p.hdrLines.length ≤ p.hdrLines.flatten.length :=
      length_le_flatten _ (fun l hl => (hp.lines l hl).line.ne_nil)
    have hfuel : (partBytes p ++ (D ++ T)).length + 2 =
        p.hdrLines.length + 1 + ((partBytes p ++ (D ++ T)).length + 1 - p.hdrLines.length) := by
      simp only [partBytes, List.length_append]; omega
    have hbytes : partBytes p ++ (D ++ T) = p.hdrLines.flatten ++ CRLF ++ (p.content ++ CRLF ++ (D ++ T)) := by
      simp [partBytes]
    rw [hfuel, hbytes]
    exact readHeaders_lines _ none [] hs _ false _ hp.lines hhs
  · have hcount := splitLF_count_le p.content
    have hfuel : (p.content ++ CRLF ++ (D ++ T)).length + 2 =
        (splitLF p.content).1.length + 2 + ((p.content ++ CRLF ++ (D ++ T)).length - (splitLF p.content).1.length) := by
      simp only [List.length_append]; omega
    rw [hfuel]
    exact hD _

theorem partsLoop_parts (boundary : Bytes) (hB : BoundaryOK boundary) (m : Nat) (closing after : Bytes)
    (hcl : Closing closing after) :
    ∀ (parts : List PartSpec) (k : Nat) (acc : List RawPart), parts ≠ [] →
      (∀ p ∈ parts, PartOK boundary p) →
      partsLoop (bndOf boundary) m (parts.length + k) ⟨tailBytes boundary parts closing, false⟩ acc
        = .ok (acc ++ parts.map (rawOf m), ⟨after, true⟩) := by
  intro parts
  induction parts with
  | nil => intro k acc h; exact absurd rfl h
  | cons p rest ih =>
    intro k acc _ hok
    have hp := hok p (by simp)
    cases rest with
    | nil =>
      have hfuel : [p].length + k = k + 1 := by simp; omega
      rw [hfuel]
      cases hcl with
      | bare =>
        obtain ⟨hs, hhs, e1, e2⟩ := one_part boundary hB m p hp (bndOf boundary ++ [DASH, DASH]) [] [] true
          (fun k => by simpa using readLines_part_end_bare boundary hB m p.content false k hp.content)
        simp only [List.append_nil] at e1 e2
        simp only [tailBytes, List.append_nil, partsLoop, e1, e2, if_true, List.map_cons, List.map_nil, rawOf, hhs,
          Option.getD_some]
      | crlf =>
        obtain ⟨hs, hhs, e1, e2⟩ := one_part boundary hB m p hp (bndOf boundary ++ [DASH, DASH] ++ CRLF) after after true
          (fun k => by simpa using readLines_part_end boundary hB m p.content after false k hp.content)
        have hb : bndOf boundary ++ [DASH, DASH] ++ (CRLF ++ after) =
            bndOf boundary ++ [DASH, DASH] ++ CRLF ++ after := by simp
        simp only [tailBytes, hb, partsLoop, e1, e2, if_true, List.map_cons, List.map_nil, rawOf, hhs,
          Option.getD_some]
    | cons q r =>
      have hfuel : (p :: q :: r).length + k = ((q :: r).length + k) + 1 := by simp; omega
      rw [hfuel]
      obtain ⟨hs, hhs, e1, e2⟩ := one_part boundary hB m p hp (bndOf boundary ++ CRLF)
        (tailBytes boundary (q :: r) closing) (tailBytes boundary (q :: r) closing) false
        (fun k => by simpa using readLines_part_boundary boundary hB m p.content _ false k hp.content)
      have hb : bndOf boundary ++ CRLF ++ tailBytes boundary (q :: r) closing =
          bndOf boundary ++ CRLF ++ tailBytes boundary (q :: r) closing := rfl
      simp only [tailBytes, partsLoop, e1, e2, Bool.false_eq_true, if_false]
      rw [ih k _ (by simp) (fun p' h' => hok p' (by simp [h']))]
      simp [rawOf, hhs]

/-- **C04, framing (partial: delimiter-like lines excluded).** -/
theorem C04_framing_partial (boundary : Bytes) (hB : BoundaryOK boundary) (maxram : Nat)
    (pre : List Bytes) (parts : List PartSpec) (closing after : Bytes)
    (hpre : ∀ l ∈ pre, IsLine l ∧ strip l ≠ bndOf boundary)
    (hne : parts ≠ []) (hparts : ∀ p ∈ parts, PartOK boundary p) (hcl : Closing closing after) :
    processMultipart boundary maxram (serialize boundary pre parts closing)
      = .ok (parts.map (rawOf maxram), ⟨after, true⟩) := by
  unfold processMultipart
  simp only
  have hbnd : [DASH, DASH] ++ boundary = bndOf boundary := rfl
  rw [hbnd]
  have hcount : pre.length ≤ pre.flatten.length := length_le_flatten _ (fun l hl => (hpre l hl).1.ne_nil)
  have hf1 : (serialize boundary pre parts closing).length + 2 =
      pre.length + 1 + ((serialize boundary pre parts closing).length + 1 - pre.length) := by
    simp only [serialize, List.length_append]; omega
  have hfind := findFirst_pre boundary hB pre (tailBytes boundary parts closing)
    ((serialize boundary pre parts closing).length + 1 - pre.length) hpre
  rw [← hf1] at hfind
  have hser : serialize boundary pre parts closing =
      pre.flatten ++ (bndOf boundary ++ CRLF ++ tailBytes boundary parts closing) := rfl
  rw [← hser] at hfind
  rw [hfind]
  simp only
  have hplen : parts.length ≤ (serialize boundary pre parts closing).length + 2 := by
    have : ∀ (ps : List PartSpec), ps.length ≤ (tailBytes boundary ps closing).length + 1 := by
      intro ps
      induction ps with
      | nil => simp
      | cons p r ih =>
        cases r with
        | nil => simp
        | cons q r' =>
          simp only [tailBytes, List.length_append, List.length_cons] at ih ⊢
          have : 0 < (bndOf boundary ++ CRLF).length := by simp [bndOf]
          simp only [List.length_append] at this
          omega
    have := this parts
    simp only [serialize, List.length_append]; omega
  have hf2 : (serialize boundary pre parts closing).length + 2 =
      parts.length + ((serialize boundary pre parts closing).length + 2 - parts.length) := by omega
  rw [hf2, partsLoop_parts boundary hB maxram closing after hcl parts _ [] hne hparts]
  simp


/-! ### consequences -/

/-- The content a part is delivered with does not depend on the memory threshold: only the
    representation flag `spilled` does, and it is exactly `|content| > maxrambytes`. -/
theorem C04_content_independent_of_threshold (boundary : Bytes) (hB : BoundaryOK boundary) (m₁ m₂ : Nat)
    (pre : List Bytes) (parts : List PartSpec) (closing after : Bytes)
    (hpre : ∀ l ∈ pre, IsLine l ∧ strip l ≠ bndOf boundary)
    (hne : parts ≠ []) (hparts : ∀ p ∈ parts, PartOK boundary p) (hcl : Closing closing after) :
    (processMultipart boundary m₁ (serialize boundary pre parts closing)).map
        (fun r => (r.1.map (fun p => (p.headers, p.content)), r.2)) =
    (processMultipart boundary m₂ (serialize boundary pre parts closing)).map
        (fun r => (r.1.map (fun p => (p.headers, p.content)), r.2)) := by
  rw [C04_framing_partial boundary hB m₁ pre parts closing after hpre hne hparts hcl,
      C04_framing_partial boundary hB m₂ pre parts closing after hpre hne hparts hcl]
  simp [Except.map, rawOf]

/-! ### the statement with the RFC hypothesis is false (finding F7) -/

def isInfixB (p : Bytes) : Bytes → Bool
  | [] => p.isEmpty
  | b :: bs => p.isPrefixOf (b :: bs) || isInfixB p bs

/-- RFC 2046: the delimiter `CRLF--boundary` does not occur in the content (the CRLF that ends the
    part headers counts as the CRLF in front of a content that starts with `--boundary`). -/
def RfcClean (boundary c : Bytes) : Prop := isInfixB (CRLF ++ bndOf boundary) (CRLF ++ c) = false

instance (boundary c : Bytes) : Decidable (RfcClean boundary c) := by unfold RfcClean; exact inferInstance

structure PartOKRfc (boundary : Bytes) (p : PartSpec) : Prop where
  lines : ∀ l ∈ p.hdrLines, HdrLineOK l
  hdrs : (foldHdr p.hdrLines none []).isSome = true
  content : RfcClean boundary p.content

instance {ε α : Type} [DecidableEq ε] [DecidableEq α] : DecidableEq (Except ε α) := fun a b =>
  match a, b with
  | .ok x, .ok y => if h : x = y then isTrue (by rw [h]) else isFalse (by intro h'; cases h'; exact h rfl)
  | .error x, .error y => if h : x = y then isTrue (by rw [h]) else isFalse (by intro h'; cases h'; exact h rfl)
  | .ok _, .error _ => isFalse (by intro h; cases h)
  | .error _, .ok _ => isFalse (by intro h; cases h)

/-- the full-strength statement: every content the RFC allows -/
def C04_framing_full : Prop :=
  ∀ (boundary : Bytes), BoundaryOK boundary → ∀ (maxram : Nat) (pre : List Bytes) (parts : List PartSpec)
    (closing after : Bytes),
    (∀ l ∈ pre, IsLine l ∧ strip l ≠ bndOf boundary) → parts ≠ [] →
    (∀ p ∈ parts, PartOKRfc boundary p) → Closing closing after →
    processMultipart boundary maxram (serialize boundary pre parts closing)
      = .ok (parts.map (rawOf maxram), ⟨after, true⟩)

/-- `Content-Disposition: form-data; name="f"` CRLF -/
def wHdr : Bytes :=
  [67,111,110,116,101,110,116,45,68,105,115,112,111,115,105,116,105,111,110,58,32,102,111,114,109,45,100,97,116,97,59,32,110,97,109,101,61,34,102,34,13,10]
/-- the near-miss content `a LF --B LF b` -/
def wContent : Bytes := [97, 10, 45, 45, 66, 10, 98]
def wPart : PartSpec := { hdrLines := [wHdr], content := wContent }

theorem boundaryOK_B : BoundaryOK [66] := ⟨by decide, ⟨[], 66, rfl, by decide⟩⟩

theorem wHdr_ok : HdrLineOK wHdr :=
  ⟨⟨wHdr.take 41, by decide, by decide⟩, by decide, by decide⟩

/-- **F7**: a bare-LF near-miss delimiter line inside the content ends the part; the rest of the content
    is taken for the headers of a further part (`noCRLF` → 400).  The RFC-strength statement is false. -/
theorem C04_framing_full_false : ¬ C04_framing_full := by
  intro h
  have := h [66] boundaryOK_B 1000 [] [wPart] (CRLF ++ []) [] (by simp) (by simp)
    (by
      intro p hp
      simp only [List.mem_singleton] at hp
      subst hp
      exact ⟨by intro l hl; simp only [wPart, List.mem_singleton] at hl; subst hl; exact wHdr_ok,
             by decide, by decide⟩)
    (Closing.crlf [])
  have hv : processMultipart [66] 1000 (serialize [66] [] [wPart] (CRLF ++ [])) = .error .noColon := by decide
  rw [hv] at this
  cases this

/-- non-vacuity of `C04_framing_partial`: a two-part body with contents full of CR / LF / dashes and a
    near miss that is NOT delimiter-like (`--Bx`) meets every hypothesis -/
def exPart1 : PartSpec := { hdrLines := [wHdr], content := [13, 10, 45, 45, 66, 120, 13, 10, 45, 45, 13] }
def exPart2 : PartSpec := { hdrLines := [wHdr], content := [] }

example : PartOK [66] exPart1 :=
  ⟨by intro l hl; simp only [exPart1, List.mem_singleton] at hl; subst hl; exact wHdr_ok, by decide, by decide⟩
example : PartOK [66] exPart2 :=
  ⟨by intro l hl; simp only [exPart2, List.mem_singleton] at hl; subst hl; exact wHdr_ok, by decide, by decide⟩
/-- the excluded class is real: the F7 witness content is RFC-clean but not `DelimFree` -/
example : RfcClean [66] wContent ∧ ¬ DelimFree (bndOf [66]) wContent := by decide


/-! ### the bridge to the real reader (C05) -/

/-- **What this model assumes of `fp.readline` is what C05 proves of `SizedReader.readline`.**
    For a request with a declared length that the connection delivers (`Enough`), no body limit and
    no server-side failure: from every not-yet-finished state satisfying the reader invariant, `readline(n)` (any
    `n ≠ 0`, in particular `readline()` and `readline(1 << 16)`) succeeds, returns exactly what the
    cursor `Src.readline` returns on the abstract state `(rest, done)`, and leaves a state whose
    abstraction is the cursor's next state — for every buffer size and fragmentation plan. -/
theorem C04_readline_is_cursor (cfg : Cfg) (hb : 1 ≤ cfg.bufsize) (hm : cfg.maxbytes = none)
    (hl : cfg.length.isSome = true) (s : St) (hi : C05.Inv cfg s) (he : C05.Enough cfg s)
    (hf : s.failAt = none) (hd : s.done = false) (n : Option Nat) (h0 : n ≠ some 0) :
    ∃ s', readline cfg s n = (.ok (Src.readline ⟨C05.rest cfg s, s.done⟩).1, s') ∧
      (⟨C05.rest cfg s', s'.done⟩ : Src) = (Src.readline ⟨C05.rest cfg s, s.done⟩).2 ∧
      C05.Inv cfg s' ∧ C05.Enough cfg s' ∧ s'.failAt = none := by
  obtain ⟨i1, f1, _, nf1, en1, er1, ok1⟩ := C05.readline_post cfg hb s n hi h0
  generalize readline cfg s n = p at *
  obtain ⟨r, s'⟩ := p
  have hfa : s'.failAt = none := by
    simp only [hf] at f1
    cases h : s'.failAt with
    | none => rfl
    | some _ => rw [h] at f1; cases f1
  cases r with
  | fuel => exact absurd rfl nf1
  | err413 =>
    rcases er1 rfl with h | h
    · simp [over, hm] at h
    · simp [hf] at h
  | ok x =>
    obtain ⟨e1, e2, _, e4, _, _⟩ := ok1 x rfl
    refine ⟨s', ?_, ?_, i1, en1 he, hfa⟩
    · simp only [Src.readline]; rw [e1]; simp
    · simp only [Src.readline]
      rw [e2, e4 he hl hd, hd]; simp

/-- `fp.finish()` on the reader is `Src.finish` on the abstraction. -/
theorem C04_finish_is_cursor (cfg : Cfg) (s : St) :
    (⟨C05.rest cfg (CpModel.Reader.finish s), (CpModel.Reader.finish s).done⟩ : Src)
      = Src.finish ⟨C05.rest cfg s, s.done⟩ := rfl

/-- a fresh reader over a connection that holds at least the declared bytes satisfies `Enough` -/
theorem C04_init_enough (cfg : Cfg) (body : Bytes) (frag : List Nat) (L : Nat) (hl : cfg.length = some L)
    (hlen : L ≤ body.length) : C05.Enough cfg (init body frag none) := by
  intro L' hL'
  rw [hl] at hL'; cases hL'
  simpa [init] using hlen

/-- **C04, nothing beyond Content-Length.**  The parser touches the connection only through reader
    operations; whatever sequence of them it performs, the stream offset stays within the declared
    length (C05), for every fragmentation and buffer size. -/
theorem C04_no_overread (cfg : Cfg) (hb : 1 ≤ cfg.bufsize) (body : Bytes) (frag : List Nat)
    (ops : List Op) (L : Nat) (hL : cfg.length = some L) :
    (run cfg (init body frag none) ops).2.off ≤ L :=
  C05.C05_never_overreads cfg hb body frag none ops L hL


/-! ### parts sharing a name arrive as a list in wire order -/

def lookupD {α : Type} (k : Bytes) : List (Bytes × List α) → List α
  | [] => []
  | (k', vs) :: t => if k' = k then vs else lookupD k t

theorem lookupD_paramAdd {α : Type} (ps : List (Bytes × List α)) (k k' : Bytes) (v : α) :
    lookupD k (paramAdd ps k' v) = if k' = k then lookupD k ps ++ [v] else lookupD k ps := by
  induction ps with
  | nil =>
    by_cases h : k' = k <;> simp [paramAdd, lookupD, h]
  | cons p t ih =>
    obtain ⟨k₀, vs⟩ := p
    simp only [paramAdd]
    by_cases h0 : k₀ = k'
    · subst h0
      by_cases h : k₀ = k <;> simp [lookupD, h]
    · simp only [h0, if_false, lookupD]
      by_cases h1 : k₀ = k
      · simp only [h1, if_true]
        have : ¬ k' = k := fun h => h0 (h1.trans h.symm)
        simp [this]
      · simp only [h1, if_false]; exact ih

theorem lookupD_foldl {α : Type} (named : List (Bytes × α)) (acc : List (Bytes × List α)) (k : Bytes) :
    lookupD k (named.foldl (fun ps kv => paramAdd ps kv.1 kv.2) acc)
      = lookupD k acc ++ (named.filter (fun kv => kv.1 = k)).map (·.2) := by
  induction named generalizing acc with
  | nil => simp
  | cons kv t ih =>
    simp only [List.foldl_cons]
    rw [ih, lookupD_paramAdd]
    by_cases h : kv.1 = k <;> simp [List.filter_cons, h]

/-- **C04, same-name parts.**  In the parameter dict that `process_multipart_form_data` (and
    `_old_process_multipart`) builds, the values stored under a name are exactly the values of the parts
    carrying that name, in wire order — for every list of parts. -/
theorem C04_same_name_wire_order {α : Type} (named : List (Bytes × α)) (k : Bytes) :
    lookupD k (assemble named) = (named.filter (fun kv => kv.1 = k)).map (·.2) := by
  unfold assemble
  rw [lookupD_foldl]; simp [lookupD]

/-- keys of the parameter dict are distinct (a dict), so `lookupD` reads the only entry -/
theorem paramAdd_keys {α : Type} (ps : List (Bytes × List α)) (k : Bytes) (v : α)
    (h : (ps.map (·.1)).Nodup) : ((paramAdd ps k v).map (·.1)).Nodup := by
  induction ps with
  | nil => simp [paramAdd]
  | cons p t ih =>
    obtain ⟨k₀, vs⟩ := p
    simp only [List.map_cons, List.nodup_cons] at h
    simp only [paramAdd]
    by_cases h0 : k₀ = k
    · simp only [h0, if_true, List.map_cons, List.nodup_cons]
      rw [← h0]; exact h
    · simp only [h0, if_false, List.map_cons, List.nodup_cons]
      refine ⟨?_, ih h.2⟩
      intro hm
      have : ∀ (l : List (Bytes × List α)), k₀ ∈ (paramAdd l k v).map (·.1) → k₀ ∈ l.map (·.1) := by
        intro l
        induction l with
        | nil => simp [paramAdd]; exact fun h => absurd h h0
        | cons q r ihr =>
          obtain ⟨kq, vq⟩ := q
          simp only [paramAdd]
          by_cases hq : kq = k
          · simp [hq]
          · simp only [hq, if_false, List.map_cons, List.mem_cons]
            rintro (h | h)
            · left; exact h
            · right; exact ihr h
      exact h.1 (this t hm)


/-! ### a body without any marker line: no parts -/

theorem findFirst_none (bnd : Bytes) : ∀ (ls : List Bytes) (t : Bytes) (d : Bool) (k : Nat),
    (∀ l ∈ ls, IsLine l ∧ strip l ≠ bnd) → hasLF t = false → strip t ≠ bnd →
    findFirst bnd (ls.length + 2 + k) ⟨ls.flatten ++ t, d⟩ = none := by
  intro ls
  induction ls with
  | nil =>
    intro t d k _ ht hs
    have hf : ([] : List Bytes).length + 2 + k = (k + 1) + 1 := by simp; omega
    rw [hf]
    cases t with
    | nil => simp [findFirst, Src.readline, takeLine]
    | cons b bs =>
      have hrl : Src.readline ⟨b :: bs, d⟩ = (b :: bs, ⟨[], d || true⟩) := by
        simp [Src.readline, takeLine_noLF _ ht, ht]
      simp only [List.flatten_nil, List.nil_append, findFirst, hrl, List.isEmpty_cons, Bool.false_eq_true,
        if_false, hs]
      simp [Src.readline, takeLine]
  | cons l ls ih =>
    intro t d k h ht hs
    obtain ⟨hl, hsl⟩ := h l (by simp)
    have hf : (l :: ls).length + 2 + k = (ls.length + 2 + k) + 1 := by simp; omega
    have hflat : (l :: ls).flatten ++ t = l ++ (ls.flatten ++ t) := by simp
    have hne : l.isEmpty = false := by
      cases l with
      | nil => exact absurd rfl hl.ne_nil
      | cons _ _ => rfl
    rw [hf, hflat]
    simp only [findFirst, readline_line l _ d hl, hne, Bool.false_eq_true, if_false, hsl]
    exact ih t d k (fun l' h' => h l' (by simp [h'])) ht hs

/-- **C04, zero parts.**  A body none of whose lines `strip()`s to the boundary marker (for instance
    just the close delimiter, with any preamble / epilogue free of marker lines) yields no parts. -/
theorem C04_zero_parts (boundary : Bytes) (maxram : Nat) (body : Bytes)
    (h : ∀ l ∈ (splitLF body).1, strip l ≠ bndOf boundary) (ht : strip (splitLF body).2 ≠ bndOf boundary) :
    processMultipart boundary maxram body = .ok ([], ⟨[], true⟩) := by
  unfold processMultipart
  simp only
  have hbnd : [DASH, DASH] ++ boundary = bndOf boundary := rfl
  rw [hbnd]
  obtain ⟨h1, h2, h3⟩ := splitLF_spec body
  have hcount := splitLF_count_le body
  have hf : body.length + 2 = (splitLF body).1.length + 2 + (body.length - (splitLF body).1.length) := by omega
  have := findFirst_none (bndOf boundary) (splitLF body).1 (splitLF body).2 false
    (body.length - (splitLF body).1.length) (fun l hl => ⟨h2 l hl, h l hl⟩) h3 ht
  rw [← h1, ← hf] at this
  rw [this]

/-- non-vacuity: `--B--` CRLF alone is such a body -/
example : processMultipart [66] 1000 [45, 45, 66, 45, 45, 13, 10] = .ok ([], ⟨[], true⟩) :=
  C04_zero_parts [66] 1000 _ (by decide) (by decide)

end CpProofs.C04
