import CpModel.Multipart
namespace CpProofs.C04
theorem stub : True := trivial
end CpProofs.C04
