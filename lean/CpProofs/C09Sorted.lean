import CpModel.HookAttach
import CpProofs.C09Hooks
/-!
  C09: what `sorted(self[point])` gives for the priorities Python allows (`HookAttach.sortedHooks`), and the
  link to the pipeline model's natural-number priorities (`Hooks.sortByPrio`), through which every theorem of
  `C09Hooks.lean` / `C09.lean` speaks about negative, fractional, huge and boolean priorities too.
-/
namespace CpProofs.C09
open CpModel CpModel.HookAttach

/-! ## the insertion sort, for any `<` -/

theorem insertBy_perm (lt : AHook → AHook → Bool) (a : AHook) (l : List AHook) : (insertBy lt a l).Perm (a :: l) := by
  induction l with
  | nil => exact List.Perm.refl _
  | cons y ys ih =>
    simp only [insertBy]
    split
    · exact (List.Perm.cons y ih).trans (List.Perm.swap a y ys)
    · exact List.Perm.refl _

theorem sortBy_perm (lt : AHook → AHook → Bool) (l : List AHook) : (sortBy lt l).Perm l := by
  induction l with
  | nil => exact List.Perm.refl _
  | cons x xs ih => exact (insertBy_perm lt x _).trans (List.Perm.cons x ih)

theorem insertBy_congr (lt1 lt2 : AHook → AHook → Bool) (a : AHook) (l : List AHook)
    (h : ∀ y ∈ l, lt1 y a = lt2 y a) : insertBy lt1 a l = insertBy lt2 a l := by
  induction l with
  | nil => rfl
  | cons y ys ih =>
    simp only [insertBy, h y (by simp)]
    rw [ih (fun z hz => h z (by simp [hz]))]

/-- the sort looks at `<` only between elements of the list -/
theorem sortBy_congr (lt1 lt2 : AHook → AHook → Bool) (l : List AHook)
    (h : ∀ x ∈ l, ∀ y ∈ l, lt1 x y = lt2 x y) : sortBy lt1 l = sortBy lt2 l := by
  induction l with
  | nil => rfl
  | cons x xs ih =>
    simp only [sortBy]
    rw [ih (fun a ha b hb => h a (by simp [ha]) b (by simp [hb]))]
    apply insertBy_congr
    intro y hy
    have hy' : y ∈ xs := (sortBy_perm lt2 xs).mem_iff.mp hy
    exact h y (by simp [hy']) x (by simp)

/-! ## sorting by an integer key -/

/-- `<` through an integer key -/
def keyLt (k : AHook → Int) (a b : AHook) : Bool := decide (k a < k b)

def SortedK (k : AHook → Int) : List AHook → Prop
  | [] => True
  | [_] => True
  | a :: b :: rest => k a ≤ k b ∧ SortedK k (b :: rest)

theorem insertBy_sortedK (k : AHook → Int) (a : AHook) (l : List AHook) (h : SortedK k l) :
    SortedK k (insertBy (keyLt k) a l) := by
  induction l with
  | nil => simp [insertBy, SortedK]
  | cons y ys ih =>
    simp only [insertBy, keyLt]
    by_cases hlt : k y < k a
    · simp only [hlt, decide_true, if_true]
      have hya : k y ≤ k a := by omega
      cases ys with
      | nil => simp [insertBy, SortedK]; exact hya
      | cons z zs =>
        have hs : SortedK k (z :: zs) := h.2
        have := ih hs
        simp only [insertBy, keyLt] at this ⊢
        by_cases h2 : k z < k a
        · simp only [h2, decide_true, if_true] at this ⊢
          exact ⟨h.1, this⟩
        · simp only [h2, decide_false] at this ⊢
          exact ⟨hya, by omega, hs⟩
    · simp only [hlt, decide_false]
      exact ⟨by omega, h⟩

theorem sortBy_sortedK (k : AHook → Int) (l : List AHook) : SortedK k (sortBy (keyLt k) l) := by
  induction l with
  | nil => trivial
  | cons x xs ih => exact insertBy_sortedK k x _ ih

theorem insertBy_filterK (k : AHook → Int) (q : Int) (a : AHook) (l : List AHook) :
    (insertBy (keyLt k) a l).filter (fun h => k h = q) =
      if k a = q then a :: l.filter (fun h => k h = q) else l.filter (fun h => k h = q) := by
  induction l with
  | nil => simp [insertBy, List.filter]; split <;> simp_all
  | cons y ys ih =>
    simp only [insertBy, keyLt]
    by_cases hlt : k y < k a
    · simp only [hlt, decide_true, if_true]
      rw [List.filter_cons, ih]
      by_cases hap : k a = q
      · have : ¬ k y = q := by omega
        simp [hap, this]
      · simp [hap, List.filter_cons]
    · simp only [hlt, decide_false]
      simp [List.filter]; split <;> simp_all

/-- **stable**: the hooks of any one key value keep their order -/
theorem sortBy_stableK (k : AHook → Int) (l : List AHook) (q : Int) :
    (sortBy (keyLt k) l).filter (fun h => k h = q) = l.filter (fun h => k h = q) := by
  induction l with
  | nil => rfl
  | cons x xs ih =>
    simp only [sortBy]
    rw [insertBy_filterK, ih, List.filter_cons]
    by_cases h : k x = q <;> simp [h]

/-! ## `sorted(self[point])` -/

/-- the numeric value of a hook's priority in quarters (`bool` is 0/1, `int` and `float` by value) -/
def qOf (h : AHook) : Int := h.prio.num?.getD 0

def AllNum (l : List AHook) : Prop := ∀ h ∈ l, ∃ q, h.prio.num? = some q

theorem numLt_eq_keyLt (l : List AHook) (hn : AllNum l) : ∀ x ∈ l, ∀ y ∈ l, numLt x y = keyLt qOf x y := by
  intro x hx y hy
  obtain ⟨qx, h1⟩ := hn x hx
  obtain ⟨qy, h2⟩ := hn y hy
  simp [numLt, keyLt, qOf, h1, h2]

theorem allNum_iff (l : List AHook) : l.all (·.prio.num?.isSome) = true ↔ AllNum l := by
  simp only [List.all_eq_true, AllNum, Option.isSome_iff_exists]

/-- **What `sorted` gives for numeric priorities** (`bool`, `int`, `float`, in any mix; any sign or size): a
    permutation of the attached hooks, ascending by numeric value, hooks of equal value in attachment order. -/
theorem sortedHooks_numeric (l : List AHook) (hn : AllNum l) :
    ∃ s, sortedHooks l = some s ∧ s.Perm l ∧ SortedK qOf s
      ∧ ∀ q, s.filter (fun h => qOf h = q) = l.filter (fun h => qOf h = q) := by
  have hs : sortBy numLt l = sortBy (keyLt qOf) l := sortBy_congr _ _ l (numLt_eq_keyLt l hn)
  refine ⟨sortBy (keyLt qOf) l, ?_, sortBy_perm _ l, sortBy_sortedK qOf l, sortBy_stableK qOf l⟩
  match l, hn, hs with
  | [], _, _ => rfl
  | [h], _, _ => rfl
  | a :: b :: rest, hn, hs =>
    have : (a :: b :: rest).all (·.prio.num?.isSome) = true := (allNum_iff _).mpr hn
    simp only [sortedHooks, this, if_true, hs]

/-- **When `sorted` raises `TypeError`** (and `HookMap.run` with it, before any hook ran): exactly when there are
    at least two hooks and their priorities are neither all numbers nor all strings. -/
theorem sortedHooks_typeError_iff (l : List AHook) :
    sortedHooks l = none ↔ 2 ≤ l.length ∧ l.all (·.prio.num?.isSome) = false ∧ l.all (·.prio.str?.isSome) = false := by
  match l with
  | [] => simp [sortedHooks]
  | [h] => simp [sortedHooks]
  | a :: b :: rest =>
    simp only [sortedHooks]
    by_cases h1 : (a :: b :: rest).all (·.prio.num?.isSome) = true
    · simp [h1]
    · by_cases h2 : (a :: b :: rest).all (·.prio.str?.isSome) = true
      · simp [h1, h2]
      · simp only [h1, h2]
        simp

/-- whatever it returns is a permutation: no hook lost, none duplicated -/
theorem sortedHooks_perm (l s : List AHook) (h : sortedHooks l = some s) : s.Perm l := by
  match l with
  | [] => simp [sortedHooks] at h; subst h; exact List.Perm.refl _
  | [x] => simp [sortedHooks] at h; subst h; exact List.Perm.refl _
  | a :: b :: rest =>
    simp only [sortedHooks] at h
    split at h
    · simp at h; subst h; exact sortBy_perm _ _
    · split at h
      · simp at h; subst h; exact sortBy_perm _ _
      · simp at h

example : (sortedHooks [⟨.user 1, .int 50, .bool false, []⟩, ⟨.user 2, .float 0, .bool false, []⟩,
    ⟨.user 3, .bool true, .bool false, []⟩, ⟨.user 4, .int (-3), .bool false, []⟩,
    ⟨.user 5, .float 200, .bool false, []⟩]).map (·.map (·.cb)) = some [.user 4, .user 2, .user 3, .user 1, .user 5] := by
  decide
example : sortedHooks [⟨.user 1, .int 50, .bool false, []⟩, ⟨.user 2, .str [53], .bool false, []⟩] = none := by decide
example : sortedHooks [⟨.user 1, .none, .bool false, []⟩] = some [⟨.user 1, .none, .bool false, []⟩] := by decide

/-! ## the link to `Hooks.sortByPrio` -/

/-- a lower bound of all numeric priorities of the list -/
def Bounded (base : Int) (l : List AHook) : Prop := ∀ h ∈ l, ∃ q, h.prio.num? = some q ∧ base ≤ q

theorem insertBy_map (base : Int) (info : Cb → Nat × Hooks.Out) (a : AHook) (l : List AHook)
    (ha : ∃ q, a.prio.num? = some q ∧ base ≤ q) (hl : Bounded base l) :
    (insertBy numLt a l).map (fun h => toHook base (info h.cb).1 (info h.cb).2 h)
      = Hooks.insertByPrio (toHook base (info a.cb).1 (info a.cb).2 a)
          (l.map (fun h => toHook base (info h.cb).1 (info h.cb).2 h)) := by
  induction l with
  | nil => rfl
  | cons y ys ih =>
    obtain ⟨qa, ha1, ha2⟩ := ha
    obtain ⟨qy, hy1, hy2⟩ := hl y (by simp)
    have hys : Bounded base ys := fun z hz => hl z (by simp [hz])
    have ra : (toHook base (info a.cb).1 (info a.cb).2 a).prio = (qa - base).toNat := by simp [toHook, rank, ha1]
    have ry : (toHook base (info y.cb).1 (info y.cb).2 y).prio = (qy - base).toNat := by simp [toHook, rank, hy1]
    have hnl : numLt y a = decide (qy < qa) := by simp [numLt, ha1, hy1]
    simp only [insertBy, List.map, Hooks.insertByPrio, hnl, ra, ry]
    by_cases hlt : qy < qa
    · have h2 : ¬ (qa - base).toNat ≤ (qy - base).toNat := by omega
      simp only [hlt, decide_true, if_true, h2, if_false, List.map]
      rw [ih hys]
    · have h2 : (qa - base).toNat ≤ (qy - base).toNat := by omega
      simp only [hlt, decide_false, h2, if_true, List.map]
      simp

/-- **Link**: mapping hooks with numeric priorities to the pipeline model's hooks (priority = distance from any
    lower bound, fail-safe = truthiness) commutes with sorting.  So `Hooks.run` on the mapped list — to which
    `C09_order`, `C09_failsafe`, `C09_failsafe_exactly_once`, … apply — calls the hooks in the order `sorted`
    gives on the real priorities. -/
theorem sortBy_map (base : Int) (info : Cb → Nat × Hooks.Out) (l : List AHook) (hl : Bounded base l) :
    (sortBy numLt l).map (fun h => toHook base (info h.cb).1 (info h.cb).2 h)
      = Hooks.sortByPrio (l.map (fun h => toHook base (info h.cb).1 (info h.cb).2 h)) := by
  induction l with
  | nil => rfl
  | cons x xs ih =>
    have hxs : Bounded base xs := fun z hz => hl z (by simp [hz])
    simp only [sortBy, List.map, Hooks.sortByPrio]
    rw [← ih hxs]
    apply insertBy_map base info x _ (hl x (by simp))
    intro z hz
    exact hxs z ((sortBy_perm numLt xs).mem_iff.mp hz)

/-- the hooks `HookMap.run` calls at a point whose priorities are numbers: first failure `k` in the order `sorted`
    gives on the real priorities, then the fail-safe ones (by truthiness of the stored flag) of the rest -/
theorem run_numeric (base : Int) (info : Cb → Nat × Hooks.Out) (l : List AHook) (hl : Bounded base l) :
    (Hooks.run (l.map (fun h => toHook base (info h.cb).1 (info h.cb).2 h))).1
      = demanded ((sortBy numLt l).map (fun h => toHook base (info h.cb).1 (info h.cb).2 h)) := by
  rw [sortBy_map base info l hl]
  exact runHooks_normal _

example : Bounded (-200) [⟨.user 1, .int 50, .bool false, []⟩, ⟨.user 2, .float (-200), .bool true, []⟩] := by
  intro h hh
  simp at hh
  rcases hh with rfl | rfl
  · exact ⟨200, rfl, by omega⟩
  · exact ⟨-200, rfl, by omega⟩

end CpProofs.C09
