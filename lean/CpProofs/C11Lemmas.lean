import CpModel.PathContain
/-!
  C11 — helper lemmas about `str.split('/')`, components and the `normpath` stack.
-/
namespace CpProofs.C11
open CpModel.PathContain

/-! ### `split('/')` -/

theorem splitSlash_ne_nil (s : Str) : splitSlash s ≠ [] := by
  induction s with
  | nil => simp [splitSlash]
  | cons c cs ih =>
    simp only [splitSlash]
    split
    · simp
    · split <;> simp

/-- Splitting distributes over a separator. -/
theorem splitSlash_append_sep (a b : Str) :
    splitSlash (a ++ '/' :: b) = splitSlash a ++ splitSlash b := by
  induction a with
  | nil => simp [splitSlash]
  | cons c cs ih =>
    simp only [List.cons_append, splitSlash]
    split
    · simp [ih]
    · rw [ih]
      cases h : splitSlash cs with
      | nil => exact absurd h (splitSlash_ne_nil cs)
      | cons x xs => simp

theorem splitSlash_noslash (s : Str) (h : '/' ∉ s) : splitSlash s = [s] := by
  induction s with
  | nil => simp [splitSlash]
  | cons c cs ih =>
    have hc : c ≠ '/' := fun e => h (by simp [e])
    have hcs : '/' ∉ cs := fun e => h (by simp [e])
    simp [splitSlash, hc, ih hcs]

theorem splitSlash_mem_noslash (s : Str) : ∀ c ∈ splitSlash s, '/' ∉ c := by
  induction s with
  | nil => simp [splitSlash]
  | cons c cs ih =>
    simp only [splitSlash]
    split
    · intro d hd
      rcases List.mem_cons.1 hd with rfl | hd
      · simp
      · exact ih d hd
    · rename_i hc
      cases h : splitSlash cs with
      | nil => exact absurd h (splitSlash_ne_nil cs)
      | cons x xs =>
        intro d hd
        rw [h] at ih
        rcases List.mem_cons.1 hd with rfl | hd
        · intro hm
          rcases List.mem_cons.1 hm with e | hm
          · exact hc e.symm
          · exact ih x (by simp) hm
        · exact ih d (by simp [hd])

/-- Appending a '/'-free suffix only extends the last piece. -/
theorem splitSlash_append_noslash (a s : Str) (hs : '/' ∉ s) :
    ∃ init last, splitSlash a = init ++ [last] ∧ splitSlash (a ++ s) = init ++ [last ++ s] := by
  induction a with
  | nil => exact ⟨[], [], by simp [splitSlash], by simp [splitSlash_noslash s hs]⟩
  | cons c cs ih =>
    obtain ⟨init, last, h1, h2⟩ := ih
    simp only [List.cons_append, splitSlash]
    split
    · exact ⟨[] :: init, last, by simp [h1], by simp [h2]⟩
    · rw [h1, h2]
      cases init with
      | nil => exact ⟨[], c :: last, by simp, by simp⟩
      | cons x xs => exact ⟨(c :: x) :: xs, last, by simp, by simp⟩

/-! ### components -/

theorem components_append_sep (a b : Str) :
    components (a ++ '/' :: b) = components a ++ components b := by
  simp [components, splitSlash_append_sep, List.filter_append]

theorem components_nil : components [] = [] := by
  simp [components, splitSlash]

theorem components_slashes (k : Nat) : components (List.replicate k '/') = [] := by
  induction k with
  | zero => simp [components_nil]
  | succ k ih =>
    have : List.replicate (k + 1) '/' = [] ++ '/' :: List.replicate k '/' := by
      simp [List.replicate_succ]
    rw [this, components_append_sep, ih, components_nil]; rfl

theorem components_append_slashes (a : Str) (k : Nat) :
    components (a ++ List.replicate k '/') = components a := by
  cases k with
  | zero => simp
  | succ k =>
    rw [List.replicate_succ, components_append_sep, components_slashes]; simp

theorem components_cons_slash (a : Str) : components ('/' :: a) = components a := by
  have := components_append_sep [] a
  simpa [components_nil] using this

theorem components_noslash (c : Str) (h1 : c ≠ []) (h2 : '/' ∉ c) : components c = [c] := by
  simp [components, splitSlash_noslash c h2, h1]

/-- A string whose components are empty consists of slashes only. -/
theorem components_eq_nil (s : Str) (h : components s = []) : ∀ c ∈ s, c = '/' := by
  induction s with
  | nil => simp
  | cons c cs ih =>
    by_cases hc : c = '/'
    · subst hc
      rw [components_cons_slash] at h
      intro d hd
      rcases List.mem_cons.1 hd with rfl | hd
      · rfl
      · exact ih h d hd
    · exfalso
      simp only [components, splitSlash, hc, if_false] at h
      cases h' : splitSlash cs with
      | nil => exact absurd h' (splitSlash_ne_nil cs)
      | cons x xs => rw [h'] at h; simp at h

theorem dropWhile_slash_decomp (l : Str) :
    ∃ k, l = List.replicate k '/' ++ l.dropWhile (· == '/') := by
  induction l with
  | nil => exact ⟨0, by simp⟩
  | cons c cs ih =>
    by_cases hc : c = '/'
    · obtain ⟨k, hk⟩ := ih
      refine ⟨k + 1, ?_⟩
      subst hc
      simp only [List.dropWhile_cons, beq_self_eq_true, if_true, List.replicate_succ, List.cons_append]
      rw [← hk]
    · exact ⟨0, by simp [hc]⟩

/-- `rstrip('/')` only removes trailing slashes. -/
theorem rstripSlash_decomp (s : Str) : ∃ k, s = rstripSlash s ++ List.replicate k '/' := by
  obtain ⟨k, hk⟩ := dropWhile_slash_decomp s.reverse
  refine ⟨k, ?_⟩
  have h2 : s = (List.replicate k '/' ++ s.reverse.dropWhile (· == '/')).reverse := by
    rw [← hk]; simp
  rw [List.reverse_append, List.reverse_replicate] at h2
  exact h2

theorem components_rstripSlash (s : Str) : components (rstripSlash s) = components s := by
  obtain ⟨k, hk⟩ := rstripSlash_decomp s
  conv => rhs; rw [hk]
  rw [components_append_slashes]

/-! ### the containment tests imply a component-wise prefix (pure string facts) -/

/-- The repaired `staticdir` test: whenever it lets `f` through, every component of `d` is a
    leading component of `f` — for arbitrary strings. -/
theorem containedCheck_components (d f : Str) (h : containedCheck d f = true) :
    components d <+: components f := by
  simp only [containedCheck, Bool.or_eq_true, beq_iff_eq] at h
  rcases h with h | h
  · rw [h]; exact List.prefix_refl _
  · simp only [startsWith] at h
    obtain ⟨t, ht⟩ := List.isPrefixOf_iff_prefix.1 h
    rw [← ht, List.append_assoc]
    simp only [List.singleton_append]
    rw [components_append_sep, components_rstripSlash]
    exact List.prefix_append _ _

/-! ### `'/'.join` and the `normpath` stack -/

theorem components_joinSlash (cs : List Str) (h : ∀ c ∈ cs, c ≠ [] ∧ '/' ∉ c) :
    components (joinSlash cs) = cs := by
  induction cs with
  | nil => simp [joinSlash, components_nil]
  | cons c rest ih =>
    have hc := h c (by simp)
    cases rest with
    | nil => simpa [joinSlash] using components_noslash c hc.1 hc.2
    | cons d ds =>
      simp only [joinSlash]
      rw [components_append_sep, components_noslash c hc.1 hc.2,
        ih (fun x hx => h x (List.mem_cons_of_mem _ hx))]
      simp

/-- Invariant of `new_comps` (reversed): non-empty '/'-free pieces, never ".", and never ".."
    when the path is absolute. -/
def StackOK (abs : Bool) (st : List Str) : Prop :=
  ∀ c ∈ st, c ≠ [] ∧ '/' ∉ c ∧ c ≠ dot ∧ (abs = true → c ≠ dotdot)

theorem normStep_ok (abs : Bool) (st : List Str) (comp : Str) (h : StackOK abs st)
    (hc : '/' ∉ comp) : StackOK abs (normStep abs st comp) := by
  unfold normStep
  split
  · exact h
  · rename_i h1
    have h1' : comp ≠ [] ∧ comp ≠ dot := by
      constructor <;> intro e <;> exact h1 (by simp [e])
    split
    · rename_i h2
      intro c hcm
      rcases List.mem_cons.1 hcm with rfl | hcm
      · exact ⟨h1'.1, hc, h1'.2, fun _ => h2⟩
      · exact h c hcm
    · split
      · split
        · intro c hcm; simp at hcm
        · rename_i habs
          intro c hcm
          have : c = dotdot := by simpa using hcm
          subst this
          exact ⟨by decide, by decide, by decide, fun e => absurd e habs⟩
      · rename_i t rest
        split
        · rename_i ht
          have habs : abs ≠ true := fun e => (h t (by simp)).2.2.2 e ht
          intro c hcm
          rcases List.mem_cons.1 hcm with rfl | hcm
          · exact ⟨by decide, by decide, by decide, fun e => absurd e habs⟩
          · exact h c hcm
        · intro c hcm
          exact h c (List.mem_cons_of_mem _ hcm)

theorem foldl_normStep_ok (abs : Bool) (cs : List Str) (hcs : ∀ c ∈ cs, '/' ∉ c) :
    ∀ st, StackOK abs st → StackOK abs (cs.foldl (normStep abs) st) := by
  induction cs with
  | nil => intro st h; exact h
  | cons c rest ih =>
    intro st h
    simp only [List.foldl_cons]
    exact ih (fun x hx => hcs x (List.mem_cons_of_mem _ hx)) _
      (normStep_ok abs st c h (hcs c (by simp)))

theorem normStack_ok (abs : Bool) (s : Str) : StackOK abs (normStack abs (splitSlash s)) :=
  foldl_normStep_ok abs _ (splitSlash_mem_noslash s) [] (by intro c hc; simp at hc)

theorem splitSlash_cons_slash (s : Str) : splitSlash ('/' :: s) = [] :: splitSlash s := by
  simp [splitSlash]

theorem normStack_cons_nil (abs : Bool) (xs : List Str) :
    normStack abs ([] :: xs) = normStack abs xs := by
  simp [normStack, normStep]

/-- Shape of `normpath` on an absolute path: one or two slashes, then the stack joined. -/
theorem normpath_abs (p : Str) (h : isAbs p = true) :
    ∃ R, (R = ['/'] ∨ R = ['/', '/']) ∧
      normpath p = R ++ joinSlash (normStack true (splitSlash p)).reverse := by
  cases p with
  | nil => simp [isAbs] at h
  | cons c1 r1 =>
    have hc1 : c1 = '/' := by simpa [isAbs] using h
    subst hc1
    rw [splitSlash_cons_slash, normStack_cons_nil]
    cases r1 with
    | nil => exact ⟨['/'], .inl rfl, by decide⟩
    | cons c2 r2 =>
      by_cases hc2 : c2 = '/'
      · subst hc2
        cases r2 with
        | nil => exact ⟨['/', '/'], .inr rfl, by decide⟩
        | cons c3 r3 =>
          by_cases hc3 : c3 = '/'
          · subst hc3
            refine ⟨['/'], .inl rfl, ?_⟩
            simp [normpath, splitroot]
          · refine ⟨['/', '/'], .inr rfl, ?_⟩
            rw [splitSlash_cons_slash, normStack_cons_nil]
            simp [normpath, splitroot, hc3]
      · refine ⟨['/'], .inl rfl, ?_⟩
        simp [normpath, splitroot, hc2]

theorem normpath_abs_components (p : Str) (h : isAbs p = true) :
    components (normpath p) = (normStack true (splitSlash p)).reverse := by
  obtain ⟨R, hR, hn⟩ := normpath_abs p h
  have hok : ∀ c ∈ (normStack true (splitSlash p)).reverse, c ≠ [] ∧ '/' ∉ c := by
    intro c hc
    have := normStack_ok true p c (List.mem_reverse.1 hc)
    exact ⟨this.1, this.2.1⟩
  rw [hn]
  rcases hR with rfl | rfl
  · simp only [List.singleton_append]
    rw [components_cons_slash, components_joinSlash _ hok]
  · simp only [List.cons_append, List.nil_append]
    rw [components_cons_slash, components_cons_slash, components_joinSlash _ hok]

theorem normpath_abs_isAbs (p : Str) (h : isAbs p = true) : isAbs (normpath p) = true := by
  obtain ⟨R, hR, hn⟩ := normpath_abs p h
  rw [hn]
  rcases hR with rfl | rfl <;> simp [isAbs]

theorem normpath_abs_plain (p : Str) (h : isAbs p = true) :
    ∀ c ∈ components (normpath p), c ≠ [] ∧ '/' ∉ c ∧ c ≠ dot ∧ c ≠ dotdot := by
  rw [normpath_abs_components p h]
  intro c hc
  have := normStack_ok true p c (List.mem_reverse.1 hc)
  exact ⟨this.1, this.2.1, this.2.2.1, this.2.2.2 rfl⟩

/-! ### joining onto an absolute path -/

theorem isAbs_append (a b : Str) (h : isAbs a = true) : isAbs (a ++ b) = true := by
  cases a with
  | nil => simp [isAbs] at h
  | cons c cs => simpa [isAbs] using h

theorem endsSlash_iff (s : Str) : endsSlash s = true ↔ ∃ s', s = s' ++ ['/'] := by
  simp only [endsSlash, beq_iff_eq]
  exact List.getLast?_eq_some_iff

theorem isAbs_join (a b : Str) (ha : isAbs a = true) : isAbs (join a b) = true := by
  unfold join
  split
  · assumption
  · split
    · exact isAbs_append a b ha
    · exact isAbs_append a _ ha

/-- `normpath(join(a, b))` continues the loop of `normpath(a)` with the pieces of `b`. -/
theorem normStack_join (a b : Str) (ha : isAbs a = true) (hb : isAbs b = false) :
    normStack true (splitSlash (join a b)) =
      (splitSlash b).foldl (normStep true) (normStack true (splitSlash a)) := by
  have hane : a ≠ [] := by intro e; simp [e, isAbs] at ha
  by_cases he : endsSlash a = true
  · obtain ⟨a', rfl⟩ := (endsSlash_iff a).1 he
    have hj : join (a' ++ ['/']) b = a' ++ '/' :: b := by
      simp [join, hb, he]
    have h2 : a' ++ ['/'] = a' ++ '/' :: [] := by simp
    rw [hj, splitSlash_append_sep, h2, splitSlash_append_sep]
    simp [normStack, splitSlash, List.foldl_append, normStep]
  · have hj : join a b = a ++ '/' :: b := by
      simp [join, hb, he, hane]
    rw [hj, splitSlash_append_sep]
    simp [normStack, List.foldl_append]

/-- Pieces other than ".." never pop. -/
theorem foldl_push_only (abs : Bool) (cs : List Str) (h : ∀ c ∈ cs, c ≠ dotdot) :
    ∀ S, ∃ P, cs.foldl (normStep abs) S = P ++ S := by
  induction cs with
  | nil => intro S; exact ⟨[], rfl⟩
  | cons c rest ih =>
    intro S
    have hc : c ≠ dotdot := h c (by simp)
    obtain ⟨P, hP⟩ := ih (fun x hx => h x (List.mem_cons_of_mem _ hx)) (normStep abs S c)
    simp only [List.foldl_cons]
    rw [hP]
    by_cases h1 : c = [] ∨ c = dot
    · exact ⟨P, by simp [normStep, h1]⟩
    · exact ⟨P ++ [c], by simp [normStep, h1, hc]⟩

/-! ### the last character of a normalised absolute path -/

theorem joinSlash_last (cs : List Str) (hne : cs ≠ []) (h : ∀ c ∈ cs, c ≠ [] ∧ '/' ∉ c) :
    ∃ init x, joinSlash cs = init ++ [x] ∧ x ≠ '/' := by
  induction cs with
  | nil => exact absurd rfl hne
  | cons c rest ih =>
    have hc := h c (by simp)
    cases rest with
    | nil =>
      rcases List.eq_nil_or_concat c with e | ⟨init, x, e⟩
      · exact absurd e hc.1
      · refine ⟨init, x, by simpa [joinSlash] using e, ?_⟩
        intro ex
        apply hc.2
        rw [e, ex]; simp
    | cons d ds =>
      obtain ⟨init, x, e, hx⟩ := ih (by simp) (fun y hy => h y (List.mem_cons_of_mem _ hy))
      refine ⟨c ++ '/' :: init, x, ?_, hx⟩
      simp only [joinSlash] at e ⊢
      rw [e]; simp

/-- A normalised absolute path ends in '/' only when it is just the root. -/
theorem normpath_abs_endsSlash (p : Str) (h : isAbs p = true) (he : endsSlash (normpath p) = true) :
    components (normpath p) = [] := by
  rw [normpath_abs_components p h]
  obtain ⟨R, _, hn⟩ := normpath_abs p h
  by_cases hcs : (normStack true (splitSlash p)).reverse = []
  · exact hcs
  · exfalso
    have hok : ∀ c ∈ (normStack true (splitSlash p)).reverse, c ≠ [] ∧ '/' ∉ c := by
      intro c hc
      have := normStack_ok true p c (List.mem_reverse.1 hc)
      exact ⟨this.1, this.2.1⟩
    obtain ⟨init, x, e, hx⟩ := joinSlash_last _ hcs hok
    rw [hn, e] at he
    simp only [endsSlash, beq_iff_eq] at he
    rw [← List.append_assoc, List.getLast?_concat] at he
    exact hx (Option.some.inj he)

theorem endsSlash_append_slashes (a t : Str) (ht : ∀ c ∈ t, c = '/') :
    endsSlash (a ++ '/' :: t) = true := by
  rw [endsSlash_iff]
  rcases List.eq_nil_or_concat t with e | ⟨t', x, e⟩
  · exact ⟨a, by simp [e]⟩
  · have hx : x = '/' := ht x (by simp [e])
    exact ⟨a ++ '/' :: t', by simp [e, hx]⟩

end CpProofs.C11
