import CpModel.Wsgi
import CpProofs.C09
/-!
  C01 — every request yields exactly one well-formed response; errors are contained.

  Theorems about `CpModel.Wsgi.call` for **every** fault plan: any number of pages, unbounded hook
  lists at every point, any outcome at any callback site (dispatcher, namespace handler, hooks, body
  processor, handler, error_response, error_page), any handler return shape and status, any
  internal-redirect chain or loop, both `show_tracebacks` values, `throw_errors` off.
-/
namespace CpProofs.C01
open CpModel.Hooks CpModel.Pipeline CpModel.Wsgi CpProofs.C09

/-! ### the redirect loop terminates within the fuel `call` supplies -/

/-- pages (indices below `n`) not yet on the redirector's visited list (as redirect targets, i.e.
    without a query string) -/
def unv (n : Nat) (v : List (Nat × Bool)) : Nat :=
  ((List.range n).filter fun i => decide ((i, false) ∉ v)).length

theorem filter_remove (L : List Nat) (hn : L.Nodup) (t : Nat) (ht : t ∈ L) (p q : Nat → Bool)
    (hq : ∀ i, q i = (p i && decide (i ≠ t))) (hp : p t = true) :
    (L.filter q).length + 1 = (L.filter p).length := by
  induction L with
  | nil => cases ht
  | cons x xs ih =>
    have hx : x ∉ xs := (List.nodup_cons.mp hn).1
    have hxs : xs.Nodup := (List.nodup_cons.mp hn).2
    by_cases hxt : x = t
    · subst hxt
      have same : xs.filter q = xs.filter p := by
        apply List.filter_congr
        intro i hi
        have : i ≠ x := fun h => hx (h ▸ hi)
        simp [hq, this]
      simp [List.filter_cons, hq x, hp, same]
    · have htx : t ∈ xs := by
        rcases List.mem_cons.mp ht with h | h
        · exact absurd h.symm hxt
        · exact h
      have := ih hxs htx
      simp only [List.filter_cons, hq x, hxt, ne_eq, not_false_eq_true, decide_true, Bool.and_true]
      by_cases hpx : p x = true
      · simp [hpx]; omega
      · simp [hpx]; omega

theorem unv_le (n : Nat) (v : List (Nat × Bool)) : unv n v ≤ n := by
  have := List.length_filter_le (fun i => decide ((i, false) ∉ v)) (List.range n)
  simpa [unv] using this

theorem unv_visit (n : Nat) (v : List (Nat × Bool)) (t : Nat) (ht : t < n) (hv : (t, false) ∉ v) :
    unv n (v ++ [(t, false)]) + 1 = unv n v := by
  unfold unv
  apply filter_remove (List.range n) List.nodup_range t (List.mem_range.mpr ht)
  · intro i
    by_cases h : i = t <;> simp [h]
  · simpa using hv

/-- a path without a page cannot redirect: nothing configured there can raise `InternalRedirect` -/
theorem notFound_no_redirect (g : Bool) (m : Method) (nh bq : Bool) :
    (runRequest (notFoundPage g) m nh bq).exn = none := by
  cases g <;> cases m <;> cases nh <;> cases bq <;> decide

def isOOF : Redir → Bool
  | .outOfFuel => true
  | _ => false

theorem appResponse_notFound (g : Bool) (m : Method) (nh bq : Bool) (r t : Nat) (tb : Bool) :
    (appResponse (notFoundPage g) m nh bq r).2 ≠ .raised (.internalRedirect t) tb := by
  have hno := notFound_no_redirect g m nh bq
  unfold appResponse
  simp only [hno]
  split <;> simp

theorem redirector_fuel (pages : List Page) (nh g : Bool) (fuel : Nat) :
    ∀ (visited : List (Nat × Bool)) (cur : Nat) (m : Method) (bq : Bool) (r : Nat),
    (cur < pages.length → unv pages.length (visited ++ [(cur, bq)]) + 2 ≤ fuel) →
    (pages.length ≤ cur → 1 ≤ fuel) →
    isOOF (redirector pages nh g fuel visited cur m bq r).2 = false := by
  induction fuel with
  | zero =>
    intro visited cur m bq r h1 h2
    by_cases h : cur < pages.length
    · have := h1 h; omega
    · have := h2 (by omega); omega
  | succ fuel ih =>
    intro visited cur m bq r h1 h2
    rw [redirector_succ]
    generalize har : appResponse (pages.getD cur (notFoundPage g)) m nh bq r = ar
    obtain ⟨j, ini⟩ := ar
    cases ini with
    | served st => rfl
    | raised e tb =>
      cases e with
      | internalRedirect t =>
        simp only []
        split
        · rfl
        · rename_i hnot
          have hcur : cur < pages.length := by
            apply Classical.byContradiction
            intro hc
            have hget : pages.getD cur (notFoundPage g) = notFoundPage g := by
              simp [List.getD, List.getElem?_eq_none (by omega : pages.length ≤ cur)]
            rw [hget] at har
            exact appResponse_notFound g m nh bq r t tb (by rw [har])
          have hf := h1 hcur
          apply ih
          · intro ht
            have := unv_visit pages.length (visited ++ [(cur, bq)]) t ht hnot
            omega
          · intro _; omega
      | httpError c => rfl
      | httpRedirect c => rfl
      | exc => rfl

/-- **fuel_sufficient**: the model artefact `outOfFuel` is unreachable — the `InternalRedirector` loop
    ends after at most `pages + 1` requests, because a redirect to an URL visited before raises. -/
theorem fuel_sufficient (p : Plan) : (call p).outOfFuel = false := by
  have h := redirector_fuel p.pages p.noHost p.globalTb (p.pages.length + 2) [] p.start p.meth p.badQuery 0
    (fun _ => by have := unv_le p.pages.length ([] ++ [(p.start, p.badQuery)]); omega) (fun _ => by omega)
  unfold call
  generalize redirector p.pages p.noHost p.globalTb (p.pages.length + 2) [] p.start p.meth p.badQuery 0 = res at h ⊢
  obtain ⟨j, red⟩ := res
  cases red with
  | outOfFuel => simp [isOOF] at h
  | raised e tb => simp only [trapCatches, if_true]
  | served st pg r => simp only []; split <;> rfl

/-! ### nothing escapes -/

/-- **C01_no_escape**: no exception leaves `app(environ, start_response)`, the iteration or `close()`:
    whatever leaves `AppResponse.__init__` or a `next` call is an `Exception` and `trap` turns it into
    a bare 500; `release_serving` drops what `on_end_request` hooks raise. -/
theorem C01_no_escape (p : Plan) : (call p).escaped = none := by
  unfold call
  split
  · rfl
  · simp only [trapCatches, if_true]
  · split <;> rfl

/-! ### `start_response`: once, with a legal status -/

/-- `start_response` calls in a journal: (status code, exc_info given?) -/
def starts (j : List Entry) : List (Nat × Bool) :=
  j.filterMap fun e => match e with | .start c b => some (c, b) | _ => none

@[simp] theorem starts_append (a b : List Entry) : starts (a ++ b) = starts a ++ starts b := by
  simp [starts]

theorem starts_tag (r : Nat) (j : List Ev) : starts (tag r j) = [] := by
  induction j with
  | nil => rfl
  | cons e rest ih => simpa [tag, starts] using ih

theorem starts_replicate (n : Nat) : starts (List.replicate n .closeCall) = [] := by
  induction n with
  | zero => rfl
  | succ n ih => simpa [List.replicate_succ, starts] using ih

theorem starts_cons_close (l : List Entry) : starts (.closeCall :: l) = starts l := rfl

theorem starts_closeCalls (pg : Page) (r : Nat) (st : St) (n : Nat) : starts (closeCalls pg r st n) = [] := by
  cases n with
  | zero => rfl
  | succ n =>
    simp only [closeCalls, List.cons_append, starts_cons_close, starts_append, starts_tag, starts_replicate,
      List.append_nil]

/-- the status code `finalize` / `bare_error` left in `output_status` is a legal one -/
def OutOk (s : St) : Prop := ∃ c, s.out = some c ∧ 100 ≤ c ∧ c ≤ 599

/-- the generated table of valid statuses lies inside 100..599 (a source change that widens
    `valid_status` changes the table and breaks this obligation) -/
theorem valid_bounds (c : Nat) (h : inRanges CpModel.Gen.Pipeline.validStatusRanges c = true) : 100 ≤ c ∧ c ≤ 599 := by
  simp [inRanges, CpModel.Gen.Pipeline.validStatusRanges] at h
  omega

theorem finalize_ok (pg : Page) (s : St) (h : (finalize pg s).exn = none) : OutOk (finalize pg s).st := by
  unfold finalize at h ⊢
  generalize statusCode s = code at h ⊢
  simp only [] at h ⊢
  by_cases hc : inRanges CpModel.Gen.Pipeline.validStatusRanges code = true
  · simp only [hc, Bool.not_true, Bool.false_eq_true, if_false] at h ⊢
    have hb : 100 ≤ code ∧ code ≤ 599 := valid_bounds code hc
    split
    · split
      · split <;> exact ⟨_, rfl, hb⟩
      · exact ⟨_, rfl, hb⟩
    · split
      · rename_i h1 h2; simp [h1, h2] at h
      · split <;> exact ⟨_, rfl, hb⟩
  · have hc' : inRanges CpModel.Gen.Pipeline.validStatusRanges code = false := by
      cases hh : inRanges CpModel.Gen.Pipeline.validStatusRanges code with
      | true => exact absurd hh hc
      | false => rfl
    simp [hc'] at h

theorem andThen_of_none {a : R} {f : St → R} (he : a.exn = none) :
    a.andThen f = { j := a.j ++ (f a.st).j, st := (f a.st).st, exn := (f a.st).exn } := by
  unfold R.andThen; rw [he]

theorem andThen_of_some {a : R} {f : St → R} {e : Exn} (he : a.exn = some e) : a.andThen f = a := by
  unfold R.andThen; rw [he]

theorem andThen_none {a : R} {f : St → R} (h : (a.andThen f).exn = none) :
    a.exn = none ∧ (f a.st).exn = none ∧ (a.andThen f).st = (f a.st).st := by
  cases he : a.exn with
  | some e => rw [andThen_of_some he, he] at h; cases h
  | none => rw [andThen_of_none he] at h ⊢; exact ⟨rfl, h, rfl⟩

theorem andThen_finalize_ok (pg : Page) (a : R) (h : (a.andThen (finalize pg)).exn = none) :
    OutOk (a.andThen (finalize pg)).st := by
  obtain ⟨_, h2, h3⟩ := andThen_none h
  rw [h3]
  exact finalize_ok pg _ h2

theorem doRespond_ok (pg : Page) (m : Method) (nh bq : Bool) (s : St)
    (h : (doRespond pg m nh bq s).exn = none) : OutOk (doRespond pg m nh bq s).st := by
  unfold doRespond at h ⊢
  exact andThen_finalize_ok pg _ h

theorem exceptBranch_ok (pg : Page) (a : R) (ha : a.exn = none → OutOk a.st)
    (h : (exceptBranch pg a).exn = none) : OutOk (exceptBranch pg a).st := by
  unfold exceptBranch at h ⊢
  cases hx : a.exn with
  | none => simp only [hx] at h ⊢; exact ha hx
  | some e =>
    cases e with
    | httpError c => simp only [hx] at h ⊢; exact andThen_finalize_ok pg _ h
    | httpRedirect c => simp only [hx] at h ⊢; exact andThen_finalize_ok pg _ h
    | internalRedirect t => simp only [hx] at h ⊢; cases h
    | exc => simp only [hx] at h ⊢; cases h

theorem handleError_ok (pg : Page) (s : St) (h : (handleError pg s).exn = none) :
    OutOk (handleError pg s).st := by
  unfold handleError at h ⊢
  have hT : (handleErrorTry pg s).exn = none → OutOk (handleErrorTry pg s).st := by
    intro h0; unfold handleErrorTry at h0 ⊢; exact andThen_finalize_ok pg _ h0
  generalize handleErrorTry pg s = a at h hT ⊢
  cases hx : a.exn with
  | none => simp only [hx] at h ⊢; exact hT hx
  | some e =>
    cases e with
    | httpRedirect c => simp only [hx] at h ⊢; exact andThen_finalize_ok pg _ h
    | httpError c => simp only [hx] at h ⊢; cases h
    | internalRedirect t => simp only [hx] at h ⊢; cases h
    | exc => simp only [hx] at h ⊢; cases h

theorem finallyDo_none {a : R} {f : St → R} (h : (a.finallyDo f).exn = none) :
    a.exn = none ∧ (f a.st).exn = none ∧ (a.finallyDo f).st = (f a.st).st := by
  unfold R.finallyDo at h ⊢
  simp only [] at h ⊢
  cases hf : (f a.st).exn with
  | some e => simp [hf] at h
  | none =>
    simp only [hf] at h
    refine ⟨h, ?_, ?_⟩ <;> first | rfl | trivial

theorem protectedBlock_ok (pg : Page) (m : Method) (nh bq : Bool) (s : St)
    (h : (protectedBlock pg m nh bq s).exn = none) : OutOk (protectedBlock pg m nh bq s).st := by
  unfold protectedBlock at h ⊢
  obtain ⟨h1, _, h3⟩ := finallyDo_none h
  rw [h3]
  exact exceptBranch_ok pg _ (doRespond_ok pg m nh bq s) h1

theorem respond_ok (pg : Page) (m : Method) (nh bq : Bool) (h : (respond pg m nh bq {}).exn = none) :
    OutOk (respond pg m nh bq {}).st := by
  unfold respond at h ⊢
  have hP := protectedBlock_ok pg m nh bq {}
  generalize protectedBlock pg m nh bq {} = a at h hP ⊢
  cases hx : a.exn with
  | none => simp only [hx] at h ⊢; exact hP hx
  | some e =>
    cases e with
    | internalRedirect t => simp only [hx] at h ⊢; cases h
    | httpError c => simp only [hx] at h ⊢; exact handleError_ok pg _ h
    | httpRedirect c => simp only [hx] at h ⊢; exact handleError_ok pg _ h
    | exc => simp only [hx] at h ⊢; exact handleError_ok pg _ h

/-- **C01_status_of_request_legal**: when `Request.run` returns (instead of letting an
    `InternalRedirect` through), `response.output_status` carries a code in 100..599. -/
theorem C01_status_of_request_legal (pg : Page) (m : Method) (nh bq : Bool)
    (h : (runRequest pg m nh bq).exn = none) : OutOk (runRequest pg m nh bq).st := by
  unfold runRequest at h ⊢
  have hR := respond_ok pg m nh bq
  generalize respond pg m nh bq {} = a at h hR ⊢
  cases hx : a.exn with
  | none =>
    simp only [hx] at h ⊢
    split
    · exact hR hx
    · exact hR hx
  | some e =>
    cases e with
    | internalRedirect t => simp only [hx] at h; cases h
    | httpError c => simp only [hx]; split <;> exact ⟨500, rfl, by omega, by omega⟩
    | httpRedirect c => simp only [hx]; split <;> exact ⟨500, rfl, by omega, by omega⟩
    | exc => simp only [hx]; split <;> exact ⟨500, rfl, by omega, by omega⟩

/-- non-vacuity: the default page returns normally with status 200 -/
example : (runRequest {} .get false false).exn = none ∧ (runRequest {} .get false false).st.out = some 200 := by
  decide

theorem appResponse_starts (pg : Page) (m : Method) (nh bq : Bool) (r : Nat) :
    match (appResponse pg m nh bq r).2 with
    | .served _ => ∃ c, starts (appResponse pg m nh bq r).1 = [(c, false)] ∧ 100 ≤ c ∧ c ≤ 599
    | .raised _ _ => starts (appResponse pg m nh bq r).1 = [] := by
  unfold appResponse
  have hL := C01_status_of_request_legal pg m nh bq
  generalize runRequest pg m nh bq = a at hL ⊢
  cases hx : a.exn with
  | some e => simp only [hx]; exact starts_tag _ _
  | none =>
    simp only [hx]
    by_cases hb : a.st.body = .page .nonIter
    · simp only [hb, if_true]; exact starts_tag _ _
    · simp only [hb, if_false]
      obtain ⟨c, hc, h1, h2⟩ := hL hx
      refine ⟨c, ?_, h1, h2⟩
      rw [starts_append, starts_tag, hc]
      rfl

/-- `start_response` calls made inside the redirector loop -/
def StartsOk (j : List Entry) : Redir → Prop
  | .served _ _ _ => ∃ c, starts j = [(c, false)] ∧ 100 ≤ c ∧ c ≤ 599
  | _ => starts j = []

theorem redirector_starts (pages : List Page) (nh gtb : Bool) (fuel : Nat) :
    ∀ (visited : List (Nat × Bool)) (cur : Nat) (m : Method) (bq : Bool) (r : Nat),
    StartsOk (redirector pages nh gtb fuel visited cur m bq r).1 (redirector pages nh gtb fuel visited cur m bq r).2 := by
  induction fuel with
  | zero => intro _ _ _ _ _; exact rfl
  | succ fuel ih =>
    intro visited cur m bq r
    have hA := appResponse_starts (pages.getD cur (notFoundPage gtb)) m nh bq r
    rw [redirector_succ]
    generalize appResponse (pages.getD cur (notFoundPage gtb)) m nh bq r = ar at hA ⊢
    obtain ⟨j, ini⟩ := ar
    cases ini with
    | served st => exact hA
    | raised e tb =>
      simp only at hA ⊢
      cases e with
      | internalRedirect t =>
        simp only []
        split
        · exact hA
        · have h2 := ih (visited ++ [(cur, bq)]) t .get false (r + 1)
          generalize redirector pages nh gtb fuel (visited ++ [(cur, bq)]) t .get false (r + 1) = res at h2 ⊢
          obtain ⟨j2, red⟩ := res
          cases red with
          | served st pg rl =>
            obtain ⟨c, hc, hb⟩ := h2
            exact ⟨c, by simp only [starts_append, hA, hc, List.nil_append], hb⟩
          | raised e tb => simp only [StartsOk] at h2 ⊢; simp only [starts_append, hA, h2, List.nil_append]
          | outOfFuel => simp only [StartsOk] at h2 ⊢; simp only [starts_append, hA, h2, List.nil_append]
      | httpError c => exact hA
      | httpRedirect c => exact hA
      | exc => exact hA

/-- **C01_started_once_legal**: over the whole conversation `start_response` is called with a status
    code in 100..599 exactly once without `exc_info` — or not at all by the application proper, when
    the trapper answers before the callable returns — and a second time only by the trapper, with
    `exc_info` and status 500. -/
theorem C01_started_once_legal (p : Plan) :
    ∃ c, 100 ≤ c ∧ c ≤ 599 ∧
      (starts (call p).j = [(c, false)] ∨ starts (call p).j = [(c, false), (500, true)] ∨
       starts (call p).j = [(500, true)]) := by
  have hfuel := fuel_sufficient p
  have h := redirector_starts p.pages p.noHost p.globalTb (p.pages.length + 2) [] p.start p.meth p.badQuery 0
  unfold call at hfuel ⊢
  generalize redirector p.pages p.noHost p.globalTb (p.pages.length + 2) [] p.start p.meth p.badQuery 0 = res at h hfuel ⊢
  obtain ⟨j, red⟩ := res
  cases red with
  | outOfFuel => simp at hfuel
  | raised e tb =>
    simp only [StartsOk] at h
    simp only [trapCatches, if_true, starts_append, h, starts_replicate]
    exact ⟨500, by omega, by omega, Or.inr (Or.inr rfl)⟩
  | served st pg r =>
    simp only [StartsOk] at h ⊢
    obtain ⟨c, hc, h1, h2⟩ := h
    refine ⟨c, h1, h2, ?_⟩
    split
    · right; left
      rw [starts_append, starts_append, hc, starts_closeCalls]
      rfl
    · left
      rw [starts_append, hc, starts_closeCalls]
      rfl

/-- the trapper's answer is always a 500 (with `exc_info`) -/
theorem C01_trapped_is_500 (p : Plan) (h : (call p).trappedAtInit = true) :
    starts (call p).j = [(500, true)] := by
  have hs := redirector_starts p.pages p.noHost p.globalTb (p.pages.length + 2) [] p.start p.meth p.badQuery 0
  unfold call at h ⊢
  generalize redirector p.pages p.noHost p.globalTb (p.pages.length + 2) [] p.start p.meth p.badQuery 0 = res at hs h ⊢
  obtain ⟨j, red⟩ := res
  cases red with
  | outOfFuel => simp at h
  | raised e tb =>
    simp only [StartsOk] at hs
    simp only [trapCatches, if_true, starts_append, hs, starts_replicate]
    rfl
  | served st pg r =>
    simp only at h
    split at h <;> simp at h

/-! ### an unexpected failure is answered with a 5xx -/

/-- the callback raises `HTTPRedirect` or `InternalRedirect` — the two ways an application turns an
    error into a redirect -/
def isRedir : Exn → Bool
  | .httpRedirect _ => true
  | .internalRedirect _ => true
  | _ => false

def redirects (o : Out) : Bool :=
  match o.raised with
  | some e => isRedir e
  | none => false

/-- No user callback on the error path (`before_error_response` / `after_error_response` hooks, a custom
    `error_response`) raises a redirect. -/
def PlainErrorPath (pg : Page) : Prop :=
  (∀ h ∈ pg.hooks .beforeErrorResponse, redirects h.out = false) ∧
  (∀ h ∈ pg.hooks .afterErrorResponse, redirects h.out = false) ∧
  (∀ o, pg.errorResponse = some o → redirects o = false)

theorem runHooks_exn_mem (b : Bool) (l : List Hook) (e : Exn) (h : (runHooks b l).2 = some e) :
    ∃ x ∈ l, x.out.raised = some e := by
  induction l generalizing b with
  | nil => simp [runHooks] at h
  | cons x rest ih =>
    simp only [runHooks] at h
    split at h
    · obtain ⟨y, hy, hr⟩ := ih b h
      exact ⟨y, by simp [hy], hr⟩
    · split at h
      · obtain ⟨y, hy, hr⟩ := ih b h
        exact ⟨y, by simp [hy], hr⟩
      · rename_i e0 he0
        simp only [Option.some.injEq] at h
        cases hr : (runHooks true rest).2 with
        | none => simp [hr] at h; exact ⟨x, by simp, by rw [he0, h]⟩
        | some e1 =>
          simp [hr] at h
          subst h
          obtain ⟨y, hy, hr'⟩ := ih true hr
          exact ⟨y, by simp [hy], hr'⟩

theorem run_exn_mem (l : List Hook) (e : Exn) (h : (CpModel.Hooks.run l).2 = some e) :
    ∃ x ∈ l, x.out.raised = some e := by
  obtain ⟨x, hx, hr⟩ := runHooks_exn_mem false (sortByPrio l) e h
  exact ⟨x, (sortByPrio_perm l).mem_iff.mp hx, hr⟩

theorem runPoint_exn_plain (pg : Page) (p : Point) (s : St)
    (hp : ∀ h ∈ pg.hooks p, redirects h.out = false) (e : Exn) (he : (runPoint pg p s).exn = some e) :
    isRedir e = false := by
  have : (CpModel.Hooks.run (hooksAt pg s p)).2 = some e := he
  obtain ⟨x, hx, hr⟩ := run_exn_mem _ e this
  have hx' : x ∈ pg.hooks p := by
    unfold hooksAt at hx
    split at hx
    · exact hx
    · cases hx
  have := hp x hx'
  simpa [redirects, hr] using this

theorem finalize_out (pg : Page) (s : St) (h : (finalize pg s).exn = none) :
    (finalize pg s).st.out = some (statusCode s) := by
  unfold finalize at h ⊢
  generalize statusCode s = code at h ⊢
  simp only [] at h ⊢
  cases hc : inRanges CpModel.Gen.Pipeline.validStatusRanges code with
  | false => simp [hc] at h
  | true =>
    simp only [hc, Bool.not_true, Bool.false_eq_true, if_false] at h ⊢
    split
    · split
      · split <;> rfl
      · rfl
    · split
      · rename_i h1 h2; simp [h1, h2] at h
      · split <;> rfl

theorem finalize_exn (pg : Page) (s : St) (e : Exn) (h : (finalize pg s).exn = some e) : isRedir e = false := by
  unfold finalize at h
  simp only [] at h
  repeat' split at h
  all_goals first | (cases h; rfl) | (simp at h)

theorem setResponseError_exn (pg : Page) (c : Nat) (s : St) (e : Exn)
    (h : (setResponseError pg c s).exn = some e) : isRedir e = false := by
  unfold setResponseError at h
  simp only [] at h
  split at h
  all_goals first | (cases h; rfl) | (simp at h)

theorem callErrorResponse_spec (pg : Page) (s : St) (hp : ∀ o, pg.errorResponse = some o → redirects o = false) :
    match (callErrorResponse pg s).exn with
    | none => 500 ≤ statusCode (callErrorResponse pg s).st
    | some e => isRedir e = false := by
  unfold callErrorResponse
  cases her : errorResponseOf pg s with
  | none =>
    simp only []
    cases hx : (setResponseError pg 500 s).exn with
    | some e => exact setResponseError_exn pg 500 s e hx
    | none =>
      simp only []
      unfold setResponseError at hx ⊢
      simp only [] at hx ⊢
      split <;> simp_all [statusCode]
  | some o =>
    have ho : redirects o = false := by
      unfold errorResponseOf at her
      split at her
      · exact hp o her
      · cases her
    simp only []
    cases hr : o.raised with
    | some e => simp only []; simpa [redirects, hr] using ho
    | none => simp [statusCode]

theorem runPoint_st (pg : Page) (p : Point) (s : St) : (runPoint pg p s).st = s := rfl

/-- `a` ended normally in a state satisfying `P`, or with an exception that is not a redirect -/
def Good (P : St → Prop) (a : R) : Prop :=
  match a.exn with
  | none => P a.st
  | some e => isRedir e = false

theorem good_andThen {P P' : St → Prop} {a : R} {f : St → R} (ha : Good P a)
    (hf : ∀ s, P s → Good P' (f s)) : Good P' (a.andThen f) := by
  cases he : a.exn with
  | some e =>
    rw [andThen_of_some he]
    unfold Good at ha ⊢
    simp only [he] at ha ⊢
    exact ha
  | none =>
    rw [andThen_of_none he]
    unfold Good at ha
    simp only [he] at ha
    have := hf a.st ha
    unfold Good at this ⊢
    exact this

/-- the `try` block of `handle_error` on a plain error path: it either finalizes a 5xx or fails with
    something that is not a redirect -/
theorem handleErrorTry_spec (pg : Page) (s : St) (hp : PlainErrorPath pg) :
    Good (fun s' => ∃ c, s'.out = some c ∧ 500 ≤ c) (handleErrorTry pg s) := by
  unfold handleErrorTry
  have g1 : Good (fun _ => True) (runPoint pg .beforeErrorResponse s) := by
    unfold Good
    cases hx : (runPoint pg .beforeErrorResponse s).exn with
    | none => trivial
    | some e => exact runPoint_exn_plain pg _ s hp.1 e hx
  have g2 : ∀ s, True → Good (fun s' => 500 ≤ statusCode s') (callErrorResponse pg s) := by
    intro s _
    have := callErrorResponse_spec pg s hp.2.2
    unfold Good
    exact this
  have g3 : ∀ s, 500 ≤ statusCode s → Good (fun s' => 500 ≤ statusCode s') (runPoint pg .afterErrorResponse s) := by
    intro s hs
    unfold Good
    cases hx : (runPoint pg .afterErrorResponse s).exn with
    | none => exact hs
    | some e => exact runPoint_exn_plain pg _ s hp.2.1 e hx
  have g4 : ∀ s, 500 ≤ statusCode s → Good (fun s' => ∃ c, s'.out = some c ∧ 500 ≤ c) (finalize pg s) := by
    intro s hs
    unfold Good
    cases hx : (finalize pg s).exn with
    | none => exact ⟨statusCode s, finalize_out pg s hx, hs⟩
    | some e => exact finalize_exn pg s e hx
  exact good_andThen (good_andThen (good_andThen g1 g2) g3) g4

/-- **C01_error_path_is_5xx**: whenever `respond`'s protected block ends with an exception other than
    `InternalRedirect` — i.e. whenever `handle_error` runs: an arbitrary exception from any stage, an
    `HTTPError`/`HTTPRedirect` raised too late (`on_end_resource`, the re-run of `before_finalize`,
    a failing `finalize`/`set_response`) — and no error-path callback raises a redirect, `Request.run`
    returns with a status ≥ 500 (the error page, a custom error response, or `bare_error`). -/
theorem C01_error_path_is_5xx (pg : Page) (m : Method) (nh bq : Bool) (hp : PlainErrorPath pg) (e : Exn)
    (he : (protectedBlock pg m nh bq {}).exn = some e) (hne : ∀ t, e ≠ .internalRedirect t) :
    (runRequest pg m nh bq).exn = none ∧ ∃ c, (runRequest pg m nh bq).st.out = some c ∧ 500 ≤ c := by
  have hresp : respond pg m nh bq {} =
      { handleError pg (protectedBlock pg m nh bq {}).st with
        j := (protectedBlock pg m nh bq {}).j ++ (handleError pg (protectedBlock pg m nh bq {}).st).j } := by
    unfold respond
    cases e with
    | internalRedirect t => exact absurd rfl (hne t)
    | httpError c => simp only [he]
    | httpRedirect c => simp only [he]
    | exc => simp only [he]
  have hT := handleErrorTry_spec pg (protectedBlock pg m nh bq {}).st hp
  have hH : Good (fun s' => ∃ c, s'.out = some c ∧ 500 ≤ c) (handleError pg (protectedBlock pg m nh bq {}).st) := by
    unfold handleError
    generalize handleErrorTry pg (protectedBlock pg m nh bq {}).st = a at hT
    unfold Good at hT
    simp only []
    cases hx : a.exn with
    | none =>
      simp only [hx] at hT
      show Good _ a
      unfold Good; rw [hx]; exact hT
    | some e' =>
      simp only [hx] at hT
      cases e' with
      | httpRedirect c => simp [isRedir] at hT
      | internalRedirect t => simp [isRedir] at hT
      | httpError c => show Good _ a; unfold Good; rw [hx]; rfl
      | exc => show Good _ a; unfold Good; rw [hx]; rfl
  unfold runRequest
  rw [hresp]
  simp only []
  generalize handleError pg (protectedBlock pg m nh bq {}).st = b at hH
  unfold Good at hH
  cases hb : b.exn with
  | none =>
    simp only [hb] at hH ⊢
    refine ⟨by split <;> rfl, ?_⟩
    split <;> exact hH
  | some e' =>
    simp only [hb] at hH
    cases e' with
    | internalRedirect t => simp [isRedir] at hH
    | httpRedirect c => simp [isRedir] at hH
    | httpError c => simp only []; refine ⟨by first | trivial | rfl, 500, ?_, by omega⟩; split <;> rfl
    | exc => simp only []; refine ⟨by first | trivial | rfl, 500, ?_, by omega⟩; split <;> rfl

/-- **C01_unexpected_is_5xx**: if an arbitrary `Exception` leaves `_do_respond` (a hook, the
    dispatcher, a namespace handler, the body processor, the handler, `finalize` choking on the body
    …), no `on_end_resource` hook raises `InternalRedirect`, and no error-path callback raises a
    redirect, the client is told a status ≥ 500. -/
theorem C01_unexpected_is_5xx (pg : Page) (m : Method) (nh bq : Bool) (hp : PlainErrorPath pg)
    (hexc : (doRespond pg m nh bq {}).exn = some .exc)
    (hoer : ∀ h ∈ pg.hooks .onEndResource, ∀ t, h.out.raised ≠ some (.internalRedirect t)) :
    (runRequest pg m nh bq).exn = none ∧ ∃ c, (runRequest pg m nh bq).st.out = some c ∧ 500 ≤ c := by
  have hblock : ∃ e, (protectedBlock pg m nh bq {}).exn = some e ∧ ∀ t, e ≠ .internalRedirect t := by
    unfold protectedBlock R.finallyDo
    have hEB : exceptBranch pg (doRespond pg m nh bq {}) = doRespond pg m nh bq {} := by
      unfold exceptBranch; simp only [hexc]
    rw [hEB]
    simp only [hexc]
    cases hx : (runPoint pg .onEndResource (doRespond pg m nh bq {}).st).exn with
    | none => exact ⟨.exc, rfl, fun t h => by cases h⟩
    | some e' =>
      refine ⟨e', rfl, fun t h => ?_⟩
      subst h
      obtain ⟨x, hx1, hx2⟩ := run_exn_mem _ _ (show (CpModel.Hooks.run (hooksAt pg (doRespond pg m nh bq {}).st .onEndResource)).2 = some (.internalRedirect t) from hx)
      have hx' : x ∈ pg.hooks .onEndResource := by
        unfold hooksAt at hx1
        split at hx1
        · exact hx1
        · cases hx1
      exact hoer x hx' t hx2
  obtain ⟨e, he, hne⟩ := hblock
  exact C01_error_path_is_5xx pg m nh bq hp e he hne

/-- non-vacuity: a handler raising an Exception on a page with error hooks that behave -/
example : PlainErrorPath { handler := { out := .exc }, hooks := fun p => if p = .beforeErrorResponse then [⟨1, 50, false, .exc⟩] else [] }
    ∧ (doRespond { handler := { out := .exc }, hooks := fun p => if p = .beforeErrorResponse then [⟨1, 50, false, .exc⟩] else [] }
        .get false false {}).exn = some .exc := by
  refine ⟨⟨?_, ?_, ?_⟩, by decide⟩
  · intro h hh; simp at hh; subst hh; decide
  · intro h hh; simp at hh
  · intro o ho; cases ho

/-- …and an error hook that redirects does change the status (why the hypothesis is needed) -/
example : (runRequest { handler := { out := .exc },
                        hooks := fun p => if p = .beforeErrorResponse then [⟨1, 50, false, .httpRedirect 303⟩] else [] }
            .get false false).st.out = some 303 := by decide

/-- a failing handler on a page whose `before_error_response` hook raises `HTTPRedirect(303)` -/
def redirectingErrorHookPage : Page :=
  { handler := { out := .exc }
    hooks := fun p => if p = .beforeErrorResponse then [⟨1, 50, false, .httpRedirect 303⟩] else [] }

/-- The 5xx clause without the error-path hypothesis: every unexpected failure is answered ≥ 500. -/
def C01_unexpected_is_5xx_full : Prop :=
  ∀ (pg : Page) (m : Method) (nh bq : Bool), (doRespond pg m nh bq {}).exn = some .exc →
    ∃ c, (runRequest pg m nh bq).st.out = some c ∧ 500 ≤ c

/-- It cannot hold as such: an application whose `before_error_response` hook raises `HTTPRedirect(303)`
    gets its 303 (by design — this is the application's own choice, not a defect; the hypothesis
    `PlainErrorPath` of `C01_unexpected_is_5xx` excludes exactly this). -/
theorem C01_unexpected_is_5xx_full_false : ¬ C01_unexpected_is_5xx_full := by
  intro h
  obtain ⟨c, hc, h5⟩ := h redirectingErrorHookPage .get false false (by decide)
  have h303 : (runRequest redirectingErrorHookPage .get false false).st.out = some 303 := by decide
  rw [h303] at hc
  cases hc
  omega

/-- every code `HTTPRedirect.set_response` knows is a status `finalize` accepts (generated tables) -/
theorem redirectKnown_valid : ∀ c ∈ CpModel.Gen.Pipeline.redirectKnownCodes,
    inRanges CpModel.Gen.Pipeline.validStatusRanges c = true ∧ c ≠ 0 := by decide

/-- **the status is then the hook's**: when the error path itself raises `HTTPRedirect(c)` (a
    `before/after_error_response` hook or a custom `error_response` turning the failure into a redirect)
    with a code `set_response` knows, `handle_error` answers with exactly that code — the case excluded by
    `PlainErrorPath` in `C01_error_path_is_5xx`. -/
theorem C01_error_hook_redirect_status (pg : Page) (s : St) (c : Nat)
    (h : (handleErrorTry pg s).exn = some (.httpRedirect c)) (hk : redirectKnown c = true) :
    (handleError pg s).exn = none ∧ (handleError pg s).st.out = some c := by
  have hmem : c ∈ CpModel.Gen.Pipeline.redirectKnownCodes := by
    simpa [redirectKnown] using hk
  obtain ⟨hv, hz⟩ := redirectKnown_valid c hmem
  unfold handleError
  simp only [h]
  have hset : setResponseRedirect c (handleErrorTry pg s).st =
      { st := { (handleErrorTry pg s).st with status := some c, body := .redirect } } := by
    unfold setResponseRedirect
    simp only [hk, if_true]
  rw [hset]
  have hnone : ({ st := { (handleErrorTry pg s).st with status := some c, body := .redirect } } : R).exn = none := rfl
  rw [andThen_of_none hnone]
  simp only []
  have hcode : statusCode { (handleErrorTry pg s).st with status := some c, body := .redirect } = c := by
    unfold statusCode
    cases c with
    | zero => exact absurd rfl hz
    | succ n => rfl
  unfold finalize
  simp only [hcode, hv, Bool.not_true, Bool.false_eq_true, if_false]
  split
  · split
    · split
      · rename_i hif; simp [BodyK.iterFails] at hif
      · exact ⟨rfl, rfl⟩
    · exact ⟨rfl, rfl⟩
  · split
    · rename_i hif; simp [BodyK.iterFails] at hif
    · split <;> exact ⟨rfl, rfl⟩

/-- non-vacuity: a `before_error_response` hook raising `HTTPRedirect(303)` -/
example : (handleErrorTry { hooks := fun p => if p = .beforeErrorResponse then [⟨1, 50, false, .httpRedirect 303⟩] else [] }
    { attached := true }).exn = some (.httpRedirect 303) := by decide

/-! ### tracebacks off ⇒ no traceback / exception text — false in one way (F2), true otherwise -/

def showsTb : BodyK → Bool
  | .errorPage tb _ => tb
  | .errorCb tb => tb
  | .bare tb => tb
  | _ => false

/-- "In addition, the custom error page failed: <formatted exception>" -/
def showsMsg : BodyK → Bool
  | .errorPage _ m => m
  | _ => false

/-- the response carries traceback text, file paths or an exception message -/
def leaks (res : Result) : Bool := showsTb res.body || showsMsg res.body || res.tail == some true

/-- The statement at full strength: with `request.show_tracebacks` false (the attribute of the last
    Request object) the response never contains traceback text or the exception message. -/
def C01_no_leak_full : Prop := ∀ p : Plan, (call p).reqShowTb = false → leaks (call p) = false

/-- Former F1 witness (repaired): `/p0` raises `InternalRedirect('/p0')` with `show_tracebacks` off. -/
def witnessF1 : Plan :=
  { pages := [{ showTb := false, handler := { out := .internalRedirect 0 } }], globalTb := false }

/-- F2 witness: the handler fails, the `error_page` callable raises, `show_tracebacks` off. -/
def witnessF2 : Plan :=
  { pages := [{ showTb := false, handler := { out := .exc }, errorPage := .cbFail }], globalTb := false }

/-- **F1 repaired**: the trapper-level 500 of the redirect loop no longer shows the traceback. -/
theorem C01_F1_witness_repaired :
    (call witnessF1).trappedAtInit = true ∧ (call witnessF1).reqShowTb = false ∧
      (call witnessF1).body = .bare false ∧ leaks (call witnessF1) = false := by
  decide

/-- the trapper's answer after the release shows the traceback iff the released request's
    `show_tracebacks` was on -/
theorem C01_trapper_honours_released_flag (p : Plan) (h : (call p).trappedAtInit = true) :
    (call p).body = .bare (call p).reqShowTb := by
  unfold call at h ⊢
  generalize redirector p.pages p.noHost p.globalTb (p.pages.length + 2) [] p.start p.meth p.badQuery 0 = res at h ⊢
  obtain ⟨j, red⟩ := res
  cases red with
  | outOfFuel => simp at h
  | raised e tb => simp only [trapCatches, if_true]
  | served st pg r =>
    simp only at h
    split at h <;> simp at h

/-- **F2**: the failing `error_page` callable's exception text is pasted into the page. -/
theorem C01_no_leak_full_false_F2 :
    (call witnessF2).reqShowTb = false ∧ leaks (call witnessF2) = true ∧
      (call witnessF2).body = .errorPage false true := by
  decide

theorem C01_no_leak_full_false : ¬ C01_no_leak_full := by
  intro h
  have := h witnessF2 C01_no_leak_full_false_F2.1
  rw [C01_no_leak_full_false_F2.2.1] at this
  cases this

/-- Invariant of the response state of one Request object: a traceback is shown only if the request's
    `show_tracebacks` is on; the "custom error page failed" text only with a failing callable. -/
def Inv (pg : Page) (s : St) : Prop :=
  (showsTb s.body = true → showTb pg s = true) ∧ (showsMsg s.body = true → errorPageOf pg s = .cbFail)

theorem inv_andThen (pg : Page) {a : R} {f : St → R} (ha : Inv pg a.st) (hf : ∀ s, Inv pg s → Inv pg (f s).st) :
    Inv pg (a.andThen f).st := by
  cases he : a.exn with
  | some e => rw [andThen_of_some he]; exact ha
  | none => rw [andThen_of_none he]; exact hf _ ha

theorem inv_runPoint (pg : Page) (p : Point) (s : St) (h : Inv pg s) : Inv pg (runPoint pg p s).st := h

theorem inv_raiseIf (pg : Page) (o : Option Exn) (s : St) (h : Inv pg s) : Inv pg (raiseIf o s).st := h

theorem showsTb_collapsed (b : BodyK) : showsTb b.collapsed = showsTb b := by
  cases b with
  | page sh => cases sh <;> rfl
  | _ => rfl

theorem showsMsg_collapsed (b : BodyK) : showsMsg b.collapsed = showsMsg b := by
  cases b with
  | page sh => cases sh <;> rfl
  | _ => rfl

theorem inv_finalize (pg : Page) (s : St) (h : Inv pg s) : Inv pg (finalize pg s).st := by
  unfold finalize
  simp only []
  obtain ⟨h1, h2⟩ := h
  repeat' split
  all_goals first
    | exact ⟨h1, h2⟩
    | (refine ⟨fun hh => ?_, fun hh => ?_⟩
       · have hh' : showsTb s.body.collapsed = true := hh
         rw [showsTb_collapsed] at hh'; exact h1 hh'
       · have hh' : showsMsg s.body.collapsed = true := hh
         rw [showsMsg_collapsed] at hh'; exact h2 hh')
    | (refine ⟨fun hh => ?_, fun hh => ?_⟩
       · simp [showsTb] at hh
       · simp [showsMsg] at hh)

theorem inv_callHandler (pg : Page) (s : St) (h : Inv pg s) : Inv pg (callHandler pg s).st := by
  unfold callHandler
  obtain ⟨h1, h2⟩ := h
  repeat' split
  all_goals first
    | exact ⟨h1, h2⟩
    | (refine ⟨fun hh => ?_, fun hh => ?_⟩ <;> simp [showsTb, showsMsg] at hh)

theorem inv_setResponseError (pg : Page) (c : Nat) (s : St) (h : Inv pg s) :
    Inv pg (setResponseError pg c s).st := by
  unfold setResponseError
  simp only []
  obtain ⟨h1, h2⟩ := h
  split
  · refine ⟨fun hh => ?_, fun hh => ?_⟩
    · simpa [showsTb, showTb] using hh
    · simp [showsMsg] at hh
  · refine ⟨fun hh => ?_, fun hh => ?_⟩
    · simpa [showsTb, showTb] using hh
    · simp [showsMsg] at hh
  · rename_i hcb
    refine ⟨fun hh => ?_, fun _ => ?_⟩
    · simpa [showsTb, showTb] using hh
    · simpa [errorPageOf] using hcb
  · exact ⟨h1, h2⟩

theorem inv_setResponseRedirect (pg : Page) (c : Nat) (s : St) (h : Inv pg s) :
    Inv pg (setResponseRedirect c s).st := by
  unfold setResponseRedirect
  simp only []
  obtain ⟨h1, h2⟩ := h
  split
  · refine ⟨fun hh => ?_, fun hh => ?_⟩ <;> simp [showsTb, showsMsg] at hh
  · exact ⟨h1, h2⟩

theorem inv_callErrorResponse (pg : Page) (s : St) (h : Inv pg s) : Inv pg (callErrorResponse pg s).st := by
  unfold callErrorResponse
  split
  · exact inv_setResponseError pg 500 s h
  · split
    · exact h
    · refine ⟨fun hh => ?_, fun hh => ?_⟩ <;> simp [showsTb, showsMsg] at hh

theorem inv_doRespond (pg : Page) (m : Method) (nh bq : Bool) : Inv pg (doRespond pg m nh bq {}).st := by
  unfold doRespond
  -- up to and including the namespace step the body is still empty
  have h0 : Inv pg (((raiseIf (if nh then some (.httpError 400) else none) ({} : St)).andThen
      (raiseIf pg.dispatch.raised)).andThen (fun s => raiseIf pg.ns.raised { s with attached := true })).st := by
    have hbody : ∀ a : R, a.st.body = .empty → Inv pg a.st := by
      intro a hb; refine ⟨fun hh => ?_, fun hh => ?_⟩ <;> simp [hb, showsTb, showsMsg] at hh
    apply hbody
    cases nh <;> cases h1 : pg.dispatch.raised <;> cases h2 : pg.ns.raised <;>
      simp [R.andThen, raiseIf, h1, h2]
  exact inv_andThen pg (inv_andThen pg (inv_andThen pg (inv_andThen pg (inv_andThen pg (inv_andThen pg
    (inv_andThen pg (inv_andThen pg h0 (inv_runPoint pg _)) (inv_raiseIf pg _)) (inv_runPoint pg _))
    (inv_raiseIf pg _)) (inv_runPoint pg _)) (inv_callHandler pg)) (inv_runPoint pg _)) (inv_finalize pg)

theorem inv_exceptBranch (pg : Page) (a : R) (h : Inv pg a.st) : Inv pg (exceptBranch pg a).st := by
  unfold exceptBranch
  split
  · exact inv_andThen pg (inv_andThen pg (inv_setResponseError pg _ _ h) (inv_runPoint pg _)) (inv_finalize pg)
  · exact inv_andThen pg (inv_andThen pg (inv_setResponseRedirect pg _ _ h) (inv_runPoint pg _)) (inv_finalize pg)
  · exact h

theorem inv_handleError (pg : Page) (s : St) (h : Inv pg s) : Inv pg (handleError pg s).st := by
  unfold handleError
  have hT : Inv pg (handleErrorTry pg s).st := by
    unfold handleErrorTry
    exact inv_andThen pg (inv_andThen pg (inv_andThen pg (inv_runPoint pg _ s h) (inv_callErrorResponse pg))
      (inv_runPoint pg _)) (inv_finalize pg)
  generalize handleErrorTry pg s = a at hT
  simp only []
  split
  · exact inv_andThen pg (inv_setResponseRedirect pg _ _ hT) (inv_finalize pg)
  · exact hT

theorem inv_runRequest (pg : Page) (m : Method) (nh bq : Bool) : Inv pg (runRequest pg m nh bq).st := by
  have hP : Inv pg (protectedBlock pg m nh bq {}).st := by
    unfold protectedBlock R.finallyDo
    exact inv_exceptBranch pg _ (inv_doRespond pg m nh bq)
  have hR : Inv pg (respond pg m nh bq {}).st := by
    unfold respond
    generalize protectedBlock pg m nh bq {} = a at hP
    simp only []
    split
    · exact hP
    · exact hP
    · exact inv_handleError pg _ hP
  unfold runRequest
  generalize respond pg m nh bq {} = a at hR
  have hempty : ∀ s : St, Inv pg { s with body := .empty } := by
    intro s; refine ⟨fun hh => ?_, fun hh => ?_⟩ <;> simp [showsTb, showsMsg] at hh
  simp only []
  split
  · exact hR
  · split
    · exact hempty _
    · refine ⟨fun hh => ?_, fun hh => ?_⟩
      · simpa [showsTb, showTb] using hh
      · simp [showsMsg] at hh
  · split
    · exact hempty _
    · exact hR

/-- what the redirector hands to the server: the served Request object satisfies the invariant and its
    page is one of the plan's pages (or the no-such-path page) -/
def ServedOk (pages : List Page) (g : Bool) : Redir → Prop
  | .served st pg _ => Inv pg st ∧ (pg ∈ pages ∨ pg = notFoundPage g)
  | _ => True

theorem getD_mem (pages : List Page) (cur : Nat) (d : Page) : pages.getD cur d ∈ pages ∨ pages.getD cur d = d := by
  unfold List.getD
  cases h : pages[cur]? with
  | none => right; rfl
  | some x => left; exact List.mem_of_getElem? h

theorem redirector_served (pages : List Page) (nh g : Bool) (fuel : Nat) :
    ∀ (visited : List (Nat × Bool)) (cur : Nat) (m : Method) (bq : Bool) (r : Nat),
    ServedOk pages g (redirector pages nh g fuel visited cur m bq r).2 := by
  induction fuel with
  | zero => intro _ _ _ _ _; exact trivial
  | succ fuel ih =>
    intro visited cur m bq r
    rw [redirector_succ]
    have hI := inv_runRequest (pages.getD cur (notFoundPage g)) m nh bq
    have hM := getD_mem pages cur (notFoundPage g)
    have hserved : ∀ st, (appResponse (pages.getD cur (notFoundPage g)) m nh bq r).2 = .served st →
        Inv (pages.getD cur (notFoundPage g)) st := by
      intro st
      unfold appResponse
      simp only []
      split
      · intro h; cases h
      · split
        · intro h; cases h
        · intro h; cases h; exact hI
    generalize appResponse (pages.getD cur (notFoundPage g)) m nh bq r = ar at hserved ⊢
    obtain ⟨j, ini⟩ := ar
    cases ini with
    | served st => exact ⟨hserved st rfl, hM⟩
    | raised e tb =>
      cases e with
      | internalRedirect t =>
        simp only []
        split
        · exact trivial
        · exact ih _ _ _ _ _
      | httpError c => exact trivial
      | httpRedirect c => exact trivial
      | exc => exact trivial

/-- **C01_no_leak_partial**: with `show_tracebacks` off on the last Request object, the response
    carries no traceback text and no exception message — provided no page uses an `error_page` callable
    that raises (F2).  Covers the error pages of `HTTPError.set_response`, `bare_error` in `Request.run`,
    the trapper's 500 before the callable returns (the released request's flag) and mid-stream (the
    current request's flag), custom error responses, HEAD. -/
theorem C01_no_leak_partial (p : Plan) (hoff : (call p).reqShowTb = false)
    (hF2 : ∀ pg ∈ p.pages, pg.errorPage ≠ .cbFail) :
    leaks (call p) = false := by
  have hS := redirector_served p.pages p.noHost p.globalTb (p.pages.length + 2) [] p.start p.meth p.badQuery 0
  have hfuel := fuel_sufficient p
  unfold call at hoff hfuel ⊢
  generalize redirector p.pages p.noHost p.globalTb (p.pages.length + 2) [] p.start p.meth p.badQuery 0 = res at hS hoff hfuel ⊢
  obtain ⟨j, red⟩ := res
  cases red with
  | outOfFuel => simp at hfuel
  | raised e tb =>
    simp only [trapCatches, if_true] at hoff ⊢
    simp [leaks, showsTb, showsMsg, hoff]
  | served st pg r =>
    obtain ⟨⟨h1, h2⟩, hmem⟩ := hS
    have hcb : errorPageOf pg st ≠ .cbFail := by
      unfold errorPageOf
      split
      · rcases hmem with hm | hm
        · exact hF2 pg hm
        · rw [hm]; simp [notFoundPage]
      · simp
    simp only at hoff ⊢
    have htb : showTb pg st = false := by
      split at hoff <;> exact hoff
    have hb1 : showsTb st.body = false := by
      cases hh : showsTb st.body with
      | false => rfl
      | true => rw [h1 hh] at htb; cases htb
    have hb2 : showsMsg st.body = false := by
      cases hh : showsMsg st.body with
      | false => rfl
      | true => exact absurd (h2 hh) hcb
    split <;> simp [leaks, hb1, hb2, htb]

/-- non-vacuity of `C01_no_leak_partial`: a failing handler with tracebacks off, answered by the
    ordinary error page -/
example : (call { pages := [{ showTb := false, handler := { out := .exc } }] }).reqShowTb = false ∧
    (call { pages := [{ showTb := false, handler := { out := .exc } }] }).body = .errorPage false false := by
  decide

end CpProofs.C01
