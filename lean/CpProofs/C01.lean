import CpModel.Wsgi
import CpProofs.C09
/-!
  C01 — every request yields exactly one well-formed response; errors are contained.

  Theorems about `CpModel.Wsgi.call` for **every** fault plan: any number of pages, unbounded hook
  lists at every point, any outcome at any callback site (dispatcher, namespace handler, hooks, body
  processor, handler, error_response, error_page), any handler return shape and status, any
  internal-redirect chain or loop, both `show_tracebacks` values, `throw_errors` off.
-/
namespace CpProofs.C01
open CpModel.Hooks CpModel.Pipeline CpModel.Wsgi CpProofs.C09

/-! ### the redirect loop terminates within the fuel `call` supplies -/

/-- pages (indices below `n`) not yet on the redirector's visited list (as redirect targets, i.e.
    without a query string) -/
def unv (n : Nat) (v : List (Nat × Bool)) : Nat :=
  ((List.range n).filter fun i => decide ((i, false) ∉ v)).length

theorem filter_remove (L : List Nat) (hn : L.Nodup) (t : Nat) (ht : t ∈ L) (p q : Nat → Bool)
    (hq : ∀ i, q i = (p i && decide (i ≠ t))) (hp : p t = true) :
    (L.filter q).length + 1 = (L.filter p).length := by
  induction L with
  | nil => cases ht
  | cons x xs ih =>
    have hx : x ∉ xs := (List.nodup_cons.mp hn).1
    have hxs : xs.Nodup := (List.nodup_cons.mp hn).2
    by_cases hxt : x = t
    · subst hxt
      have same : xs.filter q = xs.filter p := by
        apply List.filter_congr
        intro i hi
        have : i ≠ x := fun h => hx (h ▸ hi)
        simp [hq, this]
      simp [List.filter_cons, hq x, hp, same]
    · have htx : t ∈ xs := by
        rcases List.mem_cons.mp ht with h | h
        · exact absurd h.symm hxt
        · exact h
      have := ih hxs htx
      simp only [List.filter_cons, hq x, hxt, ne_eq, not_false_eq_true, decide_true, Bool.and_true]
      by_cases hpx : p x = true
      · simp [hpx]; omega
      · simp [hpx]; omega

theorem unv_le (n : Nat) (v : List (Nat × Bool)) : unv n v ≤ n := by
  have := List.length_filter_le (fun i => decide ((i, false) ∉ v)) (List.range n)
  simpa [unv] using this

theorem unv_visit (n : Nat) (v : List (Nat × Bool)) (t : Nat) (ht : t < n) (hv : (t, false) ∉ v) :
    unv n (v ++ [(t, false)]) + 1 = unv n v := by
  unfold unv
  apply filter_remove (List.range n) List.nodup_range t (List.mem_range.mpr ht)
  · intro i
    by_cases h : i = t <;> simp [h]
  · simpa using hv

/-- a path without a page cannot redirect: nothing configured there can raise `InternalRedirect` -/
theorem notFound_no_redirect (g : Bool) (m : Method) (nh bq : Bool) :
    (runRequest (notFoundPage g) m nh bq).exn = none := by
  cases g <;> cases m <;> cases nh <;> cases bq <;> decide

def isOOF : Redir → Bool
  | .outOfFuel => true
  | _ => false

theorem appResponse_notFound (g : Bool) (m : Method) (nh bq : Bool) (r t : Nat) (tb : Bool) :
    (appResponse (notFoundPage g) m nh bq r).2 ≠ .raised (.internalRedirect t) tb := by
  have hno := notFound_no_redirect g m nh bq
  unfold appResponse
  simp only [hno]
  split <;> simp

theorem redirector_fuel (pages : List Page) (nh g : Bool) (fuel : Nat) :
    ∀ (visited : List (Nat × Bool)) (cur : Nat) (m : Method) (bq : Bool) (r : Nat),
    (cur < pages.length → unv pages.length (visited ++ [(cur, bq)]) + 2 ≤ fuel) →
    (pages.length ≤ cur → 1 ≤ fuel) →
    isOOF (redirector pages nh g fuel visited cur m bq r).2 = false := by
  induction fuel with
  | zero =>
    intro visited cur m bq r h1 h2
    by_cases h : cur < pages.length
    · have := h1 h; omega
    · have := h2 (by omega); omega
  | succ fuel ih =>
    intro visited cur m bq r h1 h2
    rw [redirector_succ]
    generalize har : appResponse (pages.getD cur (notFoundPage g)) m nh bq r = ar
    obtain ⟨j, ini⟩ := ar
    cases ini with
    | served st => rfl
    | raised e tb =>
      cases e with
      | internalRedirect t =>
        simp only []
        split
        · rfl
        · rename_i hnot
          have hcur : cur < pages.length := by
            apply Classical.byContradiction
            intro hc
            have hget : pages.getD cur (notFoundPage g) = notFoundPage g := by
              simp [List.getD, List.getElem?_eq_none (by omega : pages.length ≤ cur)]
            rw [hget] at har
            exact appResponse_notFound g m nh bq r t tb (by rw [har])
          have hf := h1 hcur
          apply ih
          · intro ht
            have := unv_visit pages.length (visited ++ [(cur, bq)]) t ht hnot
            omega
          · intro _; omega
      | httpError c => rfl
      | httpRedirect c => rfl
      | exc => rfl

/-- **fuel_sufficient**: the model artefact `outOfFuel` is unreachable — the `InternalRedirector` loop
    ends after at most `pages + 1` requests, because a redirect to an URL visited before raises. -/
theorem fuel_sufficient (p : Plan) : (call p).outOfFuel = false := by
  have h := redirector_fuel p.pages p.noHost p.globalTb (p.pages.length + 2) [] p.start p.meth p.badQuery 0
    (fun _ => by have := unv_le p.pages.length ([] ++ [(p.start, p.badQuery)]); omega) (fun _ => by omega)
  unfold call
  generalize redirector p.pages p.noHost p.globalTb (p.pages.length + 2) [] p.start p.meth p.badQuery 0 = res at h ⊢
  obtain ⟨j, red⟩ := res
  cases red with
  | outOfFuel => simp [isOOF] at h
  | raised e tb => simp only [trapCatches, if_true]
  | served st pg r => simp only []; split <;> rfl

/-! ### nothing escapes -/

/-- **C01_no_escape**: no exception leaves `app(environ, start_response)`, the iteration or `close()`:
    whatever leaves `AppResponse.__init__` or a `next` call is an `Exception` and `trap` turns it into
    a bare 500; `release_serving` drops what `on_end_request` hooks raise. -/
theorem C01_no_escape (p : Plan) : (call p).escaped = none := by
  unfold call
  split
  · rfl
  · simp only [trapCatches, if_true]
  · split <;> rfl

/-! ### `start_response`: once, with a legal status -/

/-- `start_response` calls in a journal: (status code, exc_info given?) -/
def starts (j : List Entry) : List (Nat × Bool) :=
  j.filterMap fun e => match e with | .start c b => some (c, b) | _ => none

@[simp] theorem starts_append (a b : List Entry) : starts (a ++ b) = starts a ++ starts b := by
  simp [starts]

theorem starts_tag (r : Nat) (j : List Ev) : starts (tag r j) = [] := by
  induction j with
  | nil => rfl
  | cons e rest ih => simpa [tag, starts] using ih

theorem starts_replicate (n : Nat) : starts (List.replicate n .closeCall) = [] := by
  induction n with
  | zero => rfl
  | succ n ih => simpa [List.replicate_succ, starts] using ih

theorem starts_cons_close (l : List Entry) : starts (.closeCall :: l) = starts l := rfl

theorem starts_closeCalls (pg : Page) (r : Nat) (st : St) (n : Nat) : starts (closeCalls pg r st n) = [] := by
  cases n with
  | zero => rfl
  | succ n =>
    simp only [closeCalls, List.cons_append, starts_cons_close, starts_append, starts_tag, starts_replicate,
      List.append_nil]

/-- the status code `finalize` / `bare_error` left in `output_status` is a legal one -/
def OutOk (s : St) : Prop := ∃ c, s.out = some c ∧ 100 ≤ c ∧ c ≤ 599

theorem finalize_ok (pg : Page) (s : St) (h : (finalize pg s).exn = none) : OutOk (finalize pg s).st := by
  unfold finalize at h ⊢
  generalize statusCode s = code at h ⊢
  simp only [] at h ⊢
  by_cases hc : code < 100 ∨ 599 < code
  · simp [hc] at h
  · simp only [hc, if_false] at h ⊢
    have hb : 100 ≤ code ∧ code ≤ 599 := by omega
    split
    · exact ⟨_, rfl, hb⟩
    · split
      · rename_i h1 h2; simp [h1, h2] at h
      · split <;> exact ⟨_, rfl, hb⟩

theorem andThen_of_none {a : R} {f : St → R} (he : a.exn = none) :
    a.andThen f = { j := a.j ++ (f a.st).j, st := (f a.st).st, exn := (f a.st).exn } := by
  unfold R.andThen; rw [he]

theorem andThen_of_some {a : R} {f : St → R} {e : Exn} (he : a.exn = some e) : a.andThen f = a := by
  unfold R.andThen; rw [he]

theorem andThen_none {a : R} {f : St → R} (h : (a.andThen f).exn = none) :
    a.exn = none ∧ (f a.st).exn = none ∧ (a.andThen f).st = (f a.st).st := by
  cases he : a.exn with
  | some e => rw [andThen_of_some he, he] at h; cases h
  | none => rw [andThen_of_none he] at h ⊢; exact ⟨rfl, h, rfl⟩

theorem andThen_finalize_ok (pg : Page) (a : R) (h : (a.andThen (finalize pg)).exn = none) :
    OutOk (a.andThen (finalize pg)).st := by
  obtain ⟨_, h2, h3⟩ := andThen_none h
  rw [h3]
  exact finalize_ok pg _ h2

theorem doRespond_ok (pg : Page) (m : Method) (nh bq : Bool) (s : St)
    (h : (doRespond pg m nh bq s).exn = none) : OutOk (doRespond pg m nh bq s).st := by
  unfold doRespond at h ⊢
  exact andThen_finalize_ok pg _ h

theorem exceptBranch_ok (pg : Page) (a : R) (ha : a.exn = none → OutOk a.st)
    (h : (exceptBranch pg a).exn = none) : OutOk (exceptBranch pg a).st := by
  unfold exceptBranch at h ⊢
  cases hx : a.exn with
  | none => simp only [hx] at h ⊢; exact ha hx
  | some e =>
    cases e with
    | httpError c => simp only [hx] at h ⊢; exact andThen_finalize_ok pg _ h
    | httpRedirect c => simp only [hx] at h ⊢; exact andThen_finalize_ok pg _ h
    | internalRedirect t => simp only [hx] at h ⊢; cases h
    | exc => simp only [hx] at h ⊢; cases h

theorem handleError_ok (pg : Page) (s : St) (h : (handleError pg s).exn = none) :
    OutOk (handleError pg s).st := by
  unfold handleError at h ⊢
  have hT : (handleErrorTry pg s).exn = none → OutOk (handleErrorTry pg s).st := by
    intro h0; unfold handleErrorTry at h0 ⊢; exact andThen_finalize_ok pg _ h0
  generalize handleErrorTry pg s = a at h hT ⊢
  cases hx : a.exn with
  | none => simp only [hx] at h ⊢; exact hT hx
  | some e =>
    cases e with
    | httpRedirect c => simp only [hx] at h ⊢; exact andThen_finalize_ok pg _ h
    | httpError c => simp only [hx] at h ⊢; cases h
    | internalRedirect t => simp only [hx] at h ⊢; cases h
    | exc => simp only [hx] at h ⊢; cases h

theorem finallyDo_none {a : R} {f : St → R} (h : (a.finallyDo f).exn = none) :
    a.exn = none ∧ (f a.st).exn = none ∧ (a.finallyDo f).st = (f a.st).st := by
  unfold R.finallyDo at h ⊢
  simp only [] at h ⊢
  cases hf : (f a.st).exn with
  | some e => simp [hf] at h
  | none =>
    simp only [hf] at h
    refine ⟨h, ?_, ?_⟩ <;> first | rfl | trivial

theorem protectedBlock_ok (pg : Page) (m : Method) (nh bq : Bool) (s : St)
    (h : (protectedBlock pg m nh bq s).exn = none) : OutOk (protectedBlock pg m nh bq s).st := by
  unfold protectedBlock at h ⊢
  obtain ⟨h1, _, h3⟩ := finallyDo_none h
  rw [h3]
  exact exceptBranch_ok pg _ (doRespond_ok pg m nh bq s) h1

theorem respond_ok (pg : Page) (m : Method) (nh bq : Bool) (h : (respond pg m nh bq {}).exn = none) :
    OutOk (respond pg m nh bq {}).st := by
  unfold respond at h ⊢
  have hP := protectedBlock_ok pg m nh bq {}
  generalize protectedBlock pg m nh bq {} = a at h hP ⊢
  cases hx : a.exn with
  | none => simp only [hx] at h ⊢; exact hP hx
  | some e =>
    cases e with
    | internalRedirect t => simp only [hx] at h ⊢; cases h
    | httpError c => simp only [hx] at h ⊢; exact handleError_ok pg _ h
    | httpRedirect c => simp only [hx] at h ⊢; exact handleError_ok pg _ h
    | exc => simp only [hx] at h ⊢; exact handleError_ok pg _ h

/-- **C01_status_of_request_legal**: when `Request.run` returns (instead of letting an
    `InternalRedirect` through), `response.output_status` carries a code in 100..599. -/
theorem C01_status_of_request_legal (pg : Page) (m : Method) (nh bq : Bool)
    (h : (runRequest pg m nh bq).exn = none) : OutOk (runRequest pg m nh bq).st := by
  unfold runRequest at h ⊢
  have hR := respond_ok pg m nh bq
  generalize respond pg m nh bq {} = a at h hR ⊢
  cases hx : a.exn with
  | none =>
    simp only [hx] at h ⊢
    split
    · exact hR hx
    · exact hR hx
  | some e =>
    cases e with
    | internalRedirect t => simp only [hx] at h; cases h
    | httpError c => simp only [hx]; split <;> exact ⟨500, rfl, by omega, by omega⟩
    | httpRedirect c => simp only [hx]; split <;> exact ⟨500, rfl, by omega, by omega⟩
    | exc => simp only [hx]; split <;> exact ⟨500, rfl, by omega, by omega⟩

/-- non-vacuity: the default page returns normally with status 200 -/
example : (runRequest {} .get false false).exn = none ∧ (runRequest {} .get false false).st.out = some 200 := by
  decide

theorem appResponse_starts (pg : Page) (m : Method) (nh bq : Bool) (r : Nat) :
    match (appResponse pg m nh bq r).2 with
    | .served _ => ∃ c, starts (appResponse pg m nh bq r).1 = [(c, false)] ∧ 100 ≤ c ∧ c ≤ 599
    | .raised _ _ => starts (appResponse pg m nh bq r).1 = [] := by
  unfold appResponse
  have hL := C01_status_of_request_legal pg m nh bq
  generalize runRequest pg m nh bq = a at hL ⊢
  cases hx : a.exn with
  | some e => simp only [hx]; exact starts_tag _ _
  | none =>
    simp only [hx]
    by_cases hb : a.st.body = .page .nonIter
    · simp only [hb, if_true]; exact starts_tag _ _
    · simp only [hb, if_false]
      obtain ⟨c, hc, h1, h2⟩ := hL hx
      refine ⟨c, ?_, h1, h2⟩
      rw [starts_append, starts_tag, hc]
      rfl

/-- `start_response` calls made inside the redirector loop -/
def StartsOk (j : List Entry) : Redir → Prop
  | .served _ _ _ => ∃ c, starts j = [(c, false)] ∧ 100 ≤ c ∧ c ≤ 599
  | _ => starts j = []

theorem redirector_starts (pages : List Page) (nh gtb : Bool) (fuel : Nat) :
    ∀ (visited : List (Nat × Bool)) (cur : Nat) (m : Method) (bq : Bool) (r : Nat),
    StartsOk (redirector pages nh gtb fuel visited cur m bq r).1 (redirector pages nh gtb fuel visited cur m bq r).2 := by
  induction fuel with
  | zero => intro _ _ _ _ _; exact rfl
  | succ fuel ih =>
    intro visited cur m bq r
    have hA := appResponse_starts (pages.getD cur (notFoundPage gtb)) m nh bq r
    rw [redirector_succ]
    generalize appResponse (pages.getD cur (notFoundPage gtb)) m nh bq r = ar at hA ⊢
    obtain ⟨j, ini⟩ := ar
    cases ini with
    | served st => exact hA
    | raised e tb =>
      simp only at hA ⊢
      cases e with
      | internalRedirect t =>
        simp only []
        split
        · exact hA
        · have h2 := ih (visited ++ [(cur, bq)]) t .get false (r + 1)
          generalize redirector pages nh gtb fuel (visited ++ [(cur, bq)]) t .get false (r + 1) = res at h2 ⊢
          obtain ⟨j2, red⟩ := res
          cases red with
          | served st pg rl =>
            obtain ⟨c, hc, hb⟩ := h2
            exact ⟨c, by simp only [starts_append, hA, hc, List.nil_append], hb⟩
          | raised e tb => simp only [StartsOk] at h2 ⊢; simp only [starts_append, hA, h2, List.nil_append]
          | outOfFuel => simp only [StartsOk] at h2 ⊢; simp only [starts_append, hA, h2, List.nil_append]
      | httpError c => exact hA
      | httpRedirect c => exact hA
      | exc => exact hA

/-- **C01_started_once_legal**: over the whole conversation `start_response` is called with a status
    code in 100..599 exactly once without `exc_info` — or not at all by the application proper, when
    the trapper answers before the callable returns — and a second time only by the trapper, with
    `exc_info` and status 500. -/
theorem C01_started_once_legal (p : Plan) :
    ∃ c, 100 ≤ c ∧ c ≤ 599 ∧
      (starts (call p).j = [(c, false)] ∨ starts (call p).j = [(c, false), (500, true)] ∨
       starts (call p).j = [(500, true)]) := by
  have hfuel := fuel_sufficient p
  have h := redirector_starts p.pages p.noHost p.globalTb (p.pages.length + 2) [] p.start p.meth p.badQuery 0
  unfold call at hfuel ⊢
  generalize redirector p.pages p.noHost p.globalTb (p.pages.length + 2) [] p.start p.meth p.badQuery 0 = res at h hfuel ⊢
  obtain ⟨j, red⟩ := res
  cases red with
  | outOfFuel => simp at hfuel
  | raised e tb =>
    simp only [StartsOk] at h
    simp only [trapCatches, if_true, starts_append, h, starts_replicate]
    exact ⟨500, by omega, by omega, Or.inr (Or.inr rfl)⟩
  | served st pg r =>
    simp only [StartsOk] at h ⊢
    obtain ⟨c, hc, h1, h2⟩ := h
    refine ⟨c, h1, h2, ?_⟩
    split
    · right; left
      rw [starts_append, starts_append, hc, starts_closeCalls]
      rfl
    · left
      rw [starts_append, hc, starts_closeCalls]
      rfl

/-- the trapper's answer is always a 500 (with `exc_info`) -/
theorem C01_trapped_is_500 (p : Plan) (h : (call p).trappedAtInit = true) :
    starts (call p).j = [(500, true)] := by
  have hs := redirector_starts p.pages p.noHost p.globalTb (p.pages.length + 2) [] p.start p.meth p.badQuery 0
  unfold call at h ⊢
  generalize redirector p.pages p.noHost p.globalTb (p.pages.length + 2) [] p.start p.meth p.badQuery 0 = res at hs h ⊢
  obtain ⟨j, red⟩ := res
  cases red with
  | outOfFuel => simp at h
  | raised e tb =>
    simp only [StartsOk] at hs
    simp only [trapCatches, if_true, starts_append, hs, starts_replicate]
    rfl
  | served st pg r =>
    simp only at h
    split at h <;> simp at h

end CpProofs.C01
