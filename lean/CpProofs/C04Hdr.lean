import CpProofs.C04Names2
import CpProofs.C04Sim
import CpModel.MultipartHdr
import CpModel.MultipartN
/-!
  C04, the part machinery around the framing (`CpModel.MultipartHdr`, `CpModel.MultipartN`):

  * `partsLoopN_plain`  the part loop with `Part.__init__` / `Part.process` in it is the loop of the framing
    theorems as long as every part passes `__init__` and selects `default_proc`;
  * `C04_partproc_*`, `C04_every_part_default_false`  which parts those are, over the table regenerated from
    the live `Part` (finding F28: the inherited form / multipart processors);
  * `C04_headers_repeat_join`, `C04_headers_continuation`, `C04_header_names_titled`  the header map;
  * `C04_decode_*`, `C04_attempt_charsets_*`  field values: declared charset first, then the class list,
    first success wins, 400 exactly when nothing decodes; UTF-8 text always arrives as sent;
  * `C04_filename_star_*`  RFC 5987 `filename*`;
  * `C04_form_entry_*`, `C04_stored_in_file_iff`  what the handler gets for a part and where its bytes live.
-/
namespace CpProofs.C04
open CpModel.Reader CpModel.Cursor CpModel.Multipart CpModel.MultipartR
open CpModel

/-! ### the part loop with `__init__` / `process` in it -/

theorem mem_drop_succ {α : Type} (l : List α) (n : Nat) (p : α) (h : p ∈ l.drop (n + 1)) : p ∈ l.drop n := by
  induction l generalizing n with
  | nil => simp at h
  | cons a t ih =>
    cases n with
    | zero => simp only [List.drop_succ_cons, List.drop_zero] at h ⊢; exact List.mem_cons_of_mem _ h
    | succ n => simp only [List.drop_succ_cons] at h ⊢; exact ih n h

theorem partsLoopR_prefix (cfg : Cfg) (bnd : Bytes) (m inner : Nat) :
    ∀ fuel s acc ps s', partsLoopR cfg bnd m inner fuel s acc = .ok (ps, s') → acc <+: ps := by
  intro fuel
  induction fuel with
  | zero => intro s acc ps s' h; simp [partsLoopR] at h
  | succ fuel ih =>
    intro s acc ps s' h
    simp only [partsLoopR] at h
    cases h1 : readHeadersR cfg inner s none [] with
    | error e => rw [h1] at h; cases h
    | ok r1 =>
      obtain ⟨hs, s1⟩ := r1
      rw [h1] at h
      simp only at h
      cases h2 : readLinesR cfg bnd m inner s1 [] true [] false with
      | error e => rw [h2] at h; cases h
      | ok r2 =>
        obtain ⟨content, spilled, s2⟩ := r2
        rw [h2] at h
        simp only at h
        split at h
        · simp only [Except.ok.injEq, Prod.mk.injEq] at h
          rw [← h.1]; exact List.prefix_append _ _
        · exact (List.prefix_append _ _).trans (ih _ _ _ _ h)

/-- **No part stops the loop ⇒ it is the loop of the framing theorems.**  If the plain loop returns `ps` and
    every part it read passes `Part.__init__` and selects `default_proc`, the loop that consults
    `__init__` / `Part.processors` returns the same parts in the same state. -/
theorem partsLoopN_plain (cfg : Cfg) (bnd : Bytes) (m inner : Nat) :
    ∀ fuel s acc ps s', partsLoopR cfg bnd m inner fuel s acc = .ok (ps, s') →
      (∀ p ∈ ps.drop acc.length, stopOf p.headers = .none_) →
      partsLoopN cfg bnd m inner fuel s acc = .ok (ps, .none_, s') := by
  intro fuel
  induction fuel with
  | zero => intro s acc ps s' h; simp [partsLoopR] at h
  | succ fuel ih =>
    intro s acc ps s' h hall
    simp only [partsLoopR] at h
    simp only [partsLoopN]
    cases h1 : readHeadersR cfg inner s none [] with
    | error e => rw [h1] at h; cases h
    | ok r1 =>
      obtain ⟨hs, s1⟩ := r1
      rw [h1] at h
      simp only at h ⊢
      cases h2 : readLinesR cfg bnd m inner s1 [] true [] false with
      | error e => rw [h2] at h; cases h
      | ok r2 =>
        obtain ⟨content, spilled, s2⟩ := r2
        rw [h2] at h
        simp only at h
        -- the part just read is the element of `ps` at index `acc.length`
        have hpre : acc ++ [{ headers := hs, content := content, spilled := spilled }] <+: ps := by
          split at h
          · simp only [Except.ok.injEq, Prod.mk.injEq] at h; rw [← h.1]; exact List.prefix_rfl
          · exact partsLoopR_prefix cfg bnd m inner _ _ _ _ _ h
        obtain ⟨t, ht⟩ := hpre
        have hmem : ({ headers := hs, content := content, spilled := spilled } : RawPart) ∈ ps.drop acc.length := by
          rw [← ht]; simp
        have hstop := hall _ hmem
        simp only at hstop
        rw [hstop]
        simp only
        split at h
        · rename_i hd
          simp only [Except.ok.injEq, Prod.mk.injEq] at h
          rw [if_pos hd, ← h.1, ← h.2]
        · rename_i hd
          rw [if_neg hd]
          apply ih _ _ _ _ h
          intro p hp
          apply hall
          have hl : (acc ++ [({ headers := hs, content := content, spilled := spilled } : RawPart)]).length
              = acc.length + 1 := by simp
          rw [hl] at hp
          exact mem_drop_succ _ _ _ hp

theorem processMultipartN_plain (cfg : Cfg) (boundary : Bytes) (m : Nat) (conn : Bytes) (frag : List Nat)
    (ps : List RawPart) (s' : St)
    (h : processMultipartR cfg boundary m conn frag = .ok (ps, some s'))
    (hall : ∀ p ∈ ps, stopOf p.headers = .none_) :
    processMultipartN cfg boundary m conn frag = .ok (ps, .none_, some s') := by
  unfold processMultipartR at h
  unfold processMultipartN
  simp only at h ⊢
  cases hf : findFirstR cfg ([DASH, DASH] ++ boundary) (conn.length + 2) (init conn frag) with
  | error e => rw [hf] at h; cases h
  | ok o =>
    rw [hf] at h
    cases o with
    | none => simp at h
    | some s0 =>
      simp only at h ⊢
      cases hp : partsLoopR cfg ([DASH, DASH] ++ boundary) m (conn.length + 2) (conn.length + 2) s0 [] with
      | error e => rw [hp] at h; cases h
      | ok r =>
        obtain ⟨ps', s''⟩ := r
        rw [hp] at h
        simp only [Except.ok.injEq, Prod.mk.injEq, Option.some.injEq] at h
        obtain ⟨h1, h2⟩ := h
        subst h1; subst h2
        rw [partsLoopN_plain cfg _ m _ _ s0 [] ps' s'' hp (by simpa using hall)]

/-- **The property at the strength of the statement, with `Part.__init__` / `Part.process` in the loop.**
    Hypotheses of `C04_framing_concrete`, and every part passes `__init__` and selects `default_proc` (its
    own Content-Type is not one of the inherited processors' — see F28): every part in order, byte-identical,
    for every buffer size and fragmentation, nothing beyond Content-Length taken. -/
theorem C04_framing_with_processors (cfg : Cfg) (hc : CfgOK cfg) (boundary : Bytes) (hB : BoundaryOK boundary)
    (maxram : Nat) (pre : List Bytes) (parts : List PartSpec) (closing after beyond : Bytes)
    (frag : List Nat)
    (hL : cfg.length = some (serialize boundary pre parts closing).length)
    (hpre : ∀ l ∈ pre, IsLine l ∧ strip l ≠ bndOf boundary)
    (hne : parts ≠ []) (hparts : ∀ p ∈ parts, PartOK boundary p) (hcl : Closing closing after)
    (hproc : ∀ p ∈ parts, stopOf (rawOf maxram p).headers = .none_) :
    ∃ s', processMultipartN cfg boundary maxram (serialize boundary pre parts closing ++ beyond) frag
        = .ok (parts.map (rawOf maxram), .none_, some s') ∧
      C05.rest cfg s' = after ∧ s'.done = true ∧
      s'.off ≤ (serialize boundary pre parts closing).length := by
  obtain ⟨s', e, h1, h2, h3⟩ := C04_framing_concrete cfg hc boundary hB maxram pre parts closing after beyond frag
    hL hpre hne hparts hcl
  refine ⟨s', processMultipartN_plain cfg boundary maxram _ frag _ s' e ?_, h1, h2, h3⟩
  intro p hp
  obtain ⟨q, hq, rfl⟩ := List.mem_map.mp hp
  exact hproc q hq

/-! ### which processor a part gets (table regenerated from the live `Part`) -/

def CT_TEXT_PLAIN : Bytes := TEXT_PLAIN
def CT_OCTET : Bytes := [97,112,112,108,105,99,97,116,105,111,110,47,111,99,116,101,116,45,115,116,114,101,97,109]
def CT_PNG : Bytes := [105,109,97,103,101,47,112,110,103]
def CT_URLENC : Bytes := [97,112,112,108,105,99,97,116,105,111,110,47,120,45,119,119,119,45,102,111,114,109,45,117,114,108,101,110,99,111,100,101,100]
def CT_MIXED : Bytes := [109,117,108,116,105,112,97,114,116,47,109,105,120,101,100]

/-- ordinary content types go to `default_proc` (the part is read up to its boundary) … -/
theorem C04_partproc_default :
    partProc CT_TEXT_PLAIN = DEFAULT_PROC_B ∧ partProc CT_OCTET = DEFAULT_PROC_B ∧ partProc CT_PNG = DEFAULT_PROC_B ∧
    partProc Gen.C04.partDefaultContentType = DEFAULT_PROC_B := by decide

theorem partProc_unlisted (ct : Bytes) (h1 : tblGetB Gen.C04.partProcessors ct = none)
    (h2 : tblGetB Gen.C04.partProcessors (topTypeB ct) = none) : partProc ct = DEFAULT_PROC_B := by
  simp [partProc, h1, h2]

/-- the statement "every part is read as a part, whatever content type it declares" … -/
def C04_every_part_default : Prop := ∀ ct : Bytes, partProc ct = DEFAULT_PROC_B

/-- … is false for the code as it is: **F28** — a part that declares `application/x-www-form-urlencoded` or
    `multipart/*` is handed to the processors `Part` inherits from `Entity`. -/
theorem C04_every_part_default_false : ¬ C04_every_part_default := by
  intro h; have := h CT_URLENC; revert this; decide

theorem C04_partproc_inherited : partProc CT_URLENC ≠ DEFAULT_PROC_B ∧ partProc CT_MIXED ≠ DEFAULT_PROC_B := by
  decide

/-! ### the header map -/

def X_A : Bytes := [88, 45, 65]          -- X-A
def x_a : Bytes := [120, 45, 97]         -- x-a

/-- repeated headers (names compared case-insensitively) are joined with `', '` in wire order under the
    first spelling -/
theorem C04_headers_repeat_join (v1 v2 : Bytes) (h : v1.isEmpty = false) :
    hdrSet (hdrSet [] X_A v1) x_a v2 = [(X_A, v1 ++ [44, 32] ++ v2)] := by
  simp [hdrSet, X_A, x_a, lower, lowerB, h]

/-- a continuation line is appended to the current header — with `', '` (not a blank): kept quirk -/
theorem C04_headers_continuation :
    -- `X-A: a\r\n`, `\tb \r\n`  →  {X-A: "a, b"}
    foldHdr [[88,45,65,58,32,97,13,10], [9,98,32,13,10]] none [] = some [(X_A, [97,44,32,98])] := by decide

/-- a continuation line before any header line, or a line without a colon: `ValueError` → 400 -/
theorem C04_headers_malformed :
    foldHdr [[9,98,13,10]] none [] = none ∧ foldHdr [[88,45,65,13,10]] none [] = none := by decide

/-- header names as the handler sees them (`HeaderMap`: `str.title()`) -/
theorem C04_header_names_titled :
    titleA false [99,111,110,116,101,110,116,45,84,89,80,69] = [67,111,110,116,101,110,116,45,84,121,112,101] ∧   -- content-TYPE
    titleA false [120,49,97,45,98,50,99] = [88,49,65,45,66,50,67] := by decide                                      -- x1a-b2c

/-! ### field values -/

theorem attemptCharsets_none : attemptCharsets none = Gen.C04.partAttemptCharsets := rfl

/-- a declared charset is tried first, the class list follows without it -/
theorem C04_attempt_charsets_declared (d : Bytes) (h : d.isEmpty = false) :
    attemptCharsets (some d) = d :: Gen.C04.partAttemptCharsets.filter (· ≠ d) := by
  simp [attemptCharsets, h]

/-- **400 exactly when nothing decodes.** -/
theorem C04_decode_400_iff (cs : List Bytes) (v : Bytes) :
    decodeField cs v = none ↔ ∀ c ∈ cs, decodeStrict (codecOf c) v = none := by
  induction cs with
  | nil => simp [decodeField]
  | cons c more ih =>
    cases h : decodeStrict (codecOf c) v with
    | none => simp [decodeField, h, ih]
    | some t => simp [decodeField, h]

/-- the first charset that decodes wins -/
theorem C04_decode_first_success (c : Bytes) (more : List Bytes) (v : Bytes) (t : CodePoints)
    (h : decodeStrict (codecOf c) v = some t) : decodeField (c :: more) v = some t := by
  simp [decodeField, h]

theorem utf8Strict_encode (t : List Char) :
    utf8Strict (t.flatMap String.utf8EncodeChar) = some (t.map Char.toNat) := by
  unfold utf8Strict
  have : (t.flatMap String.utf8EncodeChar).toByteArray = t.utf8Encode := rfl
  rw [this, List.utf8Decode?_utf8Encode]
  simp

def US_ASCII : Bytes := [117,115,45,97,115,99,105,105]
def UTF_8 : Bytes := [117,116,102,45,56]

theorem codecs_default : codecOf US_ASCII = .ascii ∧ codecOf UTF_8 = .utf8 ∧
    Gen.C04.partAttemptCharsets = [US_ASCII, UTF_8] := by decide

theorem utf8Encode_ascii_char (c : Char) (h : (String.utf8EncodeChar c).all (· < 128) = true) :
    String.utf8EncodeChar c = [UInt8.ofNat c.toNat] ∧ c.toNat < 128 := by
  unfold String.utf8EncodeChar at h ⊢
  simp only at h ⊢
  by_cases h1 : c.val.toNat ≤ 127
  · simp only [h1, if_true]
    refine ⟨rfl, ?_⟩
    show c.val.toNat < 128
    omega
  · exfalso
    simp only [h1, if_false] at h
    have key : ∀ a : Nat, a < 64 → ¬ (UInt8.ofNat (a + 192) < 128) := by
      intro a ha hlt
      have := UInt8.lt_iff_toNat_lt.mp hlt
      simp [UInt8.toNat_ofNat'] at this
      omega
    split at h
    · simp only [List.all_cons, Bool.and_eq_true, decide_eq_true_eq] at h
      exact key (c.val.toNat / 64 % 32) (by omega) h.1
    · split at h
      · simp only [List.all_cons, Bool.and_eq_true, decide_eq_true_eq] at h
        exact key (c.val.toNat / 4096 % 16 + 32) (by omega) (by rw [show c.val.toNat / 4096 % 16 + 32 + 192 = c.val.toNat / 4096 % 16 + 224 by omega]; exact h.1)
      · simp only [List.all_cons, Bool.and_eq_true, decide_eq_true_eq] at h
        exact key (c.val.toNat / 262144 % 8 + 48) (by omega) (by rw [show c.val.toNat / 262144 % 8 + 48 + 192 = c.val.toNat / 262144 % 8 + 240 by omega]; exact h.1)

theorem latin1Points_ascii (t : List Char) (h : (t.flatMap String.utf8EncodeChar).all (· < 128) = true) :
    latin1Points (t.flatMap String.utf8EncodeChar) = t.map Char.toNat := by
  induction t with
  | nil => rfl
  | cons c cs ih =>
    simp only [List.flatMap_cons, List.all_append, Bool.and_eq_true] at h
    obtain ⟨henc, hc⟩ := utf8Encode_ascii_char c h.1
    simp only [List.flatMap_cons, henc, List.cons_append, List.nil_append, List.map_cons, latin1Points] at ih ⊢
    rw [ih h.2]
    congr 1
    simp; omega

/-- **UTF-8 text arrives as sent.**  For every text `t`, a plain field whose content is the UTF-8 encoding of
    `t` and that declares no charset is decoded to `t` (pure ASCII already by the first attempt). -/
theorem C04_decode_utf8_text (t : List Char) :
    decodeField (attemptCharsets none) (t.flatMap String.utf8EncodeChar) = some (t.map Char.toNat) := by
  rw [attemptCharsets_none, codecs_default.2.2]
  simp only [decodeField, codecs_default.1, codecs_default.2.1, decodeStrict, utf8Strict_encode]
  by_cases hall : (t.flatMap String.utf8EncodeChar).all (· < 128) = true
  · simp only [hall, if_true, latin1Points_ascii t hall]
  · simp only [hall, Bool.false_eq_true, if_false]

/-- non-vacuity / fallback order on concrete bytes: Latin-1 bytes without a declared charset are refused,
    with `charset=iso-8859-1` they are decoded; an unknown label falls through to the class list -/
theorem C04_decode_examples :
    decodeField (attemptCharsets none) [99,97,102,233] = none ∧                                      -- caf\xe9
    decodeField (attemptCharsets (some [105,115,111,45,56,56,53,57,45,49])) [99,97,102,233] = some [99,97,102,233] ∧
    decodeField (attemptCharsets (some [98,111,103,117,115])) [99,97,102] = some [99,97,102] := by
  refine ⟨?_, ?_, ?_⟩ <;> rfl

/-! ### `filename*` -/

def CD_STAR (v : Bytes) : Bytes :=
  FD ++ [59,32,110,97,109,101,61,34,102,34,59,32] ++ K_FILENAME_STAR ++ [61] ++ v       -- form-data; name="f"; filename*=v

/-- `UTF-8''%e2%82%ac%20rates` → `€ rates`; Latin-1 likewise; no `%` → taken literally whatever the charset;
    not three `'`-separated pieces, or an unknown charset with a `%`: 400 -/
theorem C04_filename_star_examples :
    (partInfoX [(K_CD, CD_STAR [85,84,70,45,56,39,39,37,101,50,37,56,50,37,97,99,37,50,48,114])]).toOption.bind (·.filename)
      = some [0x20AC, 32, 114] ∧
    (partInfoX [(K_CD, CD_STAR [105,115,111,45,56,56,53,57,45,49,39,101,110,39,37,101,57,116])]).toOption.bind (·.filename)
      = some [233, 116] ∧
    (partInfoX [(K_CD, CD_STAR [98,111,103,117,115,39,39,112,108,97,105,110])]).toOption.bind (·.filename)
      = some [112,108,97,105,110] ∧
    partInfoX [(K_CD, CD_STAR [98,111,103,117,115,39,39,37,52,49])] = .error .badFilenameStar ∧
    partInfoX [(K_CD, CD_STAR [85,84,70,45,56,39,120])] = .error .badFilenameStar ∧
    -- invalid UTF-8 behind the `%`: replaced, never an error (`errors='replace'`)
    (partInfoX [(K_CD, CD_STAR [117,116,102,45,56,39,39,37,102,102,37,101,50,37,56,50])]).toOption.bind (·.filename)
      = some [0xFFFD, 0xFFFD] := by
  refine ⟨?_, ?_, ?_, ?_, ?_, ?_⟩ <;> rfl

/-- `filename*` wins over `filename` -/
theorem C04_filename_star_overrides :
    (partInfoX [(K_CD, FD ++ [59,32] ++ K_FILENAME ++ [61,34,120,34,59,32] ++ K_FILENAME_STAR ++
        [61,85,84,70,45,56,39,39,37,52,49])]).toOption.bind (·.filename) = some [65] := by rfl

/-! ### what the handler gets, where the bytes live -/

/-- a part with a name and a filename is handed over as the Part object, whatever its content … -/
theorem C04_form_entry_file (i : InfoX) (content : Bytes) (n : Bytes) (f : CodePoints)
    (hn : i.name = some n) (hf : i.filename = some f) : formEntry i content = some .file := by
  simp [formEntry, hn, hf]

/-- … a part with a name and no filename as its decoded text (400 when no charset decodes it) … -/
theorem C04_form_entry_field (i : InfoX) (content : Bytes) (n : Bytes)
    (hn : i.name = some n) (hf : i.filename = none) :
    formEntry i content = (decodeField (attemptCharsets i.charset) content).map .field := by
  simp [formEntry, hn, hf]

/-- … and a part without a name stays in `request.body.parts`. -/
theorem C04_form_entry_unnamed (i : InfoX) (content : Bytes) (hn : i.name = none) :
    formEntry i content = some .kept := by
  simp [formEntry, hn]

/-- `make_file()` is used exactly for parts with a non-empty filename and for parts that outgrew
    `maxrambytes` while they were read -/
theorem C04_stored_in_file_iff (fn : Option CodePoints) (spilled : Bool) :
    storedInFile fn spilled = true ↔ ((∃ f, fn = some f ∧ f ≠ []) ∨ spilled = true) := by
  unfold storedInFile
  cases fn with
  | none => simp
  | some f => cases f <;> simp

end CpProofs.C04
