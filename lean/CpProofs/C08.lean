import CpModel.Config
import CpModel.Unrepr
import CpProofs.C02
/-!
  C08 — the effective request config is the most-specific-wins merge, scoped by path.

  Theorems are about `CpModel.Config` / `CpModel.Dispatch` / `CpModel.Unrepr`.  They quantify over all
  object graphs, application configs, global configs, translation functions and paths.
-/
namespace CpProofs.C08
open CpModel.Dispatch CpModel.Config CpProofs.C02

/-! ### dict lookups over update lists -/

/-- `base.update(conf)` then `[k]`: the later dict wins. -/
theorem get_append (a b : Conf) (k : Name) :
    cget (a ++ b) k = match cget b k with
      | some v => some v
      | none => cget a k := by
  induction a with
  | nil => cases h : cget b k <;> simp [cget, h]
  | cons x xs ih =>
    obtain ⟨k', v⟩ := x
    simp only [List.cons_append, cget, ih]
    cases hb : cget b k with
    | some w => rfl
    | none => rfl

theorem get_append_some {a b : Conf} {k : Name} {v : Val} (h : cget b k = some v) :
    cget (a ++ b) k = some v := by rw [get_append, h]

theorem get_append_none {a b : Conf} {k : Name} (h : cget b k = none) :
    cget (a ++ b) k = cget a k := by rw [get_append, h]

theorem get_singleton_ne {k k' : Name} {v : Val} (h : k' ≠ k) : cget [(k', v)] k = none := by
  simp [cget, h]

/-! ### `set_conf` is the flattening of the trail's `nodeconf`s -/

theorem setConf_get (fp : List Name) (k : Name) (hk : k ≠ staticdirSectionKey) :
    ∀ (trail : List Entry) (glob : Conf),
      cget (setConf glob fp trail) k = cget (glob ++ (trail.map (·.conf)).flatten) k := by
  intro trail
  induction trail with
  | nil => intro glob; simp [setConf]
  | cons e rest ih =>
    intro glob
    have hstep : ∀ k', k' ≠ staticdirSectionKey →
        cget (setConfStep fp glob e) k' = cget (glob ++ e.conf) k' := by
      intro k' hk'
      unfold setConfStep
      dsimp only
      split
      · rw [get_append_none (get_singleton_ne (Ne.symm hk'))]
      · rfl
    show cget (setConf (setConfStep fp glob e) fp rest) k = _
    rw [ih]
    simp only [List.map_cons, List.flatten_cons, ← List.append_assoc]
    rw [get_append (setConfStep fp glob e), get_append (glob ++ e.conf), hstep k hk]

/-- **C08, merge (general form).**  For every graph (dispatchers included), config and path:
    `request.config[k]` is what the update sequence *global, nodeconf of trail entry 0, nodeconf of trail
    entry 1, …* yields, the trail being the final object trail (the `default` handler's entry inserted
    right after its owner).  (`tools.staticdir.section` is the one computed key.) -/
theorem C08_merge_spec {tr : Name → Name} {glob : Conf} {app : App} {path : List Char} {c : Conf}
    (h : requestConfigWith tr glob app path = .ok c) :
    ∃ r, findHandlerWith tr app path = .ok r ∧
      ∀ k, k ≠ staticdirSectionKey →
        cget c k = cget (glob ++ (r.trail.map (·.conf)).flatten) k := by
  unfold requestConfigWith at h
  split at h
  · cases h
  · rename_i r hr
    injection h with h; subst h
    exact ⟨r, hr, fun k hk => setConf_get _ k hk _ _⟩

/-! ### the levels, declaratively (graphs without `_cp_dispatch`) -/

/-- `"/n1/n2/…"` -/
def slashes (names : List Name) : List Char := names.flatMap fun n => '/' :: n

/-- `_cp_config` of the object found at a level (`{}` when there is none / the object is `None`) -/
def cpOf (g : Graph) (o : Option NodeId) : Conf :=
  match o with
  | none => []
  | some i => ((g.nodeD i).conf).getD []

/-- the application section with exactly this name (`{}` when absent) -/
def secOf (secs : List (List Char × Conf)) (name : List Char) : Conf := (lookup secs name).getD []

/-- The trail entries below the root, written from the property statement: at the level of name `n`
    (after the names `pre`) the object is the attribute `tr n` of the previous object, and its
    `nodeconf` is its own `_cp_config` followed by the section named `/pre…/n`. -/
def specEntries (tr : Name → Name) (app : App) : Option NodeId → List Name → List Name → List Entry
  | _, _, [] => []
  | o, pre, n :: rest =>
    ⟨n, app.g.getattr o (tr n),
      cpOf app.g (app.g.getattr o (tr n)) ++ secOf app.sections (slashes (pre ++ [n])), rest.length⟩ ::
    specEntries tr app (app.g.getattr o (tr n)) (pre ++ [n]) rest

theorem joinSlash_cons_slashes : ∀ (l : List Name), l ≠ [] → '/' :: joinSlash l = slashes l := by
  intro l
  induction l with
  | nil => intro h; exact absurd rfl h
  | cons x xs ih =>
    intro _
    cases xs with
    | nil => simp [joinSlash, slashes]
    | cons y ys =>
      have := ih (by simp)
      simp only [joinSlash, slashes, List.flatMap_cons] at this ⊢
      rw [← this]
      simp

theorem slashes_append (a : List Name) (n : Name) : slashes (a ++ [n]) = slashes a ++ '/' :: n := by
  simp [slashes]

theorem walkStep_nodisp_conf {tr : Name → Name} {app : App} (hnd : NoDispatch app.g)
    (pre : List Name) (st : WalkSt) (name : Name) (rest : List Name) :
    walkStep tr app (pre ++ name :: rest) st name rest =
      .ok { node := app.g.getattr st.node (tr name), iter := rest,
            trail := st.trail ++ [⟨name, app.g.getattr st.node (tr name),
              cpOf app.g (app.g.getattr st.node (tr name)) ++
                secOf app.sections (slashes (pre ++ [name])), rest.length⟩],
            params := st.params } := by
  unfold walkStep
  rw [resolve_nodisp hnd]
  dsimp only
  have h1 : ¬ rest.length > rest.length + 1 := by omega
  have h2 : ¬ rest.length = rest.length + 1 := by omega
  simp only [h1, h2, if_false]
  have hL : (pre ++ name :: rest).length - (rest.length + 1) = pre.length := by
    simp only [List.length_append, List.length_cons]; omega
  have hcount : (pre ++ name :: rest).length - rest.length - pre.length = 1 := by
    simp only [List.length_append, List.length_cons]; omega
  rw [hL, hcount]
  have hdrop : (pre ++ name :: rest).drop pre.length = name :: rest := by simp
  have htake : (pre ++ name :: rest).take pre.length = pre := by simp
  rw [hdrop, htake]
  have hcur : (if pre.length ≠ 0 then '/' :: joinSlash pre else []) = slashes pre := by
    cases pre with
    | nil => simp [slashes]
    | cons p ps => simp [joinSlash_cons_slashes (p :: ps)]
  rw [hcur]
  simp only [List.take_succ_cons, List.take_zero, sectionsFor, List.append_nil, slashes_append]
  rfl

theorem walk_nodisp_spec {tr : Name → Name} {app : App} (hnd : NoDispatch app.g) :
    ∀ (names pre : List Name) (fuel : Nat) (st : WalkSt), st.iter = names → names.length ≤ fuel →
      ∃ st', walk tr app (pre ++ names) fuel st = .ok st' ∧
        st'.trail = st.trail ++ specEntries tr app st.node pre names := by
  intro names
  induction names with
  | nil =>
    intro pre fuel st hit _
    refine ⟨st, ?_, by simp [specEntries]⟩
    cases fuel with
    | zero => simp [walk, hit]
    | succ n => simp [walk, hit]
  | cons name rest ih =>
    intro pre fuel st hit hle
    cases fuel with
    | zero => simp at hle
    | succ n =>
      unfold walk
      simp only [hit]
      rw [walkStep_nodisp_conf hnd pre st name rest]
      dsimp only
      have hpre : pre ++ name :: rest = (pre ++ [name]) ++ rest := by simp
      obtain ⟨st', hw, htr⟩ := ih (pre ++ [name]) n
        { node := app.g.getattr st.node (tr name), iter := rest,
          trail := st.trail ++ [⟨name, app.g.getattr st.node (tr name),
            cpOf app.g (app.g.getattr st.node (tr name)) ++
              secOf app.sections (slashes (pre ++ [name])), rest.length⟩],
          params := st.params }
        rfl (by simp only [List.length_cons] at hle; omega)
      rw [hpre]
      refine ⟨st', hw, ?_⟩
      rw [htr]
      simp [specEntries]

/-- The whole object trail of a dispatcher-free graph, names / objects / nodeconfs / segleft. -/
def specTrail (tr : Name → Name) (app : App) (segs : List Name) : List Entry :=
  ⟨rootName, some app.g.root, cpOf app.g (some app.g.root) ++ secOf app.sections ['/'],
    segs.length + 1⟩ :: specEntries tr app (some app.g.root) [] (fullpathOf segs)

theorem trailOf_nodisp {tr : Name → Name} {app : App} (hnd : NoDispatch app.g) (segs : List Name) :
    trailOf tr app segs = .ok (specTrail tr app segs) := by
  unfold trailOf
  dsimp only
  obtain ⟨st', hw, htr⟩ := walk_nodisp_spec (tr := tr) hnd (fullpathOf segs) [] (fullpathOf segs).length
    { node := some app.g.root, iter := fullpathOf segs,
      trail := [rootEntry app (fullpathOf segs).length] } rfl (Nat.le_refl _)
  simp only [List.nil_append] at hw
  rw [hw]
  dsimp only
  rw [htr]
  simp [specTrail, rootEntry, cpOf, secOf, fullpathOf]

/-- The level-by-level update sequence of the property statement: root level, then one level per name
    of `segments ++ ["index"]`; each level is `_cp_config` of the object found there, then the section
    named by that path prefix. -/
def specLevels (tr : Name → Name) (app : App) (segs : List Name) : List Conf :=
  (specTrail tr app segs).map (·.conf)

/-- `conf` of the `default` handler entered right after the level that owns it. -/
def withDefault (g : Graph) (levels : List Conf) (found : Option Found) : List Conf :=
  match found with
  | some f =>
    if f.viaDefault then
      levels.take (f.idx + 1) ++ [((g.nodeD f.handler).conf).getD []] ++ levels.drop (f.idx + 1)
    else levels
  | none => levels

/-- **C08, merge (level form).**  Without `_cp_dispatch`: the effective config is the global config
    overlaid, level by level from the root down `segments ++ [index]`, with the `_cp_config` of the
    object found at that level and then the section named by that path prefix; the chosen `default`
    handler contributes right after the level of its owner. -/
theorem C08_merge_spec_levels {tr : Name → Name} {glob : Conf} {app : App} (hnd : NoDispatch app.g)
    {path : List Char} {c : Conf} (h : requestConfigWith tr glob app path = .ok c) :
    ∃ r, findHandlerWith tr app path = .ok r ∧
      ∀ k, k ≠ staticdirSectionKey →
        cget c k = cget (glob ++ (withDefault app.g (specLevels tr app (segments path)) r.found).flatten) k := by
  obtain ⟨r, hr, hget⟩ := C08_merge_spec h
  refine ⟨r, hr, ?_⟩
  intro k hk
  rw [hget k hk]
  obtain ⟨trail, htr, _, h3, h4⟩ := findHandler_ok hr
  rw [trailOf_nodisp hnd] at htr
  injection htr with htr
  subst htr
  cases hf : r.found with
  | none => rw [(h4 hf).2]; rfl
  | some f =>
    rw [(h3 f hf).2]
    unfold insertDefault withDefault specLevels
    dsimp only
    split
    · simp [List.map_take, List.map_drop]
    · rfl

/-! ### corollaries: precedence -/

theorem get_flatten_silent {k : Name} : ∀ (post : List Conf), (∀ c ∈ post, cget c k = none) →
    cget post.flatten k = none := by
  intro post
  induction post with
  | nil => intro _; rfl
  | cons c cs ih =>
    intro h
    rw [List.flatten_cons, get_append, ih (fun c' hc' => h c' (List.mem_cons_of_mem _ hc'))]
    exact h c (List.mem_cons_self ..)

/-- **Deeper wins.**  If level `cj` sets `k` and no deeper level does, the effective value is `cj`'s —
    whatever the global config and all shallower levels say. -/
theorem C08_deeper_wins (glob : Conf) (pre post : List Conf) (cj : Conf) (k : Name) (v : Val)
    (hj : cget cj k = some v) (hpost : ∀ c ∈ post, cget c k = none) :
    cget (glob ++ (pre ++ [cj] ++ post).flatten) k = some v := by
  simp only [List.flatten_append, List.flatten_cons, List.flatten_nil, List.append_nil,
    ← List.append_assoc]
  rw [get_append_none (get_flatten_silent post hpost)]
  exact get_append_some hj

/-- **Section over `_cp_config` at the same level** (and deeper levels silent): the section's value is
    the effective one even when the object's `_cp_config` at that very level sets the key too. -/
theorem C08_section_over_cpconfig_same_level (glob : Conf) (pre post : List Conf) (cp sec : Conf)
    (k : Name) (v : Val) (hs : cget sec k = some v) (hpost : ∀ c ∈ post, cget c k = none) :
    cget (glob ++ (pre ++ [cp ++ sec] ++ post).flatten) k = some v :=
  C08_deeper_wins glob pre post (cp ++ sec) k v (get_append_some hs) hpost


/-! ### scoping -/

/-- The application without the section called `name`. -/
def dropSection (app : App) (name : List Char) : App :=
  { app with sections := app.sections.filter fun p => p.1 ≠ name }

theorem lookup_filter_ne (secs : List (List Char × Conf)) (name q : List Char) (h : q ≠ name) :
    lookup (secs.filter fun p => p.1 ≠ name) q = lookup secs q := by
  induction secs with
  | nil => rfl
  | cons x xs ih =>
    obtain ⟨k, v⟩ := x
    by_cases hk : k = name
    · have hq : ¬ (k = q) := fun hh => h (hk ▸ hh.symm)
      rw [List.filter_cons_of_neg (by simp [hk])]
      simp only [lookup, hq, if_false]
      exact ih
    · rw [List.filter_cons_of_pos (by simp [hk])]
      simp only [lookup, ih]

theorem specEntries_dropSection (tr : Name → Name) (app : App) (name : List Char) :
    ∀ (names pre : List Name) (o : Option NodeId),
      (∀ j, name ≠ slashes (pre ++ names.take j)) →
      specEntries tr (dropSection app name) o pre names = specEntries tr app o pre names := by
  intro names
  induction names with
  | nil => intro _ _ _; rfl
  | cons n rest ih =>
    intro pre o h
    simp only [specEntries]
    have h1 : slashes (pre ++ [n]) ≠ name := by
      have := h 1
      simpa using (Ne.symm this)
    have hsec : secOf (dropSection app name).sections (slashes (pre ++ [n])) =
        secOf app.sections (slashes (pre ++ [n])) := by
      unfold secOf dropSection
      rw [lookup_filter_ne _ _ _ h1]
    rw [hsec]
    have hrec := ih (pre ++ [n]) (app.g.getattr o (tr n)) (by
      intro j
      have := h (j + 1)
      simpa using this)
    show _ :: specEntries tr (dropSection app name) ((dropSection app name).g.getattr o (tr n)) _ _ = _
    rw [show (dropSection app name).g = app.g from rfl, hrec]

/-- `name` is not the name of any path prefix of the request (`"/"`, `"/s1"`, `"/s1/s2"`, …,
    segment-wise — a sibling sharing a *string* prefix is off the path). -/
def OffPath (name : List Char) (segs : List Name) : Prop :=
  name ≠ ['/'] ∧ ∀ j, name ≠ slashes ((fullpathOf segs).take j)

/-- **C08, scoped.**  A section whose name is not a (segment-wise) path prefix of the request can be
    removed from the application config without changing anything the dispatcher computes — handler,
    virtual path, trail and the effective config. -/
theorem C08_scoped {tr : Name → Name} {glob : Conf} {app : App} (hnd : NoDispatch app.g)
    {path : List Char} {name : List Char} (hoff : OffPath name (segments path)) :
    requestConfigWith tr glob (dropSection app name) path = requestConfigWith tr glob app path := by
  have htrail : specTrail tr (dropSection app name) (segments path) = specTrail tr app (segments path) := by
    unfold specTrail
    have hroot : secOf (dropSection app name).sections ['/'] = secOf app.sections ['/'] := by
      unfold secOf dropSection
      rw [lookup_filter_ne _ _ _ (Ne.symm hoff.1)]
    rw [hroot, specEntries_dropSection tr app name _ [] _ (by simpa using hoff.2)]
    rfl
  have hfh : findHandlerWith tr (dropSection app name) path = findHandlerWith tr app path := by
    unfold findHandlerWith
    dsimp only
    rw [trailOf_nodisp (app := dropSection app name) hnd, trailOf_nodisp hnd, htrail]
    rfl
  unfold requestConfigWith
  rw [hfh]

/-- Non-vacuity: the section `/a` is off the path of a request for `/ab/x` (string prefix only). -/
example : OffPath "/a".toList (segments "/ab/x".toList) := by
  refine ⟨by decide, ?_⟩
  intro j
  have hl : fullpathOf (segments "/ab/x".toList) = ["ab".toList, "x".toList, "index".toList] := by decide
  rw [hl]
  match j with
  | 0 => decide
  | 1 => decide
  | 2 => decide
  | 3 => decide
  | n + 4 =>
    rw [show List.take (n + 4) ["ab".toList, "x".toList, "index".toList] =
      ["ab".toList, "x".toList, "index".toList] from by simp]
    decide

/-! ### scoping, all graphs (dispatchers included) -/

theorem slashes_app (a b : List Name) : slashes (a ++ b) = slashes a ++ slashes b := by
  simp [slashes]

theorem sectionsFor_dropSection (secs : List (List Char × Conf)) (name : List Char) :
    ∀ (segs : List Name) (cur : List Char),
      (∀ i, name ≠ cur ++ slashes (segs.take (i + 1))) →
      sectionsFor (secs.filter fun p => p.1 ≠ name) cur segs = sectionsFor secs cur segs := by
  intro segs
  induction segs with
  | nil => intro _ _; rfl
  | cons seg rest ih =>
    intro cur h
    simp only [sectionsFor]
    have h0 : cur ++ '/' :: seg ≠ name := by
      have := h 0
      simpa [slashes] using (Ne.symm this)
    rw [lookup_filter_ne _ _ _ h0]
    rw [ih (cur ++ '/' :: seg) (by
      intro i
      have := h (i + 1)
      simpa [slashes, List.append_assoc] using this)]

theorem stepSections_dropSection (secs : List (List Char × Conf)) (name : List Char) (fp : List Name)
    (hoff : ∀ j, name ≠ slashes (fp.take j)) (a c : Nat) :
    sectionsFor (secs.filter fun p => p.1 ≠ name)
        (if a ≠ 0 then '/' :: joinSlash (fp.take a) else []) ((fp.drop a).take c) =
      sectionsFor secs (if a ≠ 0 then '/' :: joinSlash (fp.take a) else []) ((fp.drop a).take c) := by
  by_cases hfp : fp.take a = []
  · -- nothing consumed so far (a = 0 or fp = [])
    by_cases ha : a = 0
    · subst ha
      simp only [ne_eq, not_true_eq_false, if_false, List.drop_zero]
      apply sectionsFor_dropSection
      intro i
      have := hoff (min c (i + 1))
      simpa [List.take_take, Nat.min_comm] using this
    · have hnil : fp = [] := by
        cases fp with
        | nil => rfl
        | cons x xs =>
          cases a with
          | zero => exact absurd rfl ha
          | succ n => simp at hfp
      subst hnil
      simp [sectionsFor]
  · have ha : a ≠ 0 := by
      intro e; subst e; simp at hfp
    simp only [ha, ne_eq, not_false_eq_true, if_true]
    rw [joinSlash_cons_slashes _ hfp]
    apply sectionsFor_dropSection
    intro i
    have := hoff (a + min c (i + 1))
    rw [List.take_add, slashes_app] at this
    simpa [List.take_take, Nat.min_comm] using this


theorem walkStep_dropSection (tr : Name → Name) (app : App) (name : List Char) (fp : List Name)
    (hoff : ∀ j, name ≠ slashes (fp.take j)) (st : WalkSt) (n : Name) (rest : List Name) :
    walkStep tr (dropSection app name) fp st n rest = walkStep tr app fp st n rest := by
  unfold walkStep
  dsimp only
  rw [show (dropSection app name).g = app.g from rfl]
  cases resolve tr app.g st.node n rest with
  | error e => rfl
  | ok r =>
    obtain ⟨sub, iter1, ps⟩ := r
    dsimp only
    split
    · rfl
    · rw [show (dropSection app name).sections = app.sections.filter (fun p => p.1 ≠ name) from rfl,
        stepSections_dropSection app.sections name fp hoff]

theorem walk_dropSection (tr : Name → Name) (app : App) (name : List Char) (fp : List Name)
    (hoff : ∀ j, name ≠ slashes (fp.take j)) :
    ∀ (fuel : Nat) (st : WalkSt),
      walk tr (dropSection app name) fp fuel st = walk tr app fp fuel st := by
  intro fuel
  induction fuel with
  | zero => intro st; rfl
  | succ k ih =>
    intro st
    unfold walk
    split
    · rfl
    · rw [walkStep_dropSection tr app name fp hoff]
      split
      · rfl
      · exact ih _

/-- **C08, scoped (all graphs).**  Dispatchers included: a section whose name is not a segment-wise path
    prefix of the request (`OffPath`) can be removed from the application config without changing the
    object trail, the handler, the virtual path or the effective config. -/
theorem C08_scoped_general (tr : Name → Name) (glob : Conf) (app : App) (path : List Char)
    (name : List Char) (hoff : OffPath name (segments path)) :
    findHandlerWith tr (dropSection app name) path = findHandlerWith tr app path ∧
    requestConfigWith tr glob (dropSection app name) path = requestConfigWith tr glob app path := by
  have htr : trailOf tr (dropSection app name) (segments path) = trailOf tr app (segments path) := by
    unfold trailOf
    dsimp only
    have hroot : rootEntry (dropSection app name) (fullpathOf (segments path)).length =
        rootEntry app (fullpathOf (segments path)).length := by
      unfold rootEntry dropSection
      dsimp only
      rw [lookup_filter_ne _ _ _ (Ne.symm hoff.1)]
    rw [hroot, walk_dropSection tr app name _ hoff.2]
    rfl
  have hfh : findHandlerWith tr (dropSection app name) path = findHandlerWith tr app path := by
    unfold findHandlerWith
    dsimp only
    rw [htr]
    rfl
  refine ⟨hfh, ?_⟩
  unfold requestConfigWith
  rw [hfh]

/-! ### the toolbox -/

theorem splitDot_some : ∀ {k n r : Name}, splitDot k = some (n, r) → k = n ++ '.' :: r ∧ '.' ∉ n := by
  intro k
  induction k with
  | nil => intro n r h; simp [splitDot] at h
  | cons c cs ih =>
    intro n r h
    simp only [splitDot] at h
    split at h
    · rename_i hc
      injection h with h
      injection h with h1 h2
      subst h1; subst h2; subst hc
      simp
    · rename_i hc
      split at h
      · rename_i a b hab
        injection h with h
        injection h with h1 h2
        subst h1; subst h2
        obtain ⟨e, hn⟩ := ih hab
        refine ⟨by rw [e]; rfl, ?_⟩
        intro hm
        rcases List.mem_cons.mp hm with h0 | h0
        · exact hc h0.symm
        · exact hn h0
      · cases h

theorem splitDot_of : ∀ {n : Name} (r : Name), '.' ∉ n → splitDot (n ++ '.' :: r) = some (n, r) := by
  intro n
  induction n with
  | nil => intro r _; simp [splitDot]
  | cons c cs ih =>
    intro r h
    have hc : c ≠ '.' := fun e => h (by rw [e]; exact List.mem_cons_self ..)
    have hcs : '.' ∉ cs := fun m => h (List.mem_cons_of_mem _ m)
    simp [splitDot, hc, ih r hcs]

/-- the namespace filter of `NamespaceSet.__call__` / `populate` -/
def nsFilter (ns : Name) : Name × Val → Option (Name × Val) := fun (k, v) =>
  match splitDot k with
  | some (n, rest) => if n = ns then some (rest, v) else none
  | none => none

theorem cget_nsFilter (ns : Name) (hns : '.' ∉ ns) (a : Name) : ∀ (c : Conf),
    cget (c.filterMap (nsFilter ns)) a = cget c (ns ++ '.' :: a) := by
  intro c
  induction c with
  | nil => rfl
  | cons x xs ih =>
    obtain ⟨k, v⟩ := x
    cases hf : nsFilter ns (k, v) with
    | none =>
      rw [List.filterMap_cons_none hf, ih]
      have hk : k ≠ ns ++ '.' :: a := by
        intro e
        subst e
        simp [nsFilter, splitDot_of a hns] at hf
      simp only [cget, hk, if_false]
      cases cget xs (ns ++ '.' :: a) <;> rfl
    | some y =>
      obtain ⟨a', v'⟩ := y
      rw [List.filterMap_cons_some hf]
      unfold nsFilter at hf
      dsimp only at hf
      split at hf
      · rename_i n rest hsd
        split at hf
        · rename_i hn
          injection hf with hf
          injection hf with h1 h2
          subst h1; subst h2; subst hn
          obtain ⟨hk, _⟩ := splitDot_some hsd
          simp only [cget, ih]
          have : (rest = a) ↔ (k = n ++ '.' :: a) := by
            rw [hk]
            constructor
            · intro e; rw [e]
            · intro e; simpa using e
          by_cases hra : rest = a
          · simp [hra, this.mp hra]
          · have : ¬ k = n ++ '.' :: a := fun e => hra (this.mpr e)
            simp [hra, this]
        · cases hf
      · cases hf

theorem mem_dedup {x : Name} : ∀ {l : List Name}, x ∈ dedup l ↔ x ∈ l := by
  intro l
  induction l with
  | nil => simp [dedup]
  | cons y ys ih =>
    simp only [dedup, List.mem_cons, List.mem_filter, ih]
    constructor
    · rintro (h | ⟨h, _⟩)
      · exact .inl h
      · exact .inr h
    · intro h
      by_cases hxy : x = y
      · exact .inl hxy
      · rcases h with h | h
        · exact .inl h
        · exact .inr ⟨h, by simpa using hxy⟩

theorem cget_none_of_not_mem {k : Name} : ∀ {c : Conf}, k ∉ c.map (·.1) → cget c k = none := by
  intro c
  induction c with
  | nil => intro _; rfl
  | cons x xs ih =>
    intro h
    obtain ⟨k', v⟩ := x
    simp only [List.map_cons, List.mem_cons, not_or] at h
    simp [cget, ih h.2, Ne.symm h.1]

theorem cget_keys (c : Conf) (k : Name) : ∀ (l : List Name),
    cget (l.filterMap fun k' => (cget c k').map fun v => (k', v)) k =
      if k ∈ l then cget c k else none := by
  intro l
  induction l with
  | nil => rfl
  | cons k' ks ih =>
    cases hv : cget c k' with
    | none =>
      rw [List.filterMap_cons_none (by simp [hv]), ih]
      by_cases hkk : k = k'
      · subst hkk; simp [hv]
      · simp [hkk]
    | some v' =>
      rw [List.filterMap_cons_some (b := (k', v')) (by simp [hv])]
      simp only [cget, ih]
      by_cases hkk : k' = k
      · subst hkk
        by_cases hm : k' ∈ ks <;> simp [hm, hv]
      · have : ¬ k = k' := fun e => hkk e.symm
        by_cases hm : k ∈ ks
        · simp only [hm, hkk, this, if_true, if_false, List.mem_cons, false_or]
          cases cget c k <;> rfl
        · simp [hm, hkk, this]

/-- The dict built from an update list answers like the update list. -/
theorem cget_toDict (c : Conf) (k : Name) : cget (toDict c) k = cget c k := by
  unfold toDict
  rw [cget_keys]
  by_cases hm : k ∈ dedup (c.map (·.1))
  · simp [hm]
  · simp only [hm, if_false]
    exact (cget_none_of_not_mem (fun h => hm (mem_dedup.mpr h))).symm

/-- `tools.<t>.<a>` -/
def toolKey (t a : Name) : Name := toolsNs ++ '.' :: (t ++ '.' :: a)

theorem settingsOf_eq (b : Conf) (t : Name) : settingsOf b t = b.filterMap (nsFilter t) := rfl
theorem bucket_eq (c : Conf) (ns : Name) : bucket c ns = (toDict c).filterMap (nsFilter ns) := rfl

/-- What `request.toolmaps['tools'][t]` holds under argument name `a` is the effective config's entry
    `tools.<t>.<a>`. -/
theorem tool_setting (c : Conf) (t a : Name) (ht : '.' ∉ t) :
    cget (settingsOf (bucket c toolsNs) t) a = cget c (toolKey t a) := by
  rw [settingsOf_eq, cget_nsFilter t ht, bucket_eq, cget_nsFilter toolsNs (by decide), cget_toDict]
  rfl

theorem cget_some_mem {a : Name} : ∀ {l : Conf} {v : Val}, cget l a = some v → ∃ w, (a, w) ∈ l := by
  intro l
  induction l with
  | nil => intro v h; simp [cget] at h
  | cons x xs ih =>
    intro v h
    obtain ⟨k, w⟩ := x
    simp only [cget] at h
    split at h
    · rename_i x hx
      obtain ⟨w', hw'⟩ := ih hx
      exact ⟨w', List.mem_cons_of_mem _ hw'⟩
    · split at h
      · rename_i hk; subst hk; exact ⟨w, List.mem_cons_self ..⟩
      · cases h

theorem mem_toolmap {c : Conf} {t : Name} {settings : Conf} (h : (t, settings) ∈ toolmap c) :
    settings = settingsOf (bucket c toolsNs) t := by
  unfold toolmap at h
  dsimp only at h
  rw [List.mem_map] at h
  obtain ⟨t', _, he⟩ := h
  injection he with h1 h2
  subst h1
  exact h2.symm

/-- **C08, tools.**  Tool `t` is set up for the request exactly when the effective config's
    `tools.<t>.on` is truthy. -/
theorem C08_tools (c : Conf) (t : Name) (ht : '.' ∉ t) :
    toolOn c t = true ↔ ((cget c (toolKey t onName)).map truthy).getD false = true := by
  unfold toolOn toolsSetup
  rw [List.any_eq_true]
  constructor
  · rintro ⟨⟨t', args⟩, hmem, ht'⟩
    rw [List.mem_filterMap] at hmem
    obtain ⟨⟨t'', settings⟩, hin, hsome⟩ := hmem
    dsimp only at hsome
    split at hsome
    · rename_i hon
      injection hsome with hsome
      injection hsome with h1 h2
      have : t'' = t := by rw [h1]; simpa using ht'
      subst this
      rw [mem_toolmap hin, tool_setting c t'' onName ht] at hon
      exact hon
    · cases hsome
  · intro hon
    rw [← tool_setting c t onName ht] at hon
    refine ⟨(t, (settingsOf (bucket c toolsNs) t).filter fun (a, _) => a ≠ onName ∧ a ≠ priorityName), ?_, by simp⟩
    rw [List.mem_filterMap]
    refine ⟨(t, settingsOf (bucket c toolsNs) t), ?_, by simp [hon]⟩
    -- `t` is one of the tool names of the bucket
    unfold toolmap
    dsimp only
    rw [List.mem_map]
    refine ⟨t, ?_, rfl⟩
    rw [mem_dedup, List.mem_filterMap]
    cases hv : cget (settingsOf (bucket c toolsNs) t) onName with
    | none => simp [hv] at hon
    | some v =>
      obtain ⟨w, hw⟩ := cget_some_mem hv
      rw [settingsOf_eq, List.mem_filterMap] at hw
      obtain ⟨⟨k, v'⟩, hkin, hk⟩ := hw
      refine ⟨(k, v'), hkin, ?_⟩
      unfold nsFilter at hk
      dsimp only at hk ⊢
      split at hk
      · rename_i n rest hsd
        split at hk
        · rename_i hn; subst hn; simp [hsd]
        · cases hk
      · cases hk

theorem cget_filter_key (p : Name → Bool) (a : Name) (hp : p a = true) : ∀ (l : Conf),
    cget (l.filter fun x => p x.1) a = cget l a := by
  intro l
  induction l with
  | nil => rfl
  | cons x xs ih =>
    obtain ⟨k, v⟩ := x
    by_cases hk : p k = true
    · simp [List.filter, hk, cget, ih]
    · have hne : k ≠ a := fun e => hk (e ▸ hp)
      simp only [List.filter, hk, cget, ih, hne, if_false]
      cases cget xs a <;> rfl

/-- **C08, tool arguments.**  The keyword arguments a tool's callable receives are exactly the effective
    `tools.<t>.*` entries, `on` and `priority` removed. -/
theorem C08_tool_args (c : Conf) (t : Name) (args : Conf) (ht : '.' ∉ t)
    (h : (t, args) ∈ toolsSetup c) (a : Name) :
    cget args a = if a = onName ∨ a = priorityName then none else cget c (toolKey t a) := by
  unfold toolsSetup at h
  rw [List.mem_filterMap] at h
  obtain ⟨⟨t', settings⟩, hin, hsome⟩ := h
  dsimp only at hsome
  split at hsome
  · injection hsome with hsome
    injection hsome with h1 h2
    subst h1
    rw [mem_toolmap hin] at h2
    subst h2
    by_cases hex : a = onName ∨ a = priorityName
    · simp only [hex, if_true]
      apply cget_none_of_not_mem
      intro hm
      rw [List.mem_map] at hm
      obtain ⟨⟨a', v⟩, hmem, ha'⟩ := hm
      rw [List.mem_filter] at hmem
      dsimp only at ha'
      subst ha'
      have := hmem.2
      simp at this
      rcases hex with e | e
      · exact this.1 e
      · exact this.2 e
    · simp only [hex, if_false]
      rw [← tool_setting c t' a ht]
      have hp : (fun (x : Name) => decide (x ≠ onName ∧ x ≠ priorityName)) a = true := by
        simp only [not_or] at hex
        simp [hex.1, hex.2]
      exact cget_filter_key (fun x => decide (x ≠ onName ∧ x ≠ priorityName)) a hp _
  · cases hsome


/-! ### `Application.find_config` -/

/-- The section names `find_config` consults for the path `"/s1/…/sn"`, longest prefix first, `"/"`
    last.  The argument is the segment list *reversed*. -/
def visitList : List Name → List (List Char)
  | [] => [['/']]
  | s :: r => slashes (s :: r).reverse :: visitList r

/-- value of the first listed section that holds the key, else the default -/
def firstWith (secs : List (List Char × Conf)) (key : Name) : List (List Char) → Option Val → Option Val
  | [], d => d
  | q :: r, d =>
    match cget (secOf secs q) key with
    | some v => some v
    | none => firstWith secs key r d

theorem rfind_go_append (a b : List Char) : ∀ (i : Nat) (acc : Option Nat),
    rfindSlash.go (a ++ b) i acc = rfindSlash.go b (i + a.length) (rfindSlash.go a i acc) := by
  induction a with
  | nil => intro i acc; simp [rfindSlash.go]
  | cons c cs ih =>
    intro i acc
    simp only [List.cons_append, rfindSlash.go, ih, List.length_cons]
    congr 1
    omega

theorem rfind_go_noslash : ∀ (s : List Char) (i : Nat) (acc : Option Nat), '/' ∉ s →
    rfindSlash.go s i acc = acc := by
  intro s
  induction s with
  | nil => intro i acc _; rfl
  | cons c cs ih =>
    intro i acc h
    have hc : c ≠ '/' := fun e => h (by rw [e]; exact List.mem_cons_self ..)
    simp only [rfindSlash.go, hc, if_false]
    exact ih _ _ (fun m => h (List.mem_cons_of_mem _ m))

theorem rfindSlash_last (a s : List Char) (hs : '/' ∉ s) : rfindSlash (a ++ '/' :: s) = some a.length := by
  unfold rfindSlash
  rw [rfind_go_append]
  simp only [rfindSlash.go, if_true, Nat.zero_add]
  exact rfind_go_noslash s _ _ hs

theorem findConfigLoop_root (secs : List (List Char × Conf)) (key : Name) (dflt : Option Val) :
    ∀ fuel, 1 ≤ fuel → findConfigLoop secs key dflt fuel ['/'] = firstWith secs key [['/']] dflt := by
  intro fuel hf
  obtain ⟨n, rfl⟩ : ∃ n, fuel = n + 1 := ⟨fuel - 1, by omega⟩
  simp only [findConfigLoop, firstWith, secOf]
  cases hc : cget ((lookup secs ['/']).getD []) key with
  | some v => simp
  | none =>
    have hr : rfindSlash ['/'] = some 0 := by decide
    simp only [hr]
    cases n with
    | zero => simp [findConfigLoop]
    | succ m => simp [findConfigLoop]

theorem findConfigLoop_spec (secs : List (List Char × Conf)) (key : Name) (dflt : Option Val) :
    ∀ (rsegs : List Name), (∀ s ∈ rsegs, s ≠ [] ∧ '/' ∉ s) → rsegs ≠ [] →
      ∀ fuel, (slashes rsegs.reverse).length + 1 ≤ fuel →
        findConfigLoop secs key dflt fuel (slashes rsegs.reverse) =
          firstWith secs key (visitList rsegs) dflt := by
  intro rsegs
  induction rsegs with
  | nil => intro _ h; exact absurd rfl h
  | cons s r ih =>
    intro hseg _ fuel hfuel
    obtain ⟨n, rfl⟩ : ∃ n, fuel = n + 1 := ⟨fuel - 1, by omega⟩
    have hs := hseg s (List.mem_cons_self ..)
    have htrail : slashes (s :: r).reverse = slashes r.reverse ++ '/' :: s := by
      simp [slashes_append]
    have hne : (slashes (s :: r).reverse).isEmpty = false := by rw [htrail]; simp
    simp only [findConfigLoop, hne, visitList, firstWith, secOf]
    cases hc : cget ((lookup secs (slashes (s :: r).reverse)).getD []) key with
    | some v => simp
    | none =>
      simp only [Bool.false_eq_true, if_false]
      rw [htrail, rfindSlash_last _ _ hs.2]
      simp only
      cases r with
      | nil =>
        have h1 : ('/' :: s) ≠ ['/'] := by
          intro e; injection e with _ e2; exact hs.1 e2
        simp only [List.reverse_nil, slashes, List.flatMap_nil, List.length_nil, List.nil_append, true_and,
          h1, ne_eq, not_false_eq_true, if_true]
        have := findConfigLoop_root secs key dflt n (by
          rw [htrail] at hfuel
          simp [slashes] at hfuel
          have := List.length_pos_iff.mpr hs.1
          omega)
        simpa [visitList] using this
      | cons s' r' =>
        have hpos : (slashes (s' :: r').reverse).length ≠ 0 := by
          simp [slashes_append]
        simp only [hpos, false_and, if_false]
        have htake : (slashes (s' :: r').reverse ++ '/' :: s).take (slashes (s' :: r').reverse).length =
            slashes (s' :: r').reverse := by simp
        rw [htake]
        apply ih (fun x hx => hseg x (List.mem_cons_of_mem _ hx)) (by simp)
        rw [htrail] at hfuel
        simp only [List.length_append, List.length_cons] at hfuel
        omega

/-- **C08, find_config.**  For a request path `"/s1/…/sn"` (non-empty segments without slashes):
    `app.find_config(path, key, default)` is the value of the longest path-prefix section that holds the
    key — consulted in the order `/s1/…/sn`, …, `/s1`, `/` — and the default when none does. -/
theorem C08_find_config (secs : List (List Char × Conf)) (key : Name) (dflt : Option Val)
    (segs : List Name) (hseg : ∀ s ∈ segs, s ≠ [] ∧ '/' ∉ s) (hne : segs ≠ []) :
    findConfig secs (slashes segs) key dflt = firstWith secs key (visitList segs.reverse) dflt := by
  unfold findConfig
  have hnonempty : (slashes segs).isEmpty = false := by
    cases segs with
    | nil => exact absurd rfl hne
    | cons a r => simp [slashes]
  simp only [hnonempty, Bool.false_eq_true, if_false]
  have := findConfigLoop_spec secs key dflt segs.reverse
    (fun s hs => hseg s (List.mem_reverse.mp hs)) (by simpa using hne)
    ((slashes segs).length + 1) (by simp)
  simpa using this

-- the empty path and "/" consult only the root section
example (secs : List (List Char × Conf)) (key : Name) (dflt : Option Val) :
    findConfig secs [] key dflt = firstWith secs key [['/']] dflt := by
  unfold findConfig
  exact findConfigLoop_root secs key dflt _ (by simp)

/-! ### unrepr: `build (toAst v) = v` -/

section Unrepr
open CpModel.Unrepr

/-- the node classes the literal values of the statement need (operators are node classes too) -/
def baseClasses : List String :=
  ["Constant", "List", "Tuple", "Dict", "UnaryOp", "USub", "BinOp", "Add", "Name", "Attribute"]

def keywordNames : List (List Char) := ["None".toList, "True".toList, "False".toList]

/-- every dotted prefix of the path resolves -/
def prefixesIn (env : List (List (List Char))) : List (List Char) → List (List Char) → Bool
  | _, [] => true
  | pre, a :: rest => env.contains (pre ++ [a]) && prefixesIn env (pre ++ [a]) rest

mutual
/-- well-formed literal value: dotted names resolve in `env` (and are not the three keywords) -/
def wf (env : List (List (List Char))) : PyVal → Bool
  | .obj p =>
    (match p with
     | [] => false
     | a :: rest => !keywordNames.contains a && prefixesIn env [] (a :: rest))
  | .list xs => wfList env xs
  | .tuple xs => wfList env xs
  | .dict xs => wfList env xs
  | .applied .. => false
  | _ => true

def wfList (env : List (List (List Char))) : List PyVal → Bool
  | [] => true
  | x :: r => wf env x && wfList env r
end

mutual
/-- does `repr v` contain a binary minus (a complex number with real part and negative imaginary part)? -/
def needsSub : PyVal → Bool
  | .complex re im => decide (re ≠ 0) && decide (im < 0)
  | .list xs => needsSubList xs
  | .tuple xs => needsSubList xs
  | .dict xs => needsSubList xs
  | _ => false

def needsSubList : List PyVal → Bool
  | [] => false
  | x :: r => needsSub x || needsSubList r
end

theorem recog_ok {tbl : List String} {c : String} (h : tbl.contains c = true) : recog tbl c = .ok () := by
  unfold recog
  rw [h]
  rfl

theorem build_attr_chain (tbl : List String) (env : List (List (List Char)))
    (hA : tbl.contains "Attribute" = true) :
    ∀ (rest pre : List (List Char)) (acc : PyAst), build tbl env acc = .ok (.obj pre) →
      prefixesIn env pre rest = true →
      build tbl env (rest.foldl (fun acc a => .attr acc a) acc) = .ok (.obj (pre ++ rest)) := by
  intro rest
  induction rest with
  | nil => intro pre acc h _; simpa using h
  | cons a r ih =>
    intro pre acc h hp
    simp only [prefixesIn, Bool.and_eq_true] at hp
    simp only [List.foldl_cons]
    have hm : pre ++ [a] ∈ env := by simpa using hp.1
    have hstep : build tbl env (.attr acc a) = .ok (.obj (pre ++ [a])) := by
      simp [build, recog_ok hA, h, hm, bind, Except.bind, pure, Except.pure]
    have := ih (pre ++ [a]) (.attr acc a) hstep hp.2
    simpa using this

mutual
theorem build_toAst (tbl : List String) (env : List (List (List Char)))
    (hbase : ∀ c ∈ baseClasses, tbl.contains c = true) :
    (v : PyVal) → wf env v = true → (needsSub v = true → tbl.contains "Sub" = true) →
      build tbl env (toAst v) = .ok v
  | .none, _, _ => by
    simp [toAst, build, recog_ok (hbase "Constant" (by decide)), litVal, bind, Except.bind, pure, Except.pure]
  | .bool b, _, _ => by
    simp [toAst, build, recog_ok (hbase "Constant" (by decide)), litVal, bind, Except.bind, pure, Except.pure]
  | .str s, _, _ => by
    simp [toAst, build, recog_ok (hbase "Constant" (by decide)), litVal, bind, Except.bind, pure, Except.pure]
  | .bytes s, _, _ => by
    simp [toAst, build, recog_ok (hbase "Constant" (by decide)), litVal, bind, Except.bind, pure, Except.pure]
  | .int i, _, _ => by
    by_cases hi : i < 0
    · have e : (-(↑(i.natAbs) * 1000 : Int)) / 1000 = i := by omega
      simp [toAst, signed, hi, build, recog_ok (hbase "Constant" (by decide)),
        recog_ok (hbase "UnaryOp" (by decide)), recog_ok (hbase "USub" (by decide)), uopName, litVal, negV,
        num?, mkNum, bind, Except.bind, pure, Except.pure, e]
    · have e : (↑(i.natAbs) : Int) = i := by omega
      simp [toAst, signed, hi, build, recog_ok (hbase "Constant" (by decide)), litVal, bind, Except.bind,
        pure, Except.pure, e]
  | .float m, _, _ => by
    by_cases hi : m < 0
    · have e : (-(↑(m.natAbs) : Int)) = m := by omega
      simp [toAst, signed, hi, build, recog_ok (hbase "Constant" (by decide)),
        recog_ok (hbase "UnaryOp" (by decide)), recog_ok (hbase "USub" (by decide)), uopName, litVal, negV,
        num?, mkNum, bind, Except.bind, pure, Except.pure, e]
    · have e : (↑(m.natAbs) : Int) = m := by omega
      simp [toAst, signed, hi, build, recog_ok (hbase "Constant" (by decide)), litVal, bind, Except.bind,
        pure, Except.pure, e]
  | .complex re im, _, hs => by
    have hC := recog_ok (hbase "Constant" (by decide))
    have hU := recog_ok (hbase "UnaryOp" (by decide))
    have hUS := recog_ok (hbase "USub" (by decide))
    have hB := recog_ok (hbase "BinOp" (by decide))
    have hAdd := recog_ok (hbase "Add" (by decide))
    by_cases hre : re = 0
    · subst hre
      by_cases hi : im < 0
      · have e : (-(↑(im.natAbs) : Int)) = im := by omega
        simp [toAst, signed, hi, build, hC, hU, hUS, uopName, litVal, negV, num?, mkNum, bind, Except.bind,
          pure, Except.pure, e]
      · have e : (↑(im.natAbs) : Int) = im := by omega
        simp [toAst, signed, hi, build, hC, litVal, bind, Except.bind, pure, Except.pure, e]
    · -- the real part as `repr` prints it
      have hleft : ∃ k, (k = NK.int ∨ k = NK.float) ∧ ∃ lv, build tbl env (realAst re) = .ok lv ∧
          num? lv = some (k, re, 0) := by
        unfold realAst
        by_cases hneg : re < 0
        · by_cases hmod : re % 1000 = 0
          · refine ⟨.int, .inl rfl, .int ((-(↑(re.natAbs / 1000) * 1000 : Int)) / 1000), ?_, ?_⟩
            · simp [signed, hneg, hmod, build, hC, hU, hUS, uopName, litVal, negV, num?, mkNum, bind,
                Except.bind, pure, Except.pure]
            · simp [num?]
              omega
          · refine ⟨.float, .inr rfl, .float (-(↑re.natAbs : Int)), ?_, ?_⟩
            · simp [signed, hneg, hmod, build, hC, hU, hUS, uopName, litVal, negV, num?, mkNum, bind,
                Except.bind, pure, Except.pure]
            · have : (-(↑re.natAbs : Int)) = re := by omega
              simp [num?, this]
        · by_cases hmod : re % 1000 = 0
          · refine ⟨.int, .inl rfl, .int (↑(re.natAbs / 1000)), ?_, ?_⟩
            · simp [signed, hneg, hmod, build, hC, litVal, bind, Except.bind, pure, Except.pure]
            · simp [num?]
              omega
          · refine ⟨.float, .inr rfl, .float (↑re.natAbs), ?_, ?_⟩
            · simp [signed, hneg, hmod, build, hC, litVal, bind, Except.bind, pure, Except.pure]
            · have : ((↑re.natAbs : Int)) = re := by omega
              simp [num?, this]
      obtain ⟨k, hk, lv, hbl, hnum⟩ := hleft
      have hmax : k.max .complex = .complex := by rcases hk with e | e <;> subst e <;> rfl
      have harith : ∀ sub : Bool, arith sub lv (.complex 0 ↑im.natAbs) =
          .ok (if sub then .complex (re - 0) (0 - ↑im.natAbs) else .complex (re + 0) (0 + ↑im.natAbs)) := by
        intro sub
        unfold arith
        rw [hnum]
        cases sub <;> simp [num?, hmax, mkNum]
      by_cases hi : im < 0
      · have hSub := recog_ok (hs (by simp [needsSub, hre, hi]))
        have e : (0 - (↑(im.natAbs) : Int)) = im := by omega
        have hS2 : arith true lv (.complex 0 ↑im.natAbs) = .ok (.complex re im) := by
          have := harith true
          simpa [e] using this
        simp [toAst, hre, hi, build, hB, hSub, hC, bopName, hbl, litVal, hS2, bind, Except.bind, pure,
          Except.pure]
      · have e : ((↑(im.natAbs) : Int)) = im := by omega
        have hA2 : arith false lv (.complex 0 ↑im.natAbs) = .ok (.complex re im) := by
          have := harith false
          simpa [e] using this
        simp [toAst, hre, hi, build, hB, hAdd, hC, bopName, hbl, litVal, hA2, bind, Except.bind, pure,
          Except.pure]
  | .list xs, hw, hs => by
    have := buildList_toAst tbl env hbase xs (by simpa [wf] using hw) (by simpa [needsSub] using hs)
    simp [toAst, build, recog_ok (hbase "List" (by decide)), this, bind, Except.bind, pure, Except.pure]
  | .tuple xs, hw, hs => by
    have := buildList_toAst tbl env hbase xs (by simpa [wf] using hw) (by simpa [needsSub] using hs)
    simp [toAst, build, recog_ok (hbase "Tuple" (by decide)), this, bind, Except.bind, pure, Except.pure]
  | .dict xs, hw, hs => by
    have := buildList_toAst tbl env hbase xs (by simpa [wf] using hw) (by simpa [needsSub] using hs)
    simp [toAst, build, recog_ok (hbase "Dict" (by decide)), this, bind, Except.bind, pure, Except.pure]
  | .applied .., hw, _ => by simp [wf] at hw
  | .obj p, hw, _ => by
    cases p with
    | nil => simp [wf] at hw
    | cons a rest =>
      simp only [wf, Bool.and_eq_true, Bool.not_eq_true'] at hw
      obtain ⟨hkw, hp⟩ := hw
      simp only [prefixesIn, Bool.and_eq_true, List.nil_append] at hp
      have hN := recog_ok (hbase "Name" (by decide))
      have hne : a ≠ "None".toList ∧ a ≠ "True".toList ∧ a ≠ "False".toList := by
        simp only [keywordNames, List.contains_cons, List.contains_nil, Bool.or_false, Bool.or_eq_false_iff,
          beq_eq_false_iff_ne] at hkw
        exact ⟨hkw.1, hkw.2.1, hkw.2.2⟩
      have hm : [a] ∈ env := by simpa using hp.1
      have hname : build tbl env (.name a) = .ok (.obj [a]) := by
        simp [build, hN, hm, bind, Except.bind, pure, Except.pure]
        simp only [if_neg (show ¬ a = ['N', 'o', 'n', 'e'] from hne.1),
          if_neg (show ¬ a = ['T', 'r', 'u', 'e'] from hne.2.1),
          if_neg (show ¬ a = ['F', 'a', 'l', 's', 'e'] from hne.2.2)]
      have := build_attr_chain tbl env (hbase "Attribute" (by decide)) rest [a] (.name a) hname hp.2
      simpa [toAst, nameChain] using this

theorem buildList_toAst (tbl : List String) (env : List (List (List Char)))
    (hbase : ∀ c ∈ baseClasses, tbl.contains c = true) :
    (xs : List PyVal) → wfList env xs = true → (needsSubList xs = true → tbl.contains "Sub" = true) →
      buildList tbl env (toAstList xs) = .ok xs
  | [], _, _ => by simp [toAstList, buildList, pure, Except.pure]
  | x :: r, hw, hs => by
    simp only [wfList, Bool.and_eq_true] at hw
    have h1 := build_toAst tbl env hbase x hw.1 (fun h => hs (by simp [needsSubList, h]))
    have h2 := buildList_toAst tbl env hbase r hw.2 (fun h => hs (by simp [needsSubList, h]))
    simp [toAstList, buildList, h1, h2, bind, Except.bind, pure, Except.pure]
end

/-- **C08, unrepr (partial).**  For every builder table that has the base node classes, every
    environment and every well-formed literal value: `unrepr(repr(v)) = v`, provided the table also has
    `Sub` when `repr(v)` contains a binary minus. -/
theorem C08_unrepr_partial (tbl : List String) (env : List (List (List Char)))
    (hbase : ∀ c ∈ baseClasses, tbl.contains c = true) (v : PyVal) (hw : wf env v = true)
    (hs : needsSub v = true → tbl.contains "Sub" = true) :
    build tbl env (toAst v) = .ok v :=
  build_toAst tbl env hbase v hw hs

/-- The full statement for the builder of the live module. -/
def C08_unrepr_full : Prop :=
  ∀ (env : List (List (List Char))) (v : PyVal), wf env v = true → build liveTable env (toAst v) = .ok v

/-- The live `_Builder` has every base node class (obligation on the generated table). -/
theorem live_has_base : ∀ c ∈ baseClasses, liveTable.contains c = true := by decide

/-- **C08, unrepr (full, both ways).**  With `build_Sub` in the live builder the full statement holds;
    without it the statement is false, witnessed by `(1-2j)`.  Whichever tree the table was generated
    from, this theorem checks — and which side it proves is read off the table. -/
theorem C08_unrepr_dichotomy :
    (liveTable.contains "Sub" = true ∧ C08_unrepr_full) ∨
    (liveTable.contains "Sub" = false ∧ ¬ C08_unrepr_full) := by
  by_cases h : liveTable.contains "Sub" = true
  · exact .inl ⟨h, fun env v hw => build_toAst liveTable env live_has_base v hw (fun _ => h)⟩
  · right
    have hf : liveTable.contains "Sub" = false := by simpa using h
    refine ⟨hf, fun hfull => ?_⟩
    have := hfull [] (.complex 1000 (-2000)) rfl
    have hCm : "Constant" ∈ liveTable := by simpa using live_has_base "Constant" (by decide)
    have hBm : "BinOp" ∈ liveTable := by simpa using live_has_base "BinOp" (by decide)
    have hnm : "Sub" ∉ liveTable := by simpa using hf
    simp [toAst, realAst, signed, build, hBm, hCm, recog, hnm, bopName, litVal, bind, Except.bind, pure,
      Except.pure] at this

/-- Sets are not among the statement's literal kinds, and a builder without `build_Set` rejects them. -/
theorem C08_unrepr_set_rejected (tbl : List String) (env : List (List (List Char))) (xs : List PyAst)
    (h : tbl.contains "Set" = false) : build tbl env (.set xs) = .error (.unrecognised "Set") := by
  have hnm : "Set" ∉ tbl := by simpa using h
  simp [build, recog, hnm, bind, Except.bind]

-- non-vacuity: a nested value with a negative number, both complex signs and a dotted name
example : wf [["os".toList], ["os".toList, "path".toList]]
    (.dict [.str "k".toList, .list [.int (-5), .complex 1500 (-2000), .complex (-1000) 250,
      .obj ["os".toList, "path".toList]]]) = true := by decide

end Unrepr

end CpProofs.C08
