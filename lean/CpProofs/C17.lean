import CpProofs.C17Lemmas
/-!
  C17 — negotiated content and charset encodings are lossless and honoured.
-/
namespace CpProofs.C17

open CpModel.Gzip CpModel.Negotiate

/-! ## gzip member -/

/-- **Round trip**: for every lawful deflate parameter, every level, MTIME and every chunking of the
    body (empty chunks included) the member produced by `compress()` parses back to the body. -/
theorem C17_gzip_roundtrip (z : Z) (hz : z.Lawful) (level mtime : Nat) (chunks : List Bytes) :
    gunzip z (member z level mtime chunks) = some chunks.flatten := by
  have hm : member z level mtime chunks =
      0x1f :: 0x8b :: 0x08 :: 0x00 ::
        UInt8.ofNat (mtime % 4294967296 % 256) :: UInt8.ofNat (mtime % 4294967296 / 256 % 256) ::
        UInt8.ofNat (mtime % 4294967296 / 65536 % 256) :: UInt8.ofNat (mtime % 4294967296 / 16777216 % 256) ::
        xfl level :: 0xff ::
        ((z.deflate level chunks).flatten ++
          (trailerChunks (chunks.foldl Acc.feed Acc.init)).flatten) := by
    simp [member, frame, headerChunks, le32]
  rw [hm]
  simp only [gunzip]
  rw [hz level chunks]
  simp only [trailerChunks, le32, List.flatten_cons, List.flatten_nil, List.append_nil,
    List.cons_append, List.nil_append, crc32_chunks, size_chunks, rd32_le32]
  have h1 : (crc32 chunks.flatten).toNat % 4294967296 % 4294967296 = (crc32 chunks.flatten).toNat := by
    have := UInt32.toNat_lt (crc32 chunks.flatten)
    omega
  simp

end CpProofs.C17
