import CpProofs.C17Lemmas
/-!
  C17 — negotiated content and charset encodings are lossless and honoured.

  Models: `CpModel/Gzip.lean` (compress(), CRC-32, checking gunzip), `CpModel/Negotiate.lean`
  (header_elements, encoding.gzip as repaired, ResponseEncoder).  Helper lemmas: `C17Lemmas.lean`.
  Parameters: raw deflate `Z` (contract `Z.Lawful`), codecs (`can`, `Codec`).
-/
set_option exponentiation.threshold 2048

namespace CpProofs.C17

open CpModel.Gzip CpModel.Negotiate

/-! ## the constants the model transcribes are the ones in the source (regenerated table) -/

/-- `RE_HEADER_SPLIT` and `q_separator` are the expressions `splitHeader` / `qSplit` transcribe -/
theorem tables_pinned :
    CpModel.Gen.C17.reHeaderSplit = [',', '(', '?', '=', '(', '?', ':', '[', '^', '"', ']', '*', '"', '[', '^', '"', ']', '*', '"', ')', '*', '[', '^', '"', ']', '*', '$', ')'] ∧
    CpModel.Gen.C17.qSeparator = [';', ' ', '*', 'q', ' ', '*', '='] ∧
    CpModel.Gen.C17.levelFast = 1 ∧ CpModel.Gen.C17.levelBest = 9 ∧
    CpModel.Gen.C17.defaultEncoding = ['u', 't', 'f', '-', '8'] ∧
    CpModel.Gen.C17.defaultMimeTypes = [['t', 'e', 'x', 't', '/', 'h', 't', 'm', 'l'], ['t', 'e', 'x', 't', '/', 'p', 'l', 'a', 'i', 'n']] ∧
    CpModel.Gen.C17.defaultTextOnly = true ∧ CpModel.Gen.C17.defaultAddCharset = true ∧
    CpModel.Gen.C17.defaultForcedIsNone = true := by decide

/-! ## gzip member -/

/-- **Round trip**: for every lawful deflate parameter, every level, MTIME and every chunking of the
    body (empty chunks included) the member produced by `compress()` parses back to the body. -/
theorem C17_gzip_roundtrip (z : Z) (hz : z.Lawful) (level mtime : Nat) (chunks : List Bytes) :
    gunzip z (member z level mtime chunks) = some chunks.flatten := by
  have hm : member z level mtime chunks =
      0x1f :: 0x8b :: 0x08 :: 0x00 ::
        UInt8.ofNat (mtime % 4294967296 % 256) :: UInt8.ofNat (mtime % 4294967296 / 256 % 256) ::
        UInt8.ofNat (mtime % 4294967296 / 65536 % 256) :: UInt8.ofNat (mtime % 4294967296 / 16777216 % 256) ::
        xfl level :: 0xff ::
        ((z.deflate level chunks).flatten ++
          (trailerChunks (chunks.foldl Acc.feed Acc.init)).flatten) := by
    simp [member, frame, headerChunks, le32]
  rw [hm]
  simp only [gunzip]
  rw [hz level chunks]
  simp only [trailerChunks, le32, List.flatten_cons, List.flatten_nil, List.append_nil,
    List.cons_append, List.nil_append, crc32_chunks, size_chunks, rd32_le32]
  simp

/-- non-vacuity of `Z.Lawful`: the "stored" coder (length-prefixed copy) is lawful, so the theorem is
    not about an empty class (one byte of length, bodies < 256 bytes would do; here: unary framing) -/
def storedGo : List UInt8 → List UInt8 → Option (Bytes × Bytes)
  | 1 :: b :: r, acc => storedGo r (b :: acc)
  | 0 :: r, acc => some (acc.reverse, r)
  | _, _ => none

def zStored : Z where
  deflate := fun _ chunks => [chunks.flatten.flatMap (fun b => [1, b]) ++ [0]]
  inflate := fun bs => storedGo bs []

theorem zStored_go (data tail acc : Bytes) :
    storedGo (data.flatMap (fun b => [1, b]) ++ 0 :: tail) acc = some (acc.reverse ++ data, tail) := by
  induction data generalizing acc with
  | nil => simp [storedGo]
  | cons b bs ih => simp [storedGo, ih]

theorem zStored_lawful : zStored.Lawful := by
  intro lvl chunks tail
  simp only [zStored, List.flatten_cons, List.flatten_nil, List.append_nil, List.append_assoc,
    List.cons_append, List.nil_append]
  simpa using zStored_go chunks.flatten tail []

example : gunzip zStored (member zStored 6 1700000000 [[1, 2], [], [3]]) = some [1, 2, 3] :=
  C17_gzip_roundtrip zStored zStored_lawful 6 1700000000 [[1, 2], [], [3]]

/-- the CRC-32 is the standard one (check value of the catalogue) -/
example : crc32 [0x31, 0x32, 0x33, 0x34, 0x35, 0x36, 0x37, 0x38, 0x39] = 0xCBF43926 := by decide +kernel

/-- **Header**: ten bytes, RFC 1952 magic, CM = 8, FLG = 0, MTIME mod 2^32 little endian, XFL by level
    (9 → 2, 1 → 4, else 0), OS = 255. -/
theorem C17_gzip_header (level mtime : Nat) :
    (headerChunks level mtime).flatten =
      [0x1f, 0x8b, 0x08, 0x00] ++ le32 (mtime % 4294967296) ++ [xfl level, 0xff] ∧
    (headerChunks level mtime).flatten.length = 10 ∧
    xfl 9 = 2 ∧ xfl 1 = 4 ∧ (level ≠ 9 → level ≠ 1 → xfl level = 0) := by
  refine ⟨by simp [headerChunks, le32], by simp [headerChunks, le32], by decide, by decide, ?_⟩
  intro h9 h1
  simp [xfl, CpModel.Gen.C17.levelBest, CpModel.Gen.C17.levelFast, h9, h1]

/-! ## the gzip tool: labels and passthrough -/

/-- `Accept-Encoding` is among the members of the Vary value the tool writes -/
theorem setVary_contains (v : Option Str) :
    ∃ vs, setVary v = joinWith [',', ' '] vs ∧ sAcceptEncoding ∈ vs := by
  simp only [setVary]
  split
  · rename_i h
    exact ⟨_, rfl, List.contains_iff_mem.mp h⟩
  · exact ⟨_, rfl, by simp⟩

/-- **Compress**: the body becomes a valid gzip member of the original bytes (any chunking, level),
    labelled `Content-Encoding: gzip`, `Vary` containing `Accept-Encoding`, Content-Length dropped. -/
theorem C17_gzip_labels (z : Z) (hz : z.Lawful) (i : GzipIn) (level mtime : Nat) (h : RespHeaders)
    (body : List Bytes) (hd : gzipDecision i = .compress) :
    gunzip z (gzipTool z i level mtime h body).2.2.flatten = some body.flatten ∧
    (gzipTool z i level mtime h body).2.1.contentEncoding = some sGzip ∧
    (gzipTool z i level mtime h body).2.1.contentLength = none ∧
    ∃ vs, (gzipTool z i level mtime h body).2.1.vary = some (joinWith [',', ' '] vs) ∧
      sAcceptEncoding ∈ vs := by
  have hr : gzipTool z i level mtime h body =
      (.compress, gzipHeaders .compress h, frame z level mtime body) := by
    simp [gzipTool, hd]
  rw [hr]
  refine ⟨C17_gzip_roundtrip z hz level mtime body, rfl, rfl, ?_⟩
  obtain ⟨vs, h1, h2⟩ := setVary_contains h.vary
  exact ⟨vs, by simp only [gzipHeaders, h1], h2⟩

/-- **Passthrough**: the body chunks, Content-Encoding and Content-Length are untouched. -/
theorem C17_passthrough (z : Z) (i : GzipIn) (level mtime : Nat) (h : RespHeaders)
    (body : List Bytes) (hd : gzipDecision i = .passthrough) :
    (gzipTool z i level mtime h body).2.2 = body ∧
    (gzipTool z i level mtime h body).2.1.contentEncoding = h.contentEncoding ∧
    (gzipTool z i level mtime h body).2.1.contentLength = h.contentLength := by
  simp [gzipTool, hd, gzipHeaders]

/-! ## the gzip tool: when it compresses, when it refuses -/

/-- **Compress only if accepted**: some listed `gzip`/`x-gzip` element has a numeric q ≠ 0 and the
    media type is eligible (over any element order). -/
theorem C17_compress_only_if_accepted (ct : Str) (mimes : List Str) (els : List Elem)
    (h : decideEls ct mimes els = .compress) :
    ∃ e ∈ els, isGz e ∧ qNumber e ∧ e.q.isZero = false ∧ mimeMatch ct mimes = .yes := by
  simp only [decideEls] at h
  split at h
  · subst h
    rename_i hl
    exact gzipLoop_compress ct mimes els hl
  · exact absurd h (refusalLoop_ne_compress els)

theorem gzipLoop_ne_406 (ct : Str) (mimes : List Str) (els : List Elem) :
    gzipLoop ct mimes els ≠ some .notAcceptable := by
  induction els with
  | nil => simp [gzipLoop]
  | cons e es ih =>
    simp only [gzipLoop]
    split
    · split
      · simp
      · simp
      · split
        · exact ih
        · simp
    · split
      · split
        · simp
        · simp
        · split
          · simp
          · simp only [mimeDecision]
            split <;> simp
      · exact ih

/-- what the statement calls "the client explicitly refuses both gzip and identity", read on the
    element list: no gzip/x-gzip element is listed at all, every identity element has q = 0, and
    identity or `*` is excluded with q = 0 -/
def RefusesBoth (els : List Elem) : Prop :=
  (∀ e ∈ els, ¬ isGz e) ∧ (∀ e ∈ els, e.value = sIdentity → e.q.isZero = true) ∧
  ∃ e ∈ els, (e.value = sIdentity ∨ e.value = sStar) ∧ e.q.isZero = true

/-- **406 only if refused** (repaired code), over every element list in any order. -/
theorem C17_406_only_if_refused (ct : Str) (mimes : List Str) (els : List Elem)
    (h : decideEls ct mimes els = .notAcceptable) : RefusesBoth els := by
  simp only [decideEls] at h
  split at h
  · subst h
    rename_i hl
    exact absurd hl (gzipLoop_ne_406 ct mimes els)
  · rename_i hl
    obtain ⟨h1, h2⟩ := gzipLoop_none ct mimes els hl
    exact ⟨h1, h2, refusalLoop_406 els h⟩

/-- the same at the level of the request header -/
theorem C17_406_only_if_refused_header (i : GzipIn) (h : gzipDecision i = .notAcceptable) :
    ∃ els, acceptElements i.acceptEncoding = .ok els ∧ RefusesBoth els := by
  unfold gzipDecision at h
  split at h
  · simp at h
  · split at h
    · simp at h
    · split at h
      · simp at h
      · simp at h
      · simp at h
      · rename_i els _ hacc
        exact ⟨els, hacc, C17_406_only_if_refused _ _ els h⟩

/-- non-vacuity: `*;q=0` (what the repo's own test sends) is refused -/
example : gzipDecision ⟨false, false, some ['*', ';', 'q', '=', '0'], ['t', '/', 'h'], [['t', '/', 'h']]⟩
    = .notAcceptable := by decide

example : gzipDecision ⟨false, false, some ['g', 'z', 'i', 'p'], ['t', '/', 'h'], [['t', '/', 'h']]⟩
    = .compress := by decide

/-- the tail as it was BEFORE proposed fix C17-gzip-406 (finding F18): 406 whenever the loop falls through -/
def decideElsUnrepaired (ct : Str) (mimes : List Str) (els : List Elem) : Decision :=
  match gzipLoop ct mimes els with
  | some d => d
  | none => .notAcceptable

def sDeflate : Str := ['d', 'e', 'f', 'l', 'a', 't', 'e']

/-- **F18**: on the unrepaired tail the statement is false: `Accept-Encoding: deflate` gives 406 although
    nothing is refused (witness replayed on the real code from corpus/C17). -/
theorem unrepaired_406_full_false :
    ¬ (∀ ct mimes els, decideElsUnrepaired ct mimes els = .notAcceptable → RefusesBoth els) := by
  intro h
  have h1 := h [] [] [⟨sDeflate, []⟩] (by decide)
  obtain ⟨_, _, e, he, hv, _⟩ := h1
  simp only [List.mem_singleton] at he
  subst he
  rcases hv with hv | hv <;> exact absurd hv (by decide)

/-- … and the repaired code passes the body through for it -/
example : gzipDecision ⟨false, false, some sDeflate, ['t', '/', 'h'], [['t', '/', 'h']]⟩ = .passthrough := by
  decide

/-! ## charset negotiation -/

/-- the implicit ISO-8859-1 fallback applies: neither `*` nor iso-8859-1 is mentioned -/
def fallbackApplies (encs : List Elem) : Prop :=
  ¬ (encs.map fun e => lower e.value).contains sStar = true ∧
  ¬ (encs.map fun e => lower e.value).contains sIso = true

/-- **Buffered bodies: whatever is chosen can encode the whole body** (forced or negotiated). -/
theorem C17_charset_can_encode (can : Str → Bool) (forced ac : Option Str) (c : Str)
    (h : findAcceptableCharset can false forced ac = .chosen c) : can c = true := by
  unfold findAcceptableCharset at h
  split at h
  · simp at h
  · simp at h
  · rename_i encs _
    simp only at h
    split at h
    · -- forced
      split at h
      · split at h
        · rename_i ht
          simp only [CsResult.chosen.injEq] at h
          rw [← h]; exact tryEnc_true can [] _ ht
        · simp at h
      · simp at h
    · split at h
      · split at h
        · rename_i ht
          simp only [CsResult.chosen.injEq] at h
          rw [← h]; exact tryEnc_true can [] _ ht
        · simp at h
      · split at h
        · rename_i r hl
          subst h
          obtain ⟨_, _, _, _, _, _, _, hcan, _⟩ := csLoop_chosen can _ encs [] c (by simp) hl
          exact hcan
        · rename_i att hl
          split at h
          · split at h
            · rename_i ht
              simp only [CsResult.chosen.injEq] at h
              rw [← h]; exact tryEnc_true can att _ ht
            · simp at h
          · simp at h

/-- the field ranks the default charset itself -/
def dflListed (encs : List Elem) : Bool := (encs.map fun e => lower e.value).contains (lower sUtf8)

/-- an element that offers a charset: q > 0, and not a `*` shadowed by an entry for the default -/
def effective (encs : List Elem) (e : Elem) : Prop := e.q.isPos = true ∧ ¬ shadowed (dflListed encs) e

/-- **Negotiated, buffered: the most preferred representable charset is chosen.**  The chosen charset
    is the default (no header), or stands for an effective listed element such that no effective
    listed element with strictly higher q can encode the body, or is the ISO-8859-1 last resort when
    no effective listed element can.  (`*` stands for the default charset only when the field does not
    rank the default itself.) -/
theorem C17_charset_preferred (can : Str → Bool) (ac : Option Str) (c : Str)
    (h : findAcceptableCharset can false none ac = .chosen c) :
    ∃ encs, acceptElements ac = .ok encs ∧ DescKey encs ∧
      ((encs = [] ∧ c = sUtf8) ∨
       (∃ e ∈ encs, effective encs e ∧ c = nameOf e ∧
          ∀ e' ∈ encs, e.q.key < e'.q.key → effective encs e' → can (nameOf e') = false) ∨
       (c = sIso ∧ fallbackApplies encs ∧ ∀ e' ∈ encs, effective encs e' → can (nameOf e') = false)) := by
  unfold findAcceptableCharset at h
  split at h
  · simp at h
  · simp at h
  · rename_i encs hacc
    have hdesc := acceptElements_descending ac encs hacc
    refine ⟨encs, hacc, hdesc, ?_⟩
    simp only at h
    split at h
    · rename_i hempty
      split at h
      · simp only [CsResult.chosen.injEq] at h
        exact Or.inl ⟨by simpa using hempty, h.symm⟩
      · simp at h
    · split at h
      · rename_i r hl
        subst h
        obtain ⟨pre, e, post, hes, hp, hns, hc, _, hpre⟩ := csLoop_chosen can _ encs [] c (by simp) hl
        refine Or.inr (Or.inl ⟨e, by simp [hes], ⟨hp, hns⟩, hc, ?_⟩)
        intro e' he' hk hq
        have he'' := he'
        rw [hes] at he'' hdesc
        rcases List.mem_append.mp he'' with hm | hm
        · exact hpre e' hm hq.1 hq.2
        · rcases List.mem_cons.mp hm with rfl | hm'
          · omega
          · have := (List.pairwise_cons.mp (List.pairwise_append.mp hdesc).2.1).1 e' hm'
            omega
      · rename_i att hl
        obtain ⟨hatt, hall⟩ := csLoop_inr can _ encs [] att (by simp) hl
        split at h
        · rename_i hfb
          split at h
          · simp only [CsResult.chosen.injEq] at h
            exact Or.inr (Or.inr ⟨h.symm, hfb, fun e' he' hq => hall e' he' hq.1 hq.2⟩)
          · simp at h
        · simp at h

/-- **Negotiated, buffered: 406 only if nothing acceptable can represent the text.** -/
theorem C17_charset_406_only_if_none (can : Str → Bool) (ac : Option Str)
    (h : findAcceptableCharset can false none ac = .notAcceptable) :
    ∃ encs, acceptElements ac = .ok encs ∧ encs ≠ [] ∧
      (∀ e ∈ encs, effective encs e → can (nameOf e) = false) ∧
      (fallbackApplies encs → can sIso = false) := by
  unfold findAcceptableCharset at h
  split at h
  · simp at h
  · simp at h
  · rename_i encs hacc
    refine ⟨encs, hacc, ?_⟩
    simp only at h
    split at h
    · split at h <;> simp at h
    · rename_i hne
      split at h
      · rename_i r hl
        subst h
        exact absurd hl (csLoop_ne_406 can false _ encs [])
      · rename_i att hl
        obtain ⟨hatt, hall⟩ := csLoop_inr can _ encs [] att (by simp) hl
        refine ⟨by simpa using hne, fun e he hq => hall e he hq.1 hq.2, ?_⟩
        intro hfb
        split at h
        · split at h
          · simp at h
          · rename_i ht
            exact (tryEnc_false can att sIso hatt (by simpa using ht)).1
        · rename_i hn
          exact absurd hfb hn


/-- non-vacuity (the repo's own example): `iso-8859-1;q=1, utf-16;q=0.5` on a text Latin-1 cannot
    represent chooses utf-16 -/
example :
    findAcceptableCharset (fun n => n = "utf-16".toList) false none (some "iso-8859-1;q=1, utf-16;q=0.5".toList)
      = .chosen "utf-16".toList := by decide

/-- **Forced encoding**: it is announced iff the header permits it and it can encode; else 406. -/
theorem C17_charset_forced (can : Str → Bool) (f : Str) (ac : Option Str) (c : Str)
    (h : findAcceptableCharset can false (some f) ac = .chosen c) : c = lower f ∧ can c = true := by
  refine ⟨?_, C17_charset_can_encode can (some f) ac c h⟩
  unfold findAcceptableCharset at h
  split at h
  · simp at h
  · simp at h
  · simp only at h
    split at h
    · split at h
      · simp only [CsResult.chosen.injEq] at h
        exact h.symm
      · simp at h
    · simp at h

/-- **Announced**: when a charset is found, the Content-Type written back is the first content-type
    element with its `charset` parameter set to exactly that charset. -/
theorem C17_charset_announced (can : Str → Bool) (i : EncodeIn) (c nct : Str)
    (h : encodeCall can i = .found c nct) :
    ∃ ct rest, plainElements i.contentType = ct :: rest ∧
      findAcceptableCharset can i.stream i.forced i.acceptCharset = .chosen c ∧
      nct = Elem.str { ct with params := setP ct.params sCharset (.str c) } ∧
      getP (setP ct.params sCharset (.str c)) sCharset = some (.str c) := by
  unfold encodeCall at h
  split at h
  · simp at h
  · rename_i ct rest hp
    split at h
    · simp at h
    · split at h
      · simp at h
      · split at h
        · rename_i c' hf
          simp only [EncodeOut.found.injEq] at h
          obtain ⟨rfl, rfl⟩ := h
          refine ⟨ct, rest, hp, hf, rfl, ?_⟩
          generalize ct.params = ps
          induction ps with
          | nil => simp [setP, getP]
          | cons p ps ih =>
            obtain ⟨k, v⟩ := p
            simp only [setP]
            split
            · rename_i hk
              simp [getP, hk]
            · rename_i hk
              simp only [getP, List.find?_cons, hk, decide_false] at ih ⊢
              exact ih
        · simp at h

/-! ### the emitted bytes -/

/-- what Python guarantees for an incremental encoder run over the pieces of a text (flush included):
    the concatenated output decodes to the concatenated text -/
def IncRT (k : Codec) : Prop :=
  ∀ name chunks bs, k.inc name chunks = some bs → k.dec name bs.flatten = some chunks.flatten

/-- **Sound**: what the buffered tool emits decodes, under the announced charset, to the text — for
    every chunking and every codec (signature-writing and stateful ones included). -/
theorem C17_charset_sound (k : Codec) (hk : IncRT k) (name : Str) (chunks : List Str) (bs : List Bytes)
    (h : encodeString k name chunks = some bs) : k.dec name bs.flatten = some chunks.flatten :=
  hk name chunks bs h

/-- a codec that writes a mark once per body (the shape of utf-16 / utf-32 / utf-8-sig under an
    incremental encoder), on the texts made of `a` -/
def markOnceCodec : Codec where
  enc := fun _ t => if t = ['a'] then some [0xFF, 0x61] else none
  dec := fun _ b => if b = [0xFF, 0x61] then some ['a'] else if b = [0xFF, 0x61, 0x61] then some ['a', 'a'] else none
  inc := fun _ cs => if cs = [['a'], ['a']] then some [[0xFF, 0x61], [0x61]] else none

/-- non-vacuity: it meets the contract, and two chunks decode to the two-letter text -/
example : IncRT markOnceCodec := by
  intro name chunks bs h
  simp only [markOnceCodec] at h ⊢
  split at h
  · rename_i hc
    cases h
    subst hc
    decide
  · simp at h

/-! ### the per-chunk encoder of the unrepaired code (finding F18c) -/

/-- per-chunk round trip: what Python guarantees for `text.encode(name)` / `bytes.decode(name)` -/
def ChunkRT (k : Codec) : Prop := ∀ name t b, k.enc name t = some b → k.dec name b = some t

/-- decoding is compatible with concatenation of complete encodings (true for stateless, BOM-free codecs) -/
def ConcatOk (k : Codec) (name : Str) : Prop :=
  k.dec name [] = some [] ∧
  ∀ b1 b2 t1 t2, k.dec name b1 = some t1 → k.dec name b2 = some t2 → k.dec name (b1 ++ b2) = some (t1 ++ t2)

/-- the full statement for the per-chunk encoder -/
def perChunk_sound_full : Prop :=
  ∀ (k : Codec), ChunkRT k → ∀ (name : Str) (chunks : List Str) (bs : List Bytes),
    encodeStringPerChunk k name chunks = some bs → k.dec name bs.flatten = some chunks.flatten

/-- for codecs compatible with concatenation the per-chunk bytes decoded to the text -/
theorem perChunk_sound_partial (k : Codec) (hk : ChunkRT k) (name : Str) (hc : ConcatOk k name)
    (chunks : List Str) (bs : List Bytes) (h : encodeStringPerChunk k name chunks = some bs) :
    k.dec name bs.flatten = some chunks.flatten := by
  induction chunks generalizing bs with
  | nil =>
    simp only [encodeStringPerChunk, List.mapM_nil] at h
    cases h
    simpa using hc.1
  | cons t ts ih =>
    simp only [encodeStringPerChunk, List.mapM_cons] at h
    cases hb : k.enc name t with
    | none => simp [hb] at h
    | some b =>
      cases hr : List.mapM (k.enc name) ts with
      | none => simp [hb, hr] at h
      | some r =>
        simp [hb, hr] at h
        subst h
        simp only [List.flatten_cons]
        exact hc.2 b r.flatten t ts.flatten (hk name t b hb) (ih r hr)

/-- a codec that prefixes every encoding with a mark (the shape of utf-16 / utf-32 / utf-8-sig) -/
def bomCodec : Codec where
  enc := fun _ t => if t = ['a'] then some [0xFF, 0x61] else none
  dec := fun _ b => if b = [0xFF, 0x61] then some ['a'] else none
  inc := fun _ _ => none

/-- **F18c** (fixed): for the per-chunk encoder the full statement was false — under a marking codec two
    chunks do not decode to the text. -/
theorem unrepaired_charset_sound_full_false : ¬ perChunk_sound_full := by
  intro h
  have hk : ChunkRT bomCodec := by
    intro name t b hb
    simp only [bomCodec] at hb ⊢
    split at hb
    · cases hb; simp_all
    · simp at hb
  have := h bomCodec hk [] [['a'], ['a']] [[0xFF, 0x61], [0xFF, 0x61]] (by decide)
  revert this
  decide

/-- **F18b**: streamed bodies — the first acceptable charset is announced whether or not it can encode
    the body (here nothing can) -/
theorem C17_charset_stream_full_false :
    ¬ (∀ (can : Str → Bool) (forced ac : Option Str) (c : Str),
        findAcceptableCharset can true forced ac = .chosen c → can c = true) := by
  intro h
  have := h (fun _ => false) none (some ['x']) ['x'] (by decide)
  simp at this

/-- the loop as it was BEFORE fix C17-star-explicit-default (finding F18e): `*` always tries the default -/
def csLoopUnrepaired (can : Str → Bool) (stream : Bool) : List Elem → List Str → Sum CsResult (List Str) :=
  csLoop can stream false

/-- **F18e** (fixed): on the unrepaired loop `*` ranked the default charset at the q of `*`, ignoring an
    explicit entry for it: the elements of `utf-8;q=0, *;q=0.2` were answered in utf-8 -/
theorem C17_charset_star_ignores_explicit :
    (match acceptElements (some "utf-8;q=0, *;q=0.2".toList) with
      | .ok encs => csLoopUnrepaired (fun _ => true) false encs []
      | _ => .inl .exotic) = .inl (.chosen sUtf8) := by
  decide

/-- … the repaired code honours the explicit entry: utf-8 is excluded, nothing else is on offer → 406;
    and an explicit low rank lets a more preferred charset win -/
theorem C17_charset_star_respects_explicit :
    findAcceptableCharset (fun _ => true) false none (some "utf-8;q=0, *;q=0.2".toList) = .notAcceptable ∧
    findAcceptableCharset (fun _ => true) false none (some "euc-jp;q=0.4, *;q=0.8, utf-8;q=0.3".toList)
      = .chosen "euc-jp".toList ∧
    findAcceptableCharset (fun _ => true) false none (some "*;q=1, utf-7;q=.2".toList) = .chosen sUtf8 := by
  decide

/-- `parseQ` never yields a scale above `keyScale`, so `Q.key` compares exact decimals -/
theorem mkQ_scale_le (neg : Bool) (ip fp : Str) (e : Int) (neg' : Bool) (n sc : Nat)
    (h : mkQ neg ip fp e = .ok neg' n sc) : sc ≤ keyScale := by
  simp only [mkQ] at h
  repeat' split at h
  all_goals first
    | (simp only [Q.ok.injEq] at h; simp only [keyScale]; omega)
    | simp at h

theorem parseQ_scale_le (s : Str) (neg : Bool) (n sc : Nat) (h : parseQ s = .ok neg n sc) :
    sc ≤ keyScale := by
  simp only [parseQ] at h
  repeat' split at h
  all_goals first
    | exact mkQ_scale_le _ _ _ _ _ _ _ h
    | simp at h

end CpProofs.C17
